#!/usr/bin/env python3
"""Regenerates MANIFEST.json from the per-property table below (kept in one place so that the manifest is
always valid and consistent with what ./check implements)."""
import json, os
HERE = os.path.dirname(os.path.abspath(__file__))
VERIF = os.path.dirname(HERE)

COMMON_NOTE = ("Trusted: Lean 4.33.0 kernel; axioms propext/Classical.choice/Quot.sound only (audited per theorem on every run); "
               "the hand-written model is tied to /repo's working tree by the correspondence run (F: bit-exact binary64, "
               "X: exact integers on the dyadic grid) and by an independent Python oracle of the property; harness/ and CPython. "
               "The thorough tier runs ten times the cases and re-checks the compiled proofs with leanchecker. "
               "Histories on living objects (harness/living.py, DESIGN 11.9: the same call on an object with a past and on a fresh "
               "object of the same observable state must agree, and the property's oracle judges the living result) are "
               "monitoring at oracle level: no theorem speaks about object identity or state hidden between calls. ")

CLAIMS = {}
for _fn in sorted(os.listdir(os.path.join(HERE, "claims"))):
    if _fn.endswith(".json"):
        CLAIMS[_fn[:-5]] = json.load(open(os.path.join(HERE, "claims", _fn)))   # {"text":..., "ref":..., "note":...}

NOT_APPLICABLE = {}
# checks whose model is being adapted to a fix just made in /repo are held back (not claimed) until they are green again
HOLD = set(filter(None, os.environ.get('HOLD', '').split(',')))

def main():
    props = [json.loads(l) for l in open(os.path.join(VERIF, "properties.jsonl"))]
    checks = []
    na = []
    for p in props:
        pid = p["id"]
        if pid in CLAIMS and pid not in HOLD:
            c = CLAIMS[pid]
            checks.append({
                "property_id": pid,
                "quick_cmd": f"./check {pid} --tier quick",
                "thorough_cmd": f"./check {pid} --tier thorough",
                "evidence_file": f"evidence/{pid}.json",
                "replay_cmd_template": f"./check {pid} --replay {{path}}",
                "engine": "lean-model+correspondence",
                "level_claimed": {"category": "proof", "text": c["text"], "design_ref": c["ref"]},
                "level_note": COMMON_NOTE + c["note"],
                "technique": "Lean 4 theorems about a hand-written executable model + differential correspondence check against the Python implementation",
            })
        else:
            na.append({"property_id": pid, "reason": NOT_APPLICABLE.get(pid, "check not built yet (work in progress; the technique applies — see DESIGN §4)")})
    m = {
        "version": 1,
        "setup_cmd": "cd lean && lake build",
        "hooks": {
            "guard": "PRAATIO_VERIF",
            "enable": "no source hooks exist: checks import praatio from /repo's working tree in-process (PYTHONPATH=/repo first) with PRAATIO_VERIF=1 set",
            "baseline_off_cmd": "cd /repo && /venv/bin/python -m pytest -q -p no:cacheprovider --timeout=900",
            "source_commits": [],
            "add_only": True,
        },
        "engines": [{
            "name": "lean-model+correspondence",
            "path": "lean/ (model, theorems, driver), harness/ (generators, implementation runner, oracles, verdict)",
            "serves_properties": [c["property_id"] for c in checks],
            "kind_free_text": "Lean 4 proof about an executable model; model-vs-implementation differential testing through a line protocol; failing-input search in Python",
        }],
        "checks": checks,
        "notes": "See DESIGN.md. known_findings.json lists recorded findings and the fix: commits made in /repo.",
        "not_applicable": na,
    }
    json.dump(m, open(os.path.join(VERIF, "MANIFEST.json"), "w"), indent=1)
    print(f"{len(checks)} checks, {len(na)} not claimed")

if __name__ == "__main__":
    main()
