#!/usr/bin/env python3
"""Regenerates MANIFEST.json from the per-property table below (kept in one place so that the manifest is
always valid and consistent with what ./check implements)."""
import json, os
HERE = os.path.dirname(os.path.abspath(__file__))
VERIF = os.path.dirname(HERE)

COMMON_NOTE = ("Trusted: Lean 4.33.0 kernel; axioms propext/Classical.choice/Quot.sound only (audited per theorem on every run); "
               "the hand-written model is tied to /repo's working tree by the correspondence run (F: bit-exact binary64, "
               "X: exact integers on the dyadic grid) and by an independent Python oracle of the property; harness/ and CPython. ")

CLAIMS = {
 "C07": dict(
   text="Theorems over unbounded Int timestamps / any list length about the code-shaped model (lax-crop match list, tolerant "
        "deleteEntry in reverse order, re-insertion of the two remnants through insertEntry, shrink loop, re-join): a>=b is "
        "rejected; 'error' raises CollisionError iff something overlaps; without shrinking the result is well-formed, keeps "
        "name/span and its entries are exactly the outside pieces of the original entries (truncate) or the non-overlapping "
        "entries (categorical); label-at-time is none on [a,b) and unchanged elsewhere; with shrinking the span end decreases "
        "by exactly b-a, every later time sees the tier b-a later, and a straddling interval comes out as the single interval "
        "<s, e-(b-a), l>. Layer R: the repaired shift a+(x-b) maps b onto a exactly and is monotone under any monotone "
        "rounding, so it cannot create overlaps. Tied to the code by bit-exact differential runs (exhaustive grid family + decimals).",
   ref="DESIGN §4 C07",
   note="Hypothesis NoClose (no two distinct entries equal under Interval.__eq__'s 1e-9 tolerance) is explicit in the theorems. "
        "The universal floating-point clause is not a theorem: it is carried by layer R (hypotheses = monotone rounding laws) "
        "and by the oracle/correspondence on decimal inputs. PointTier.eraseRegion and Textgrid.eraseRegion are checked by "
        "correspondence + oracle (rejection of a>=b is proved for both tier kinds)."),
 "C08": dict(
   text="Theorems over unbounded Int timestamps / any list length: insertSpace on a well-formed tier (lo <= s, d > 0) succeeds unless "
        "mode='error' meets a straddler (then ArgumentError); the result is well-formed, every entry ending <= s is unchanged, "
        "every entry starting >= s is moved by exactly d, the straddler is stretched / split around the gap / left alone per "
        "mode, span start unchanged and span end + d; outside the gap the label function is the old one (shifted by d after "
        "the gap), the split gap is unlabelled; composing with eraseRegion(s, s+d, truncate, shrink) restores the original "
        "label-at-every-time function and span (stretch and split); point tiers: t <= s stay, later points + d. Tied to the "
        "code by bit-exact differential runs incl. the composition.",
   ref="DESIGN §4 C08",
   note="The inverse theorem assumes NoClose for the intermediate tier (C07's separation hypothesis). Rounding: the repaired "
        "arithmetic paths are compared bit for bit and checked by the oracle on decimals; no universal float theorem."),
 "C05": dict(
   text="Theorems: (construct_wf) ANY tier the IntervalTier constructor returns is well-formed (time order, start<end, no overlap, "
        "inside its span, stripped labels - str.strip() idempotence is proved), for arbitrary entry lists; it refuses only with "
        "TextgridStateError / TimelessTextgridTierException; (step_wf) each of the 14 tier operations maps a well-formed tier to a "
        "well-formed tier whenever it returns; (reachable_wf) induction over operation sequences of ANY length; validate() is True "
        "on well-formed tiers. Histories of the real code are compared step-wise with the model (bit-exact) and every returned "
        "tier is re-checked for well-formedness, validate() agreement and praatio-only exceptions.",
   ref="DESIGN §4 C05",
   note="Operations that delete by tolerant equality carry the separation hypothesis (OpOk). 'raises a praatio error' is "
        "checked by the oracle; one known finding (deleteEntry of an absent entry raises ValueError). Point-tier operations and "
        "the floating-point clause: correspondence + oracle."),
 "C09": dict(
   text="Theorems: editTimestamps never fails in silence/warning mode (including empty / fully clipped tiers), moves every entry by "
        "exactly the offset (drop if end<=0, clip start at 0), keeps labels/order, span = hull of old span and moved entries "
        "(never shrinks, grown just enough); 'error' mode raises OutOfBounds iff a moved entry leaves the old span; +x then -x "
        "restores the entries when nothing was clipped and entries are non-negative (with a proved counterexample and an iff for the "
        "negative-time case); appendTier = A's entries ++ B's shifted by A.hi, span [A.lo, A.hi+B.hi]; Textgrid-level name lists for "
        "editTimestamps and appendTextgrid(onlyMatchingNames). Tied to the code by bit-exact differential runs.",
   ref="DESIGN §4 C09", note="PointTier.appendTier entry order at coinciding times is decided by the sort (checked, not stated as a theorem)."),
 "C10": dict(
   text="Theorems (separation hypothesis SepTimes on the set of boundary times): difference is labelled exactly where A is and B is "
        "not, with A's labels, same span; intersection has exactly one entry <max s, min e, 'a-b'> per overlapping pair (count "
        "included) and its label function is the pairing of both; difference/intersection partition A's labelled time and never "
        "overlap; union is labelled exactly where either operand is (nothing invented or lost) and every input entry lies inside "
        "one output entry, so overlapping inputs are fused; mergeLabels keeps exactly the intervals of A that overlap B with their "
        "extent. Exhaustive small-scope differential family (all pairs on a 4/6-cell grid x 4 ops) plus random pairs.",
   ref="DESIGN §4 C10", note="Label order inside a fused union entry and point-tier union: correspondence + oracle only."),
 "C11": dict(
   text="Theorems: no collision -> the entry is added, nothing else changes, span grows to min/max with the new entry; 'error' -> "
        "CollisionError; 'replace' -> exactly the colliding entries are removed; 'merge' -> they are replaced by one entry with the "
        "joint extent and the '-'-join of all labels in tuple order (the merged label is proved stripped); deleteEntry removes "
        "exactly the entry / raises when no entry matches; every admissible insert/delete history of any length keeps the tier "
        "well-formed. Step-wise bit-exact comparison along random histories.",
   ref="DESIGN §4 C11", note="NoClose separation hypothesis explicit. Point tiers: two theorems (no collision, error) + correspondence."),
 "C14": dict(
   text="Theorems: nearest() returns the first minimiser; lessThanOrEqual's 1e-14 slack made explicit; snap moves x to the nearest "
        "reference iff within maxDifference (both directions); dejitter keeps count/order/labels, never reorders (snapping is "
        "monotone), fails with TextgridStateError iff an interval collapses, ArgumentError on an empty reference; point tiers "
        "likewise up to label order at ties; morph keeps labels, gives selected intervals the target durations, preserves gaps, "
        "first start and trailing gap, SafeZipException on count mismatch; alignBoundaries leaves names and the reference tier "
        "untouched and dejitters every other tier.",
   ref="DESIGN §4 C14", note="The inclusive threshold on decimals is compared bit for bit; the oracle leaves a 1e-12 band around maxDifference."),
 "C15": dict(
   text="Theorems: find (exact / substring) indices ascending and exact; getNonEntries + entries tile [0, hi] (unique cover, "
        "touching, positive); timestamps strictly ascending with exactly the boundary set; getValuesInIntervals = filter; exact "
        "value lookup with the carried index invariant (multi-point); fuzzy lookup returns a nearest sample; intervalOverlapCheck "
        "= interval arithmetic (3 variants); invertIntervalList is the complement within bounds; equality reflexive, symmetric, "
        "discriminating; validate() iff definition (tier, point tier, textgrid).",
   ref="DESIGN §4 C15", note="Regex find and percentThreshold are checked by the oracle only (re / float division are parameters)."),
 "C06": dict(
   text="Theorems over unbounded Int timestamps and entry lists of any length: the five-arm window/interval cascade equals "
        "interval arithmetic in every mode; crop of a well-formed tier never fails for a<b, returns exactly the per-mode selection, "
        "span = window (strict/truncated) or hull widened just enough (lax), rebasing shifts by min(a, first kept start) with span "
        "[0, max(b-a, last end)], empty selection gives an empty tier, a>=b gives ArgumentError, truncated crop restricts the "
        "label-at-time function to [a,b); point tiers keep a<=t<=b. Model tied to the code by bit-exact differential runs on an "
        "exhaustive small-scope family plus random decimals.",
   ref="DESIGN §4 C06",
   note="Textgrid.crop is covered by C12's tier-wise theorem/check. Floating-point rounding of the rebased times is compared "
        "bit for bit (model F-instance vs CPython), not proved."),
}

NOT_APPLICABLE = {}

def main():
    props = [json.loads(l) for l in open(os.path.join(VERIF, "properties.jsonl"))]
    checks = []
    na = []
    for p in props:
        pid = p["id"]
        if pid in CLAIMS:
            c = CLAIMS[pid]
            checks.append({
                "property_id": pid,
                "quick_cmd": f"./check {pid} --tier quick",
                "thorough_cmd": f"./check {pid} --tier thorough",
                "evidence_file": f"evidence/{pid}.json",
                "replay_cmd_template": f"./check {pid} --replay {{path}}",
                "engine": "lean-model+correspondence",
                "level_claimed": {"category": "proof", "text": c["text"], "design_ref": c["ref"]},
                "level_note": COMMON_NOTE + c["note"],
                "technique": "Lean 4 theorems about a hand-written executable model + differential correspondence check against the Python implementation",
            })
        else:
            na.append({"property_id": pid, "reason": NOT_APPLICABLE.get(pid, "check not built yet (work in progress; the technique applies — see DESIGN §4)")})
    m = {
        "version": 1,
        "setup_cmd": "cd lean && lake build",
        "hooks": {
            "guard": "PRAATIO_VERIF",
            "enable": "no source hooks exist: checks import praatio from /repo's working tree in-process (PYTHONPATH=/repo first) with PRAATIO_VERIF=1 set",
            "baseline_off_cmd": "cd /repo && /venv/bin/python -m pytest -q -p no:cacheprovider --timeout=900",
            "source_commits": [],
            "add_only": True,
        },
        "engines": [{
            "name": "lean-model+correspondence",
            "path": "lean/ (model, theorems, driver), harness/ (generators, implementation runner, oracles, verdict)",
            "serves_properties": [c["property_id"] for c in checks],
            "kind_free_text": "Lean 4 proof about an executable model; model-vs-implementation differential testing through a line protocol; failing-input search in Python",
        }],
        "checks": checks,
        "notes": "See DESIGN.md. known_findings.json lists recorded findings and the fix: commits made in /repo.",
        "not_applicable": na,
    }
    json.dump(m, open(os.path.join(VERIF, "MANIFEST.json"), "w"), indent=1)
    print(f"{len(checks)} checks, {len(na)} not claimed")

if __name__ == "__main__":
    main()
