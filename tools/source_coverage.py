#!/usr/bin/env python3
"""Run every check's quick tier with VERIF_COVERAGE=1 and merge what the generated cases reached in the anchored source:
for every function some check entered, the body lines NO check ran and the branches NO check took.
usage: python3 tools/source_coverage.py [outdir]   (evidence files are restored afterwards; writes SOURCE_COVERAGE.json)
"""
import json, os, subprocess, sys, shutil
from concurrent.futures import ThreadPoolExecutor
V = os.path.dirname(os.path.dirname(os.path.abspath(__file__)))
out = sys.argv[1] if len(sys.argv) > 1 else "/root/scratch/cov"
os.makedirs(out, exist_ok=True)
pids = ["C%02d" % i for i in range(1, 21)]
def run(pid):
    env = dict(os.environ, VERIF_COVERAGE="1", VERIF_NO_ESCALATE="1", VERIF_COVERAGE_ALL="1")
    r = subprocess.run(["./check", pid, "--tier", os.environ.get("COV_TIER", "quick")], cwd=V, env=env, capture_output=True, text=True)
    shutil.copy(os.path.join(V, "evidence", pid + ".json"), os.path.join(out, pid + ".json"))
    return pid, r.returncode
with ThreadPoolExecutor(4) as ex:
    for pid, rc in ex.map(run, pids):
        print(pid, rc, flush=True)
subprocess.run(["git", "checkout", "--", "evidence"], cwd=V)
merged = {}
for pid in pids:
    d = json.load(open(os.path.join(out, pid + ".json")))["coverage"]["anchored_source_reached"]
    for f, fd in d.items():
        m = merged.setdefault(f, {"entered": {}, "not_entered": None})
        ne = set(fd.get("functions_not_entered", []))
        m["not_entered"] = ne if m["not_entered"] is None else (m["not_entered"] & ne)
        gaps = fd.get("gaps", {})
        # functions entered by this check: those with gaps, plus fully covered ones (unknown names -> treated below)
        for name, g in gaps.items():
            e = m["entered"].get(name)
            lines, brs = set(g["lines_never_run"]), {tuple(b) for b in g["branches_never_taken"]}
            m["entered"][name] = (lines, brs, [pid]) if e is None else (e[0] & lines, e[1] & brs, e[2] + [pid])
        m.setdefault("checks", {})[pid] = sorted(gaps)
        m.setdefault("full", {})[pid] = ne
# a function a check entered without any gap is fully covered: clear its gaps
res = {}
for f, m in merged.items():
    allfun = set(m["entered"]) | set().union(*m["full"].values())
    for name in list(m["entered"]):
        for pid, ne in m["full"].items():
            if name not in ne and name not in m["checks"][pid]:
                m["entered"][name] = (set(), set(), m["entered"][name][2] + [pid])
    res[f] = {"never_entered_by_any_check": sorted(m["not_entered"] - set(m["entered"])),
              "gaps_left_by_all_checks": {n: {"lines": sorted(l), "branches": sorted(b), "entered_by": sorted(set(p))}
                                          for n, (l, b, p) in sorted(m["entered"].items()) if l or b}}
json.dump(res, open(os.path.join(V, "SOURCE_COVERAGE.json"), "w"), indent=1)
for f, r in res.items():
    print(f); print("   never entered:", r["never_entered_by_any_check"])
    for n, g in r["gaps_left_by_all_checks"].items(): print("   ", n, g["lines"], g["branches"], g["entered_by"])
