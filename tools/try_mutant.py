#!/usr/bin/env python3
"""Apply a seeded change to /repo, confirm it (tests pass, demo fails), run the given checks against it, undo it.
usage: try_mutant.py <mutant dir with patch.diff demo.py meta.json> <Cxx> [<Cyy> ...]
"""
import json, os, subprocess, sys
mut = os.path.abspath(sys.argv[1]); pids = sys.argv[2:]
def sh(cmd, **kw):
    return subprocess.run(cmd, shell=True, capture_output=True, text=True, **kw)
assert sh("git -C /repo status --porcelain").stdout.strip() == "", "repo not clean"
out = {"mutant": mut, "checks": {}}
r = sh("PYTHONPATH=/repo /venv/bin/python %s/demo.py" % mut); out["demo_clean_rc"] = r.returncode
r = sh("git -C /repo apply %s/patch.diff" % mut)
if r.returncode != 0:
    print("PATCH DOES NOT APPLY", r.stderr); sys.exit(2)
try:
    r = sh("cd /repo && /venv/bin/python -m pytest -q -p no:cacheprovider 2>&1 | tail -1"); out["tests"] = r.stdout.strip()
    r = sh("PYTHONPATH=/repo /venv/bin/python %s/demo.py" % mut); out["demo_mutant_rc"] = r.returncode
    for pid in pids:
        r = sh("cd /verif && ./check %s --tier quick" % pid)
        viol = [l for l in r.stdout.split("\n") if l.startswith("VIOLATION")]
        out["checks"][pid] = {"rc": r.returncode, "violations": viol[:3], "first_failure": next((l for l in r.stdout.split("\n") if "oracle failure" in l or "correspondence:" in l), "")[:400]}
finally:
    sh("git -C /repo checkout -- .")
    sh("git -C /repo clean -fdq -- tests/files/test_output tests/files/io_test_output 2>/dev/null")
assert sh("git -C /repo status --porcelain").stdout.strip() == ""
print(json.dumps(out, indent=1))
