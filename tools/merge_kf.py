#!/usr/bin/env python3
"""merge_kf.py <branch>: union (by id) of known_findings.json from HEAD and <branch>; used when merging work branches"""
import json, subprocess, sys
def show(ref): return json.loads(subprocess.run(["git","show",f"{ref}:known_findings.json"],capture_output=True,text=True,check=True).stdout)
ours, theirs = show("HEAD"), show(sys.argv[1])
ids = {f["id"] for f in ours["findings"]}
for f in theirs["findings"]:
    if f["id"] not in ids:
        ours["findings"].append(f)
json.dump(ours, open("known_findings.json","w"), indent=1)
print(len(ours["findings"]), "findings")
