#!/usr/bin/env python3
"""fills the table between <!-- BEGIN seeded --> and <!-- END seeded --> of DESIGN.md from /verif/seeded/*/meta.json"""
import glob, json, os, re
HERE = os.path.dirname(os.path.abspath(__file__)); VERIF = os.path.dirname(HERE)
rows = ["| seeded change | property | what it does | needs | caught by |", "|---|---|---|---|---|"]
for d in sorted(glob.glob(os.path.join(VERIF, "seeded", "*"))):
    if not os.path.exists(os.path.join(d, "meta.json")):
        continue
    m = json.load(open(os.path.join(d, "meta.json")))
    esc = lambda s: str(s).replace("|", "\\|").replace("\n", " ")
    caught = ", ".join(m.get("caught_by", [])) or "**missed**"
    rows.append(f"| {os.path.basename(d)} | {m.get('property','')} | {esc(m.get('summary',''))[:220]} | {esc(m.get('needs',''))[:160]} | {caught} |")
hrows = ["| rewrite | what it does | functions | checks run | alarms |", "|---|---|---|---|---|"]
for d in sorted(glob.glob(os.path.join(VERIF, "seeded", "harmless", "*"))):
    if not os.path.isdir(d):
        continue
    m = json.load(open(os.path.join(d, "meta.json")))
    esc = lambda s: str(s).replace("|", "\\|").replace("\n", " ")
    hrows.append(f"| {os.path.basename(d)} | {esc(m.get('summary',''))[:220]} | {esc(', '.join(m.get('functions', [])))[:120]} | {len(m.get('checks', {}))} | {', '.join(m.get('alarms', [])) or 'none'} |")
p = os.path.join(VERIF, "DESIGN.md")
s = open(p).read()
if "<!-- BEGIN harmless -->" in s:
    s = re.sub(r"<!-- BEGIN harmless -->.*?<!-- END harmless -->", "<!-- BEGIN harmless -->\n" + "\n".join(hrows) + "\n<!-- END harmless -->", s, flags=re.S)
s = re.sub(r"<!-- BEGIN seeded -->.*?<!-- END seeded -->", "<!-- BEGIN seeded -->\n" + "\n".join(rows) + "\n<!-- END seeded -->", s, flags=re.S)
open(p, "w").write(s)
print(len(rows) - 2, "seeded changes listed")
