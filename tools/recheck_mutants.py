#!/usr/bin/env python3
"""recheck_mutants.py [id ...]: re-applies every archived seeded change that still applies to /repo's HEAD (in a scratch
worktree of that HEAD; /repo itself is not touched) and re-runs the check that caught it when it was archived, at QUICK size
without escalation (the weaker setting: an escalated run draws the same cases first and then more).  Reports the ones that
are no longer caught (a regression of the checks' detection power).  Writes seeded/RECHECK.json.
Changes of different properties run in parallel; two runs of one check never overlap."""
import glob, json, os, subprocess, sys
from concurrent.futures import ThreadPoolExecutor
VERIF = os.path.dirname(os.path.dirname(os.path.abspath(__file__)))
def sh(cmd, **kw): return subprocess.run(cmd, shell=True, capture_output=True, text=True, **kw)
ids = sys.argv[1:] or sorted(os.path.basename(d) for d in glob.glob(os.path.join(VERIF, "seeded", "*")) if os.path.exists(os.path.join(d, "meta.json")))
HEAD = sh("git -C /repo log -1 --format=%h").stdout.strip()
jobs = {}
for sid in ids:
    meta = json.load(open(os.path.join(VERIF, "seeded", sid, "meta.json")))
    own = [q for q in meta.get("caught_by", []) if q == meta.get("property")] or meta.get("caught_by", [])[:1] or [meta.get("property")]
    jobs.setdefault(own[0], []).append(sid)
def group(item):
    pid, sids = item
    res = {}
    for sid in sids:
        wt = f"/tmp/recheck_{sid}"
        sh(f"git -C /repo worktree remove --force {wt}"); sh(f"git -C /repo worktree add --detach {wt}")
        a = sh(f"git -C {wt} apply {VERIF}/seeded/{sid}/patch.diff")
        if a.returncode != 0:
            res[sid] = {"applies": False}
            print(sid, "patch no longer applies (later fix commits touched the same lines)", flush=True)
        else:
            p = sh(f"cd {VERIF} && PRAATIO_REPO={wt} VERIF_NO_ESCALATE=1 ./check {pid} --tier quick")
            res[sid] = {"applies": True, "exit": {pid: p.returncode}, "still_caught": p.returncode == 1}
            print(sid, {pid: p.returncode}, "OK" if p.returncode == 1 else "NOT CAUGHT ANY MORE", flush=True)
        sh(f"git -C /repo worktree remove --force {wt}")
    return res
out = {}
with ThreadPoolExecutor(int(os.environ.get("RECHECK_JOBS", "5"))) as ex:
    for res in ex.map(group, sorted(jobs.items())):
        out.update(res)
sh(f"git -C {VERIF} checkout -- evidence")
json.dump({"repo_head": HEAD, "results": dict(sorted(out.items()))}, open(os.path.join(VERIF, "seeded", "RECHECK.json"), "w"), indent=1)
lost = [k for k, v in out.items() if v.get("applies") and not v["still_caught"]]
print("rechecked", sum(1 for v in out.values() if v.get("applies")), "not applicable", sum(1 for v in out.values() if not v.get("applies")), "lost", lost)
