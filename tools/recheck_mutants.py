#!/usr/bin/env python3
"""recheck_mutants.py [id ...]: re-applies every archived seeded change that still applies to /repo's HEAD, re-runs the
checks that caught it when it was archived, and reports the ones that are no longer caught (regression of the checks'
detection power).  Writes seeded/RECHECK.json."""
import glob, json, os, subprocess, sys
VERIF = os.path.dirname(os.path.dirname(os.path.abspath(__file__)))
ids = sys.argv[1:] or sorted(os.path.basename(d) for d in glob.glob(os.path.join(VERIF, "seeded", "*")) if os.path.exists(os.path.join(d, "meta.json")))
assert subprocess.run(["git", "-C", "/repo", "status", "--porcelain"], capture_output=True, text=True).stdout.strip() == "", "/repo not clean"
out = {}
for sid in ids:
    d = os.path.join(VERIF, "seeded", sid)
    meta = json.load(open(os.path.join(d, "meta.json")))
    a = subprocess.run(["git", "-C", "/repo", "apply", os.path.join(d, "patch.diff")], capture_output=True, text=True)
    if a.returncode != 0:
        out[sid] = {"applies": False}
        print(sid, "patch no longer applies (later fix commits touched the same lines)", flush=True)
        continue
    res = {}
    try:
        own = [q for q in meta.get("caught_by", []) if q == meta.get("property")] or meta.get("caught_by", [])[:1] or [meta.get("property")]
        for pid in own[:1]:
            # quick-size sampling (no escalation): the weaker setting; a change caught here is caught with escalation too
            p = subprocess.run([os.path.join(VERIF, "check"), pid, "--tier", "quick"], cwd=VERIF, capture_output=True, text=True,
                               env=dict(os.environ, VERIF_NO_ESCALATE="1"))
            res[pid] = p.returncode
    finally:
        subprocess.run(["git", "-C", "/repo", "checkout", "--", "."], check=True)
    out[sid] = {"applies": True, "exit": res, "still_caught": any(v == 1 for v in res.values())}
    print(sid, res, "OK" if out[sid]["still_caught"] else "NOT CAUGHT ANY MORE", flush=True)
subprocess.run(["git", "-C", VERIF, "checkout", "--", "evidence"], check=False)
json.dump({"repo_head": subprocess.run(["git", "-C", "/repo", "log", "-1", "--format=%h"], capture_output=True, text=True).stdout.strip(), "results": out},
          open(os.path.join(VERIF, "seeded", "RECHECK.json"), "w"), indent=1)
lost = [k for k, v in out.items() if v.get("applies") and not v["still_caught"]]
print("rechecked", sum(1 for v in out.values() if v.get("applies")), "not applicable", sum(1 for v in out.values() if not v.get("applies")), "lost", lost)
