#!/usr/bin/env python3
"""archive_mutant.py <src dir> <seeded id> <Cxx> [more checks]: confirm a seeded change and store it under /verif/seeded/<id>/"""
import json, os, shutil, subprocess, sys
src, sid, pids = sys.argv[1], sys.argv[2], sys.argv[3:]
r = subprocess.run([sys.executable, os.path.join(os.path.dirname(__file__), "try_mutant.py"), src] + pids, capture_output=True, text=True)
if r.returncode != 0:
    print(r.stdout, r.stderr); sys.exit(1)
res = json.loads(r.stdout)
dst = os.path.join("/verif/seeded", sid)
os.makedirs(dst, exist_ok=True)
for f in ("patch.diff", "demo.py"):
    shutil.copy(os.path.join(src, f), os.path.join(dst, f))
meta = json.load(open(os.path.join(src, "meta.json")))
meta["confirmed"] = {
    "applies_to_repo_commit": subprocess.run(["git", "-C", "/repo", "log", "-1", "--format=%h"], capture_output=True, text=True).stdout.strip(),
    "existing_tests_with_change": res["tests"],
    "demo_exit_without_change": res["demo_clean_rc"],
    "demo_exit_with_change": res["demo_mutant_rc"],
    "what_was_run": "git -C /repo apply patch.diff; pytest; PYTHONPATH=/repo python demo.py; ./check <id> --tier quick; git -C /repo checkout -- .",
}
meta["checks"] = {k: {"exit": v["rc"], "violation_lines": v["violations"], "first_failure": v["first_failure"]} for k, v in res["checks"].items()}
meta["caught_by"] = [k for k, v in res["checks"].items() if v["rc"] == 1]
json.dump(meta, open(os.path.join(dst, "meta.json"), "w"), indent=1)
ok = res["demo_clean_rc"] == 0 and res["demo_mutant_rc"] != 0 and "367 passed" in res["tests"]
print(sid, "confirmed" if ok else "NOT CONFIRMED", "caught by", meta["caught_by"])
