#!/usr/bin/env python3
"""harmless_sweep.py [id ...]: every archived behaviour-preserving rewrite (seeded/harmless/*) that still applies is applied to
a scratch worktree of /repo's HEAD and ALL quick checks are run against it (PRAATIO_REPO); no check may alarm.
Writes seeded/harmless/SWEEP.json.  Safe to run next to other work: /repo itself is not touched."""
import glob, json, os, subprocess, sys
from concurrent.futures import ThreadPoolExecutor
V = os.path.dirname(os.path.dirname(os.path.abspath(__file__)))
def sh(cmd, **kw): return subprocess.run(cmd, shell=True, capture_output=True, text=True, **kw)
ids = sys.argv[1:] or sorted(os.path.basename(d) for d in glob.glob(os.path.join(V, "seeded", "harmless", "*")) if os.path.isdir(d))
pids = ["C%02d" % i for i in range(1, 21)]
out = {"repo_head": sh("git -C /repo log -1 --format=%h").stdout.strip(), "results": {}}
for hid in ids:
    wt = f"/tmp/harmless_{hid}"
    sh(f"git -C /repo worktree remove --force {wt}"); sh(f"git -C /repo worktree add --detach {wt}")
    r = sh(f"git -C {wt} apply {V}/seeded/harmless/{hid}/patch.diff")
    if r.returncode:
        out["results"][hid] = {"applies": False}; print(hid, "does not apply any more", flush=True)
        sh(f"git -C /repo worktree remove --force {wt}"); continue
    tests = sh(f"cd {wt} && /venv/bin/python -m pytest -q -p no:cacheprovider 2>&1 | tail -1").stdout.strip()
    def run(pid):
        p = sh(f"cd {V} && PRAATIO_REPO={wt} ./check {pid} --tier quick")
        lines = p.stdout.split("\n")
        return pid, p.returncode, next((l[:400] for l in lines if "oracle failure" in l or "correspondence:" in l or "HARNESS" in l), "")
    with ThreadPoolExecutor(5) as ex:
        res = {pid: {"exit": rc, "first": first} for pid, rc, first in ex.map(run, pids)}
    sh(f"git -C /repo worktree remove --force {wt}")
    alarms = [k for k, v in res.items() if v["exit"] != 0]
    out["results"][hid] = {"applies": True, "tests": tests, "alarms": alarms, "detail": {k: res[k] for k in alarms}}
    mp = os.path.join(V, "seeded", "harmless", hid, "meta.json")
    meta = json.load(open(mp))
    meta.update({"existing_tests_with_change": tests, "applies_to_repo_commit": out["repo_head"], "alarms": alarms,
                 "checks": {k: {"exit": v["exit"], "violation_lines": [], "first_failure": v["first"]} for k, v in res.items()},
                 "what_was_run": "scratch worktree of /repo HEAD + git apply patch.diff; pytest there; PRAATIO_REPO=<worktree> ./check Cxx --tier quick for all 20 checks (tools/harmless_sweep.py)"})
    json.dump(meta, open(mp, "w"), indent=1)
    print(hid, tests, "alarms:", alarms, flush=True)
sh(f"git -C {V} checkout -- evidence")
json.dump(out, open(os.path.join(V, "seeded", "harmless", "SWEEP.json"), "w"), indent=1)
