#!/usr/bin/env python3
"""writes lean/HYPOTHESES.md: every hypothesis binder of every registered theorem of C04-C15 (lean/theorems/Cxx.json,
statements read from the Lean sources exactly as tools/mk_theorem_index.py does) with its class and disposition.

classes
  (i)   part of the property's own quantifier / wording
  (ii)  enforced by the code; the excluded case is covered by the registered theorem named in the disposition
  (iii) convenience hypothesis: replayed on the real classes and on the model, then removed / counter-example / kept-because
  res   not a restriction: the binder names the result of the call the statement is about (`h : op = .ok t'`), a
        member it talks about (`hiv : iv ∈ t.es`), or the case of a case distinction whose other cases are covered by
        the theorems named

The rule table below is ordered, first match wins; the script FAILS if a binder matches no rule, so a new hypothesis
cannot enter the index unexamined."""
import json, os, re, sys
VERIF = os.path.dirname(os.path.dirname(os.path.abspath(__file__)))
src = open(os.path.join(VERIF, "tools", "mk_theorem_index.py")).read().split("props = {")[0]
ns = {"__file__": os.path.join(VERIF, "tools", "mk_theorem_index.py")}
exec(src, ns)
statement = ns["statement"]
PIDS = ["C04", "C05", "C06", "C07", "C08", "C09", "C10", "C11", "C12", "C13", "C14", "C15"]


def binders(st):
    depth, cur, res = 0, "", []
    for i, c in enumerate(st):
        if c in "([{⟨":
            depth += 1
        if c in ")]}⟩":
            depth -= 1
        if depth == 0 and c == ":" and (i + 1 >= len(st) or st[i + 1] != "="):
            return res
        cur += c
        if depth == 0 and c in ")]}":
            res.append(cur.strip())
            cur = ""
    return res


def is_hyp(b):
    m = re.match(r"\(([^:]+):\s*(.*)\)$", b, re.S)
    if not m:
        return False
    names, ty = m.group(1).split(), m.group(2).strip()
    if not all(re.match(r"_?h", n) for n in names):
        return False
    if re.fullmatch(r"[A-Za-zα-ω]\w*", ty) or ty in ("List (Iv Int)", "Iv Int"):   # (h lo hi : α) is data
        return False
    return True


WFTXT = ("operand of the property's quantifier (\"for all well-formed tiers / textgrids\"); what the constructors return "
         "(`C05.construct_wf`, `C05.pconstruct_wf` — no hypothesis since fix 9432f3b / finding A29) and every operation "
         "preserves (`C05.reachable_wf`, `C05.preachable_wf` — no side condition)")
LISTWF = ("the entry list of a well-formed tier (positive lengths, time order, no overlap / the tiling the save works on): "
          "operand of the quantifier, delivered by the caller theorem from `t.WF`")
RWF = ("layer R (any rounding arithmetic): the order facts a well-formed tier has in floats (no overlap, no reversed / "
       "empty interval, points in time order) — operand of the quantifier")
RES = "names the result / the member / the case the statement is about — no input is excluded"
ABREJ = "the property rejects `a ≥ b`; excluded case = "
NEG = ("NOT enforced by the code; replayed (tiers on negative times): entries of B are dropped / clipped at time 0 "
       "silently → **counter-example** "
       "`C09.append_negative_counterexample` (finding); kept, documented in the docstring")

GRID = ("representation, not a restriction of the input: the exact division `(end - start) / n` stays on the integer grid iff the "
        "word count divides the entry's length; a finite set of rational boundaries has a common denominator and every "
        "definition is invariant under rescaling (DESIGN 11.8; the X run takes the grid cases whose quotients lie on k/64, the F "
        "run and the Fraction oracle cover every case incl. three words in 1/16 s)")
RULES = [
    # ---------------------------------------------------------------- statement-level layer for the mutators (DESIGN 11.10)
    (r"C13\.p?tierStep_refines$|C13\.p?tier_mutator_atomic_stmt$|Imp\.[ip]insertEntry(Py)?_atomic$", r"rep\?? ≠ (some )?\.error", "i",
     "the documented domain of `collisionReportingMode` is `Literal[\"silence\", \"warning\"]` (the signature; C11's quantifier). "
     "`'error'` is accepted by `validateOption` and its report is raised AFTER every write: replayed on the real classes (fault "
     "stream of C13, cases flagged `outside`: the real tier and the statement-level model are left in the same modified state); "
     "`Imp.exec_iinsertEntry_gen` / `Imp.exec_pinsertEntry_gen` state the outcome for EVERY reporting mode"),
    (r"C13\.|Imp\.", r"^\(h : exec .* = \(\.error e, [tg]'\)\)$", "res",
     "names the run the statement is about: it raised `e` and left the object in state `t'` / `g'`"),
    (r"Imp\.iinsertEntry_atomic$|C13\.tier_mutator_atomic_stmt$", r"hwf : t\.WF", "i",
     "operand of the property's quantifier (receivers reachable by histories are well-formed: `C05.reachable_wf`). NEEDED: on a "
     "tier holding an unstripped label the second `deleteEntry` of the `replace`/`merge` loop raises ValueError after the first "
     "deletion (evaluated on the statement-level model: `#guard`s on `C13.exUnstripped` in Props/C13Atomic.lean); such a tier "
     "cannot be built through the classes (constructor and `insertEntry` strip, finding A18 fixed); replayed on a real tier by "
     "writing `tier._entries` directly: same ValueError, same remaining entry; refinement (`Imp.exec_iinsertEntry_gen`) holds for EVERY tier"),
    (r"Imp\.renameTier_atomic$|C13\.tg_mutator_atomic_stmt$", r"AnyWF", "i",
     "operand of the property's quantifier (the tiers of a reachable textgrid are well-formed). NEEDED: `renameTier` evaluates "
     "`oldTier.new(newName, oldTier.entries)` — a constructor call that validates again — AFTER `removeTier(oldName)` (textgrid.py "
     "L522-523); on a tier with overlapping entries it raises TextgridStateError and the tier is gone (`#guard`s on `C13.exBad`); "
     "replayed on the real classes by writing `tier._entries` directly (not reachable through the API): same loss. Refinement "
     "(`Imp.exec_renameTier`) holds for every textgrid with unique names"),
    (r"Imp\.exec_replaceRestore$|Imp\.exec_replaceTierCore$", r"hk : C12\.idxOf|hold : ", "res",
     "case distinction: the replaced name is present (`hk`, `hold` name its position and tier); an absent name raises ValueError in "
     "the first statement (`Imp.exec_replaceTier`, `Imp.replaceTierPy_atomic` treat both cases)"),
    (r"Imp\.exec_replaceTierCore$", r"hfail", "ii",
     "what `replaceTier`'s `except` block relies on: the call inside the `try` leaves the textgrid alone when it raises, and raises "
     "PraatioExceptions only — PROVED of `addTier` (`Imp.exec_addTier`, `C13.addTier_fails_before_mutation`) and of `addTier` with an "
     "invalid option (`Imp.exec_addTierPy`); the seeded variants that break it are caught by op imp_tg_replace"),
    (r"Imp\.exec_replaceTierPy_invalid$", r"hn : n ∈ g\.names", "res",
     "case distinction: a present name (the rollback runs); an absent one raises ValueError before anything (`Imp.replaceTierPy_atomic`)"),
    (r"C13\.exec_mutF_collision$", r"hx : x\.s < x\.e|hcol", "res",
     "the family of counter-examples to the seeded variant: any colliding insert of a positive-length entry (a zero-length one "
     "is refused by the crop before the moved span update)"),
    (r"C13\.exec_mutB_fail$", r"hk|hold|ha", "res",
     "the family of counter-examples to the seeded variant: the replaced name is present (`hk`, `hold` name its position and "
     "tier) and `addTier` of the new tier fails (`ha`)"),
    # ---------------------------------------------------------------- code brought inside the model later (DESIGN 11.8)
    (r"Scripts\.", r"SplitGrid|hdiv", "i", GRID),
    (r"Scripts\.(split_|spell_spec)", r"getTier (src|target) = \.ok \(\.I", "i",
     "type-correct argument (the named tier exists and is an interval tier); excluded cases replayed: an absent name raises the "
     "built-in KeyError of `getTier` (compared as \"raises\"), a point tier with points raises ValueError (tuple unpacking) — "
     "modelled in `sourceEntries` / `spellEntries` and generated"),
    (r"Scripts\.split_window_spec$", r"htg", "res",
     "case distinction: an existing interval tier as target (here) / no tier of that name (`Scripts.split_window_new_spec`); a "
     "POINT tier as existing target of a windowed call is a type error of the caller (AttributeError inside `Point(...)`, replayed; "
     "not generated)"),
    (r"Scripts\.split_window_new_spec$", r"hfresh", "res", "case distinction, the other case is `Scripts.split_window_spec`"),
    (r"Scripts\.spell_spec$", r"hfresh", "ii", "a name in use is refused by `addTier` (TierNameExistsError): `Scripts.spell_duplicate`, `C12.addTier_dup`"),
    (r"Scripts\.spell_duplicate$", r"hn", "i", "the rejected case itself (\"a duplicate name is rejected\")"),
    (r"Scripts\.", r"hwin", "res", "names the window of the call (`startT`/`endT`, a missing one replaced by the textgrid's bound)"),
    (r"Scripts\.", r"g\.lo = some lo|g\.hi = some hi", "ii",
     "a textgrid that holds a tier has a span: `addTier` sets both bounds (`C12.addTier_spec`, `C12.addTier_span`)"),
    (r"Scripts\.", r"hlh : lo ≤ hi", "i", "span of a well-formed textgrid (it covers its well-formed tiers: `C12.covered_run`); replayed with the "
     "bounds swapped: the IntervalTier constructor puts them in order (A29)"),
    (r"Scripts\.splitWords_spec$", r"hpos", "i", LISTWF),
    (r"Scripts\.pySplit_(words|stripped)$", r"hw", "res", RES),
    (r"Scripts\.pyJoin_comma_stripped$", r"hne|hw", "ii",
     "helper: delivered by `Scripts.spellOne_some` (an entry is reported only with a rejected word) and `Scripts.pySplit_words`"),
    (r"Scripts\.splitInstall_ok$", r"hn", "ii", "helper: delivered by `Scripts.splitNewTier_name` (the new tier carries the target's name)"),
    (r"Scripts\.split_window_rejects$", r"hsrc", "i", "type-correct argument, as above"),
    (r"PointQuery\.points_sorted_spec$", r"hs", "iii",
     "KEPT — replayed: neither `PointObject1D/2D.__init__` nor `open1DPointObject` / `open2DPointObject` sort or check the order "
     "(Praat writes sorted files); on an unsorted list the early `break` hides points: `PointQuery.points_unsorted_counterexample`; "
     "what is computed for ANY list: `PointQuery.pointsGo_eq`, `PointQuery.points_sound` (no hypothesis). No property mentions the "
     "function: an observation (DESIGN 11.3b), not a finding"),
    # ---------------------------------------------------------------- results, members, cases
    (r"rejects$", r"≤", "i", "the rejected case itself (the property: \"a region / window / entry with a ≥ b is rejected\")"),
    # ---------------------------------------------------------------- C05
    (r"C05\.construct_wf_of_entries$", r"hne", "res", "unused (`_hne`): a special case of `C05.construct_wf`, kept for the index"),
    (r"C05\.pstep_(wf|err)$", r"POpOk|PErrOk", "res", "`POpOk` / `PErrOk` are `True` for every operation (kept for the shape of the statement; `pstep_wf_any`, `preachable_wf` carry no side condition)"),
    (r"C05\.disj_of_adjacent$", r"ivsNoOverlap", "ii", "helper: this IS the constructor's check (`_validate`); refusal otherwise: `C05.construct_wf` (TextgridStateError)"),
    (r"pyStrip_pyJoin$", r"pyStrip", "ii", "helper: labels of a well-formed tier are stripped (constructor and `insertEntry` strip: `C11.insertEntry_strip`)"),
    # ---------------------------------------------------------------- generic well-formedness
    (r"C12\.(fuse[IP]_spec|mergeTiers_(full|default))$|C09\.appendTg_(eq|spec|class_clash)$", r"∧ \w+ ≤ t\.lo ∧ t\.hi ≤ \w+\)$",
     "ii", "tiers inside the textgrid's span: invariant of `addTier` (the span widens over every added tier) — `C12.covered_run`, `C12.addTier_span`"),
    (r"C09\.appendTg", r"hwf : ∀ u ∈ h\.tiers, AnyWF u ∧ 0 ≤ u\.lo ∧ u\.hi ≤ hhi", "iii",
     "`AnyWF u` (i); `u.hi ≤ hhi` (ii) `C12.covered_run`; `0 ≤ u.lo` (iii): " + NEG + " — `Textgrid.appendTextgrid` replayed on the same operands: same loss"),
    (r".", r": \w+\.WF\)$|AnyWF|: Covered g\)", "i", WFTXT),
    (r".", r"names\.Nodup", "ii", "invariant of the tier dictionary: `C12.names_nodup_run`; a duplicate name is refused: `C12.addTier_dup` (TierNameExistsError)"),
    (r".", r"validate = true", "i", "operand: a valid textgrid (the property: \"every tier shares the textgrid's span so that validate() is True\"); the statement without validity: `C07.tg_erase_eq` / `C07.tg_space_eq` / `C09.appendTg_spec`"),
    (r".", r"TimesNodup", "ii",
     "special case \"at most one point per time\" (an invariant of insert/delete histories: `C11.pirun_timesNodup`); the "
     "general case carries no such hypothesis: `C11.pinsert_replace_spec`, `pinsert_merge_spec`, `punion_spec`; the excluded "
     "case was replayed earlier (finding A24, fixed; `C11.pinsert_collision_regression`, `punion_dup_regression`)"),
    (r".", r"Pos |Disj |Stripped |Chain |Long |Sorted t|: Pos\b|Pairwise \(fun a b => Pt\.le|Pairwise \(fun x y => Pt\.le|hps : t\.ps\.Pairwise", "i", LISTWF),
    (r"LayerR\.|C07\.shift", r"WeakWF|StrictIn|SortedT|Pairwise|tgt\.s ≤ tgt\.e|iv\.e ≤ t\.hi|p\.t ≤ t\.hi|iv\.e ≤ h\)", "i", RWF),
    # ---------------------------------------------------------------- windows, regions, durations
    (r"C06\.|LayerR\.(getIvs|crop|no_overlap_from_rounding_crop|pcrop)", r"a < b", "ii", ABREJ + "`C06.crop_rejects`, `C06.pcrop_rejects` (ArgumentError)"),
    (r"C12\.crop", r"a < b", "ii", ABREJ + "`C06.crop_rejects` per tier; `Tg.crop` refuses first (`C12.crop_validate` covers every returned result)"),
    (r".", r"hab : a < b", "ii", ABREJ + "`C07.erase_rejects`, `C07.perase_rejects` (now without `t.WF`), `C07.tg_erase_rejects` (ArgumentError)"),
    (r"LayerR\.", r"hab : a ≤ b", "ii", "the shrink step runs only for a non-empty clipped region (`decide (a' < b')` in `eraseRegion`): `C07.erase_unfold_clip`, `C07.erase_shrink_outside`"),
    (r"LayerR\.", r"Tm\.zero ≤ d", "i", "weaker than the property's `d > 0`"),
    (r".", r"0 < d\)", "i",
     "C08's quantifier \"all d>0\". NOT enforced by the code — replayed d ≤ 0 on both tier classes and on Textgrid: no "
     "rejection: d = 0 in 'split' cuts the straddler in two; d < 0 moves entries back, raises TextgridStateError on overlap; "
     "`IntervalTier('T',[],0,10).insertSpace(5,-20)` returns the span [-10, 0] (before fix 9432f3b: [0, -10]). Whatever is "
     "returned is well-formed (`C05.step_wf`, no side condition); outside every property's quantifier, the model does the same"),
    (r"C06\.cropOne", r"iv\.s < iv\.e", "i", "an entry of a well-formed tier"),
    (r"C06\.cropOne_strict", r"_hab", "ii", "unused (name `_hab`); " + ABREJ + "`C06.crop_rejects`"),
    (r"C06\.|C12\.crop", r"m ≠ \.lax", "i", "the property states the exact-window span for strict / truncated only; lax: `C06.crop_norebase_span_lax`, `C12.crop_lax_spans_differ_example`"),
    (r"C06\.crop_empty_ok", r"hsel", "res", "the case \"the window selects nothing\" (the other case: `C06.crop_norebase`, `C06.crop_rebase`)"),
    # ---------------------------------------------------------------- C07
    (r"C07\.|C12\.clipLen_in", r"hlo : (t\.)?lo ≤ a|hhi : b ≤ (t\.)?hi|hin : sh = true", "i",
     "the property: \"a region lying inside a tier's span\"; ANY region: `C07.erase_shrink_any`, `erase_shrink_clip`, "
     "`erase_shrink_outside`, `perase_shrink_any`, `perase_span_any` (the excluded case was replayed earlier: finding A28, fixed)"),
    (r"C07\.", r"hne : max a t\.lo < min b t\.hi", "res", "case \"the region meets the span in more than a point\"; other case: `C07.erase_shrink_outside`, `C07.perase_shrink_outside`"),
    (r"C07\.", r"hout", "res", "case \"the region meets the span in at most one time\"; other case: `C07.erase_shrink_clip`, `C07.perase_shrink_clip`"),
    (r"C07\.", r"mode ≠ \.error", "ii", "mode 'error': `C07.erase_error_mode` (CollisionError iff something overlaps), `C07.erase_error_mode_clear` (nothing overlaps: as 'truncate')"),
    (r"C07\.erase_error_mode_clear", r"hno", "res", "the case \"nothing overlaps\"; other case: `C07.erase_error_mode` (CollisionError)"),
    (r"C07\.erase_shrink_straddler", r"hs : iv\.s < a|he : b < iv\.e", "res", "the straddling interval the statement is about"),
    (r"C07\.shiftR_|C07\.perase_no_collision_R|C14\.snapV_mono|C14\.leq14_of_le", r".", "res", "premise of a monotonicity lemma"),
    (r"C07\.foldlM_addTier_eq", r"rep ≠ \.error", "ii", "helper about the loop `newTG.addTier(f(tier))`: the library calls it with the default 'warning'; 'error': `C12.addTier_report`"),
    (r"C07\.foldlM_addTier_eq", r"hf", "ii", "helper: every tier-level edit keeps the name (`C12.AnyTier.*_name`)"),
    (r"C07\.", r"tiers = \[\]|t\.es = \[\]|t\.ps = \[\]|isEmpty", "res", "the entry-less / tier-less case, stated separately (the general statements cover it too)"),
    # ---------------------------------------------------------------- C08
    (r"C08\.spaceAll_eq|C08\.insert_spec|C07\.insert_spec_any", r"mode = \.error →", "ii", "mode 'error' with a straddling interval: `C08.insert_error_mode` (ArgumentError)"),
    (r"C12\.insertSpace_validate_ok|C07\.tg_space_spec", r"\.error", "ii", "mode 'error' with a straddling interval: `C08.insert_error_mode`, `C07.tg_space_err_iff`, `C07.tg_space_error_example`"),
    (r"C08\.insert_error_mode", r"Straddles", "res", "the refused case itself"),
    (r"C08\.insert_(labelAt_outside|erase_inverse)", r"hmode", "i", "the property states the inverse for 'stretch' / 'split' only"),
    (r"C08\.insert_(labelAt_outside|split_gap)", r"hx", "res", "the times the clause is about (outside / inside the inserted gap)"),
    (r"C08\.insert_erase_inverse", r"hlo|hhi", "i",
     "the quantifier: \"all s in or at the edges of the span\". Needed — replayed: "
     "`IntervalTier('T',[(3,5,'a')],2,10).insertSpace(0,1,'stretch').eraseRegion(0,1,'truncate',True)` ends at 11, not 10 "
     "(the region sticks out of the span and is clipped, fix A28)"),
    (r"LayerR\.split_|LayerR\.straddler_rejoined", r"iv\.s < s|s < iv\.e|b < e", "res", "the straddling interval the lemma is about"),
    (r"LayerR\.straddler_rejoined", r"hbeq", "i", "an arithmetic law (`==` agrees with `≤`), true of floats and of `Int`; not an input restriction"),
    (r"LayerR\.", r"hc : ¬ \w+\.s < \w+\.e", "res", "the collapsed entry the lemma is about"),
    # ---------------------------------------------------------------- C09
    (r"C09\.|C12\.tgop_ok", r"rep ≠ \.error", "ii", "reportingMode 'error': `C09.shift_error_mode`, `C09.shift_error_mode_ok`, `C09.pshift_error_mode` (OutOfBounds iff an entry leaves the old span, otherwise as 'silence')"),
    (r"LayerR\.", r"hrep", "ii", "reportingMode 'error' and an entry leaves the span: `C09.shift_error_mode` (OutOfBounds)"),
    (r"C09\.shift_error_mode_ok", r"hin", "res", "the case \"nothing leaves the span\"; other case: `C09.shift_error_mode`"),
    (r"C09\.shift_(noclip|unshift)", r"hnc|hnn", "i", "the property: \"restores every entry when nothing was clipped\"; exactly what is needed: `C09.shift_unshift_iff`, `C09.shift_unshift_counterexample`"),
    (r"C09\.append_spec|C09\.join_points|LayerR\.", r"0 ≤ u\.lo|0 ≤ t\.hi|Tm\.zero ≤ iv\.s|Tm\.zero ≤ p\.t", "iii", NEG),
    (r"C09\.join_points", r"t\.hi ≤ ghi", "ii", "tiers inside the textgrid's span: `C12.covered_run`"),
    (r"C09\.appendTg", r"0 ≤ ghi|0 ≤ hhi|0 ≤ hlo", "iii", NEG + " — replayed on `Textgrid.appendTextgrid` with the same operands: same loss"),
    (r"C09\.appendTg", r"glo ≤ ghi|hlo ≤ hhi", "iii",
     "kept: follows from the other hypotheses as soon as the textgrid holds one tier; a tier-less `Textgrid(5, 2)` is "
     "constructible (replayed: accepted, `validate()` True) but has nothing to append to — outside the quantifier "
     "(\"well-formed textgrids\"), harmless: the result's span is recomputed from the moved tiers"),
    (r"C12\.(eraseRegion_validate_span|insertSpace_validate_span)", r"\.(lo|hi) = some", "res", "names the span; the statement without it: `C12.eraseRegion_validate`, `C12.insertSpace_validate`"),
    (r"C09\.appendTg|C12\.mergeTiers", r"\.(lo|hi) = some", "iii",
     "kept: names the span. Every textgrid holding a tier has one (`C12.addTier_span`). Replayed the excluded case, a "
     "span-less tier-less `Textgrid()`: `appendTextgrid` and `insertSpace` raise the built-in TypeError "
     "(`None + number`; model: ValueError / `none`, documented at `C07.tg_space_no_tiers`), `mergeTiers`, `eraseRegion`, "
     "`crop`, `editTimestamps` return an empty textgrid — nothing to violate, outside the quantifier"),
    (r"C09\.appendTg", r"hcls", "ii", "a name shared by tiers of different classes: `C09.appendTg_class_clash` (built-in ValueError — reported there), `appendTg_class_clash_example`"),
    (r"C09\.appendTg_class_clash", r"hclash", "res", "the refused case itself"),
    (r"C09\.append_eval", r"hR", "res", "names the sorted concatenation"),
    # ---------------------------------------------------------------- C10
    (r"C10\.mergeLabel_stripped|C11\.merged_label_stripped|C11\.insert_core", r"pyStrip", "ii", "helper: the label arrives stripped — `insertEntry` strips it (`C11.insertEntry_strip`), the constructor strips the others"),
    (r"C10\.(mergeStep_wf|group_step)", r"x\.s < x\.e", "i", "an entry of the well-formed operand B (`union` inserts B's entries one by one)"),
    (r"C10\.insert_merge_label|C11\.insert_", r"x\.s < x\.e", "ii",
     "NEW rejection theorem `C11.insert_rejects`: a zero-length or reversed entry is refused with ArgumentError in every "
     "mode (the `crop` that looks for collisions); replayed: (4,4,'z'), (5,4,'z'), (12,12,'z') × error/replace/merge all "
     "raise ArgumentError, tier unchanged"),
    (r"C10\.union_label_two", r"hov|hA'|hB'", "res", "the scenario \"exactly one entry of A overlaps exactly one of B\"; general: `C10.union_label_cluster`, `union_label_time_order`"),
    (r"C10\.group_step", r"hβ", "res", "loop invariant of the grouping (entries arrive in time order)"),
    (r"C10\.insert_merge_label|C11\.insert_(replace|merge)", r"colliding", "res", "the case \"something collides\"; other case: `C11.insert_nocollision`"),
    # ---------------------------------------------------------------- C11
    (r"C11\.insert_nocollision|C11\.pinsert_nocollision", r"hfree", "res", "the case \"nothing collides\"; other cases: `insert_error` / `insert_replace` / `insert_merge`, `pinsert_*_spec`"),
    (r"C11\.(insert_error|pinsert_error)|C13\.insertEntry_collision_atomic", r"hcol|hpt", "res", "the colliding entry the clause is about"),
    (r"C11\.pinsert_(replace|merge)_spec|C11\.pinsert_collision_exact", r"hcol|hot", "res", "the case \"a point sits at that time\"; other case: `pinsert_nocollision_spec`"),
    (r"C11\.pirun_labelAt", r"PAdm", "ii",
     "`DelOk`: the deleted point is a member, or no member is `==` to it. The third case (not a member, but tolerantly "
     "equal to one) is the NEW `C11.pdelete_tolerant` / `C11.delete_tolerant`: the first tolerantly equal member is removed "
     "(replayed: `deleteEntry(Point(5.0000000001,'a'))` removes `(5.0,'a')`)"),
    (r"C11\.(p)?delete_tolerant", r".", "res", "the third case of `deleteEntry` itself"),
    (r"C11\.sorted_perm_unique|C11\.first_is_least", r".", "res", "premise of a list lemma"),
    (r"C11\.insert_core", r"hT", "res", RES),
    # ---------------------------------------------------------------- C12
    (r"C12\.addTier_dup", r".", "res", "the refused case itself"),
    (r"C12\.addTier_(spec|report)", r"hn ", "ii", "duplicate name: `C12.addTier_dup` (TierNameExistsError)"),
    (r"C12\.addTier_spec", r"hr ", "ii", "reportingMode 'error' and the span would change: `C12.addTier_report` (TextgridStateAutoModified, nothing changed: `C13.addTier_fails_before_mutation`)"),
    (r"C12\.addTier_report", r"hr ", "res", "the refused case itself"),
    (r"C12\.renameTier_spec", r"hold", "ii", "absent name: KeyError, `C12.step_refines_spec` (the list model raises the same)"),
    (r"C12\.renameTier_wf", r"hc ", "ii", "clash with another tier: `C12.renameTier_spec` (TierNameExistsError)"),
    (r"C12\.validate_of_spans", r".", "res", "the definition of a valid textgrid (`C12.validate_iff`)"),
    (r"C12\.mergeTiers_unknown", r".", "res", "the refused case itself"),
    (r"C12\.mergeTiers_(full|validate)", r"hsel", "ii", "an unknown name: `C12.mergeTiers_unknown` (KeyError), `mergeTiers_unknown_example`"),
    # ---------------------------------------------------------------- C14
    (r"C14\.|LayerR\.", r"refs ≠ \[\]", "ii", "a reference without timestamps: `C14.dejitter_empty_ref`, `C14.pdejitter_empty_ref` (ArgumentError)"),
    (r"C14\.morph_mismatch", r".", "res", "the refused case itself"),
    (r"C14\.morph_empty", r".", "res", "the case of two entry-less tiers"),
    (r"C14\.|LayerR\.", r"t\.es\.length = u\.es\.length", "ii", "unequal entry counts: `C14.morph_mismatch` (SafeZipException)"),
    (r"C14\.|LayerR\.", r"t\.es ≠ \[\]", "ii", "both tiers entry-less: `C14.morph_empty` (a copy); one of them: `C14.morph_mismatch`"),
    (r"C14\.leq14_slack", r"ha|hb", "i", "`maxDifference > 0` (the quantifier) and a distance `|x - r| ≥ 0`"),
    (r"C14\.align_guard", r"hg", "res", "the case in which the guard of `alignBoundariesAcrossTiers` passes"),
    # ---------------------------------------------------------------- C15
    (r"C15\.nonEntries", r"t\.es ≠ \[\]", "i", "the property: \"getNonEntries on a tier with entries\"; entry-less: NEW `C15.nonEntries_empty` (built-in IndexError, class and model)"),
    (r"C15\.nonEntries_empty", r".", "res", "the excluded case itself"),
    (r"C15\.nonEntries_tiling_nonneg", r"h0", "iii",
     "REMOVED from `C15.nonEntries_tiling` (re-proved for every well-formed tier; the tiling starts at `tileStart t` = 0, or "
     "the first entry's start if negative). Replayed: `IntervalTier('T',[(-3,-1,'a'),(2,3,'b')],-5,5).getNonEntries()` = "
     "[(-1,2,''),(3,5,'')], `[(2,3,'b')]` on [-5,5] → [(0,2,''),(3,5,'')]: consistent with the property's \"tile [0, maxTimestamp]\". "
     "This corollary keeps the old statement for tiers on non-negative times"),
    (r"C15\.valueAt_", r"Pairwise \(fun a b => a\.1 ≤ b\.1\)", "ii", "enforced: `getValuesAtPoints` sorts the samples itself (`C15.sortedData`); the tier-level statement `valuesAtPoints_exact_spec` takes ARBITRARY data (replayed unsorted / duplicate / empty series: correct)"),
    (r"C15\.valueAt_exact_spec", r"hi |hfuel|hbefore", "ii", "loop invariants of the single pass (start index carried from the previous point): established by `C15.valuesAtPoints_exact_spec`"),
    (r"C15\.valueAt_fuzzy_nearest", r"data\.size ≠ 0", "iii",
     "kept: with no sample there is no nearest one. Replayed: `getValuesAtPoints([], True)` raises the built-in IndexError "
     "(exact matching returns `()` per point) — NEW `C15.valueAt_fuzzy_empty` proves the model does the same; the harness "
     "lists it as an assumption (\"series passed to fuzzy matching are non-empty\")"),
    (r"C15\.invert_complement", r"l ≠ \[\]", "ii", "the empty list: `C15.invert_empty`"),
    (r"C15\.invert_complement", r"hpos", "ii", "an interval with start ≥ end: `C15.invert_rejects` (ArgumentError)"),
    (r"C15\.invert_rejects", r".", "res", "the rejected case itself"),
    (r"C15\.invert_complement", r"hd|hlo|hhi", "iii",
     "the order part was REMOVED (the theorem now takes the list in ANY order: the code sorts; the harness shuffles). "
     "What is left — no two members overlap, members inside the bounds — is NOT enforced. Replayed: "
     "`invertIntervalList([(1,3),(2,5)],0,6)` = [(0,1),(3,2),(5,6)] (a reversed pair), `([(1,2),(4,5)],3,6)` = [(2,4),(5,6)] and "
     "`([(1,2),(4,5)],0,3)` = [(0,1),(2,4)] (results outside the bounds), `([],5,2)` = [(5,2)] → **counter-example** "
     "`C15.invert_counterexample` (finding); kept, documented"),
    # ---------------------------------------------------------------- C04
    (r"C04\.", r"lo ≤ hi|lo < hi", "ii", "a reversed span is refused: `C04.prep_outside_iff`, `C04.reversed_override_rejected` (ParsingError); `lo = hi`: `C04.zero_span_regression`"),
    (r"C04\.", r"hin : ∀ e ∈ es|Sticks|hle", "ii", "an entry outside the requested span makes the save raise: `C04.prep_outside_iff`, `C04.fillInBlanks_rejects` (ParsingError)"),
    (r"C04\.fillInBlanks_rejects", r".", "res", "the refused case itself"),
    (r"C04\.prep_verbatim", r"hrev", "ii", "`C04.prep_outside_iff` (ParsingError)"),
    (r"C04\.prep_ok", r"eff m", "ii", "a missing bound with blank filling on: `C04.prep_error_cases` (built-in error, reported there)"),
    (r"C04\.", r"es ≠ \[\]", "res", "the entry-less tier is the other case: `C04.fillInBlanks_cases`, `C04.zero_span_regression`, `C04.all_slivers_regression`"),
    (r"C04\.(removeUltrashort_at|boundary_moves_over_slivers)", r"hx", "res", "the long interval the clause is about (\"every labelled interval at least that long …\")"),
    (r"C04\.absorbShort_spec", r".", "res", "loop invariant of the absorption loop (helper)"),
    (r"C04\.fillSpec_filter", r"hq", "res", "premise of a list lemma (the filter ignores blanks)"),
    # ---------------------------------------------------------------- generic: results and members (last)
    (r".", r"= \.(ok|error) \S+\)$|\.getLast\? = |\[k\]\? = some|\[i\]\? = some|\[i\]\? = some|= Except\.|\)\.2 = some out|spaceAll s d mode (t\.)?es = some out|indexOf old = some k|firstAt ps a = some", "res", RES),
    (r".", r"^\((hiv|hp|hold|ha|hb|hmem|ho|hgm|hx|hnx|hi|hi') : [^)]*(∈|∉) ", "res", RES),
    (r"C14\.leq14_slack", r"leq14 a b = true", "res", RES),
]


def classify(name, hyp):
    for tr, hr, cls, txt in RULES:
        if re.search(tr, name) and re.search(hr, hyp):
            return cls, txt
    return None


def main():
    rows, missing, counts = {}, [], {}
    seen = set()
    for pid in PIDS:
        for e in json.load(open(os.path.join(VERIF, "lean", "theorems", pid + ".json"))):
            if e["name"] in seen:
                continue
            seen.add(e["name"])
            _, st, path = statement(e["name"], e["module"])
            hs = [b for b in binders(st) if is_hyp(b)]
            for h in hs:
                c = classify(e["name"], h)
                if c is None:
                    missing.append((e["name"], h))
                    continue
                rows.setdefault(pid, []).append((e["name"], os.path.basename(path), h, c[0], c[1]))
                counts[c[0]] = counts.get(c[0], 0) + 1
            if not hs:
                rows.setdefault(pid, [])
    if missing:
        for m in missing:
            print("UNCLASSIFIED", m[0], m[1])
        sys.exit(1)
    head = open(os.path.join(VERIF, "lean", "HYPOTHESES.head.md")).read()
    out = [head.rstrip(), "", "## The table", "",
           f"{sum(counts.values())} hypothesis binders in {len(seen)} registered theorems of C04–C15: "
           + ", ".join(f"{counts.get(k, 0)} × {k}" for k in ("i", "ii", "iii", "res")) + ".", ""]
    for pid in PIDS:
        out += [f"### {pid}", "", "| theorem | hypothesis | class | disposition |", "|---|---|---|---|"]
        for name, f, h, cls, txt in rows[pid]:
            hh = h.replace("|", "\\|")
            out.append(f"| `{name}` | `{hh}` | {cls if cls == 'res' else '(' + cls + ')'} | {txt} |")
        out.append("")
    open(os.path.join(VERIF, "lean", "HYPOTHESES.md"), "w").write("\n".join(out) + "\n")
    print("HYPOTHESES.md:", sum(counts.values()), "binders", counts)


main()
