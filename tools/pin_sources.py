#!/usr/bin/env python3
"""records the sha256 of every source file of /repo that some property is anchored in (source_pins.json): the state
of the code the models were last validated against.  Run after /repo's HEAD changed and all checks are green."""
import hashlib, json, os, sys
if sys.executable != "/venv/bin/python" and os.path.exists("/venv/bin/python"):
    os.execv("/venv/bin/python", ["/venv/bin/python"] + sys.argv)      # the interpreter the checks run under
VERIF = os.path.dirname(os.path.dirname(os.path.abspath(__file__)))
files = set()
for line in open(os.path.join(VERIF, "properties.jsonl")):
    files |= set(json.loads(line).get("anchors", {}).get("files", []))
pins = {f: hashlib.sha256(open(os.path.join("/repo", f), "rb").read()).hexdigest() for f in sorted(files) if os.path.exists(os.path.join("/repo", f))}
json.dump(pins, open(os.path.join(VERIF, "source_pins.json"), "w"), indent=1)
import sys
sys.path.insert(0, os.path.join(VERIF, "harness"))
import astpins
fp = {f: astpins.fingerprints(os.path.join("/repo", f)) for f in pins if f.endswith(".py")}
json.dump(fp, open(os.path.join(VERIF, "source_pins_functions.json"), "w"), indent=1, sort_keys=True)
print(len(pins), "files pinned;", sum(len(v or {}) for v in fp.values()), "function fingerprints")
