#!/usr/bin/env python3
"""try_harmless.py <src dir with patch.diff, meta.json> <id> [Cxx ...]

Applies a behaviour-preserving rewrite of praatio to /repo, runs the existing test-suite and the quick checks (all
claimed ones by default), undoes the patch, and stores the outcome under /verif/seeded/harmless/<id>/.  A check that
exits non-zero here raised an alarm on code where the property still holds (or the rewrite is not harmless after all:
the replay says which)."""
import json, os, shutil, subprocess, sys
VERIF = os.path.dirname(os.path.dirname(os.path.abspath(__file__)))
src, hid = sys.argv[1], sys.argv[2]
pids = sys.argv[3:] or [c["property_id"] for c in json.load(open(os.path.join(VERIF, "MANIFEST.json")))["checks"]]
patch = os.path.join(src, "patch.diff")
assert subprocess.run(["git", "-C", "/repo", "status", "--porcelain"], capture_output=True, text=True).stdout.strip() == "", "/repo not clean"
r = subprocess.run(["git", "-C", "/repo", "apply", patch], capture_output=True, text=True)
if r.returncode != 0:
    print("patch does not apply:", r.stderr); sys.exit(2)
res = {}
try:
    t = subprocess.run(["/venv/bin/python", "-m", "pytest", "-q", "-p", "no:cacheprovider"], cwd="/repo", capture_output=True, text=True)
    tests = t.stdout.strip().split("\n")[-1]
    for pid in pids:
        p = subprocess.run([os.path.join(VERIF, "check"), pid, "--tier", "quick"], cwd=VERIF, capture_output=True, text=True)
        lines = (p.stdout + p.stderr).split("\n")
        res[pid] = {"exit": p.returncode, "violation_lines": [l for l in lines if l.startswith("VIOLATION")],
                    "first_failure": next((l for l in lines if "oracle failure" in l or "disagree" in l and "0 disagreements" not in l), None)}
finally:
    subprocess.run(["git", "-C", "/repo", "checkout", "--", "."], check=True)
    subprocess.run(["git", "-C", VERIF, "checkout", "--", "evidence"], check=False)
dst = os.path.join(VERIF, "seeded", "harmless", hid)
os.makedirs(dst, exist_ok=True)
shutil.copy(patch, os.path.join(dst, "patch.diff"))
meta = json.load(open(os.path.join(src, "meta.json")))
meta.update({"kind": "behaviour-preserving rewrite", "existing_tests_with_change": tests,
             "applies_to_repo_commit": subprocess.run(["git", "-C", "/repo", "log", "-1", "--format=%h"], capture_output=True, text=True).stdout.strip(),
             "checks": res, "alarms": [k for k, v in res.items() if v["exit"] != 0]})
json.dump(meta, open(os.path.join(dst, "meta.json"), "w"), indent=1)
print(hid, tests, "alarms:", meta["alarms"])
