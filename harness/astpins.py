"""Function-level fingerprints of the anchored source: sha1 of the AST of every function and method (docstrings, comments,
blank lines and formatting do not count), plus one fingerprint for the module-level code.  source_pins_functions.json records
them for the state of /repo the models were last validated against (tools/pin_sources.py); every run names the
functions whose code differs from it."""
import ast
import hashlib
import sys


def _strip_doc(node):
    body = getattr(node, "body", None)
    if body and isinstance(body[0], ast.Expr) and isinstance(getattr(body[0], "value", None), ast.Constant) and isinstance(body[0].value.value, str):
        node.body = body[1:] or [ast.Pass()]


def fingerprints(path):
    """{qualified name: sha1} for every function/method of the file, '<module>' for everything else"""
    try:
        tree = ast.parse(open(path, encoding="utf-8").read())
    except (OSError, SyntaxError, UnicodeDecodeError):
        return None
    out = {}

    def walk(node, prefix):
        for ch in list(ast.iter_child_nodes(node)):
            if isinstance(ch, (ast.FunctionDef, ast.AsyncFunctionDef)):
                walk(ch, prefix + ch.name + ".")
                _strip_doc(ch)
                out[prefix + ch.name] = hashlib.sha1(ast.unparse(ch).encode()).hexdigest()
            elif isinstance(ch, ast.ClassDef):
                walk(ch, prefix + ch.name + ".")
            else:
                walk(ch, prefix)

    walk(tree, "")
    # module level: the tree with every function body emptied
    for n in ast.walk(tree):
        if isinstance(n, (ast.FunctionDef, ast.AsyncFunctionDef)):
            n.body = [ast.Pass()]
        _strip_doc(n) if isinstance(n, (ast.Module, ast.ClassDef)) else None
    out["<module>"] = hashlib.sha1(ast.unparse(tree).encode()).hexdigest()
    out["<python>"] = "%d.%d" % sys.version_info[:2]       # fingerprints of another interpreter version are not comparable
    return out


def changed(cur, pinned):
    """names whose fingerprint differs, was added or was removed"""
    if cur is None or pinned is None or cur.get("<python>") != pinned.get("<python>"):
        return ["<not comparable: file unreadable or fingerprints taken by another Python version>"]
    return sorted(k for k in set(cur) | set(pinned) if cur.get(k) != pinned.get(k))
