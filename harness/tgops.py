"""Textgrid-level cases: specs, builders, snapshots, encoding, execution, oracles shared by C06–C09, C12–C14.

    tg spec: {"lo": float|None, "hi": float|None, "tiers": [tier spec, ...]}
"""
import contextlib
import io

from praatio.data_classes.textgrid import Textgrid
from praatio import praatio_scripts

from framework import Failure
import tiers as T
import tierops


def build(spec):
    with contextlib.redirect_stdout(io.StringIO()):
        g = Textgrid(spec["lo"], spec["hi"])
        for ts in spec["tiers"]:
            g.addTier(T.build(ts), reportingMode="silence")
        g.minTimestamp, g.maxTimestamp = spec["lo"], spec["hi"]
    assert snap(g) == norm(spec), (snap(g), norm(spec))
    return g


def norm(spec):
    f = lambda x: None if x is None else float(x)
    return {"lo": f(spec["lo"]), "hi": f(spec["hi"]), "tiers": [T.norm(t) for t in spec["tiers"]]}


def snap(g):
    f = lambda x: None if x is None else float(x)
    assert list(g.tierNames) == [t.name for t in g.tiers]
    return {"lo": f(g.minTimestamp), "hi": f(g.maxTimestamp), "tiers": [T.snap(t) for t in g.tiers]}


def enc_tg(enc, spec):
    return " ".join(["G", enc.otime(spec["lo"]), enc.otime(spec["hi"]), str(len(spec["tiers"]))] +
                    [T.enc_spec(enc, t) for t in spec["tiers"]])


def encode(c, enc):
    op = c["op"]
    g = enc_tg(enc, c["tg"])
    if op == "tg_add":
        i = "N" if c["index"] is None else str(c["index"])
        return f"tg_add {g} {T.enc_spec(enc, c['tier'])} {i} {c['report']}"
    if op == "tg_remove":
        return f"tg_remove {g} {enc.s(c['name'])}"
    if op == "tg_rename":
        return f"tg_rename {g} {enc.s(c['name'])} {enc.s(c['new'])}"
    if op == "tg_replace":
        return f"tg_replace {g} {enc.s(c['name'])} {T.enc_spec(enc, c['tier'])} {c['report']}"
    if op == "tg_crop":
        return f"tg_crop {g} {enc.time(c['a'])} {enc.time(c['b'])} {c['mode']} {enc.b(c['rebase'])}"
    if op == "tg_erase":
        return f"tg_erase {g} {enc.time(c['a'])} {enc.time(c['b'])} {enc.b(c['shrink'])}"
    if op == "tg_space":
        return f"tg_space {g} {enc.time(c['s'])} {enc.time(c['d'])} {c['mode']}"
    if op == "tg_shift":
        return f"tg_shift {g} {enc.time(c['o'])} {c['report']}"
    if op == "tg_validate":
        return f"tg_validate {g}"
    if op == "tg_merge":
        sel = c.get("names")
        ss = "N" if sel is None else " ".join([str(len(sel))] + [enc.s(x) for x in sel])
        return f"tg_merge {g} {ss} {enc.b(c['preserve'])}"
    if op == "tg_append":
        return f"tg_append {g} {enc_tg(enc, c['other'])} {enc.b(c['matching'])}"
    if op == "tg_align":
        return f"tg_align {g} {enc.s(c['name'])} {enc.time(c['maxdiff'])}"
    raise KeyError(op)


def _mut(g, fn):
    r = T.call(fn)
    if r[0] == "ok":
        return ("ok", snap(g))
    return r + (snap(g),)


def impl(c, objs=None):
    objs = {} if objs is None else objs
    op = c["op"]
    g = objs.setdefault("tg", None) or build(c["tg"])
    objs["tg"] = g
    if op == "tg_add":
        t = objs["tier"] = T.build(c["tier"])
        return _mut(g, lambda: g.addTier(t, c["index"], c["report"]))
    if op == "tg_remove":
        return _mut(g, lambda: g.removeTier(c["name"]))
    if op == "tg_rename":
        return _mut(g, lambda: g.renameTier(c["name"], c["new"]))
    if op == "tg_replace":
        t = objs["tier"] = T.build(c["tier"])
        return _mut(g, lambda: g.replaceTier(c["name"], t, c["report"]))
    if op == "tg_crop":
        r = T.call(lambda: g.crop(c["a"], c["b"], c["mode"], c["rebase"]))
    elif op == "tg_erase":
        r = T.call(lambda: g.eraseRegion(c["a"], c["b"], c["shrink"]))
    elif op == "tg_space":
        r = T.call(lambda: g.insertSpace(c["s"], c["d"], c["mode"]))
    elif op == "tg_shift":
        r = T.call(lambda: g.editTimestamps(c["o"], c["report"]))
    elif op == "tg_validate":
        return T.call(lambda: g.validate("silence"))
    elif op == "tg_merge":
        r = T.call(lambda: g.mergeTiers(c.get("names"), c["preserve"]))
    elif op == "tg_append":
        h = objs["other"] = build(c["other"])
        r = T.call(lambda: g.appendTextgrid(h, c["matching"]))
    elif op == "tg_align":
        r = T.call(lambda: praatio_scripts.alignBoundariesAcrossTiers(g, c["name"], c["maxdiff"]))
    else:
        raise KeyError(op)
    if r[0] == "ok":
        objs["result"] = r[1]
        out = ("ok", snap(r[1]))
        if op in ("tg_crop", "tg_erase", "tg_space"):
            out = out + (T.call(lambda: r[1].validate("silence")),)
        return out
    return r


def render(c, r, enc):
    if r[0] == "err":
        return "err " + r[1]
    if c["op"] == "tg_validate":
        return "ok " + enc.b(r[1])
    return "ok " + enc_tg(enc, r[1])


# ---------------------------------------------------------------------------------------------
# oracles
# ---------------------------------------------------------------------------------------------
def _tier_op(ts, fn):
    """apply a tier-level operation of the implementation to a fresh tier built from spec ts"""
    t = T.build(ts)
    r = T.call(lambda: fn(t))
    return ("ok", T.snap(r[1])) if r[0] == "ok" else r


def oracle_tierwise(c, r):
    """crop / eraseRegion / insertSpace / editTimestamps: same names, same order, tier i = op(tier i)"""
    op, g = c["op"], c["tg"]
    sig = {"op": op}
    if op == "tg_crop":
        fn = lambda t: t.crop(c["a"], c["b"], c["mode"], c["rebase"])
        sig["mode"] = c["mode"]
        degenerate = c["a"] >= c["b"]
    elif op == "tg_erase":
        fn = lambda t: t.eraseRegion(c["a"], c["b"], "truncate", c["shrink"])
        degenerate = c["a"] >= c["b"]
    elif op == "tg_space":
        fn = lambda t: t.insertSpace(c["s"], c["d"], c["mode"])
        sig["mode"] = c["mode"]
        degenerate = False
    else:
        fn = lambda t: (t.editTimestamps(c["o"], c["report"]) if len(t.entries) > 0 else t)
        degenerate = False
    if degenerate:
        if r[0] == "err" and r[2]:
            return None
        return Failure(dict(sig, clause="degenerate-rejected"), f"a>=b not rejected by a praatio error: {r[:2]}")
    want = [_tier_op(ts, fn) for ts in g["tiers"]]
    errs = [w for w in want if w[0] == "err"]
    if errs:
        if r[0] == "err":
            return None
        return Failure(dict(sig, clause="tier-error-propagates"), f"a tier-level {errs[0][1]} did not surface")
    if r[0] == "err":
        if op == "tg_shift" and c["report"] == "error" and r[1] in ("TextgridStateAutoModified", "OutOfBounds"):
            return None  # a moved tier left the textgrid's span: reported as an exception, as requested
        return Failure(dict(sig, clause="no-error", exc=r[1]), f"{op} raised {r[1]}")
    res = r[1]
    if [t["name"] for t in res["tiers"]] != [t["name"] for t in g["tiers"]]:
        return Failure(dict(sig, clause="names-order"), f"names {[t['name'] for t in res['tiers']]}")
    for w, got in zip(want, res["tiers"]):
        if w[1] != got:
            return Failure(dict(sig, clause="tier-wise"), f"tier {got['name']!r} is {got}, tier-level operation gives {w[1]}")
    valid_in = all((t["lo"], t["hi"]) == (g["lo"], g["hi"]) for t in g["tiers"])
    if valid_in and g["tiers"] and (op in ("tg_erase", "tg_space") or (op == "tg_crop" and c["mode"] != "lax")):
        if any((t["lo"], t["hi"]) != (res["lo"], res["hi"]) for t in res["tiers"]):
            return Failure(dict(sig, clause="shared-span"), f"tier spans {[(t['lo'], t['hi']) for t in res['tiers']]} vs textgrid [{res['lo']},{res['hi']}]")
        if len(r) > 2 and r[2] != ("ok", True):
            return Failure(dict(sig, clause="validate"), f"validate() of the result is {r[2]}")
        if op == "tg_erase":
            # the span keeps its start; shrinking cuts out exactly the part of the region inside the span (fix A28)
            cut = max(0.0, min(c["b"], g["hi"]) - max(c["a"], g["lo"])) if c["shrink"] else 0.0
            if res["lo"] != g["lo"] or not T.close(res["hi"], g["hi"] - cut):
                return Failure(dict(sig, clause="span"), f"span [{res['lo']},{res['hi']}] expected [{g['lo']},{g['hi'] - cut}]")
    return None


def oracle_append(c, r):
    g, h = c["tg"], c["other"]
    sig = {"op": "tg_append", "matching": c["matching"]}
    gn = [t["name"] for t in g["tiers"]]
    hn = [t["name"] for t in h["tiers"]]
    if c["matching"]:
        names = [n for n in gn if n in hn]
    else:
        names = gn + [n for n in hn if n not in gn]
    # classes must agree for shared names (generators guarantee it)
    if r[0] == "err":
        return Failure(dict(sig, clause="no-error", exc=r[1]), f"appendTextgrid raised {r[1]}")
    res = r[1]
    if [t["name"] for t in res["tiers"]] != names:
        return Failure(dict(sig, clause="names"), f"names {[t['name'] for t in res['tiers']]} expected {names}")
    ghi = g["hi"]
    if not T.close(res["hi"], g["hi"] + h["hi"]) or res["lo"] != g["lo"]:
        return Failure(dict(sig, clause="span"), f"span [{res['lo']},{res['hi']}] expected [{g['lo']},{g['hi'] + h['hi']}]")
    for t in res["tiers"]:
        a = next((x for x in g["tiers"] if x["name"] == t["name"]), None)
        b = next((x for x in h["tiers"] if x["name"] == t["name"]), None)
        exp = ([list(e) for e in a["es"]] if a else []) + ([[x + ghi for x in e[:-1]] + [e[-1]] for e in b["es"]] if b else [])
        if not T.entries_close(exp, t["es"]):
            return Failure(dict(sig, clause="entries"), f"tier {t['name']!r}: {t['es']} expected {exp}")
        if a and t["es"][:len(a["es"])] != [list(e) for e in a["es"]]:
            return Failure(dict(sig, clause="first-operand-unchanged"), f"tier {t['name']!r}: A's entries changed")
    # "a span ending at the sum of both end times": every tier of the result shares the result's span
    for t in res["tiers"]:
        if not (t["lo"] == res["lo"] and T.close(t["hi"], res["hi"])):
            only_a = t["name"] in gn and t["name"] not in hn
            return Failure(dict(sig, clause="tier-span", only_in_first=only_a),
                           f"tier {t['name']!r} spans [{t['lo']},{t['hi']}] inside a textgrid spanning [{res['lo']},{res['hi']}]")
    return None


def oracle_merge(c, r):
    g = c["tg"]
    sig = {"op": "tg_merge"}
    names = [t["name"] for t in g["tiers"]]
    sel = c.get("names")
    sel = names if sel is None else sel
    if any(n not in names for n in sel):
        return None if r[0] == "err" else Failure(dict(sig, clause="unknown-name"), "unknown tier name accepted")
    its = [t for n in sel for t in g["tiers"] if t["name"] == n and t["k"] == "I"]
    pts = [t for n in sel for t in g["tiers"] if t["name"] == n and t["k"] == "P"]

    def fold(ts):
        if not ts:
            return None
        acc = T.build(ts[0])
        for u in ts[1:]:
            with contextlib.redirect_stdout(io.StringIO()):
                acc = acc.union(T.build(u))
        return T.snap(acc)
    try:
        want = ([t for t in g["tiers"] if t["name"] not in sel] if c["preserve"] else [])
        want = [T.norm(t) for t in want] + [x for x in (fold(its), fold(pts)) if x is not None]
    except Exception as e:  # a tier-level failure is C10's business
        return None if r[0] == "err" else Failure(dict(sig, clause="tier-error-propagates"), f"union raised {e!r} but mergeTiers did not")
    if r[0] == "err":
        return Failure(dict(sig, clause="no-error", exc=r[1]), f"mergeTiers raised {r[1]}")
    if r[1]["tiers"] != want:
        return Failure(dict(sig, clause="merge"), f"tiers {r[1]['tiers']} expected {want}")
    return None


def oracle_mutator(c, r):
    """the ordered-list model of addTier / removeTier / renameTier / replaceTier"""
    op, g = c["op"], c["tg"]
    sig = {"op": op}
    tiers = [T.norm(t) for t in g["tiers"]]
    names = [t["name"] for t in tiers]
    lo, hi = g["lo"], g["hi"]
    fail = None   # expected exception class, or "any"

    def add(tl, t, idx):
        tl = list(tl)
        if idx is None:
            tl.append(t)
        else:
            tl.insert(idx, t)
        return tl

    def widen(lo, hi, t):
        return (t["lo"] if lo is None else min(lo, t["lo"])), (t["hi"] if hi is None else max(hi, t["hi"]))

    if op == "tg_add":
        t = T.norm(c["tier"])
        if t["name"] in names:
            fail = "TierNameExistsError"
        elif c["report"] == "error" and ((lo is not None and t["lo"] < lo) or (hi is not None and t["hi"] > hi)):
            fail = "TextgridStateAutoModified"
        else:
            tiers = add(tiers, t, c["index"])
            lo, hi = widen(lo, hi, t)
    elif op == "tg_remove":
        if c["name"] not in names:
            fail = "any"
        else:
            tiers = [t for t in tiers if t["name"] != c["name"]]
    elif op == "tg_rename":
        if c["name"] not in names:
            fail = "any"
        elif c["new"] != c["name"] and c["new"] in names:
            fail = "TierNameExistsError"
        else:
            i = names.index(c["name"])
            tiers[i] = dict(tiers[i], name=c["new"])
    else:  # tg_replace
        t = T.norm(c["tier"])
        if c["name"] not in names:
            fail = "any"
        elif t["name"] != c["name"] and t["name"] in names:
            fail = "TierNameExistsError"
        elif c["report"] == "error" and ((lo is not None and t["lo"] < lo) or (hi is not None and t["hi"] > hi)):
            fail = "TextgridStateAutoModified"
        else:
            i = names.index(c["name"])
            tiers[i] = t
            lo, hi = widen(lo, hi, t)
    if fail:
        if r[0] != "err":
            return Failure(dict(sig, clause="rejected", expected=fail), f"{op} should have raised {fail}")
        if fail != "any" and r[1] != fail:
            return Failure(dict(sig, clause="rejected", expected=fail), f"{op} raised {r[1]}, expected {fail}")
        if r[3] != norm(g):
            return Failure(dict(sig, clause="failed-mutation-changes-nothing", exc=r[1]), f"textgrid changed by a failing {op}: {r[3]}")
        return None
    if r[0] == "err":
        return Failure(dict(sig, clause="no-error", exc=r[1]), f"{op} raised {r[1]}")
    res = r[1]
    if res["tiers"] != tiers:
        return Failure(dict(sig, clause="list-model"), f"tiers {[t['name'] for t in res['tiers']]} expected {[t['name'] for t in tiers]}")
    if (res["lo"], res["hi"]) != (lo, hi):
        return Failure(dict(sig, clause="span-widens"), f"span [{res['lo']},{res['hi']}] expected [{lo},{hi}]")
    return None


def oracle_validate(c, r):
    g = c["tg"]
    names = [t["name"] for t in g["tiers"]]
    ok = len(set(names)) == len(names)
    for t in g["tiers"]:
        if (t["lo"], t["hi"]) != (g["lo"], g["hi"]) or T.wf_problems(dict(t, es=[e[:-1] + [e[-1].strip()] for e in t["es"]])):
            ok = False
    if r != ("ok", ok):
        return Failure({"op": "tg_validate"}, f"validate() is {r}, expected {ok}")
    return None


def oracle(c, r):
    op = c["op"]
    if op in ("tg_crop", "tg_erase", "tg_space", "tg_shift"):
        return oracle_tierwise(c, r)
    if op == "tg_append":
        return oracle_append(c, r)
    if op == "tg_merge":
        return oracle_merge(c, r)
    if op in ("tg_add", "tg_remove", "tg_rename", "tg_replace"):
        return oracle_mutator(c, r)
    if op == "tg_validate":
        return oracle_validate(c, r)
    if op == "tg_align":
        return oracle_align(c, r)
    raise KeyError(op)


def oracle_align(c, r):
    g = c["tg"]
    sig = {"op": "tg_align"}
    ref = next(t for t in g["tiers"] if t["name"] == c["name"])
    refs = sorted({x for e in ref["es"] for x in e[:-1]})
    md = c["maxdiff"]
    gaps_small = any(y - x < md for x, y in zip(refs, refs[1:]))
    import props.C14 as C14
    if r[0] == "err":
        if not refs:
            return None  # an empty reference is an error case (any exception)
        if not r[2]:
            return Failure(dict(sig, clause="praatio-error", exc=r[1]), f"align raised built-in {r[1]}")
        if gaps_small or r[1] == "TextgridStateError":
            return None  # the spacing guard, or a collapse/crossing detected by the constructor
        return Failure(dict(sig, clause="no-error", exc=r[1]), f"align raised {r[1]}")
    res = r[1]
    if [t["name"] for t in res["tiers"]] != [t["name"] for t in g["tiers"]]:
        return Failure(dict(sig, clause="names-order"), "names/order changed")
    for t0, t1 in zip(g["tiers"], res["tiers"]):
        if t0["name"] == c["name"]:
            if T.norm(t0) != t1:
                return Failure(dict(sig, clause="reference-untouched"), "reference tier changed")
            continue
        if not refs:
            continue
        sub = {"op": ("i" if t0["k"] == "I" else "p") + "dejitter", "tier": t0, "ref": ref, "maxdiff": md}
        f = C14.oracle(sub, ("ok", t1))
        if f is not None:
            return Failure(dict(sig, clause="tier-dejittered", sub=f.signature.get("clause")), f"tier {t0['name']!r}: {f.message}")
    return None


# ---------------------------------------------------------------------------------------------
# generators
# ---------------------------------------------------------------------------------------------
NAMES = ["w", "p", "x", "y"]


def gen_tg(rnd, domain="dec", ntiers=None, valid=True, names=None, hi=10.0, nmax=4):
    n = rnd.randint(1, 3) if ntiers is None else ntiers
    names = list(names or NAMES)
    rnd.shuffle(names)
    tiers = []
    for i in range(n):
        if rnd.random() < 0.7:
            t = T.gen_itier(rnd, domain, nmax=nmax, name=names[i], hi=hi, lo_choice="zero")
        else:
            t = T.gen_ptier(rnd, domain, nmax=nmax, name=names[i], hi=hi)
        if valid:
            t["lo"], t["hi"] = 0.0, hi
        tiers.append(t)
    lo = min([t["lo"] for t in tiers] + [0.0])
    top = max([t["hi"] for t in tiers] + [hi])
    return {"lo": lo, "hi": top, "tiers": tiers}


def shrink_tg(c):
    g = c["tg"]
    for i in range(len(g["tiers"])):
        if len(g["tiers"]) > 1:
            yield dict(c, tg=dict(g, tiers=g["tiers"][:i] + g["tiers"][i + 1:]))
    for i, t in enumerate(g["tiers"]):
        for s in T.shrink_spec(t):
            yield dict(c, tg=dict(g, tiers=g["tiers"][:i] + [s] + g["tiers"][i + 1:]))
