"""Living-object histories (round 3 of the seeded changes: every "caching tweak" was invisible to step-wise cases).

The step-wise cases of C05-C15 rebuild the receiver from its observable state before every call, which is what ties
them to the stateless model - and what hides anything an object remembers between calls (a cached index, a cached
`timestamps`, an entry list shared with a copy).  A living case keeps ONE set of real objects alive through a short
history of calls:

    {"op": "living", "objs": {"tier": spec[, "other": spec][, "ref": spec]},
     "steps": [{...a tierops step without its tier specs..., "on": "tier"|"other"|"ref", "judge": bool}, ...]}

impl:   before each step the observable state of every living object is read (T.snap); the step is run on the living
        objects AND on fresh objects built from that observable state.
oracle: (1) the property's own step oracle judges the LIVING result against the observable state before the step
        (steps with judge=True, i.e. operations the property speaks about);  (2) the two results must be identical:
        every clause of C05-C15 defines the result of an operation as a function of the annotation (names, entries,
        spans) - the model is such a function and the specification theorems determine its value - so two different
        results for one observable state cannot both satisfy the property.  The fresh result is the one the step-wise
        cases tie to the model.
The model is not run on living cases (encode -> skip): each step's fresh twin is an ordinary step-wise case.
"""
import tierops
import tiers as T
from framework import Failure

MUT = {"I": ("iinsert", "idelete"), "P": ("pinsert", "pdelete")}
SPEC_KEYS = ("tier", "other", "ref")


def is_living(c):
    return c.get("op") == "living"


def _canon(r):
    if r[0] == "ok":
        return ("ok", r[1])
    return ("err", r[1], r[3] if len(r) > 3 else None)


def impl(c):
    live = {k: T.build(v) for k, v in c["objs"].items()}
    out = []
    for s in c["steps"]:
        pre = {k: T.snap(o) for k, o in live.items()}
        on = s.get("on", "tier")
        step = {k: v for k, v in s.items() if k not in ("on", "judge", "adopt")}
        if on == "tier":
            for k in SPEC_KEYS:
                if k in pre:
                    step[k] = pre[k]
            objs = dict(live)
        else:   # a mutation of an argument object (the reference tier of dejitter, the operand of a set operation)
            step["tier"] = pre[on]
            objs = {"tier": live[on]}
        try:
            for k in SPEC_KEYS:
                if k in step:
                    T.build(step[k])
        except Exception as e:      # the observable state is not something the constructor returns or accepts: the living
            out.append((step, None, ("illformed", type(e).__name__, str(e)[:200]), None))   # object is ill-formed; the history stops
            break
        fresh = tierops.impl(dict(step))
        r = tierops.impl(dict(step), objs)
        post = {k: T.snap(o) for k, o in live.items()}
        out.append((step, r, fresh, (on, pre, post)))
        if s.get("adopt") and r[0] == "ok" and "result" in objs and hasattr(objs["result"], "entries"):
            live["tier"] = objs["result"]      # go on with the returned copy (it may share state with its source)
    return ("living", out)


def oracle(prop_oracle, c, r, judge_ops=None, illformed_fails=False, inside=None, unchanged=False):
    for i, (step, rl, rf, obs) in enumerate(r[1]):
        if rl is None:
            # judged where the property is about reachable tiers (C05: ILLFORMED_IS_FAILURE); elsewhere a history that left
            # the property's quantifier (well-formed tiers) simply ends
            if illformed_fails:
                return Failure({"clause": "living-object-ill-formed", "op": c["steps"][i - 1]["op"] if i else "build", "living": True},
                               f"after {[s['op'] for s in c['steps'][:i]]} on one object its observable state {step.get('tier')} is "
                               f"refused by its own constructor ({rf[1]}: {rf[2]})")
            return None
        where = f"step {i} ({step['op']}) of a history on living objects {[s['op'] for s in c['steps']]}"
        # inside(step): the step lies inside the property's quantifier (e.g. C15 speaks of getNonEntries "on a tier with
        # entries"; a history may empty the tier) - outside it only history-independence is demanded
        if c["steps"][i].get("judge") and (judge_ops is None or step["op"] in judge_ops) and (inside is None or inside(step)):
            f = prop_oracle(step, rl)
            if f is not None:
                return Failure(dict(f.signature, living=True), f"{where}: {f.message}")
        if unchanged:
            # C13 on living objects: a copy-returning operation, a query or a FAILED mutation leaves every living object
            # (receiver and arguments) observably as it was; a successful mutation changes its receiver only
            on, pre, post = obs
            mut = step["op"] in ("iinsert", "pinsert", "idelete", "pdelete")
            for k in pre:
                if pre[k] != post[k] and not (mut and rl[0] == "ok" and k == on):
                    return Failure({"clause": "living-object-changed", "op": step["op"], "living": True},
                                   f"{where}: the call {'failed and' if rl[0] == 'err' else 'returned and'} left the living object "
                                   f"'{k}' changed: {pre[k]} -> {post[k]}")
        if _canon(rl) != _canon(rf):
            return Failure({"clause": "history-dependence", "op": step["op"], "living": True},
                           f"{where}: on the object with a past the call gave {_short(rl)}, on a fresh object with the same "
                           f"name, entries and span {_short(rf)}")
    return None


def _short(r):
    s = repr(_canon(r))
    return s if len(s) < 300 else s[:300] + "…"


def render(c, r, enc):
    return "ok skip"


def encode(c, enc):
    return "skip"


def tags(c, r):
    out = {"living"}
    for step, rl, rf, _ in r[1]:
        if rl is not None:
            out.add("living:" + step["op"] + (":err" if rl[0] == "err" else ""))
    return out


def nontrivial(c, r):
    return any(x[1] is not None and x[1][0] == "ok" for x in r[1])


def shrink(c):
    """drop steps from the end / from the front (the objects stay)"""
    n = len(c["steps"])
    for i in range(n):
        if n > 1:
            yield dict(c, steps=c["steps"][:i] + c["steps"][i + 1:])
    for k, v in c["objs"].items():
        for s in T.shrink_spec(v):
            yield dict(c, objs=dict(c["objs"], **{k: s}))


# ------------------------------------------------------------------------------------------------------------
# generation
# ------------------------------------------------------------------------------------------------------------
def _mutation(rnd, spec, on, domain):
    """a deleteEntry of a present entry or an insertEntry (any collision mode), as a step without specs"""
    from props import C11
    ins, dele = MUT[spec["k"]]
    if spec["es"] and rnd.random() < 0.5:
        return {"op": dele, "entry": list(rnd.choice(spec["es"])), "on": on}
    return {"op": ins, "entry": C11.gen_entry(rnd, spec, domain), "mode": rnd.choice(["error", "replace", "merge"]),
            "report": "silence", "on": on}


def sandwich(rnd, c, grow=0.35):
    """op ; mutation of one of the objects ; op again [; mutation ; op] - from one step-wise case of the property.
    The mutations are drawn for the state the generator knows (the start specs); on the living objects they may collide,
    miss or fail - all of which is fine: failing mutations must leave no trace either."""
    if "tier" not in c or c["op"] in ("mkitier", "mkptier"):
        return None
    objs = {k: c[k] for k in SPEC_KEYS if k in c}
    domain = "grid64" if c.get("grid") else "dec"
    base = {k: v for k, v in c.items() if k not in SPEC_KEYS and k not in ("grid", "hist", "step")}
    steps = [dict(base, judge=True)]
    while True:
        on = rnd.choice(sorted(objs))
        steps.append(_mutation(rnd, objs[on], on, domain))
        steps.append(dict(base, judge=True))
        if rnd.random() > grow or len(steps) >= 7:
            break
    if rnd.random() < 0.3 and c["op"] not in ("iinsert", "pinsert", "idelete", "pdelete"):
        steps[0]["adopt"] = True      # continue on the COPY the first call returned, then mutate that copy...
        steps.append({"op": "inew" if c["tier"]["k"] == "I" else "pnew", "judge": False})
    return {"op": "living", "objs": objs, "steps": steps, "grid": False}


def from_history(cases):
    """consecutive step-wise cases of one generated history (each step's tier is the previous step's result) -> one living
    case; a break in the chain (the generator rebuilt the tier) starts a new living case"""
    cur = None
    for c in cases:
        if cur is not None and c.get("hist") == cur["_h"] and c["tier"] == cur["_next"]:
            cur["steps"].append(_strip(c))
        else:
            if cur is not None and len(cur["steps"]) > 1:
                yield _done(cur)
            cur = {"op": "living", "objs": {"tier": c["tier"]}, "steps": [_strip(c)], "grid": False, "_h": c.get("hist")}
        r = tierops.impl(dict(c))
        cur["_next"] = r[1] if r[0] == "ok" else (r[3] if len(r) > 3 else c["tier"])
    if cur is not None and len(cur["steps"]) > 1:
        yield _done(cur)


def _strip(c):
    return dict({k: v for k, v in c.items() if k not in SPEC_KEYS and k not in ("grid", "hist", "step")}, judge=True)


def _done(cur):
    return {k: v for k, v in cur.items() if not k.startswith("_")}


def install(g, judge_ops=None, rate=0.12, cap=1500, cap_thorough=12000, illformed_fails=False, only_ops=None, inside=None, unchanged=False):
    """wrap a property module's encode/impl/render/oracle/tags/nontrivial/wants_x/shrink/gen so that living cases built
    from its own generated step-wise cases ride along (g = the module's globals())"""
    o_enc, o_impl, o_render, o_oracle = g["encode"], g["impl"], g["render"], g["oracle"]
    o_tags, o_nt, o_wx, o_gen = g["tags"], g["nontrivial"], g["wants_x"], g["gen"]
    o_shrink = g.get("shrink")
    g["RULE"] = g.get("RULE", "") + (" + histories on living objects (harness/living.py): about one in %d of the tier-level cases is also run as "
                                     "op ; insertEntry/deleteEntry on one of the objects ; op again [; ...] on ONE set of real objects; every step "
                                     "is judged by the oracle on the living result and compared with the same call on fresh objects of the same "
                                     "observable state%s" % (round(1 / rate), "; every living object must be unchanged by non-mutating and failed calls" if unchanged else ""))
    g["encode"] = lambda c, enc: encode(c, enc) if is_living(c) else o_enc(c, enc)
    g["impl"] = lambda c, *a: impl(c) if is_living(c) else o_impl(c, *a)
    g["render"] = lambda c, r, enc: render(c, r, enc) if is_living(c) else o_render(c, r, enc)
    g["oracle"] = lambda c, r: oracle(o_oracle, c, r, judge_ops, illformed_fails, inside, unchanged) if is_living(c) else o_oracle(c, r)
    g["tags"] = lambda c, r: tags(c, r) if is_living(c) else o_tags(c, r)
    g["nontrivial"] = lambda c, r: nontrivial(c, r) if is_living(c) else o_nt(c, r)
    g["wants_x"] = lambda c: False if is_living(c) else o_wx(c)
    if o_shrink is not None:
        g["shrink"] = lambda c: shrink(c) if is_living(c) else o_shrink(c)

    def gen(rnd, tier):
        import random
        lr = random.Random(rnd.random())      # own stream for the living cases
        n, limit = 0, (cap_thorough if tier == "thorough" else cap)
        for c in o_gen(rnd, tier):
            yield c
            if n < limit and isinstance(c, dict) and "tier" in c and not str(c.get("op", "")).startswith("tg_") and (only_ops is None or c.get("op") in only_ops) and lr.random() < rate:
                lc = sandwich(lr, c)
                if lc is not None:
                    n += 1
                    yield lc
    g["gen"] = gen


# ------------------------------------------------------------------------------------------------------------
# the same for Textgrid objects (C12): a random walk of mutators on ONE living Textgrid
#     {"op": "tg_living", "tg": spec, "steps": [{...a tgops step without "tg"...}, ...]}
# ------------------------------------------------------------------------------------------------------------
def is_tg_living(c):
    return c.get("op") == "tg_living"


def impl_tg(c):
    import tgops
    g = tgops.build(c["tg"])
    out = []
    for s in c["steps"]:
        pre = tgops.snap(g)
        step = dict({k: v for k, v in s.items() if k != "judge"}, tg=pre)
        try:
            tgops.build(pre)
        except Exception as e:  # noqa: BLE001
            out.append((step, None, ("illformed", type(e).__name__, str(e)[:200])))
            break
        fresh = tgops.impl(dict(step))
        r = tgops.impl(dict(step), {"tg": g})
        out.append((step, r, fresh))
    return ("living", out)


def oracle_tg(prop_oracle, c, r):
    for i, (step, rl, rf) in enumerate(r[1]):
        where = f"step {i} ({step['op']}) of a history on one living Textgrid {[s['op'] for s in c['steps']]}"
        if rl is None:
            return Failure({"clause": "living-object-ill-formed", "op": c["steps"][i - 1]["op"] if i else "build", "living": True},
                           f"{where}: the textgrid's observable state {step['tg']} cannot be rebuilt through the public API ({rf[1]}: {rf[2]})")
        if c["steps"][i].get("judge", True):
            f = prop_oracle(step, rl)
            if f is not None:
                return Failure(dict(f.signature, living=True), f"{where}: {f.message}")
        if rl[:2] != rf[:2] or (rl[0] == "err" and rl[-1] != rf[-1]):
            return Failure({"clause": "history-dependence", "op": step["op"], "living": True},
                           f"{where}: on the object with a past {_short(rl)}, on a fresh textgrid with the same tiers {_short(rf)}")
    return None


def tg_walks(rnd, all_ops, n, maxlen):
    import tgops
    for _ in range(n):
        start = {"lo": None, "hi": None, "tiers": []}
        st, steps = start, []
        for _ in range(rnd.randint(2, maxlen)):
            ops = list(all_ops(st))
            # favour operations that succeed (most index / name combinations are rejected)
            kind = rnd.choice(sorted({o["op"] for o in ops}))       # each kind of mutator equally often
            ops = [o for o in ops if o["op"] == kind]
            c = rnd.choice(ops)
            if c.get("anyerr") and rnd.random() < 0.7:
                c = rnd.choice(ops)
            steps.append({k: v for k, v in c.items() if k not in ("tg", "grid", "depth")})
            r = tgops.impl(dict(c))
            if r[0] == "ok":
                st = r[1]
            if rnd.random() < 0.2:
                steps.append({"op": "tg_validate"})
        yield {"op": "tg_living", "tg": start, "steps": steps, "grid": False}


def install_tg(g, all_ops, n=600, n_thorough=6000, maxlen=8):
    o_enc, o_impl, o_render, o_oracle = g["encode"], g["impl"], g["render"], g["oracle"]
    o_tags, o_nt, o_wx, o_gen, o_shrink = g["tags"], g["nontrivial"], g["wants_x"], g["gen"], g.get("shrink")
    g["RULE"] = g.get("RULE", "") + (" + %d random walks (thorough %d) of addTier/removeTier/renameTier/replaceTier/validate on ONE living "
                                     "Textgrid (harness/living.py), every step judged and compared with the same call on a fresh textgrid" % (n, n_thorough))
    g["encode"] = lambda c, enc: "skip" if is_tg_living(c) else o_enc(c, enc)
    g["impl"] = lambda c, *a: impl_tg(c) if is_tg_living(c) else o_impl(c, *a)
    g["render"] = lambda c, r, enc: "ok skip" if is_tg_living(c) else o_render(c, r, enc)
    g["oracle"] = lambda c, r: oracle_tg(o_oracle, c, r) if is_tg_living(c) else o_oracle(c, r)
    g["tags"] = lambda c, r: ({"living"} | {"living:" + s["op"] for s, _, _ in r[1]}) if is_tg_living(c) else o_tags(c, r)
    g["nontrivial"] = lambda c, r: True if is_tg_living(c) else o_nt(c, r)
    g["wants_x"] = lambda c: False if is_tg_living(c) else o_wx(c)
    if o_shrink is not None:
        def shr(c):
            if not is_tg_living(c):
                yield from o_shrink(c)
                return
            for i in range(len(c["steps"])):
                if len(c["steps"]) > 1:
                    yield dict(c, steps=c["steps"][:i] + c["steps"][i + 1:])
        g["shrink"] = shr

    def gen(rnd, tier):
        import random
        lr = random.Random(rnd.random())
        yield from o_gen(rnd, tier)
        yield from tg_walks(lr, all_ops, n_thorough if tier == "thorough" else n, maxlen)
    g["gen"] = gen
