"""C20 — numeric series helpers match their textbook definitions.

Model cases (compared with the Lean driver, F = bit-exact binary64, X = exact on the dyadic grid):
  stepfilt  my_math._stepFilter with a named filter function (median = my_math.medianFilter)
  pitch     pitch_and_intensity.getPitchMeasures: max / min / range of the processed list
  detect    pitch_and_intensity.detectPitchErrors: times and ratios
  load      pitch_and_intensity.loadTimeSeriesData over a real temp file
Oracle-only cases (`nomodel`: anything needing division / sqrt / statistics is not modelled in Lean):
  filter_ts, znorm, znormspk, znormwin, rms, and the mean / variance / std components of `pitch`.
"""
import atexit
import contextlib
import functools
import io
import itertools
import math
import operator
import os
import shutil
import tempfile
from fractions import Fraction

from framework import Failure
from proto import on_grid
from praatio import pitch_and_intensity as PI
from praatio.utilities import my_math
import piops as PIO   # generatePIMeasures (DESIGN 11.8)

RULE = ("stepfilt/median: every series over {1,2,3} of length 0..5 (quick; {1,2,3,4} and 0..6 in thorough) x windows 0..8 x "
        "padding, plus sampled series of length 6..15 with ties and constant runs, random ints, 2-digit decimals and k/64 "
        "floats (some with -0.0); stepfilt with first/last/center/max/min/sum on distinct-valued series of every length "
        "0..15 x windows 0..8 x padding; filterTimeSeriesData rows x column index; znormalizeData / znormalizeSpeakerData "
        "(with and without zero filtering) / znormWindowFilter / rms on random series; getPitchMeasures on tracks with "
        "zeros, sub-unit values, ties x {no filter, windows 0..8} x zero removal; detectPitchErrors on tracks built from "
        "x2, x0.5, exactly-at-threshold, near-threshold and small steps (with and without zero samples) x thresholds in "
        "(0,1] plus a few outside; loadTimeSeriesData on real temp files: 0..8 rows x 1..4 columns, with / without / "
        "malformed header, blank lines, markers in any column, undefinedValue in {None, 0, 0.0, -1.0, 99.5, 1e9}. "
        "non-trivial = the filter changes the series / a row is dropped or substituted / a jump fires / aggregates of a "
        "non-empty list")
TRUSTED = ["oracle: textbook definitions computed independently in Python with exact Fractions (harness/props/C20.py:oracle); "
           "math.sqrt and float division of CPython",
           "mean / stdev / variance / sqrt / rms / z-normalisation are checked by the oracle only (no Lean model, no theorem)",
           "loadTimeSeriesData: str.splitlines / str.split(',') / float() are parameters of the model; the harness sends the "
           "fields together with float(field)"]
ASSUMPTIONS = ["finite numbers, no NaN", "z-normalisation is asked only of series / windows with at least two distinct values",
               "detectPitchErrors: a pair whose cutoff is within 1e-12 relative of the previous pitch may go either way in the "
               "oracle (float rounding of p*thr, p/thr); the F run of the model mirrors the float arithmetic exactly",
               "a listing row is well-formed when every field is a Python float literal or the marker --undefined--; the "
               "oracle is silent on malformed listings (the model still has to agree on the exception class)"]

case_json = lambda c: c
case_from_json = lambda j: j

PYF = {
    "first": lambda w: w[0],
    "last": lambda w: w[-1],
    "center": lambda w: w[len(w) // 2],
    "max": max,
    "min": min,
    "sum": lambda w: functools.reduce(operator.add, w, 0.0),   # plain left fold (builtin sum() compensates since 3.12)
}
MARK = "--undefined--"

_TMP = None


def tmpdir():
    global _TMP
    if _TMP is None:
        _TMP = tempfile.mkdtemp(prefix="praatio-verif.")
        atexit.register(shutil.rmtree, _TMP, True)
    return _TMP


def call(fn):
    try:
        with contextlib.redirect_stdout(io.StringIO()):
            return ("ok", fn())
    except Exception as e:  # noqa: BLE001 - the class is the observable
        return ("err", type(e).__name__)


# ------------------------------------------------------------------------------------------------
# protocol
# ------------------------------------------------------------------------------------------------
def wants_x(c):
    if PIO.is_pi(c):
        return PIO.wants_x(c)
    if c.get("nomodel") or not c.get("grid", False):
        return False
    if c["op"] == "detect":
        return detect_exact(c)
    return True


def detect_exact(c):
    """every product / quotient the code computes is exact in binary64, so the exact run must agree"""
    thr = c["thr"]
    if not on_grid(*[x for row in c["pl"] for x in row]):
        return False
    ft = Fraction(thr)
    for _, p in c["pl"][1:]:
        if Fraction(p) * ft != Fraction(p * thr):
            return False
        if thr != 0 and Fraction(p) / ft != Fraction(p / thr):
            return False
    return True


def enc_list(enc, xs):
    return " ".join([str(len(xs))] + [enc.time(x) for x in xs])


def parse_field(s):
    try:
        v = float(s)
    except ValueError:
        return None
    return v if math.isfinite(v) else None


def encode(c, enc):
    op = c["op"]
    if PIO.is_pi(c):
        return PIO.encode(c, enc)
    if op == "znormwin":
        # model of znormWindowFilter with its inner znormalizeCenterVal (PIMeasures.lean, DESIGN 11.8): WHETHER and WHAT it
        # raises and the length of the result; the values need `statistics` and stay with the oracle
        return f"znormwin_shape {enc_list(enc, c['xs'])} {c['w']} {enc.b(c['pad'])} {enc.b(c['fz'])}"
    if c.get("nomodel"):
        return "skip"
    if op == "stepfilt":
        return f"stepfilt {c['f']} {enc_list(enc, c['xs'])} {c['w']} {enc.b(c['pad'])}"
    if op == "pitch":
        w = "N" if c["w"] is None else str(c["w"])
        return f"pitch {enc_list(enc, c['xs'])} {w} {enc.b(c['fz'])}"
    if op == "detect":
        pl = c["pl"]
        if enc.mode == "F":
            body = " ".join(f"{enc.time(t)} {enc.time(p)}" for t, p in pl)
            return f"detectF {enc.time(c['thr'])} {len(pl)} {body}".rstrip()
        ft = Fraction(c["thr"])
        body = " ".join(f"{enc.time(t)} {enc.time(p)}" for t, p in pl)
        return f"detectX {ft.numerator} {ft.denominator} {len(pl)} {body}".rstrip()
    if op == "load":
        parts = ["load", enc.otime(c["undef"]), str(len(c["rows"]))]
        for row in c["rows"]:
            parts.append(str(len(row)))
            for f in row:
                parts.append(enc.s(f))
                v = parse_field(f)
                parts.append("N" if v is None else enc.time(v))
        return " ".join(parts)
    raise KeyError(op)


def listing_text(c):
    lines = [",".join(r) for r in c["rows"]]
    for pos in sorted(c.get("blank", []), reverse=True):
        lines.insert(min(pos, len(lines)), "")
    text = c.get("nl", "\n").join(lines)
    if c.get("trail", True) and lines:
        text += c.get("nl", "\n")
    return text


_counter = itertools.count()


def impl(c):
    op = c["op"]
    if PIO.is_pi(c):
        return PIO.impl(c)
    if op == "stepfilt":
        xs = list(c["xs"])
        if c["f"] == "median":
            r = call(lambda: my_math.medianFilter(xs, c["w"], c["pad"]))
        else:
            r = call(lambda: my_math._stepFilter(PYF[c["f"]], xs, c["w"], c["pad"]))
        return r + (xs == list(c["xs"]),)
    if op == "filter_ts":
        rows = [tuple(r) for r in c["rows"]]
        return call(lambda: my_math.filterTimeSeriesData(my_math.medianFilter, rows, c["w"], c["index"], c["pad"]))
    if op == "znorm":
        return call(lambda: my_math.znormalizeData(list(c["xs"])))
    if op == "znormspk":
        rows = [tuple(r) for r in c["rows"]]
        return call(lambda: my_math.znormalizeSpeakerData(rows, c["index"], c["fz"]))
    if op == "znormwin":
        return call(lambda: my_math.znormWindowFilter(list(c["xs"]), c["w"], c["pad"], c["fz"]))
    if op == "rms":
        return call(lambda: my_math.rms(list(c["xs"])))
    if op == "pitch":
        return call(lambda: PI.getPitchMeasures(list(c["xs"]), None, None, c["w"], c["fz"]))
    if op == "detect":
        pl = [tuple(r) for r in c["pl"]]

        def run():
            pts, tg = PI.detectPitchErrors(pl, c["thr"])
            assert tg is None
            return [(p.time, float(p.label)) for p in pts]
        return call(run)
    if op == "load":
        # the path has a past: another listing stood there and was loaded with the same arguments; a listing regenerated
        # at its old path (what extractPitch(forceRegenerate=True) does) must be read as it now stands
        # (round 3, C20-v1: a per-path cache of parsed listings).  Self-contained, so a replay shows it.
        fn = os.path.join(tmpdir(), f"listing{next(_counter)}.txt")
        with io.open(fn, "w", encoding="utf-8", newline="") as fd:
            fd.write("time,f0,intensity\n0.25,111.5,61.25\n0.5,112.5,62.25\n")
        call(lambda: PI.loadTimeSeriesData(fn, c["undef"]))
        with io.open(fn, "w", encoding="utf-8", newline="") as fd:
            fd.write(listing_text(c))
        # ... and the listing itself has just been loaded with ANOTHER undefinedValue (round 4, C20-mutH: a cache keyed by
        # path and file signature that forgets the argument)
        call(lambda: PI.loadTimeSeriesData(fn, 0.5 if c["undef"] is None else None))
        try:
            return call(lambda: [list(row) for row in PI.loadTimeSeriesData(fn, c["undef"])])
        finally:
            os.remove(fn)
    raise KeyError(op)


def render(c, r, enc):
    op = c["op"]
    if PIO.is_pi(c):
        return PIO.render(c, r, enc)
    if op == "znormwin":
        return "err " + r[1] if r[0] == "err" else f"ok {len(r[1])}"
    if c.get("nomodel"):
        return "ok skip"
    if r[0] == "err":
        return "err " + r[1]
    v = r[1]
    if op == "stepfilt":
        return "ok " + enc_list(enc, v)
    if op == "pitch":
        return f"ok {enc.time(v[1])} {enc.time(v[2])} {enc.time(v[3])}"
    if op == "detect":
        if enc.mode == "F":
            return " ".join(["ok", str(len(v))] + [f"{enc.time(t)} {enc.time(q)}" for t, q in v])
        return " ".join(["ok", str(len(v))] + [enc.time(t) for t, _ in v])
    if op == "load":
        return " ".join(["ok", str(len(v))] + [enc_list(enc, row) for row in v])
    raise KeyError(op)


# ------------------------------------------------------------------------------------------------
# oracle: textbook definitions
# ------------------------------------------------------------------------------------------------
def close(a, b, rel=1e-9, abs_=1e-9):
    return abs(a - b) <= max(rel * max(abs(a), abs(b)), abs_)


def windows(xs, w, pad):
    """for every position: the clamped window, or None when the element is to be left unchanged"""
    n, off = len(xs), w // 2
    out = []
    for i in range(n):
        if pad or (off <= i and i + off < n):
            out.append([xs[min(max(i + k, 0), n - 1)] for k in range(-off, off + 1)])
        else:
            out.append(None)
    return out


def step_oracle(f, xs, w, pad):
    return [x if win is None else f(win) for x, win in zip(xs, windows(xs, w, pad))]


def median_mid(win):
    return sorted(win)[len(win) // 2]


def fmean(xs):
    return sum(Fraction(x) for x in xs) / len(xs)


def znorm_ref(xs):
    """(mean, sample standard deviation) as floats, computed exactly up to the final sqrt; None if undefined"""
    if len(xs) < 2:
        return None
    m = fmean(xs)
    var = sum((Fraction(x) - m) ** 2 for x in xs) / (len(xs) - 1)
    if var == 0:
        return None
    return m, math.sqrt(var)


def check_znorm_props(sig, xs, zs, what):
    """mean 0, sample stdev 1, length, rank order"""
    if len(zs) != len(xs):
        return Failure(dict(sig, clause="length"), f"{what}: {len(zs)} values for {len(xs)}")
    ref = znorm_ref(zs)
    if ref is None or not close(float(ref[0]), 0.0) or not close(ref[1], 1.0):
        return Failure(dict(sig, clause="mean0-sd1"), f"{what}: mean {ref and float(ref[0])}, sample stdev {ref and ref[1]}")
    scale = max(abs(x) for x in xs) or 1.0
    for i in range(len(xs)):
        for j in range(len(xs)):
            if xs[i] == xs[j] and zs[i] != zs[j]:
                return Failure(dict(sig, clause="rank-order"), f"{what}: equal inputs {xs[i]} map to {zs[i]} and {zs[j]}")
            if xs[i] < xs[j] and (zs[i] > zs[j] or (xs[j] - xs[i] > 1e-9 * scale and not zs[i] < zs[j])):
                return Failure(dict(sig, clause="rank-order"), f"{what}: order of {xs[i]} < {xs[j]} not kept: {zs[i]}, {zs[j]}")
    return None


def load_expected(c):
    """(expected rows, None) for a well-formed listing, (None, reason) where the property says nothing"""
    rows = c["rows"]
    if not rows:
        return [], None
    body = rows[1:] if rows[0][0] == "time" else rows
    out = []
    for row in body:
        t = parse_field(row[0])
        if t is None:
            return None, "malformed"
        vals, skip = [t], False
        for f in row[1:]:
            if f.strip() == MARK:
                if c["undef"] is None:
                    skip = True
                else:
                    vals.append(c["undef"])
            else:
                v = parse_field(f)
                if v is None:
                    return None, "malformed"
                vals.append(v)
        if not skip:
            out.append(vals)
    return out, None


def oracle(c, r):
    op = c["op"]
    if PIO.is_pi(c):
        return PIO.oracle(c, r)
    sig = {"op": op}
    if op == "stepfilt":
        sig["f"] = c["f"]
        if r[0] == "err":
            return Failure(dict(sig, clause="no-error", exc=r[1]), f"_stepFilter raised {r[1]}")
        if not r[2]:
            return Failure(dict(sig, clause="input-unchanged"), "the input list was modified")
        f = median_mid if c["f"] == "median" else PYF[c["f"]]
        want = step_oracle(f, c["xs"], c["w"], c["pad"])
        if len(r[1]) != len(c["xs"]):
            return Failure(dict(sig, clause="length"), f"{len(r[1])} values for {len(c['xs'])}")
        if r[1] != want or [math.copysign(1, x) for x in r[1]] != [math.copysign(1, x) for x in want]:
            i = next((k for k in range(len(want)) if r[1][k] != want[k]), 0)
            return Failure(dict(sig, clause="window", pad=c["pad"]), f"element {i}: got {r[1][i]}, expected {want[i]} (window {c['w']}, padding {c['pad']})")
        return None
    if op == "filter_ts":
        if r[0] == "err":
            return Failure(dict(sig, clause="no-error", exc=r[1]), f"filterTimeSeriesData raised {r[1]}")
        col = [row[c["index"]] for row in c["rows"]]
        want = step_oracle(median_mid, col, c["w"], c["pad"])
        exp = [list(row[:c["index"]]) + [v] + list(row[c["index"] + 1:]) for row, v in zip(c["rows"], want)]
        if [list(x) for x in r[1]] != exp:
            return Failure(dict(sig, clause="rows"), f"rows {r[1]} expected {exp}")
        return None
    if op == "znorm":
        ref = znorm_ref(c["xs"])
        if ref is None:
            return None  # undefined: fewer than two distinct values
        if r[0] == "err":
            return Failure(dict(sig, clause="no-error", exc=r[1]), f"znormalizeData raised {r[1]}")
        f = check_znorm_props(sig, c["xs"], r[1], "znormalizeData")
        if f:
            return f
        m, sd = ref
        for x, z in zip(c["xs"], r[1]):
            if not close(z, float((Fraction(x) - m)) / sd):
                return Failure(dict(sig, clause="formula"), f"z({x}) = {z}, expected {(x - float(m)) / sd}")
        return None
    if op == "znormspk":
        sig["fz"] = c["fz"]
        col = [row[c["index"]] for row in c["rows"]]
        used = [x for x in col if x != 0] if c["fz"] else col
        if znorm_ref(used) is None:
            return None
        if r[0] == "err":
            return Failure(dict(sig, clause="no-error", exc=r[1]), f"znormalizeSpeakerData raised {r[1]}")
        if len(r[1]) != len(c["rows"]):
            return Failure(dict(sig, clause="length"), "row count changed")
        for row, out in zip(c["rows"], r[1]):
            if list(out[:c["index"]]) != list(row[:c["index"]]) or list(out[c["index"] + 1:]) != list(row[c["index"] + 1:]):
                return Failure(dict(sig, clause="other-columns"), f"row {row} became {out}")
        zs = [out[c["index"]] for out in r[1]]
        if c["fz"]:
            if any(z != 0 for x, z in zip(col, zs) if x == 0):
                return Failure(dict(sig, clause="zeros-stay-zero"), f"zero inputs map to {zs}")
            zs = [z for x, z in zip(col, zs) if x != 0]
            f = check_znorm_props(dict(sig, cause="zeros-in-statistics" if 0 in col else "other"), used, zs,
                                  "znormalizeSpeakerData(filterZeroValues=True), non-zero values")
        else:
            f = check_znorm_props(sig, used, zs, "znormalizeSpeakerData")
        return f
    if op == "znormwin":
        sig["fz"] = c["fz"]
        xs = c["xs"]
        base = [x for x in xs if x > 0] if c["fz"] else list(xs)
        wins = windows(base, c["w"], c["pad"])
        if any(w is not None and znorm_ref(w) is None for w in wins):
            return None  # some window has no spread: z-normalisation undefined there
        if r[0] == "err":
            return Failure(dict(sig, clause="no-error", exc=r[1]), f"znormWindowFilter raised {r[1]}")
        off = c["w"] // 2
        zs = []
        for x, w in zip(base, wins):
            if w is None:
                zs.append(x)
            else:
                m, sd = znorm_ref(w)
                zs.append(float(Fraction(w[off]) - m) / sd)
        if c["fz"]:
            it = iter(zs)
            zs = [next(it) if x > 0 else 0.0 for x in xs]
        if len(r[1]) != len(xs):
            return Failure(dict(sig, clause="length"), f"{len(r[1])} values for {len(xs)}")
        for i, (a, b) in enumerate(zip(r[1], zs)):
            if not close(a, b):
                return Failure(dict(sig, clause="window-znorm", pad=c["pad"]), f"element {i}: got {a}, expected {b}")
        return None
    if op == "rms":
        if not c["xs"]:
            return None
        if r[0] == "err":
            return Failure(dict(sig, clause="no-error", exc=r[1]), f"rms raised {r[1]}")
        want = math.sqrt(sum(Fraction(x) ** 2 for x in c["xs"]) / len(c["xs"]))
        if not close(r[1], want, 1e-12, 0.0):
            return Failure(dict(sig, clause="value"), f"rms {r[1]} expected {want}")
        return None
    if op == "pitch":
        if r[0] == "err":
            return Failure(dict(sig, clause="no-error", exc=r[1]), f"getPitchMeasures raised {r[1]}")

        def measures(iszero):
            l = list(c["xs"])
            if c["w"] is not None:
                l = step_oracle(median_mid, l, c["w"], True)
            if c["fz"]:
                l = [v for v in l if not iszero(v)]
            if not l:
                return (0.0,) * 6
            m = fmean(l)
            var = sum((Fraction(v) - m) ** 2 for v in l) / len(l)
            return (float(m), max(l), min(l), float(Fraction(max(l)) - Fraction(min(l))), float(var), math.sqrt(var))
        want = measures(lambda v: v == 0)
        if len(r[1]) == 6 and all(close(a, b, 1e-9, 1e-12) for a, b in zip(r[1], want)):
            return None
        alt = measures(lambda v: int(v) == 0)
        cause = "int-truncation" if all(close(a, b, 1e-9, 1e-12) for a, b in zip(r[1], alt)) else "other"
        return Failure(dict(sig, clause="measures", cause=cause),
                       f"measures {tuple(r[1])} expected {want} (median window {c['w']}, zero removal {c['fz']})")
    if op == "detect":
        thr = c["thr"]
        if not (0 < thr <= 1):
            return None
        ft = Fraction(thr)
        exp, amb = [], set()
        for i in range(1, len(c["pl"])):
            last, cur = Fraction(c["pl"][i - 1][1]), Fraction(c["pl"][i][1])
            lo, hi = cur * ft, cur / ft
            near = any(abs(last - b) <= Fraction(1, 10**12) * max(abs(last), abs(b)) and last != b for b in (lo, hi))
            fires = last <= lo or last >= hi
            if near:
                amb.add(i)
            if fires or near:
                exp.append((i, fires))
        must = [i for i, f in exp if f and i not in amb]
        zero_prev = {i for i in must if c["pl"][i - 1][1] == 0}
        if r[0] == "err":
            # after a zero sample the ratio p[i] / p[i-1] is undefined; the definition asks for a report or none, not an exception
            cause = "previous-pitch-zero" if zero_prev else "other"
            return Failure(dict(sig, clause="no-error", exc=r[1], cause=cause),
                           f"detectPitchErrors raised {r[1]}" + (" on a track with a zero sample" if zero_prev else ""))
        must = [i for i in must if i not in zero_prev]
        got_t = [t for t, _ in r[1]]
        index_of = {row[0]: i for i, row in enumerate(c["pl"])}   # generated times are strictly increasing
        got_idx = [index_of.get(t) for t in got_t]
        if None in got_idx or 0 in got_idx or got_idx != sorted(set(got_idx)):
            return Failure(dict(sig, clause="times"), f"reported times {got_t} are not an increasing selection of the track's times")
        for i in must:
            if i not in got_idx:
                return Failure(dict(sig, clause="missed-jump"), f"jump at index {i} ({c['pl'][i - 1][1]} -> {c['pl'][i][1]}, threshold {thr}) not reported")
        allowed = {i for i, _ in exp}
        for i in got_idx:
            if i not in allowed:
                return Failure(dict(sig, clause="spurious-jump"), f"index {i} ({c['pl'][i - 1][1]} -> {c['pl'][i][1]}, threshold {thr}) reported")
        for i, (_, q) in zip(got_idx, r[1]):
            if c["pl"][i - 1][1] == 0:
                continue
            want = c["pl"][i][1] / c["pl"][i - 1][1]
            if not close(q, want, 1e-12, 0.0):
                return Failure(dict(sig, clause="label"), f"label {q} at index {i}, expected {want}")
        return None
    if op == "load":
        want, why = load_expected(c)
        if want is None:
            return None
        if r[0] == "err":
            cause = "empty-listing" if not c["rows"] else "other"
            return Failure(dict(sig, clause="no-error", exc=r[1], cause=cause), f"loadTimeSeriesData raised {r[1]} on a well-formed listing")
        if r[1] != want or [[type(v) for v in row] for row in r[1]] != [[type(v) for v in row] for row in want]:
            return Failure(dict(sig, clause="rows", undef=c["undef"] is not None), f"rows {r[1]} expected {want}")
        if len(r[1]) > len(c["rows"]):
            return Failure(dict(sig, clause="row-count"), "more rows than lines")
        return None
    raise KeyError(op)


# ------------------------------------------------------------------------------------------------
# bookkeeping
# ------------------------------------------------------------------------------------------------
def tags(c, r):
    op = c["op"]
    if PIO.is_pi(c):
        return PIO.tags(c, r)
    out = [op, "model" if not c.get("nomodel") else "oracle-only"]
    if r[0] == "err":
        out.append(f"{op}:err:{r[1]}")
    if op == "stepfilt":
        out += [f"f:{c['f']}", f"pad:{c['pad']}", f"window:{c['w']}", "len:%s" % (len(c["xs"]) if len(c["xs"]) < 6 else "6+")]
        if r[0] == "ok":
            out.append("changed" if r[1] != c["xs"] else "unchanged")
            off, n = c["w"] // 2, len(c["xs"])
            if off >= n > 0:
                out.append("window-wider-than-series")
    elif op == "pitch":
        out += [f"pitch:median:{c['w'] is not None}", f"pitch:fz:{c['fz']}"]
    elif op == "detect" and r[0] == "ok":
        out.append("detect:fired" if r[1] else "detect:none")
    elif op == "load":
        out.append("load:undef:" + ("None" if c["undef"] is None else "given"))
        if c["rows"]:
            out.append("load:header" if c["rows"][0][0] == "time" else "load:noheader")
        if r[0] == "ok":
            body = len(c["rows"]) - (1 if c["rows"] and c["rows"][0][0] == "time" else 0)
            out.append("load:dropped-rows" if len(r[1]) < body else "load:all-rows")
    elif op in ("znormspk", "znormwin"):
        out.append(f"{op}:fz:{c['fz']}")
    return out


def nontrivial(c, r):
    op = c["op"]
    if PIO.is_pi(c):
        return PIO.nontrivial(c, r)
    if r[0] == "err":
        return True
    if op == "stepfilt":
        return len(c["xs"]) > 0 and c["w"] >= 2
    if op == "load":
        return len(c["rows"]) > 0
    if op == "detect":
        return len(c["pl"]) > 1
    if op in ("pitch", "rms", "znorm", "znormwin"):
        return len(c["xs"]) > 0
    return len(c.get("rows", [])) > 0


def shrink(c):
    if PIO.is_pi(c):
        for i in range(len(c["data"])):
            yield dict(c, data=c["data"][:i] + c["data"][i + 1:])
        return
    for key in ("xs", "pl", "rows"):
        if key in c:
            l = c[key]
            for i in range(len(l)):
                yield dict(c, **{key: l[:i] + l[i + 1:]}, blank=[])
    if c.get("w"):
        yield dict(c, w=c["w"] - 1)
        yield dict(c, w=c["w"] - 2) if c["w"] >= 2 else dict(c, w=0)
    if c.get("blank"):
        yield dict(c, blank=[])


def perturb(c, rnd):
    c2 = dict(c, grid=False)
    if "xs" in c and c["xs"]:
        xs = list(c["xs"])
        i = rnd.randrange(len(xs))
        xs[i] = rnd.choice(xs) if rnd.random() < 0.5 else xs[i] + rnd.choice([-1, 1, 0.5])
        c2["xs"] = xs
    if "w" in c and c["w"] is not None:
        c2["w"] = rnd.randint(0, 8)
    if "pad" in c:
        c2["pad"] = rnd.random() < 0.5
    if "thr" in c:
        c2["thr"] = rnd.choice([0.5, 0.7, 0.75, 1.0, round(rnd.uniform(0.05, 1), 2)])
    return c2


# ------------------------------------------------------------------------------------------------
# corpus and generators
# ------------------------------------------------------------------------------------------------
def corpus():
    yield from PIO.corpus()
    doc = [1, 1, 1, 9, 5, 2, 4, 7, 4, 5, 1, 5]
    yield {"op": "stepfilt", "f": "median", "xs": doc, "w": 5, "pad": False, "grid": True}   # docstring example
    yield {"op": "stepfilt", "f": "median", "xs": doc, "w": 5, "pad": True, "grid": True}
    yield {"op": "stepfilt", "f": "sum", "xs": [1, 2, 4], "w": 8, "pad": True, "grid": True}
    # regression cases of the repaired defects C20-1, C20-2, C20-4 and the witness of the open finding C20-3
    # (known_findings.json)
    yield {"op": "znormspk", "rows": [[0.0, 0.0, 1], [0.1, 100.0, 2], [0.2, 120.0, 3], [0.3, 0.0, 4], [0.4, 140.0, 5]],
           "index": 1, "fz": True, "nomodel": True}
    yield {"op": "pitch", "xs": [0.5, 100.0, 0, 200.0], "w": None, "fz": True, "grid": True}
    yield {"op": "detect", "pl": [[0.0, 0.0], [0.25, 96.0]], "thr": 0.75, "grid": True}
    yield {"op": "load", "rows": [], "undef": None, "blank": [], "grid": True}


def series(rnd, kind, n):
    if kind == "ties":
        alpha = rnd.choice([[1, 2, 3, 4], [1, 2], [5, 5, 5, 7], [1.5, 2.5, 2.5, 3.0], [0, 1, 100]])
        xs, v = [], rnd.choice(alpha)
        for _ in range(n):
            if rnd.random() < 0.45:  # constant runs
                v = rnd.choice(alpha)
            xs.append(v)
        return xs
    if kind == "int":
        return [rnd.randint(-20, 20) for _ in range(n)]
    if kind == "dec":
        return [round(rnd.uniform(-50, 250), 2) for _ in range(n)]
    if kind == "grid":
        return [rnd.randint(-640, 6400) / 64.0 for _ in range(n)]
    if kind == "mixed":
        return [rnd.choice([rnd.randint(0, 5), rnd.randint(0, 10) / 2.0]) for _ in range(n)]
    if kind == "negzero":
        return [rnd.choice([0.0, -0.0, 1.0, -1.0]) for _ in range(n)]
    raise KeyError(kind)


def is_grid(kind):
    return kind in ("ties", "int", "grid", "mixed")


def gen_stepfilt(rnd, tier):
    thorough = tier == "thorough"
    alpha = [1, 2, 3, 4] if thorough else [1, 2, 3]
    for n in range(0, 7 if thorough else 6):
        for xs in itertools.product(alpha, repeat=n):
            for w in range(9):
                for pad in (False, True):
                    yield {"op": "stepfilt", "f": "median", "xs": list(xs), "w": w, "pad": pad, "grid": True}
    # beyond the exhaustive slice: sampled series up to length 15
    for _ in range(20000 if thorough else 1800):
        kind = rnd.choice(["ties", "ties", "ties", "int", "dec", "grid", "mixed", "negzero"])
        n = rnd.randint(6, 15) if rnd.random() < 0.8 else rnd.randint(0, 5)
        yield {"op": "stepfilt", "f": "median", "xs": series(rnd, kind, n), "w": rnd.randint(0, 8), "pad": rnd.random() < 0.5,
               "grid": is_grid(kind)}
    # other filter functions: the window itself becomes visible (distinct values, sums of powers of two)
    for n in range(16):
        for base, fs in (([float(i) for i in range(n)], ("first", "last", "center", "max", "min")),
                         ([2 ** i for i in range(n)], ("first", "last", "sum"))):
            for w in range(9):
                for pad in (False, True):
                    for f in fs:
                        yield {"op": "stepfilt", "f": f, "xs": list(base), "w": w, "pad": pad, "grid": True}
    for _ in range(8000 if thorough else 700):
        kind = rnd.choice(["ties", "int", "dec", "grid", "negzero"])
        yield {"op": "stepfilt", "f": rnd.choice(sorted(PYF)), "xs": series(rnd, kind, rnd.randint(0, 15)), "w": rnd.randint(0, 8),
               "pad": rnd.random() < 0.5, "grid": is_grid(kind)}


def gen_stats(rnd, tier):
    k = 8 if tier == "thorough" else 1
    for _ in range(300 * k):
        n = rnd.randint(0, 10)
        rows = [[i * 0.01, rnd.choice([1, 2, 3, 5, 8]), "l%d" % i] for i in range(n)]
        yield {"op": "filter_ts", "rows": rows, "w": rnd.randint(0, 8), "index": 1, "pad": rnd.random() < 0.5, "nomodel": True}
    for _ in range(400 * k):
        kind = rnd.choice(["ties", "int", "dec", "grid", "mixed"])
        yield {"op": "znorm", "xs": series(rnd, kind, rnd.randint(0, 15)), "nomodel": True}
    for _ in range(400 * k):
        n = rnd.randint(2, 12)
        vals = [rnd.choice([0, 0.0, round(rnd.uniform(60, 300), 1), rnd.randint(60, 300), 100.0]) if rnd.random() < 0.8
                else round(rnd.uniform(60, 300), 1) for _ in range(n)]
        idx = rnd.choice([1, 2])
        rows = [([i * 0.01, vals[i], 55.5] if idx == 1 else [i * 0.01, "x", vals[i]]) for i in range(n)]
        yield {"op": "znormspk", "rows": rows, "index": idx, "fz": rnd.random() < 0.5, "nomodel": True}
    for _ in range(600 * k):
        n = rnd.randint(0, 15)
        fz = rnd.random() < 0.5
        xs = [rnd.choice([0.0, 0, round(rnd.uniform(50, 200), 1)]) if rnd.random() < 0.25 else round(rnd.uniform(50, 200), 1) for _ in range(n)]
        if not fz and rnd.random() < 0.5:
            xs = series(rnd, rnd.choice(["dec", "int", "ties"]), n)
        yield {"op": "znormwin", "xs": xs, "w": rnd.randint(2, 8) if rnd.random() < 0.9 else rnd.randint(0, 1), "pad": rnd.random() < 0.6, "fz": fz,
               "nomodel": True}
    for _ in range(300 * k):
        kind = rnd.choice(["ties", "int", "dec", "grid"])
        yield {"op": "rms", "xs": series(rnd, kind, rnd.randint(0, 15)), "nomodel": True}


def gen_pitch(rnd, tier):
    for _ in range(12000 if tier == "thorough" else 1500):
        n = rnd.randint(0, 15)
        dom = rnd.choice(["grid", "grid", "dec", "int"])
        xs = []
        for _ in range(n):
            u = rnd.random()
            if u < 0.2:
                xs.append(rnd.choice([0, 0.0]))
            elif u < 0.24:
                xs.append(rnd.choice([0.5, 0.25, -0.5, 0.75]))   # non-zero values inside (-1, 1): must survive zero removal (C20-2)
            elif dom == "grid":
                xs.append(rnd.choice([100.0, 120.5, 99.75, 200.0, 87.25, 100.0]))
            elif dom == "int":
                xs.append(rnd.randint(70, 300))
            else:
                xs.append(round(rnd.uniform(70, 300), 2))
        if dom == "dec" and rnd.random() < 0.2 and n:
            # a flat stretch, or a slow drift on a high baseline: spread tiny against the level, where a variance computed as
            # mean(x^2) - mean(x)^2 cancels catastrophically or goes negative (round 4, C20-mutG)
            v = rnd.choice([0.1, 199.7, 220.3, 87.3, round(rnd.uniform(70, 300), 1)])
            xs = [v] * n if rnd.random() < 0.6 else [1e4 + 0.01 * i for i in range(n)]
        yield {"op": "pitch", "xs": xs, "w": rnd.choice([None, None] + list(range(9))), "fz": rnd.random() < 0.6, "grid": dom != "dec"}


def gen_detect(rnd, tier):
    for _ in range(16000 if tier == "thorough" else 2000):
        grid = rnd.random() < 0.45
        n = rnd.randint(0, 12)
        if grid:
            thr = rnd.choice([0.5, 0.75, 0.25, 1.0, 0.5, 0.75])
            p = float(rnd.choice([96, 192, 144, 288, 48]))
        else:
            thr = rnd.choice([0.7, 0.75, 0.5, 1.0, 0.9, 0.1, round(rnd.uniform(0.05, 1.0), rnd.choice([1, 2, 3]))])
            p = rnd.choice([100.0, 220.0, 87.3, 150, 99])
        u = rnd.random()
        if u < 0.03:
            thr = rnd.choice([-0.5, 1.5, 0.0, 0, 1.0000001])
        zeros = rnd.random() < 0.15
        pl = []
        for i in range(n):
            t = i / 64.0 if grid else round(0.01 * i + 0.005, 3)
            pl.append([t, p])
            step = rnd.random()
            if zeros and step < 0.25:
                q = rnd.choice([0.0, 0])
            elif p == 0:
                q = float(rnd.choice([96, 192, 144])) if grid else rnd.choice([100.0, 150, 87.3])
            elif step < 0.2:
                q = p * 2
            elif step < 0.4:
                q = p / 2
            elif step < 0.5 and 0 < thr <= 1:
                q = p / thr if rnd.random() < 0.5 else p * thr      # exactly on a cutoff (up to rounding)
            elif step < 0.6 and 0 < thr <= 1 and not grid:
                q = (p / thr if rnd.random() < 0.5 else p * thr) * rnd.choice([1 + 1e-6, 1 - 1e-6, 1 + 1e-15, 1 - 1e-15])
            elif step < 0.8:
                q = p
            else:
                q = p * rnd.choice([0.75, 1.25, 1.5]) if grid else round(p * rnd.uniform(0.6, 1.6), 1)
            if grid and not on_grid(q):
                q = p
            if isinstance(q, float) and q.is_integer() and rnd.random() < 0.2:
                q = int(q)
            p = q
        yield {"op": "detect", "pl": pl, "thr": thr, "grid": grid}


def gen_load(rnd, tier):
    undefs = [None, None, None, 0, 0.0, -1.0, 99.5, 1e9]
    for i in range(12000 if tier == "thorough" else 1500):
        grid = rnd.random() < 0.5
        ncols = rnd.randint(1, 4)
        nrows = rnd.randint(0, 8)
        malformed = rnd.random() < 0.06
        rows = []
        hdr = rnd.random()
        if hdr < 0.5:
            rows.append(["time", "pitch", "intensity", "f1"][:ncols])
        elif hdr < 0.55 and malformed:
            rows.append([rnd.choice(["Time", "time ", " time", "t"]), "pitch", "intensity", "f1"][:ncols])
        for k in range(nrows):
            t = k * 0.25 if grid else round(0.01 * k + 0.005, 3)
            row = [repr(t) if rnd.random() < 0.8 else "%.3f" % t]
            for _ in range(ncols - 1):
                u = rnd.random()
                if u < 0.22:
                    row.append(rnd.choice([MARK, MARK, " " + MARK, MARK + " "]))
                elif grid:
                    v = rnd.choice([100, 120.5, 87.25, 0, -3.5, 64, 200.75])
                    row.append(rnd.choice([repr(v), str(float(v)), " " + repr(v), "%.2f" % v]))
                else:
                    v = round(rnd.uniform(-5, 300), rnd.choice([0, 1, 2, 4]))
                    row.append(rnd.choice([repr(v), "%e" % v, " %r" % v]))
            rows.append(row)
        if malformed and rows:
            r = rnd.randrange(len(rows))
            cidx = rnd.randrange(len(rows[r]))
            rows[r] = list(rows[r])
            rows[r][cidx] = rnd.choice(["abc", "", MARK, "--", "1--2", "time", "1x"])
            if rows[r] == [""]:
                rows[r] = ["abc"]   # a lone empty field would be a blank line, which is not a row
            if rnd.random() < 0.3 and len(rows) > 1:
                rows.insert(rnd.randrange(1, len(rows) + 1), ["time", "pitch", "intensity", "f1"][:ncols])
        if i % 97 == 0:
            rows = []
        nb = rnd.choice([0, 0, 0, 1, 2])
        yield {"op": "load", "rows": rows, "undef": rnd.choice(undefs), "blank": [rnd.randint(0, len(rows)) for _ in range(nb)],
               "trail": rnd.random() < 0.8, "nl": rnd.choice(["\n", "\n", "\r\n"]), "grid": grid}


def gen(rnd, tier):
    yield from PIO.gen(rnd, 6000 if tier == "thorough" else 600)
    yield from gen_stepfilt(rnd, tier)
    yield from gen_stats(rnd, tier)
    yield from gen_pitch(rnd, tier)
    yield from gen_detect(rnd, tier)
    yield from gen_load(rnd, tier)
