"""C10 — tier set operations obey the algebra of labelled time."""
import itertools

from framework import Failure
import tiers as T
import tierops

RULE = ("exhaustive: all ordered pairs (A,B) of tiers made of disjoint intervals with integer boundaries on a grid of "
        "4 cells (quick) / 6 cells (thorough), labels a,b / c,d, x {union, difference, intersection, mergeLabels}; plus random "
        "larger pairs on decimals and k/64 including empty, identical, touching and nested tiers; point-tier unions, with shared "
        "times and with several points at one time inside an operand. "
        "non-trivial = both operands have entries")
TRUSTED = ["oracle: direct Python statement of the property (harness/props/C10.py:oracle)"]
ASSUMPTIONS = ["well-formed operands with non-negative times; distinct boundary times differ by more than 1e-9 relative",
               "the label of a fused entry is the '-'-join of the labels of ALL fused inputs in tuple order (start, then end, then "
               "label) - the exact rule proved as C10.union_label_cluster; it implies (weak) start-time order"]
OPS = ["iunion", "idiff", "iinter", "imergelabels"]

case_json = lambda c: c
case_from_json = lambda j: j
encode = tierops.encode
impl = tierops.impl
render = tierops.render


def wants_x(c):
    return c.get("grid", False)


def overlap(x, y):
    return max(x[0], y[0]) < min(x[1], y[1])


def cov(es, x):
    return any(s <= x < e for s, e, _ in es)


def union_components(A, B):
    items = [("A", e) for e in A] + [("B", e) for e in B]
    n = len(items)
    parent = list(range(n))

    def find(i):
        while parent[i] != i:
            parent[i] = parent[parent[i]]
            i = parent[i]
        return i
    for i in range(n):
        for j in range(i + 1, n):
            if items[i][0] != items[j][0] and overlap(items[i][1], items[j][1]):
                parent[find(i)] = find(j)
    comps = {}
    for i in range(n):
        comps.setdefault(find(i), []).append(items[i][1])
    return sorted(comps.values(), key=lambda c: min(e[0] for e in c))


def label_orders(members):
    """all '-'-joins of the member labels in non-decreasing start order (ties in either order)"""
    ms = sorted(members, key=lambda e: e[0])
    groups = [list(g) for _, g in itertools.groupby(ms, key=lambda e: e[0])]
    outs = [[]]
    for g in groups:
        outs = [o + list(p) for o in outs for p in itertools.permutations(g)]
    return {"-".join(e[2] for e in o) for o in outs}


def oracle(c, r):
    op, A, B = c["op"], c["tier"], c["other"]
    sig = {"op": op}
    if r[0] == "err":
        return Failure(dict(sig, clause="no-error", exc=r[1]), f"{op} of two well-formed tiers raised {r[1]}")
    res = r[1]
    probs = T.wf_problems(res)
    if probs:
        return Failure(dict(sig, clause="well-formed"), f"result ill-formed: {probs[0]}")
    if op == "punion":
        # every point of either tier is present; points at the same time are merged with joined labels: at a time that B
        # has, ALL points of both tiers at that time become ONE point (A's labels in list order, then B's in list order);
        # at a time that only A has, A's points stay as they are (finding A24: the code used to merge with the first only)
        want = []
        for t in sorted({e[0] for e in A["es"]} | {e[0] for e in B["es"]}):
            la = [e[1] for e in A["es"] if e[0] == t]
            lb = [e[1] for e in B["es"] if e[0] == t]
            if lb:
                want.append([t, "-".join(la + lb)])
            else:
                want.extend([t, l] for l in la)
        if res["es"] != want:
            return Failure(dict(sig, clause="points"), f"points {res['es']} expected {want}")
        return None
    a_es, b_es, out = A["es"], B["es"], res["es"]
    pts = T.sample_points(a_es, b_es, out)
    if op == "idiff":
        for x in pts:
            want = T.label_at(a_es, x) if not cov(b_es, x) else None
            if T.label_at(out, x) != want:
                return Failure(dict(sig, clause="labelled-time"), f"label at t={x} is {T.label_at(out, x)!r}, expected {want!r}")
        if (res["lo"], res["hi"]) != (A["lo"], A["hi"]):
            return Failure(dict(sig, clause="span"), "span changed")
    elif op == "iinter":
        want = sorted([[max(x[0], y[0]), min(x[1], y[1]), f"{x[2]}-{y[2]}"] for x in a_es for y in b_es if overlap(x, y)])
        if out != want:
            return Failure(dict(sig, clause="entries"), f"entries {out} expected {want}")
    elif op == "imergelabels":
        want = []
        for x in a_es:
            ys = [y for y in b_es if overlap(x, y)]
            if ys:
                want.append([x[0], x[1], f"{x[2]}({','.join(y[2] for y in ys)})"])
        if out != want:
            return Failure(dict(sig, clause="entries"), f"entries {out} expected {want}")
    elif op == "iunion":
        for x in pts:
            if cov(out, x) != (cov(a_es, x) or cov(b_es, x)):
                return Failure(dict(sig, clause="coverage"), f"coverage at t={x} is {cov(out, x)}, operands {cov(a_es, x)}/{cov(b_es, x)}")
        comps = union_components(a_es, b_es)
        if len(comps) != len(out):
            return Failure(dict(sig, clause="fusion"), f"{len(out)} entries, expected {len(comps)} (overlapping fused, touching separate)")
        for comp, e in zip(comps, out):
            lo, hi = min(m[0] for m in comp), max(m[1] for m in comp)
            if (e[0], e[1]) != (lo, hi):
                return Failure(dict(sig, clause="fusion"), f"entry {e} expected extent ({lo},{hi})")
            if e[2] not in label_orders(comp):
                return Failure(dict(sig, clause="labels"), f"label {e[2]!r} is not the time-ordered join of {[m[2] for m in comp]}")
            # the exact rule (theorem C10.union_label_cluster): all members in tuple order (start, end, label)
            exact = "-".join(m[2] for m in sorted(comp, key=lambda m: (m[0], m[1], m[2])))
            if e[2] != exact:
                return Failure(dict(sig, clause="labels-exact"), f"label {e[2]!r} expected {exact!r} (members in tuple order)")
    # nothing invented
    for x in pts:
        if cov(out, x) and not (cov(a_es, x) or cov(b_es, x)):
            return Failure(dict(sig, clause="no-invention"), f"labelled time at t={x} present in neither operand")
    return None


def tags(c, r):
    out = [c["op"], "grid" if c.get("grid") else "dec"]
    if r[0] == "err":
        out.append("err:" + r[1])
    A, B = c["tier"]["es"], c["other"]["es"]
    if not A or not B:
        out.append("empty-operand")
    if A == B:
        out.append("identical")
    if c["tier"]["k"] == "I":
        if any(overlap(x, y) for x in A for y in B):
            out.append("overlapping")
        if any(x[1] == y[0] or y[1] == x[0] for x in A for y in B):
            out.append("touching")
        if any((x[0] < y[0] and y[1] < x[1]) or (y[0] < x[0] and x[1] < y[1]) for x in A for y in B):
            out.append("nested")
    return out


def nontrivial(c, r):
    return bool(c["tier"]["es"]) and bool(c["other"]["es"])


def family_pairs(cells, max_iv):
    import props.C06 as C06
    fam = C06.family(max_iv, cells)
    for ea in fam:
        A = {"k": "I", "name": "A", "es": ea, "lo": 0.0, "hi": float(cells)}
        for eb in fam:
            B = {"k": "I", "name": "B", "es": [[s, e, "cd"[i % 2]] for i, (s, e, _) in enumerate(eb)], "lo": 0.0, "hi": float(cells)}
            for op in OPS:
                yield {"op": op, "tier": A, "other": B, "grid": True}


def corpus():
    A = {"k": "I", "name": "A", "es": [[0.0, 2.0, "a1"], [5.0, 9.0, "a2"]], "lo": 0.0, "hi": 10.0}
    B = {"k": "I", "name": "B", "es": [[1.0, 6.0, "b1"], [7.0, 8.0, "b2"]], "lo": 0.0, "hi": 10.0}
    for op in OPS:
        yield {"op": op, "tier": A, "other": B, "grid": True}
    yield {"op": "iunion", "tier": A, "other": A, "grid": True}
    # A24 (fixed): point-tier union with coinciding times inside an operand
    D = {"k": "P", "name": "P", "es": [[10.0, "a"], [40.0, "b"], [40.0, "c"], [70.0, "d"]], "lo": 0.0, "hi": 100.0}
    Tt = {"k": "P", "name": "P", "es": [[10.0, "a"], [40.0, "b"], [70.0, "d"]], "lo": 0.0, "hi": 100.0}
    U = {"k": "P", "name": "U", "es": [[25.0, "u"], [40.0, "v"], [130.0, "w"]], "lo": 0.0, "hi": 130.0}
    V = {"k": "P", "name": "V", "es": [[25.0, "u"], [25.0, "v"]], "lo": 0.0, "hi": 130.0}
    yield {"op": "punion", "tier": D, "other": U, "grid": True}
    yield {"op": "punion", "tier": Tt, "other": V, "grid": True}
    yield {"op": "punion", "tier": D, "other": D, "grid": True}
    yield {"op": "punion", "tier": {"k": "P", "name": "P", "es": [[40.0, "b"], [40.0, "b-a"]], "lo": 0.0, "hi": 100.0},
           "other": {"k": "P", "name": "U", "es": [[40.0, "z"], [40.0, "zz"]], "lo": 0.0, "hi": 100.0}, "grid": True}


def gen(rnd, tier):
    if tier == "thorough":
        for c in family_pairs(6, 6):
            yield c
        nrand = 40000
    else:
        fam = list(family_pairs(4, 4))
        for c in fam:
            yield c
        big = list(family_pairs(5, 3))
        for c in rnd.sample(big, 5000):
            yield c
        nrand = 5000
    for i in range(nrand):
        domain = rnd.choice(["dec", "dec", "grid64"])
        if rnd.random() < 0.85:
            A = T.gen_itier(rnd, domain, nmax=5, name="A", labels=["a", "b", "x y", ""])
            if rnd.random() < 0.1:
                B = dict(A, name="B")
            else:
                B = T.gen_itier(rnd, domain, nmax=5, name="B", labels=["c", "d", "a"])
                if rnd.random() < 0.3 and A["es"] and B["es"]:
                    # make B touch / share boundaries with A
                    bs = sorted({x for e in A["es"] for x in e[:2]})
                    es = []
                    for s, e, l in B["es"]:
                        s2 = rnd.choice(bs) if rnd.random() < 0.5 else s
                        if es and s2 < es[-1][1]:
                            s2 = s
                        if s2 < e and (not es or es[-1][1] <= s2):
                            es.append([s2, e, l])
                    B = dict(B, es=es, lo=min([B["lo"]] + [e[0] for e in es]), hi=max([B["hi"]] + [e[1] for e in es]))
                    if not es and B["lo"] > 0:
                        B["lo"] = 0.0
            yield {"op": rnd.choice(OPS), "tier": A, "other": B, "grid": domain != "dec"}
        else:
            A = T.gen_ptier(rnd, domain, nmax=5, name="A")
            B = T.gen_ptier(rnd, domain, nmax=5, name="B")
            # internally duplicated times, in either operand or both (on purpose: finding A24)
            if rnd.random() < 0.4:
                A = T.with_dup_times(rnd, A)
            if rnd.random() < 0.4:
                B = T.with_dup_times(rnd, B)
            if A["es"] and rnd.random() < 0.6:
                # shared times: preferably a time that A holds twice
                ts = T.dup_times(A) or [e[0] for e in A["es"]]
                t = rnd.choice(ts)
                if all(e[0] != t for e in B["es"]):
                    extra = [[t, "z"]] + ([[t, "zz"]] if rnd.random() < 0.3 else [])
                    B = dict(B, es=sorted(B["es"] + extra), hi=max(B["hi"], t))
            if A["es"] and domain == "dec" and rnd.random() < 0.25:
                # a point of B a few ulps beside a point of A: different time points, both must survive the union
                # (round 3, C10-v2: the collision test of PointTier.insertEntry made tolerant)
                import math
                t = rnd.choice(A["es"])[0]
                for _ in range(rnd.randint(1, 3)):
                    t = math.nextafter(t, rnd.choice([-math.inf, math.inf]))
                if t >= 0 and all(e[0] != t for e in B["es"]):
                    B = dict(B, es=sorted(B["es"] + [[t, "u"]]), hi=max(B["hi"], t))
            yield {"op": "punion", "tier": A, "other": B, "grid": domain != "dec"}


def shrink(c):
    for s in T.shrink_spec(c["tier"]):
        yield dict(c, tier=s)
    for s in T.shrink_spec(c["other"]):
        yield dict(c, other=s)


# living-object histories built from the step-wise cases above (harness/living.py)
import living  # noqa: E402
living.install(globals())
