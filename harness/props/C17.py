"""C17 — interval-driven audio extraction keeps and drops exactly the marked samples.

Three parties per case:
  implementation  praatio.audio (readFramesAtTimes, _computeKeepDeleteIntervals, AudioGenerator, extractSubwav) and
                  praatio_scripts.splitAudioOnTier on real temp wav / TextGrid files (written with the stdlib `wave`
                  module, read back with `wave` and praatio.textgrid);
  model           lean/PraatModel/Extract.lean through the driver operations `x_*` of RunExtract.lean — the times of one
                  call travel as integer numerators over their common denominator (the exact values of the binary64s
                  the code receives), bytes as hex; the F/X number modes play no role for the audio operations, the
                  cropped TextGrids of splitAudioOnTier are compared bit-exactly in the F run;
  oracle          written directly from the property text (this file): index arithmetic on Fractions, slices of the
                  decoded sample list, the files on disk.

A case is sent to the model only when `round` of every binary64 product / difference the code forms equals `round` of the
exact value (otherwise rounding inside the float arithmetic could move a sample index; those cases are oracle-only).
"""
import math
import os
import shutil
import tempfile
import wave
from fractions import Fraction

from framework import Failure
import tiers as T
import tgops
from praatio import audio, praatio_scripts, textgrid

RULE = ("recordings: widths {1,2,4} x rates {8, 10, 100, 8000, 44100, 48000, 22050, 7, 3} x 0..400 samples (random / ramps / constant with the "
        "extremes of the width mixed in). interval lists: 0..6 sorted disjoint intervals (10 % shuffled) whose boundaries are "
        "sample positions k/rate, off-grid (k+0.25/0.3/0.49/0.51/0.7)/rate or exact half-sample points, touching or separated, "
        "starting at 0 and/or ending at the duration, one interval covering everything, the empty list and None; x {keep, delete} "
        "x {no replacement, generateSilence, generateSineWave (oracle only)}; a malformed stream (both lists, beyond the duration, "
        "negative, overlapping, zero-length, reversed) on which model and code must agree. _computeKeepDeleteIntervals directly "
        "with arbitrary [start, stop]. generateSilence / generateSineWave sample counts for durations on and off the grid. "
        "extractSubwav on temp files (QueryWav path) cross-checked with Wav.open(...).getSubwav (in-memory path). "
        "splitAudioOnTier on temp wav + multi-tier TextGrids (split tier of 1..12 entries on and off the grid, at the edges, "
        "touching; an interval tier, a point tier and an empty tier beside it, with and without entries under each interval) x "
        "nameStyle {None, append, append_no_i, label} x noPartialIntervals x outputTGFlag {False, True, tier name} x silenceLabel x wav file "
        "names (plain, with a dot, a blank, a per cent sign). "
        "non-trivial = the recording has samples and the call addresses at least one interval / writes at least one file")
TRUSTED = ["oracle: the property evaluated on Fractions and on the decoded sample list (harness/props/C17.py:oracle); bytes are "
           "decoded with int.from_bytes(..., 'little', signed=True), independently of struct",
           "CPython wave module and the file system: the source file is written and the outputs are read with `wave`; the file is "
           "modelled abstractly as (width, rate, data-chunk bytes)",
           "math.sin: the values of generateSineWave are compared with the same formula evaluated by CPython, never modelled",
           "praatio.textgrid.openTextgrid / Textgrid.save for building the input TextGrid and reading the cropped ones back "
           "(the subject of C01-C04); the crop itself is the model of C06"]
ASSUMPTIONS = ["mono recordings, sample widths 1, 2, 4, frame rate a positive integer; interval times finite",
               "model correspondence is claimed where round(binary64 product) = round(exact product) for every time (and every "
               "end - start handed to the generator); other cases are checked by the oracle only",
               "at (or within one binary64 rounding error of) an exact half-sample point the oracle accepts either neighbouring "
               "sample index, consistently for every use of the same time",
               "splitAudioOnTier: labels are file-name safe, non-empty, stripped; the TextGrid spans [0, duration of the wav]; "
               "a keep list of [] is read as 'keep nothing', None as 'no list given'",
               "the span of a written TextGrid is compared up to the writer's snapping of numbers within 1e-14 (relative) of an "
               "integer (numToStr; C02/C04); such cases are oracle-only"]

WIDTHS = [1, 2, 4]
RATES = [8, 10, 100, 8000, 44100, 48000, 22050, 7, 3]
HALF = Fraction(1, 2)
TOL = Fraction(1, 2 ** 30)   # far above any binary64 rounding error of positions < 2^10, far below a sample

case_json = lambda c: c
case_from_json = lambda j: j


def wants_x(c):
    return False


# ------------------------------------------------------------------------------------------------
# helpers
# ------------------------------------------------------------------------------------------------
def hx(h):
    return "h" + h


def decode(b, w):
    if len(b) % w:
        return None
    return [int.from_bytes(b[i:i + w], "little", signed=True) for i in range(0, len(b), w)]


def enc_samples(xs, w):
    return b"".join(int(x).to_bytes(w, "little", signed=True) for x in xs)


def round_same(x_float, x_exact):
    """the code rounds the binary64 `x_float`; the model rounds the exact value"""
    return math.isfinite(x_float) and abs(x_float) < 2 ** 53 and round(x_float) == round(x_exact)


def time_ok(t, rate):
    return round_same(rate * t, Fraction(t) * rate)


def diff_ok(s, e, rate):
    return round_same(rate * (e - s), (Fraction(e) - Fraction(s)) * rate)


def nearest_x(x):
    """acceptable sample indices for the exact position x: nearest, both neighbours at (or within rounding error of) a tie"""
    fl = math.floor(x)
    return [k for k in (fl - 1, fl, fl + 1, fl + 2) if abs(k - x) <= HALF + TOL]


def kind_of(t, rate):
    x = Fraction(t) * rate
    if abs(x - round(x)) <= TOL:
        return "on"
    if abs(abs(x - math.floor(x)) - HALF) <= TOL:
        return "half"
    return "off"


class TempDir:
    def __enter__(self):
        self.d = tempfile.mkdtemp(prefix="praatio-verif.")
        return self.d

    def __exit__(self, *a):
        shutil.rmtree(self.d, ignore_errors=True)


def write_wav(fn, w, rate, frames):
    f = wave.open(fn, "wb")
    try:
        f.setnchannels(1)
        f.setsampwidth(w)
        f.setframerate(rate)
        f.writeframes(frames)
    finally:
        f.close()


def read_wav(fn):
    f = wave.open(fn, "rb")
    try:
        p = f.getparams()
        return {"nchannels": p.nchannels, "w": p.sampwidth, "rate": p.framerate, "nframes": p.nframes,
                "comptype": p.comptype, "hex": f.readframes(p.nframes + 10).hex()}
    finally:
        f.close()


def nsamples(c):
    return len(c["hex"]) // 2 // c["w"]


def fdur(c):
    """duration as the code computes it"""
    return nsamples(c) / float(c["rate"])


def lists_of(c):
    return (c.get("keep") or []), (c.get("del") or [])


def all_times(c):
    k, d = lists_of(c)
    return [x for iv in k + d for x in iv[:2]]


def common_den(ts):
    den = 1
    for t in ts:
        den = den * Fraction(t).denominator // math.gcd(den, Fraction(t).denominator)
    return den


def num(t, den):
    v = Fraction(t) * den
    assert v.denominator == 1
    return v.numerator


def enc_pairs(l, den):
    return " ".join([str(len(l))] + [f"{num(iv[0], den)} {num(iv[1], den)}" for iv in l])


def enc_keep(c, den):
    """the keep list is optional in the model: None (or absent) is 'no list', [] is 'keep nothing'"""
    return "N" if c.get("keep") is None else enc_pairs(c["keep"], den)


def pysorted_pairs(l):
    return sorted((iv[0], iv[1]) for iv in l)


def candidate_gaps(l, lo, hi):
    """the (end, next start) pairs invertIntervalList can emit for list l within [lo, hi]"""
    s = pysorted_pairs(l)
    if not s:
        return [(lo, hi)]
    return [(lo, s[0][0])] + [(s[i][1], s[i + 1][0]) for i in range(len(s) - 1)] + [(s[-1][1], hi)]


# ------------------------------------------------------------------------------------------------
# which cases have a model
# ------------------------------------------------------------------------------------------------
def has_model(c):
    op = c["op"]
    if c.get("nomodel"):
        return False
    if op == "marked":
        return True
    if op == "times":
        if c["gen"] == "sine":
            return False
        rate, D = c["rate"], fdur(c)
        ts = all_times(c) + [D, 0.0]
        if not all(time_ok(t, rate) for t in ts):
            return False
        if c["gen"] == "sil":
            k, d = lists_of(c)
            pairs = [(iv[0], iv[1]) for iv in d] if d else (candidate_gaps(k, 0.0, D) if c.get("keep") is not None else [])
            if not all(diff_ok(s, e, rate) for s, e in pairs):
                return False
        return True
    if op == "silence":
        return round_same(c["rate"] * c["d"], Fraction(c["d"]) * c["rate"])
    if op == "sine":
        return round_same(c["d"] * c["rate"], Fraction(c["d"]) * c["rate"])
    if op == "extract":
        return time_ok(c["t0"], c["rate"]) and time_ok(c["t1"], c["rate"])
    if op == "split":
        es = split_entries(c)
        if not all(time_ok(e[0], c["rate"]) and time_ok(e[1], c["rate"]) for e in es):
            return False
        names = [out_name(c, i, e[2], len(es)) for i, e in enumerate(es)]
        if len(set(names)) != len(names):         # overwritten files: oracle only
            return False
        if c["tgflag"] is not False:
            # the cropped TextGrid is observed after save + open: a rebased time within 1e-14 (relative) of an integer is
            # written as that integer (numToStr, the subject of C02/C04), so it no longer equals the crop's value
            xs = [x for t in c["tg"]["tiers"] for en in t["es"] for x in en[:-1]]
            for e in es:
                for x in xs + [e[1]]:
                    d = x - e[0]
                    if d != round(d) and abs(d - round(d)) <= 2e-14 * max(abs(d), 1.0):
                        return False
        return True
    raise KeyError(op)


# ------------------------------------------------------------------------------------------------
# encode
# ------------------------------------------------------------------------------------------------
def enc_flag(flag, enc):
    if flag is False:
        return "off"
    if flag is True:
        return "all"
    return "only " + enc.s(flag)


def enc_style(s):
    return "default" if s is None else s


def q(t):
    f = Fraction(t)
    return f"{f.numerator}/{f.denominator}"


def encode(c, enc):
    op = c["op"]
    if not has_model(c):
        return "skip"
    if op == "marked":
        k, d = lists_of(c)
        den = common_den(all_times(c) + [c["start"], c["stop"]])
        return f"x_marked {num(c['start'], den)} {num(c['stop'], den)} {enc_keep(c, den)} {enc_pairs(d, den)}"
    if op == "times":
        k, d = lists_of(c)
        D = fdur(c)
        den = common_den(all_times(c) + [D])
        return (f"x_times {den} {c['w']} {c['rate']} {hx(c['hex'])} {num(D, den)} {enc_keep(c, den)} {enc_pairs(d, den)} "
                + ("sil" if c["gen"] == "sil" else "N"))
    if op == "silence":
        den = common_den([c["d"]])
        return f"x_silence {den} {c['w']} {c['rate']} {num(c['d'], den)}"
    if op == "sine":
        den = common_den([c["d"]])
        return f"x_sinecount {den} {c['rate']} {num(c['d'], den)}"
    if op == "extract":
        return f"x_extract {c['w']} {c['rate']} {hx(c['hex'])} {q(c['t0'])} {q(c['t1'])}"
    if op == "split":
        es = split_entries_all(c)
        from proto import f2bits
        table = sorted({t for e in es for t in e[:2]})
        tb = " ".join([str(len(table))] + [f"{f2bits(t)} {q(t)}" for t in table])
        sil = "N" if c["silence"] is None else enc.s(c["silence"])
        return (f"x_split {c['w']} {c['rate']} {hx(c['hex'])} {tgops.enc_tg(enc, c['tg'])} {enc.s(c['tier'])} {enc.s(c['stem'])} "
                f"{enc_flag(c['tgflag'], enc)} {enc_style(c['style'])} {enc.b(c['nopartial'])} {sil} {tb}")
    raise KeyError(op)


# ------------------------------------------------------------------------------------------------
# implementation
# ------------------------------------------------------------------------------------------------
def as_arg(l, labelled):
    if l is None:
        return None
    if labelled:
        return [(iv[0], iv[1], "x") for iv in l]
    return [(iv[0], iv[1]) for iv in l]


def sine_expected(w, rate, count, freq, amp):
    """generateSineWave's formula evaluated by CPython itself (math.sin is trusted, not modelled)"""
    if amp is None:
        amp = 2 ** (w * 8 - 1) - 1
    spec = 2 * math.pi * freq / float(rate)
    return [round(amp * math.sin(spec * i)) for i in range(max(count, 0))]


def split_entries_all(c):
    for t in c["tg"]["tiers"]:
        if t["name"] == c["tier"]:
            return [list(e) for e in t["es"]]
    return []


def split_entries(c):
    return [e for e in split_entries_all(c) if c["silence"] is None or e[2] != c["silence"]]


def out_name(c, i, label, n):
    """the documented naming rule"""
    style, stem = c["style"], c["stem"]
    if style == "append_no_i":
        return f"{stem}_{label}"
    if style == "label":
        return label
    base = f"{stem}_{str(i).zfill(len(str(n)))}"
    return base + (f"_{label}" if style == "append" else "")


def impl(c):
    op = c["op"]
    if op == "marked":
        k, d = c.get("keep"), c.get("del")
        return T.call(lambda: [[float(s), float(e), l] for s, e, l in
                               audio._computeKeepDeleteIntervals(c["start"], c["stop"], as_arg(k, False), as_arg(d, False))])
    if op == "silence":
        return T.call(lambda: audio.AudioGenerator(c["w"], c["rate"]).generateSilence(c["d"]).hex())
    if op == "sine":
        def run():
            g = audio.AudioGenerator(c["w"], c["rate"])
            direct = g.generateSineWave(c["d"], c["freq"], c["amp"])
            built = g.buildSineWaveGenerator(c["freq"], c["amp"])(c["d"])
            return {"hex": direct.hex(), "same": direct == built}
        return T.call(run)
    if op == "times":
        def run():
            with TempDir() as d:
                fn = os.path.join(d, "a.wav")
                write_wav(fn, c["w"], c["rate"], bytes.fromhex(c["hex"]))
                qw = audio.QueryWav(fn)
                try:
                    gen = None
                    g = audio.AudioGenerator.fromWav(qw)
                    if c["gen"] == "sil":
                        gen = g.generateSilence
                    elif c["gen"] == "sine":
                        gen = g.buildSineWaveGenerator(c["freq"], None)
                    dur = qw.duration
                    kw = {}
                    if "keep" in c:
                        kw["keepIntervals"] = as_arg(c["keep"], c.get("labelled"))
                    if "del" in c:
                        kw["deleteIntervals"] = as_arg(c["del"], c.get("labelled"))
                    if (len(c["hex"]) // (2 * c["w"])) % 2 == 1:
                        # every other case the handle has a past: the same read was already made through it (round 3,
                        # C17-v1: a reader that no longer seeks relies on the handle standing at frame 0)
                        try:
                            audio.readFramesAtTimes(qw.audiofile, replaceFunc=gen, **kw)
                        except Exception:  # noqa: BLE001
                            pass
                    try:
                        fr = audio.readFramesAtTimes(qw.audiofile, replaceFunc=gen, **kw)
                    except Exception as e:  # noqa: BLE001
                        return {"err": type(e).__name__, "dur": dur}
                    return {"hex": fr.hex(), "dur": dur}
                finally:
                    qw.audiofile.close()
        r = T.call(run)
        if r[0] == "ok" and "err" in r[1]:
            return ("err", r[1]["err"], None, r[1]["dur"])
        return r
    if op == "extract":
        def run():
            with TempDir() as d:
                fn, out = os.path.join(d, "a.wav"), os.path.join(d, "sub.wav")
                write_wav(fn, c["w"], c["rate"], bytes.fromhex(c["hex"]))
                audio.extractSubwav(fn, out, c["t0"], c["t1"])
                v = read_wav(out)
                v["mem"] = audio.Wav.open(fn).getSubwav(c["t0"], c["t1"]).frames.hex()
                v["files"] = sorted(os.listdir(d))
                return v
        return T.call(run)
    if op == "split":
        def run():
            with TempDir() as d:
                fn = os.path.join(d, c["stem"] + ".wav")
                tgfn = os.path.join(d, c["stem"] + ".TextGrid")
                out = os.path.join(d, "out") if c.get("mkdir", True) else d
                write_wav(fn, c["w"], c["rate"], bytes.fromhex(c["hex"]))
                g = tgops.build(c["tg"])
                g.save(tgfn, c.get("fmt", "short_textgrid"), True)
                seen = tgops.snap(textgrid.openTextgrid(tgfn, False))
                if seen != tgops.norm(c["tg"]):
                    raise AssertionError(f"the TextGrid spec is not what splitAudioOnTier will read: {seen} vs {tgops.norm(c['tg'])}")
                before = set(os.listdir(out)) if os.path.isdir(out) else set()
                try:
                    ret = praatio_scripts.splitAudioOnTier(fn, tgfn, c["tier"], out, c["tgflag"], c["style"], c["nopartial"], c["silence"])
                    err = None
                except AssertionError:
                    raise
                except Exception as e:  # noqa: BLE001
                    ret, err = None, type(e).__name__
                files = sorted(set(os.listdir(out)) - before) if os.path.isdir(out) else []
                wavs, tgs = {}, {}
                for f in files:
                    p = os.path.join(out, f)
                    if f.endswith(".wav"):
                        wavs[f] = read_wav(p)
                    elif f.endswith(".TextGrid"):
                        tgs[f] = {"content": tgops.snap(textgrid.openTextgrid(p, False)),
                                  "blanks": tgops.snap(textgrid.openTextgrid(p, True))}
                return {"err": err, "ret": None if ret is None else [[float(s), float(e), n] for s, e, n in ret],
                        "files": files, "wavs": wavs, "tgs": tgs}
        r = T.call(run)
        if r[0] == "err" and r[1] == "AssertionError":
            raise AssertionError("harness: TextGrid spec not in open-normal form: " + str(c["tg"]))
        return r
    raise KeyError(op)


# ------------------------------------------------------------------------------------------------
# render (implementation output in the driver's format)
# ------------------------------------------------------------------------------------------------
def render(c, r, enc):
    op = c["op"]
    if not has_model(c):
        return "ok skip"
    if op == "split":
        v = r[1] if r[0] == "ok" else None
        if v is None:
            return "err " + r[1]
        if v["err"] is not None:
            return "err " + v["err"]
        parts = [str(len(v["ret"]))]
        for s, e, name in v["ret"]:
            wv = v["wavs"].get(name)
            stem = name[:-4]
            tg = v["tgs"].get(stem + ".TextGrid")
            parts.append(f"{enc.time(s)} {enc.time(e)} {enc.s(stem)} " +
                         ("missing" if wv is None else f"{wv['w']} {wv['rate']} {hx(wv['hex'])}") + " " +
                         ("N" if tg is None else "T " + tgops.enc_tg(enc, tg["content"])))
        return "ok " + " ".join(parts)
    if r[0] == "err":
        return "err " + r[1]
    v = r[1]
    if op == "marked":
        den = common_den(all_times(c) + [c["start"], c["stop"]])
        return "ok " + " ".join([str(len(v))] + [f"{num(s, den)} {num(e, den)} {l}" for s, e, l in v])
    if op == "times":
        from proto import f2bits
        return f"ok {f2bits(v['dur'])} {hx(v['hex'])}"
    if op == "silence":
        return "ok " + hx(v)
    if op == "sine":
        return f"ok {len(v['hex']) // 2 // c['w']}"
    if op == "extract":
        return f"ok {v['w']} {v['rate']} {hx(v['hex'])}"
    raise KeyError(op)


# ------------------------------------------------------------------------------------------------
# oracle
# ------------------------------------------------------------------------------------------------
def wf_list(l):
    """sorted copy of a list of disjoint positive intervals, or None"""
    s = sorted((Fraction(iv[0]), Fraction(iv[1])) for iv in l)
    if any(not a < b for a, b in s):
        return None
    if any(x[1] > y[0] for x, y in zip(s, s[1:])):
        return None
    return s


def match_pieces(result, pieces, S, w, rate, gen_check):
    """does `result` (bytes) consist of the given pieces in order?  pieces: ("keep", s, e) | ("gen", s, e) with exact
    Fraction times; a time at a half-sample tie may resolve to either neighbour, the same one everywhere (assigned at
    its first use, with backtracking).  Returns None when the search budget is exhausted (no verdict)."""
    times = sorted({t for p in pieces if p[0] == "keep" for t in p[1:]})
    cands = {t: nearest_x(t * rate) for t in times}
    budget = [200000]

    def dfs(pi, pos, idx):
        budget[0] -= 1
        if budget[0] < 0:
            raise TimeoutError
        if pi == len(pieces):
            return pos == len(result)
        kind, s, e = pieces[pi]
        if kind == "keep":
            for a in ([idx[s]] if s in idx else cands[s]):
                for b in ([idx[e]] if e in idx else cands[e]):
                    if not (0 <= a <= b <= len(S)):
                        continue
                    chunk = enc_samples(S[a:b], w)
                    if result[pos:pos + len(chunk)] == chunk:
                        idx2 = dict(idx)
                        idx2[s], idx2[e] = a, b
                        if dfs(pi + 1, pos + len(chunk), idx2):
                            return True
            return False
        for cnt in nearest_x((e - s) * rate):
            if cnt < 0:
                continue
            chunk = result[pos:pos + cnt * w]
            if len(chunk) == cnt * w and gen_check(chunk, cnt) and dfs(pi + 1, pos + cnt * w, idx):
                return True
        return False

    try:
        return dfs(0, 0, {})
    except TimeoutError:
        return None


def oracle_times(c, r):
    w, rate = c["w"], c["rate"]
    S = decode(bytes.fromhex(c["hex"]), w)
    n = len(S)
    sig = {"op": "times"}
    k_given, d_given = c.get("keep"), c.get("del")
    k, d = lists_of(c)
    if k and d:
        if r[0] != "err":
            return Failure(dict(sig, clause="both-lists"), f"keepIntervals={k} and deleteIntervals={d} were both accepted")
        return None
    if k_given is not None and d_given is not None:
        return None  # two lists given, one of them empty: the property does not say
    l = k if k else d
    mode = "keep" if (k or (k_given is not None and d_given is None)) else "delete"
    s = wf_list(l)
    if s is None:
        return None  # overlapping / zero-length / reversed: malformed stream, correspondence only
    ts = [t for iv in s for t in iv]
    beyond = [t for t in ts if t * rate > n + Fraction(1, 2 ** 20)]
    negative = [t for t in ts if t < 0]
    if beyond or negative:
        if any(n < t * rate <= n + Fraction(1, 2 ** 20) for t in ts):
            return None  # within rounding of the end
        if r[0] != "err":
            side = "beyond" if beyond else "negative"
            return Failure(dict(sig, clause="out-of-range", side=side, list=mode),
                           f"{mode} list {l} at rate {rate}, {n} samples (duration {float(Fraction(n, rate))}): a time outside the "
                           f"recording was accepted ({len(r[1]['hex']) // 2 // w} samples returned)")
        return None
    if any(t * rate > n for t in ts):
        return None
    if r[0] == "err":
        return Failure(dict(sig, clause="no-error", exc=r[1], list=mode), f"{mode} list {l} at rate {rate}, {n} samples raised {r[1]}")
    res = bytes.fromhex(r[1]["hex"])
    D = Fraction(n, rate)
    # the stretches of [0, D] in time order
    pieces, cur = [], Fraction(0)
    inner, outer = ("keep", "gen") if mode == "keep" else ("gen", "keep")
    if l or (mode == "keep" and k_given is not None):
        for a, b in s:
            if cur < a:
                pieces.append((outer, cur, a))
            pieces.append((inner, a, b))
            cur = b
        if cur < D:
            pieces.append((outer, cur, D))
    else:
        pieces.append(("keep", Fraction(0), D))
    if c["gen"] is None:
        pieces = [p for p in pieces if p[0] == "keep"]
    if c["gen"] == "sine":
        gen_check = lambda chunk, cnt: chunk == enc_samples(sine_expected(w, rate, cnt, c["freq"], None), w)
    else:
        gen_check = lambda chunk, cnt: chunk == bytes(len(chunk))
    empty_keep = mode == "keep" and not l
    if match_pieces(res, pieces, S, w, rate, gen_check) is False:
        got = decode(res, w)
        clause = "keep-empty" if empty_keep else ("kept-samples" if c["gen"] is None else "replaced-stretches")
        return Failure(dict(sig, clause=clause, list=mode, gen=c["gen"]),
                       f"{mode} list {l} (gen={c['gen']}) at rate {rate}, width {w}, {n} samples: returned "
                       f"{'ragged bytes' if got is None else str(len(got)) + ' samples'}, not the "
                       f"{'kept stretches' if c['gen'] is None else 'kept stretches with each dropped stretch replaced'} "
                       f"{[(p[0], float(p[1]), float(p[2])) for p in pieces]}")
    # boundaries on sample positions + replacement: original length, every kept sample at its original position
    if c["gen"] is not None and all((t * rate).denominator == 1 for t in ts):
        if len(res) != n * w:
            return Failure(dict(sig, clause="original-length", list=mode, gen=c["gen"]), f"{len(res) // w} samples instead of {n}")
        for kind, a, b in pieces:
            if kind == "keep":
                i, j = int(a * rate), int(b * rate)
                if res[i * w:j * w] != enc_samples(S[i:j], w):
                    return Failure(dict(sig, clause="original-position", list=mode, gen=c["gen"]), f"kept samples {i}..{j} moved")
    return None


def oracle_marked(c, r):
    sig = {"op": "marked"}
    k, d = lists_of(c)
    if k and d:
        if r[0] != "err" or r[1] != "ArgumentError":
            return Failure(dict(sig, clause="both-lists"), "both lists accepted by _computeKeepDeleteIntervals")
        return None
    l = k if k else d
    s = wf_list(l)
    a, b = Fraction(c["start"]), Fraction(c["stop"])
    if s is None or not l or not a < b or any(t < a or t > b for iv in s for t in iv):
        return None
    if r[0] == "err":
        return Failure(dict(sig, clause="no-error", exc=r[1]), f"_computeKeepDeleteIntervals({c['start']}, {c['stop']}, {l}) raised {r[1]}")
    out = [(Fraction(x), Fraction(y), lab) for x, y, lab in r[1]]
    inner, outer = ("keep", "delete") if k else ("delete", "keep")
    ok = bool(out) and out[0][0] == a and out[-1][1] == b
    ok = ok and all(x < y for x, y, _ in out) and all(p[1] == q_[0] for p, q_ in zip(out, out[1:]))
    ok = ok and [(x, y) for x, y, lab in out if lab == inner] == s and all(lab in (inner, outer) for _, _, lab in out)
    if not ok:
        return Failure(dict(sig, clause="partition"), f"_computeKeepDeleteIntervals({c['start']}, {c['stop']}, {inner}={l}) = {r[1]} "
                       f"does not tile [start, stop] with the given intervals marked '{inner}' and the gaps '{outer}'")
    return None


def oracle_count(c, r):
    op = c["op"]
    sig = {"op": op}
    w, rate, dd = c["w"], c["rate"], Fraction(c["d"])
    if dd < 0:
        return None
    if r[0] == "err":
        return Failure(dict(sig, clause="no-error", exc=r[1]), f"{op}({c['d']}) raised {r[1]}")
    b = bytes.fromhex(r[1] if op == "silence" else r[1]["hex"])
    xs = decode(b, w)
    if xs is None or len(xs) not in nearest_x(dd * rate):
        return Failure(dict(sig, clause="sample-count"), f"{op}: duration {c['d']} at rate {rate}: {len(b)}/{w} samples, "
                       f"round(rate x duration) = {nearest_x(dd * rate)}")
    if op == "silence":
        if any(xs):
            return Failure(dict(sig, clause="values"), "generated silence is not all zero")
    else:
        if xs != sine_expected(w, rate, len(xs), c["freq"], c["amp"]):
            return Failure(dict(sig, clause="values"), "sine samples differ from round(amplitude * sin(2 pi f i / rate))")
        if not r[1]["same"]:
            return Failure(dict(sig, clause="builder"), "buildSineWaveGenerator(...)(d) differs from generateSineWave(d, ...)")
    return None


def window_ok(got, S, t0, t1, rate):
    """the samples between the sample boundaries of the recording nearest to the two times (a time outside the recording:
    its first / last boundary)"""
    n = len(S)
    I = sorted(set(min(max(k, 0), n) for k in nearest_x(Fraction(t0) * rate)))
    J = sorted(set(min(max(k, 0), n) for k in nearest_x(Fraction(t1) * rate)))
    return any(got == S[i:j] for i in I for j in J if i <= j)


def oracle_extract(c, r):
    sig = {"op": "extract"}
    w, rate = c["w"], c["rate"]
    S = decode(bytes.fromhex(c["hex"]), w)
    n = len(S)
    t0, t1 = Fraction(c["t0"]), Fraction(c["t1"])
    if not t0 <= t1:
        # a time range that ends before it starts is rejected (ArgumentError), nothing is extracted
        if tuple(r[:2]) != ("err", "ArgumentError"):
            return Failure(dict(sig, clause="reversed-rejected"), f"extractSubwav({c['t0']}, {c['t1']}): a reversed range gave {r[0]} {str(r[1])[:40]}, not ArgumentError")
        return None
    if r[0] == "err":
        return Failure(dict(sig, clause="no-error", exc=r[1]), f"extractSubwav({c['t0']}, {c['t1']}) raised {r[1]}")
    v = r[1]
    if v["files"] != ["a.wav", "sub.wav"]:
        return Failure(dict(sig, clause="one-file"), f"files written: {v['files']}")
    got = decode(bytes.fromhex(v["hex"]), w) if v["w"] == w else None
    if (v["nchannels"], v["w"], v["rate"], v["comptype"]) != (1, w, rate, "NONE") or got is None or v["nframes"] != len(got):
        return Failure(dict(sig, clause="parameters"), f"parameters of the written file: {v['nchannels']}, {v['w']}, {v['rate']}, {v['nframes']}")
    if not window_ok(got, S, c["t0"], c["t1"], rate):
        return Failure(dict(sig, clause="samples"), f"extractSubwav({c['t0']}, {c['t1']}) at rate {rate}: {len(got)} samples, not the source window")
    if v["mem"] != v["hex"]:
        return Failure(dict(sig, clause="query-vs-memory"), "extractSubwav (QueryWav) and Wav.getSubwav disagree")
    return None


def oracle_split(c, r):
    sig = {"op": "split"}
    w, rate = c["w"], c["rate"]
    S = decode(bytes.fromhex(c["hex"]), w)
    n = len(S)
    es = split_entries(c)
    if any(not (0 <= Fraction(e[0]) < Fraction(e[1])) for e in es):
        return None
    if r[0] == "err":
        return Failure(dict(sig, clause="no-error", exc=r[1]), f"harness-level error {r[1]}")
    v = r[1]
    if v["err"] is not None:
        cause = "no-entries" if not es else ("percent-in-file-name" if "%" in c["stem"] and c["style"] in (None, "append") else "other")
        return Failure(dict(sig, clause="no-error", exc=v["err"], cause=cause),
                       f"splitAudioOnTier raised {v['err']} ({len(es)} entries, nameStyle={c['style']}, outputTGFlag={c['tgflag']})")
    if [x[:2] for x in v["ret"]] != [[float(e[0]), float(e[1])] for e in es]:
        return Failure(dict(sig, clause="one-output-per-entry"), f"returned {v['ret']} for entries {es}")
    names = [x[2] for x in v["ret"]]
    want_names = [out_name(c, i, e[2], len(es)) + ".wav" for i, e in enumerate(es)]
    if names != want_names:
        return Failure(dict(sig, clause="names"), f"names {names}, documented rule gives {want_names}")
    wavs = sorted(v["wavs"])
    dup = len(set(names)) != len(names)
    if wavs != sorted(set(names)) or dup:
        cause = "duplicate-labels" if dup and len({e[2] for e in es}) < len(es) and c["style"] in ("label", "append_no_i") else "other"
        return Failure(dict(sig, clause="one-file-per-entry", cause=cause, style=c["style"]),
                       f"{len(es)} entries but wav files {wavs} (nameStyle={c['style']}, labels {[e[2] for e in es]})")
    for e, name in zip(es, names):
        wv = v["wavs"][name]
        got = decode(bytes.fromhex(wv["hex"]), w) if wv["w"] == w else None
        if (wv["nchannels"], wv["w"], wv["rate"], wv["comptype"]) != (1, w, rate, "NONE") or got is None or wv["nframes"] != len(got):
            return Failure(dict(sig, clause="parameters"), f"{name}: parameters {wv['nchannels']}, {wv['w']}, {wv['rate']}, {wv['nframes']}")
        if not window_ok(got, S, e[0], e[1], rate):
            return Failure(dict(sig, clause="samples"), f"{name}: {len(got)} samples for [{e[0]}, {e[1]}] at rate {rate}: not the source window")
    tgs = sorted(v["tgs"])
    if c["tgflag"] is False:
        if tgs:
            return Failure(dict(sig, clause="no-textgrids"), f"TextGrids written although outputTGFlag=False: {tgs}")
        return None
    if tgs != sorted(nm[:-4] + ".TextGrid" for nm in names):
        return Failure(dict(sig, clause="one-textgrid-per-entry"), f"TextGrids {tgs} for wavs {names}")
    src = {t["name"]: t for t in c["tg"]["tiers"]}
    for e, name in zip(es, names):
        g = v["tgs"][name[:-4] + ".TextGrid"]["blanks"]
        length = float(e[1]) - float(e[0])
        exact = Fraction(e[1]) - Fraction(e[0])
        # "exactly" up to the writer's documented snapping of numbers within 1e-14 (relative) of an integer
        span_ok = lambda lo, hi: lo == 0 and (hi == length or abs(Fraction(hi) - exact) <= abs(exact) / 10 ** 14)
        if not span_ok(g["lo"], g["hi"]) or not all(span_ok(t["lo"], t["hi"]) for t in g["tiers"]):
            return Failure(dict(sig, clause="span"), f"{name}: cropped TextGrid spans [{g['lo']}, {g['hi']}] "
                           f"(tiers {[(t['lo'], t['hi']) for t in g['tiers']]}), interval length {length}")
        want_tiers = [t["name"] for t in c["tg"]["tiers"]] if c["tgflag"] is True else [c["tgflag"]]
        if [t["name"] for t in g["tiers"]] != want_tiers:
            return Failure(dict(sig, clause="tiers"), f"{name}: tiers {[t['name'] for t in g['tiers']]}, expected {want_tiers}")
        for t in g["tiers"]:
            if T.wf_problems(t):
                return Failure(dict(sig, clause="well-formed"), f"{name}: tier {t['name']}: {T.wf_problems(t)}")
            if t["name"] == c["tier"]:
                labelled = [x for x in t["es"] if x[2] != ""]
                if labelled != [[0.0, g["hi"], e[2]]]:
                    return Failure(dict(sig, clause="label"), f"{name}: split tier holds {t['es']}, expected the entry's label {e[2]!r} over the whole span")
            elif t["k"] == "I":
                a, b = Fraction(e[0]), Fraction(e[1])
                srcs = [x for x in src[t["name"]]["es"] if Fraction(x[0]) < b and Fraction(x[1]) > a]
                if c["nopartial"]:
                    srcs = [x for x in srcs if a <= Fraction(x[0]) and Fraction(x[1]) <= b]
                if [x[2] for x in t["es"] if x[2] != ""] != [x[2] for x in srcs]:
                    return Failure(dict(sig, clause="partial-intervals"),
                                   f"{name}: tier {t['name']} holds {t['es']}; noPartialIntervals={c['nopartial']} selects {srcs}")
    return None


def oracle(c, r):
    op = c["op"]
    if c.get("w", 1) not in WIDTHS:
        return None
    if op == "times":
        return oracle_times(c, r)
    if op == "marked":
        return oracle_marked(c, r)
    if op in ("silence", "sine"):
        return oracle_count(c, r)
    if op == "extract":
        return oracle_extract(c, r)
    if op == "split":
        return oracle_split(c, r)
    raise KeyError(op)


# ------------------------------------------------------------------------------------------------
# evidence helpers
# ------------------------------------------------------------------------------------------------
def list_tags(c, l, D, rate):
    out = []
    if not l:
        return ["list:empty"]
    s = sorted((iv[0], iv[1]) for iv in l)
    if [tuple(iv[:2]) for iv in l] != s:
        out.append("list:unsorted")
    if any(x[1] == y[0] for x, y in zip(s, s[1:])):
        out.append("list:touching")
    if s[0][0] == 0:
        out.append("list:starts-at-0")
    if s[-1][1] == D:
        out.append("list:ends-at-duration")
    out += ["time:" + k for k in sorted({kind_of(t, rate) for iv in s for t in iv})]
    out.append(f"intervals:{min(len(l), 6)}")
    return out


def tags(c, r):
    op = c["op"]
    out = [op, "model" if has_model(c) else "oracle-only"]
    if r[0] == "err":
        out.append("err:" + r[1])
    elif op == "split" and r[1]["err"]:
        out.append("err:" + r[1]["err"])
    if "w" in c:
        out.append(f"width:{c['w']}")
    if "rate" in c:
        out.append(f"rate:{c['rate']}")
    if op == "times":
        k, d = lists_of(c)
        out.append("stream:" + c.get("stream", "wf"))
        out.append("mode:" + ("both" if k and d else "keep" if ("keep" in c and not d) else "delete" if "del" in c else "none"))
        out.append("gen:" + str(c["gen"]))
        out += list_tags(c, k if k else d, fdur(c), c["rate"])
    if op == "split":
        out += [f"style:{c['style']}", f"nopartial:{c['nopartial']}", "tgflag:" + (c["tgflag"] if isinstance(c["tgflag"], str) else str(c["tgflag"])),
                "silenceLabel:" + ("none" if c["silence"] is None else "set"), f"entries:{min(len(split_entries(c)), 10)}"]
        es = split_entries(c)
        for t in c["tg"]["tiers"]:
            if t["name"] != c["tier"] and t["k"] == "I":
                under = [any(x[0] < e[1] and x[1] > e[0] for x in t["es"]) for e in es]
                if any(under):
                    out.append("other-tier:entries-under-interval")
                if not all(under):
                    out.append("other-tier:nothing-under-interval")
        out += ["time:" + k for k in sorted({kind_of(t, c["rate"]) for e in es for t in e[:2]})]
    return out


def nontrivial(c, r):
    op = c["op"]
    if op == "marked":
        return bool(all_times(c))
    if op in ("silence", "sine"):
        return c["d"] > 0
    if nsamples(c) == 0:
        return False
    if op == "times":
        return bool(all_times(c)) or c.get("keep") is not None or c.get("del") is not None
    if op == "extract":
        return True
    if op == "split":
        return len(split_entries(c)) > 0
    return True


# ------------------------------------------------------------------------------------------------
# corpus
# ------------------------------------------------------------------------------------------------
def ramp(n, w, start=1):
    return enc_samples([((start + i) % 100) for i in range(n)], w).hex()


def simple_tg(D, words, others=()):
    tiers = [{"k": "I", "name": "words", "es": [list(e) for e in words], "lo": 0.0, "hi": D}] + [dict(t, lo=0.0, hi=D) for t in others]
    return {"lo": 0.0, "hi": D, "tiers": tiers}


def split_case(w, rate, n, words, others=(), **kw):
    c = {"op": "split", "w": w, "rate": rate, "hex": ramp(n, w), "tg": simple_tg(n / float(rate), words, others), "tier": "words",
         "stem": "rec", "tgflag": False, "style": None, "nopartial": False, "silence": None}
    c.update(kw)
    return c


def corpus():
    base = {"op": "times", "w": 1, "rate": 8, "hex": ramp(40, 1), "gen": None}
    # C17-2 (fixed, 25e3c22): an explicit empty keep list returned the whole recording
    yield dict(base, keep=[])
    yield dict(base, keep=[], gen="sil")
    # C17-1 (fixed, 2609506): a negative time was accepted (delete list: silently; keep list: when the start rounded to sample 0)
    yield dict(base, **{"del": [[-1.0, 2.0]]})
    yield dict(base, **{"del": [[-1.0, 2.0]]}, gen="sil")
    yield dict(base, keep=[[-0.01, 2.0]])
    yield dict(base, keep=[[-1.0, 2.0]])
    # documented rejections
    yield dict(base, keep=[[1.0, 2.0]], **{"del": [[3.0, 4.0]]})
    yield dict(base, keep=[[4.0, 6.0]])
    yield dict(base, **{"del": [[6.0, 7.0]]})
    # edges, touching, everything, nothing
    yield dict(base, **{"del": [[0.0, 1.0]]})
    yield dict(base, **{"del": [[4.0, 5.0]]})
    yield dict(base, **{"del": [[0.0, 5.0]]})
    yield dict(base, **{"del": [[0.0, 5.0]]}, gen="sil")
    yield dict(base, **{"del": [[1.0, 2.0], [2.0, 3.0]]}, gen="sil")
    yield dict(base, keep=[[1.0, 2.0], [2.0, 3.0]])
    yield dict(base, keep=[[0.0, 5.0]])
    yield dict(base)
    yield dict(base, **{"del": []})
    # malformed: overlapping (negative replacement duration), unsorted, zero length
    yield dict(base, keep=[[1.0, 3.0], [2.0, 4.0]], gen="sil", stream="malformed")
    yield dict(base, keep=[[3.0, 4.0], [1.0, 2.0]])
    yield dict(base, keep=[[2.0, 2.0]], stream="malformed")
    yield dict(base, keep=[[0.0, 100.0], [1.0, 2.0]], stream="malformed")
    # off-grid boundaries, widths 2 and 4
    yield {"op": "times", "w": 2, "rate": 8, "hex": ramp(40, 2), "gen": "sil", "del": [[0.3, 1.7], [2.45, 3.05]]}
    yield {"op": "times", "w": 4, "rate": 10, "hex": ramp(30, 4), "gen": None, "keep": [[0.3, 1.7], [1.7, 2.05]]}
    yield {"op": "times", "w": 2, "rate": 8, "hex": ramp(40, 2), "gen": "sine", "freq": 2, "del": [[1.0, 2.0], [3.5, 4.0]]}
    yield {"op": "marked", "start": 0.0, "stop": 5.0, "keep": [[1.0, 2.0], [2.0, 3.0]]}
    yield {"op": "marked", "start": 1.0, "stop": 3.0, "del": [[1.0, 2.0], [2.5, 3.0]]}
    yield {"op": "silence", "w": 2, "rate": 8, "d": 0.3}
    yield {"op": "sine", "w": 1, "rate": 8, "d": 0.5, "freq": 2, "amp": None}
    yield {"op": "extract", "w": 1, "rate": 8, "hex": ramp(40, 1), "t0": 0.06, "t1": 0.40}
    # C16-2 (fixed, 3f424d1): a window that starts outside the recording made setpos raise wave.Error (QueryWav) where the
    # in-memory path wrapped around; both now address the first / last sample of the recording
    for w in WIDTHS:
        yield {"op": "extract", "w": w, "rate": 8, "hex": ramp(16, w), "t0": -0.5, "t1": 0.5}
        yield {"op": "extract", "w": w, "rate": 8, "hex": ramp(16, w), "t0": 1.5, "t1": 9.0}
        yield {"op": "extract", "w": w, "rate": 8, "hex": ramp(16, w), "t0": 3.0, "t1": 9.0}
        yield {"op": "extract", "w": w, "rate": 8, "hex": ramp(16, w), "t0": -2.0, "t1": -1.0}
        # C16-3 (fixed, 906b45b): a reversed range wrote an empty file; it is an ArgumentError now (QueryWav.getFrames)
        yield {"op": "extract", "w": w, "rate": 8, "hex": ramp(16, w), "t0": 0.5, "t1": 0.25}
        yield {"op": "extract", "w": w, "rate": 8, "hex": ramp(16, w), "t0": 0.5, "t1": -0.25}
    # splitAudioOnTier
    words = [[0.5, 1.0, "a"], [1.0, 2.0, "b"], [3.0, 4.5, "a"]]
    others = [{"k": "I", "name": "phones", "es": [[0.5, 0.75, "p"], [0.75, 1.5, "q"], [3.5, 4.0, "r"]]},
              {"k": "P", "name": "pts", "es": [[0.625, "x"], [3.0, "y"]]}, {"k": "I", "name": "empty", "es": []}]
    yield split_case(1, 8, 40, words, others)
    yield split_case(1, 8, 40, words, others, style="append", tgflag=True)
    yield split_case(2, 8, 40, words, others, tgflag=True, nopartial=True)          # A1: nothing under an interval
    yield split_case(1, 8, 40, words, others, tgflag="phones")
    yield split_case(1, 8, 40, words, others, style="label")                         # C17-3: overwritten files
    yield split_case(1, 8, 40, words, others, style="append_no_i", tgflag=True)      # C17-3
    yield split_case(1, 8, 40, [], others)                                           # C17-4 (fixed, 5e608f3): no entry -> ValueError
    yield split_case(1, 8, 40, words[:1], others, silence="a")                       # C17-4 (fixed): only silence
    yield split_case(1, 8, 40, [[i * 0.5, i * 0.5 + 0.5, f"l{i}"] for i in range(10)], [], style="append")
    yield split_case(1, 8, 40, words[:2], others, stem="my%20file")                  # C17-5 (fixed, 8fb03b8): '%' in the wav's file name
    yield split_case(1, 8, 40, words[:2], others, stem="100%", style="append")       # C17-5 (fixed)
    yield split_case(1, 8, 40, words[:2], others, stem="my%20file", style="label", tgflag=True)


# ------------------------------------------------------------------------------------------------
# generators
# ------------------------------------------------------------------------------------------------
def gen_samples(rnd, w, n):
    lo, hi = -(1 << (8 * w - 1)), (1 << (8 * w - 1)) - 1
    style = rnd.random()
    if style < 0.5:
        xs = [rnd.randint(lo, hi) for _ in range(n)]
    elif style < 0.85:
        xs = [(i + 1) % 100 + 1 for i in range(n)]            # ramp without zeros: silence is distinguishable
    else:
        xs = [rnd.choice([lo, hi, -1, 1])] * n
    for _ in range(min(n, 3)):
        xs[rnd.randrange(n)] = rnd.choice([lo, hi, 0, -1, 1])
    return xs


def gen_count(rnd):
    k = rnd.random()
    if k < 0.03:
        return 0
    if k < 0.55:
        return rnd.randint(1, 24)
    if k < 0.9:
        return rnd.randint(25, 120)
    return rnd.randint(121, 400)


def gen_wav(rnd):
    w, rate, n = rnd.choice(WIDTHS), rnd.choice(RATES), gen_count(rnd)
    return w, rate, n, enc_samples(gen_samples(rnd, w, n), w).hex()


def pos_time(rnd, k, rate, kind):
    """a time at / just after sample position k"""
    if kind == "on":
        return k / float(rate)
    if kind == "half":
        return (k + 0.5) / rate
    return (k + rnd.choice([0.25, 0.3, 0.49, 0.51, 0.7])) / rate


def gen_intervals(rnd, rate, n, style=None):
    """sorted disjoint intervals inside [0, n/rate]"""
    D = n / float(rate)
    style = style or rnd.choice(["grid", "grid", "mixed", "mixed", "off", "all", "edges"])
    if n < 2:
        return [] if n == 0 or rnd.random() < 0.5 else [[0.0, D]]
    if style == "all":
        return [[0.0, D]]
    m = rnd.choice([1, 1, 2, 2, 3, 4, 6])
    ks = sorted(rnd.sample(range(0, n + 1), min(2 * m, n + 1)))
    kinds = {"grid": ["on"], "off": ["off", "off", "half"], "mixed": ["on", "off", "half"], "edges": ["on", "off"]}[style]
    ts = []
    for k in ks:
        kind = rnd.choice(kinds) if k < n else "on"
        ts.append(pos_time(rnd, k, rate, kind))
    ts = sorted(set(t for t in ts if 0 <= t <= D))
    out, i = [], 0
    while i + 1 < len(ts):
        out.append([ts[i], ts[i + 1]])
        i += 1 if rnd.random() < 0.35 else 2          # touching or separated
    if out and (style == "edges" or rnd.random() < 0.2):
        if rnd.random() < 0.7:
            out[0][0] = 0.0
        if rnd.random() < 0.7:
            out[-1][1] = D
    return [iv for iv in out if iv[0] < iv[1]]


def gen_times_case(rnd):
    w, rate, n, h = gen_wav(rnd)
    c = {"op": "times", "w": w, "rate": rate, "hex": h}
    g = rnd.random()
    c["gen"] = None if g < 0.45 else ("sil" if g < 0.9 else "sine")
    if c["gen"] == "sine":
        c["freq"] = rnd.choice([1, 2, 200, 440])
    l = gen_intervals(rnd, rate, n)
    if rnd.random() < 0.1:
        rnd.shuffle(l)
    if rnd.random() < 0.15:
        c["labelled"] = True
    k = rnd.random()
    if k < 0.04:
        pass                                              # no list at all
    elif k < 0.07:
        c[rnd.choice(["keep", "del"])] = []
    elif k < 0.09:
        c["keep" if rnd.random() < 0.5 else "del"] = None
    elif k < 0.54:
        c["keep"] = l
    else:
        c["del"] = l
    return c


def gen_malformed(rnd):
    w, rate, n, h = gen_wav(rnd)
    n = max(n, 4)
    h = enc_samples(gen_samples(rnd, w, n), w).hex() if len(h) // 2 // w != n else h
    D = n / float(rate)
    c = {"op": "times", "w": w, "rate": rate, "hex": h, "gen": rnd.choice([None, "sil"]), "stream": "malformed"}
    kind = rnd.choice(["both", "both-one-empty", "beyond", "beyond", "negative", "overlap", "zero", "reversed", "far-beyond"])
    l = gen_intervals(rnd, rate, n, "grid") or [[0.0, D]]
    key = rnd.choice(["keep", "del"])
    if kind == "both":
        c["keep"], c["del"] = l, gen_intervals(rnd, rate, n, "mixed") or [[0.0, D]]
    elif kind == "both-one-empty":
        c["keep"], c["del"] = (l, []) if rnd.random() < 0.5 else ([], l)
    elif kind == "beyond":
        l = [iv for iv in l if iv[1] < D] + [[max([iv[1] for iv in l if iv[1] < D] + [0.0]), (n + rnd.choice([1, 3, 0.5])) / rate]]
        c[key] = l
    elif kind == "far-beyond":
        c[key] = l + [[(n + 5) / rate, (n + 9) / rate]]
    elif kind == "negative":
        first = min(iv[0] for iv in l)
        c[key] = [[-rnd.choice([1.0, 0.3, 0.01]) / rate * rnd.choice([1, 8]), first if first > 0 else D / 2]] + [iv for iv in l if iv[0] > 0 and first > 0]
    elif kind == "overlap":
        a, b = sorted(rnd.sample(range(0, n + 1), 2))
        mid = (a + b) // 2
        c[key] = [[a / rate, (b + 0.0) / rate], [mid / rate, min(n, b + 2) / rate]]
    elif kind == "zero":
        c[key] = l + [[l[0][0], l[0][0]]]
    else:
        c[key] = [[iv[1], iv[0]] for iv in l]
    return c


def gen_marked(rnd):
    rate = rnd.choice(RATES)
    n = rnd.randint(2, 60)
    lo_k = rnd.choice([0, 0, rnd.randint(0, n // 2)])
    l = [iv for iv in gen_intervals(rnd, rate, n) if iv[0] >= lo_k / rate]
    c = {"op": "marked", "start": lo_k / float(rate), "stop": n / float(rate)}
    k = rnd.random()
    if k < 0.45:
        c["keep"] = l
    elif k < 0.9:
        c["del"] = l
    elif k < 0.95:
        c["keep"], c["del"] = l, gen_intervals(rnd, rate, n)
    if rnd.random() < 0.1:
        rnd.shuffle(l)
    return c


def gen_dur(rnd, rate):
    k = rnd.randint(0, 400)
    kind = rnd.choice(["on", "on", "off", "half", "dec", "zero", "neg"])
    if kind == "on":
        return k / float(rate)
    if kind == "dec":
        return round(rnd.uniform(0, 400.0 / rate), rnd.choice([1, 2, 3, 5]))
    if kind == "zero":
        return 0.0
    if kind == "neg":
        return -k / float(rate)
    return pos_time(rnd, k, rate, kind)


SAFE_LABELS = ["a", "b", "the", "x1", "Word", "é", "w_2", "c-d", "a b", "ox"]


def gen_split(rnd):
    w, rate = rnd.choice(WIDTHS), rnd.choice(RATES)
    n = rnd.randint(4, 400) if rnd.random() < 0.8 else rnd.randint(2, 12)
    h = enc_samples(gen_samples(rnd, w, n), w).hex()
    D = n / float(rate)
    many = rnd.random() < 0.12 and n >= 30
    ivs = []
    guard = 0
    while not ivs and guard < 20:
        guard += 1
        ivs = gen_intervals(rnd, rate, n, rnd.choice(["grid", "grid", "mixed", "off", "edges"]))
    if many:
        ks = sorted(rnd.sample(range(0, n + 1), rnd.randint(11, 13)))
        ivs = [[a / float(rate), b / float(rate)] for a, b in zip(ks, ks[1:])]
    if not ivs:
        ivs = [[0.0, D]]
    distinct = rnd.random() < 0.6
    pool = list(SAFE_LABELS) + [f"l{i}" for i in range(14)]
    rnd.shuffle(pool)
    words = [[a, b, pool[i] if distinct else rnd.choice(SAFE_LABELS[:5])] for i, (a, b) in enumerate(ivs)]
    # the other tiers: entries placed relative to the words (inside, straddling, outside) or nowhere
    wb = sorted({x for iv in ivs for x in iv})
    pts_pool = sorted(set(wb) | {x for x in (D / 2, D / 3) if all(abs(x - y) > 1e-7 for y in wb)})
    phones = []
    if rnd.random() < 0.85:
        bounds = sorted(set(t for t in [pos_time(rnd, rnd.randint(0, n - 1), rate, rnd.choice(["on", "off"])) for _ in range(rnd.randint(2, 8))]
                            + [x for x in pts_pool if rnd.random() < 0.4] if 0 <= t <= D))
        sep = []
        for b in bounds:                                  # no sliver gaps or overlaps: save() would absorb them (C04's subject)
            near = [x for x in wb if abs(x - b) <= 1e-7]
            b = near[0] if near else b                    # ... also not against the boundaries of the split tier
            if not sep or b - sep[-1] > 1e-7:
                sep.append(b)
        bounds, i = sep, 0
        while i + 1 < len(bounds):
            phones.append([bounds[i], bounds[i + 1], rnd.choice(["p", "q", "r", "s s"])])
            i += 1 if rnd.random() < 0.5 else 2
    others = [{"k": "I", "name": "phones", "es": phones}]
    if rnd.random() < 0.6:
        ps = sorted(set(rnd.choice(pts_pool + [pos_time(rnd, rnd.randint(0, n - 1), rate, "off")]) for _ in range(rnd.randint(0, 4))))
        others.append({"k": "P", "name": "pts", "es": [[t, rnd.choice(["x", "y"])] for t in ps if 0 <= t <= D]})
    if rnd.random() < 0.4:
        others.append({"k": "I", "name": "empty", "es": []})
    c = split_case(w, rate, n, words, others)
    c["hex"] = h
    c["style"] = rnd.choice([None, "append", "append_no_i", "label"])
    c["nopartial"] = rnd.random() < 0.5
    c["tgflag"] = rnd.choice([False, True, True, "phones", "words"])
    c["silence"] = None if rnd.random() < 0.8 else rnd.choice([wd[2] for wd in words] + ["sil"])
    c["stem"] = rnd.choice(["rec", "bobby_words", "a.b", "r 1"]) if rnd.random() < 0.96 else rnd.choice(["my%20file", "100%"])
    c["fmt"] = rnd.choice(["short_textgrid", "long_textgrid"])
    c["mkdir"] = rnd.random() < 0.8
    if rnd.random() < 0.03:
        c["tg"]["tiers"][0]["es"] = []
    if rnd.random() < 0.06:
        # a TextGrid longer than the recording: the entries beyond its end get the clamped (possibly empty) window
        keep = rnd.randint(1, n)
        c["hex"] = h[: keep * w * 2]
    return c


def gen(rnd, tier):
    m = 6 if tier == "thorough" else 1
    for _ in range(1400 * m):
        yield gen_times_case(rnd)
    for _ in range(350 * m):
        yield gen_malformed(rnd)
    for _ in range(300 * m):
        yield gen_marked(rnd)
    for _ in range(250 * m):
        w, rate = rnd.choice(WIDTHS), rnd.choice(RATES)
        yield {"op": "silence", "w": w, "rate": rate, "d": gen_dur(rnd, rate)}
    for _ in range(200 * m):
        w, rate = rnd.choice(WIDTHS), rnd.choice(RATES)
        amp = rnd.choice([None, None, 1, 100, 2 ** (8 * w - 1) - 1, 0.5])
        yield {"op": "sine", "w": w, "rate": rate, "d": gen_dur(rnd, rate), "freq": rnd.choice([1, 2, 50, 200, 440]), "amp": amp}
    for _ in range(350 * m):
        w, rate, n, h = gen_wav(rnd)
        ks = sorted([rnd.randint(0, n), rnd.randint(0, n)])
        kinds = ["on", "on", "off", "half"]
        t0 = pos_time(rnd, ks[0], rate, rnd.choice(kinds)) if ks[0] < n else n / float(rate)
        t1 = pos_time(rnd, ks[1], rate, rnd.choice(kinds)) if ks[1] < n else n / float(rate)
        if t0 > t1 and rnd.random() < 0.9:
            t0, t1 = t1, t0
        if rnd.random() < 0.08:
            t1 = rnd.choice([(n + 2) / float(rate), (n + 0.25) / float(rate), n / float(rate) + 1.0, 2.0 * n / rate + 3.5, 1e6])
        if rnd.random() < 0.04:
            t0 = rnd.choice([(n + 1) / float(rate), (n + 0.75) / float(rate), n / float(rate) + 0.5])
            t1 = max(t1, t0 + rnd.choice([0.0, 1.0 / rate, 1.0]))
        if rnd.random() < 0.08:
            t0 = rnd.choice([-1.0 / rate, -0.25 / rate, -0.5, -(n + 1.0) / rate, -1e6, -rnd.randint(1, 40) / 8.0])
            if rnd.random() < 0.2:
                t1 = rnd.choice([t0, t0 / 2, -0.125 / rate])
        yield {"op": "extract", "w": w, "rate": rate, "hex": h, "t0": t0, "t1": t1}
    for _ in range(400 * m):
        yield gen_split(rnd)


# ------------------------------------------------------------------------------------------------
# shrinking / perturbation (failing-input search)
# ------------------------------------------------------------------------------------------------
def shrink(c):
    op = c["op"]
    if op in ("times", "marked"):
        for key in ("keep", "del"):
            l = c.get(key)
            if l:
                for i in range(len(l)):
                    if len(l) > 1:
                        yield dict(c, **{key: l[:i] + l[i + 1:]})
        if op == "times" and c["gen"] == "sine":
            yield dict(c, gen="sil")
        if op == "times" and c.get("labelled"):
            yield dict(c, labelled=False)
    if op == "split":
        tiers = c["tg"]["tiers"]
        for ti, t in enumerate(tiers):
            if t["name"] != c["tier"] and c["tgflag"] != t["name"]:
                yield dict(c, tg=dict(c["tg"], tiers=tiers[:ti] + tiers[ti + 1:]))
            for i in range(len(t["es"])):
                if t["name"] != c["tier"] or len(t["es"]) > 1:
                    yield dict(c, tg=dict(c["tg"], tiers=tiers[:ti] + [dict(t, es=t["es"][:i] + t["es"][i + 1:])] + tiers[ti + 1:]))
        if c["tgflag"] is not False:
            yield dict(c, tgflag=False)
        if c["silence"] is not None:
            yield dict(c, silence=None)
        if c["stem"] != "rec":
            yield dict(c, stem="rec")


def perturb(c, rnd):
    op = c["op"]
    if op == "times":
        c2 = gen_times_case(rnd)
        c2.update(w=c["w"], rate=c["rate"], hex=c["hex"])
        n = nsamples(c)
        l = gen_intervals(rnd, c["rate"], n)
        for key in ("keep", "del"):
            if c2.get(key):
                c2[key] = l
        return c2
    if op == "split":
        c2 = gen_split(rnd)
        c2.update(style=c["style"], tgflag=c["tgflag"] if c["tgflag"] in (False, True, "phones", "words") else True, nopartial=c["nopartial"])
        return c2
    raise KeyError(op)
