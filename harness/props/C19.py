"""C19 — KlattGrid and point-object files round-trip every number exactly.

Case kinds (`op`):
  kg       a KlattGrid (the reference fixture or a synthetic file written by the independent writer below) is
           opened, a set of tiers is modified through modifySubtiers / modifyValues, saved, re-opened, saved and
           re-opened again.  Oracle: the property, stated on praatio's objects and files only.  Model: the writer
           model must reproduce the text handed to `_cleanNumericValues` and the file, and the reader model fed
           with the file must return the numerals praatio's reader returned.
  po       a PointProcess / PitchTier / DurationTier object is saved, re-opened, saved again; the same data in
           Praat's long layout (independent writer below) is opened too.
  pofix    the five point-object fixtures.
  kgtext / potext / clean / psd / modsub / slices   model-only correspondence on (also malformed) texts.
  u_*      unit correspondence of the Python string helpers of lean/PraatModel/Klatt.lean against CPython.
"""
import contextlib
import io
import json
import os
import shutil
import sys
import tempfile
import warnings

from framework import Failure, REPO

from praatio import klattgrid as kgmod
from praatio import data_points
from praatio.data_classes import klattgrid as kc
from praatio.data_classes.data_point import PointObject1D, PointObject2D

ESCALATE = False      # the quick tier already takes half a minute (file I/O per KlattGrid); a changed source does not enlarge it
RULE = ("KlattGrids: the reference tests/files/bobby.KlattGrid and synthetic files (independent writer, Praat layout or "
        "praatio layout; 1-6 (sometimes 10-13) oral / frication formants, 0-5 points per tier, values drawn from short integers, 17-digit "
        "decimals, exponent forms, 0) x value functions {x/3-like scaling by 1/3, x*1.1, +0.1, sign change, *1e-300, *1e300, "
        "constants 5, 0, 0.0, -7, 2.5, 1e-05, 1e+22, 0.1, pi} applied through modifySubtiers / modifyValues to a random "
        "subset of the tiers; open -> modify -> save -> open -> save -> open. Point objects: 0..6 points (thorough: ..40), "
        "3 classes x spans x numbers from {integers, 17-significant-digit decimals, exponent forms 1e-05 / 1e+22, 0, -0.0}, "
        "short layout written by praatio and long layout written by the independent writer, plus the five fixtures. "
        "Model-only streams: malformed / perturbed texts for both readers, row pools for _cleanNumericValues, "
        "_processSectionData inputs, and unit cases for find / findAll / rfind / slicing / split / rstrip / '%d' / "
        "float()- and int()-acceptance. non-trivial = a file with at least one point (kg, po) or a unit whose answer is "
        "not the default")
TRUSTED = ["oracle: the property stated directly on praatio's objects and the files it writes (harness/props/C19.py:oracle_kg, oracle_po)",
           "CPython's repr()/float() are outside the model (numerals are opaque strings): float(repr(x)) == x and the shape of "
           "repr(x) (characters 0-9 . e + - inf nan, no blank, no '=') are checked on every number of every case",
           "the canonicaliser applies KlattPointTier.__init__'s float-level steps to the model's numeral lists (sort by "
           "(time, value), span = hull of span and times) and PointObject.__init__'s 'minTime if minTime > 0 else 0'",
           "the independent KlattGrid / long point-object writers (harness/props/C19.py:write_klatt, write_long_po)"]
ASSUMPTIONS = ["numerals are ASCII float literals (the model's float()/int() acceptance tests are ASCII-only; CPython also accepts other Unicode digits)",
               "no NaN values (NaN != NaN); finite spans; point times inside the tier span",
               "synthetic KlattGrids keep Praat's order of intermediate tiers (formants, bandwidths, *_amplitudes) and have at least one sub tier per intermediate tier",
               "a second save is compared byte for byte only when no int-typed value was injected by the value function (praatio re-reads 5 as 5.0)"]

FILES = os.path.join(REPO, "tests", "files")
REF = os.path.join(FILES, "bobby.KlattGrid")

case_json = lambda c: c
case_from_json = lambda j: j


def wants_x(c):
    return False


def h(s: str) -> str:
    return "h" + s.encode("utf-8").hex()


def unh(tok: str) -> str:
    return bytes.fromhex(tok[1:]).decode("utf-8")


def call(fn):
    try:
        with contextlib.redirect_stdout(io.StringIO()), warnings.catch_warnings():
            warnings.simplefilter("ignore")
            return ("ok", fn())
    except Exception as e:  # noqa: BLE001 - the class is the observable
        return ("err", type(e).__name__)


def rp(x) -> str:
    """the numeral a float-valued attribute denotes, digit for digit"""
    return repr(float(x))


# ----------------------------------------------------------------------------------------------
# value functions
# ----------------------------------------------------------------------------------------------
FUNCS = {
    "third": lambda v: v * (1 / 3),
    "x1.1": lambda v: v * 1.1,
    "plus0.1": lambda v: v + 0.1,
    "neg": lambda v: -v,
    "tiny": lambda v: v * 1e-300,
    "huge": lambda v: v * 1e300,
    "c5": lambda v: 5,
    "c0": lambda v: 0,
    "c0.0": lambda v: 0.0,
    "c-7": lambda v: -7,
    "c2.5": lambda v: 2.5,
    "c1e-05": lambda v: 1e-05,
    "c1e+22": lambda v: 1e22,
    "c0.1": lambda v: 0.1,
    "cpi": lambda v: 3.141592653589793,
    "c55": lambda v: 55,
}
FNAMES = sorted(FUNCS)
REF_FUNCS = ["third", "x1.1", "neg", "tiny", "huge", "c0", "c5", "c1e-05", "plus0.1", "c1e+22", "c-7", "c0.0", "c2.5", "c0.1", "cpi", "c55"]


# ----------------------------------------------------------------------------------------------
# independent writers
# ----------------------------------------------------------------------------------------------
def num(x) -> str:
    return repr(x)


def write_klatt(spec) -> str:
    """a KlattGrid text in Praat's layout (`style` praat: trailing blanks as Praat writes them; plain: none)"""
    sp = " " if spec.get("style", "praat") == "praat" else ""
    L = ['File type = "ooTextFile"', 'Object class = "KlattGrid"', ""]
    lo, hi = num(spec["xmin"]), num(spec["xmax"])
    L += [f"xmin = {lo}{sp}", f"xmax = {hi}{sp}"]

    def pts_rows(ind, pts):
        out = [f"{ind}points: size = {len(pts)}{sp}"]
        for i, (t, v) in enumerate(pts):
            out += [f"{ind}points [{i + 1}]:", f"{ind}    number = {num(t)}{sp}", f"{ind}    value = {num(v)}{sp}"]
        return out

    for s in spec["secs"]:
        L += [f"{s['name']}? <exists>{sp}", f"xmin = {lo}{sp}", f"xmax = {hi}{sp}"]
        if s["k"] == "T":
            if s["pts"] is not None:
                L += pts_rows("", s["pts"])
        else:
            for it in s["its"]:
                L.append(f"{it['name']}: size = {len(it['subs'])}{sp}")
                for j, pts in enumerate(it["subs"]):
                    L += [f"{it['name']} [{j + 1}]:", f"    xmin = {lo}{sp}", f"    xmax = {hi}{sp}"]
                    L += pts_rows("    ", pts)
    return "\n".join(L) + ("" if spec.get("nofinalnl") else "\n")


def write_long_po(cls, lo, hi, rows) -> str:
    """Praat's long text layout of a PointProcess / PitchTier / DurationTier"""
    L = ['File type = "ooTextFile"', f'Object class = "{cls}"', "", f"xmin = {num(lo)} ", f"xmax = {num(hi)} "]
    if cls == "PointProcess":
        L += [f"nt = {len(rows)} ", "t []: "]
        for i, r in enumerate(rows):
            L.append(f"    t [{i + 1}] = {num(r[0])} ")
    else:
        L.append(f"points: size = {len(rows)} ")
        for i, r in enumerate(rows):
            L += [f"points [{i + 1}]:", f"    number = {num(r[0])} ", f"    value = {num(r[1])} "]
    return "\n".join(L) + "\n"


# ----------------------------------------------------------------------------------------------
# snapshots of praatio objects
# ----------------------------------------------------------------------------------------------
def snap_pt(t):
    return {"name": t.name, "min": t.minTimestamp, "max": t.maxTimestamp, "pts": [list(e) for e in t.entries]}


def snap_kg(kg):
    out = {"min": kg.minTimestamp, "max": kg.maxTimestamp, "secs": []}
    for name in kg.tierNames:
        t = kg.getTier(name)
        if isinstance(t, kc.KlattContainerTier):
            its = []
            for iname in t.tierNameList:
                it = t.tierDict[iname]
                its.append({"name": iname, "min": it.minTimestamp, "max": it.maxTimestamp,
                            "subs": [snap_pt(it.tierDict[sn]) for sn in it.tierNameList]})
            out["secs"].append({"k": "C", "name": name, "min": t.minTimestamp, "max": t.maxTimestamp, "its": its})
        else:
            out["secs"].append(dict(snap_pt(t), k="T"))
    return out


def all_numbers_kg(tree):
    yield tree["min"]
    yield tree["max"]
    for s in tree["secs"]:
        yield s["min"]
        yield s["max"]
        tiers = [s] if s["k"] == "T" else [st for it in s["its"] for st in it["subs"]]
        for t in tiers:
            yield t["min"]
            yield t["max"]
            for a, b in t["pts"]:
                yield a
                yield b


def same_num(a, b):
    """`==` on the numbers and the same digits"""
    if a is None or b is None:
        return a is b
    return a == b and rp(a) == rp(b)


def is_negzero_diff(a, b):
    return a is not None and b is not None and a == b == 0 and rp(a) != rp(b)


def diff_pt(path, a, b, out):
    if a["name"] != b["name"]:
        out.append((path + "/name", a["name"], b["name"]))
    for k in ("min", "max"):
        if not same_num(a[k], b[k]):
            out.append((f"{path}/{k}", a[k], b[k]))
    if len(a["pts"]) != len(b["pts"]):
        out.append((path + "/npoints", len(a["pts"]), len(b["pts"])))
        return
    for i, (p, q) in enumerate(zip(a["pts"], b["pts"])):
        if not same_num(p[0], q[0]):
            out.append((f"{path}/time[{i}]", p[0], q[0]))
        if not same_num(p[1], q[1]):
            out.append((f"{path}/value[{i}]", p[1], q[1]))


def diff_kg(a, b):
    """differences between two snapshots: [(path, in a, in b)]"""
    out = []
    for k in ("min", "max"):
        if not same_num(a[k], b[k]):
            out.append((k, a[k], b[k]))
    na, nb = [(s["k"], s["name"]) for s in a["secs"]], [(s["k"], s["name"]) for s in b["secs"]]
    if na != nb:
        out.append(("hierarchy", na, nb))
        return out
    for s, u in zip(a["secs"], b["secs"]):
        if s["k"] == "T":
            diff_pt(s["name"], s, u, out)
            continue
        for k in ("min", "max"):
            if not same_num(s[k], u[k]):
                out.append((f"{s['name']}/{k}", s[k], u[k]))
        ia, ib = [(i["name"], [t["name"] for t in i["subs"]]) for i in s["its"]], [(i["name"], [t["name"] for t in i["subs"]]) for i in u["its"]]
        if ia != ib:
            out.append((s["name"] + "/hierarchy", ia, ib))
            continue
        for i, j in zip(s["its"], u["its"]):
            for t, v in zip(i["subs"], j["subs"]):
                diff_pt(f"{s['name']}/{i['name']}/{t['name']}", t, v, out)
    return out


# ----------------------------------------------------------------------------------------------
# wire encodings (mirror of lean/PraatModel/RunKlatt.lean)
# ----------------------------------------------------------------------------------------------
def enc_pts(pts, f=repr):
    return " ".join([str(len(pts))] + [f"{h(f(a))} {h(f(b))}" for a, b in pts])


def enc_pt(t, f=repr):
    return f"{h(t['name'])} {h(f(t['min']))} {h(f(t['max']))} {enc_pts(t['pts'], f)}"


def enc_its(its, f=repr):
    return " ".join([str(len(its))] + [" ".join([h(i["name"]), str(len(i["subs"]))] + [enc_pt(t, f) for t in i["subs"]]) for i in its])


def enc_tree(tree):
    """the writer's view: numerals are repr() of the attributes as they are in memory at save time"""
    toks = [h(repr(tree["min"])), h(repr(tree["max"])), str(len(tree["secs"]))]
    for s in tree["secs"]:
        if s["k"] == "T":
            toks.append("T " + enc_pt(s))
        else:
            span = "N" if s["min"] is None else f"{h(repr(s['min']))} {h(repr(s['max']))}"
            toks.append(f"C {h(s['name'])} {span} {enc_its(s['its'])}")
    return " ".join(toks)


def dump_secs(tree):
    """the reader's view (what `klatt_read` prints), numerals digit for digit"""
    toks = [str(len(tree["secs"]))]
    for s in tree["secs"]:
        if s["k"] == "T":
            toks.append("T " + enc_pt(s, rp))
        else:
            toks.append(" ".join(["C", h(s["name"]), str(len(s["its"]))] + [" ".join([h(i["name"]), str(len(i["subs"]))] + [enc_pt(t, rp) for t in i["subs"]]) for i in s["its"]]))
    return " ".join(toks)


class Toks:
    def __init__(self, toks):
        self.t, self.i = toks, 0

    def next(self):
        v = self.t[self.i]
        self.i += 1
        return v

    def done(self):
        return self.i == len(self.t)


def parse_pt(tk):
    name, lo, hi, n = unh(tk.next()), unh(tk.next()), unh(tk.next()), int(tk.next())
    pts = [(unh(tk.next()), unh(tk.next())) for _ in range(n)]
    return {"name": name, "min": lo, "max": hi, "pts": pts}


def parse_secs(tk):
    secs = []
    for _ in range(int(tk.next())):
        k = tk.next()
        if k == "T":
            secs.append(dict(parse_pt(tk), k="T"))
        else:
            name, ni = unh(tk.next()), int(tk.next())
            its = []
            for _ in range(ni):
                iname, ns = unh(tk.next()), int(tk.next())
                its.append({"name": iname, "subs": [parse_pt(tk) for _ in range(ns)]})
            secs.append({"k": "C", "name": name, "its": its})
    return secs


def norm_pt(t):
    """KlattPointTier.__init__ on numerals: float(), sort, span = hull"""
    pts = sorted((float(a), float(b)) for a, b in t["pts"])
    times = [a for a, _ in pts] + [float(t["min"]), float(t["max"])]
    return {"name": t["name"], "min": min(times), "max": max(times), "pts": [list(p) for p in pts]}


def canon_secs(toks):
    """token list of a section dump -> canonical token string (or None when it does not parse)"""
    try:
        tk = Toks(toks)
        secs = parse_secs(tk)
        if not tk.done():
            return None
        for s in secs:
            if s["k"] == "T":
                s.update(norm_pt(s))
            else:
                for i in s["its"]:
                    i["subs"] = [norm_pt(t) for t in i["subs"]]
        return dump_secs({"secs": secs})
    except (ValueError, IndexError, AssertionError):
        return None


def parse_po(tk):
    cls, lo, hi, n = unh(tk.next()), unh(tk.next()), unh(tk.next()), int(tk.next())
    rows = []
    for _ in range(n):
        k = int(tk.next())
        rows.append([unh(tk.next()) for _ in range(k)])
    return cls, lo, hi, rows


def dump_po(cls, lo, hi, rows, f=rp):
    return " ".join([h(cls), h(f(lo)), h(f(hi)), str(len(rows))] + [" ".join([str(len(r))] + [h(f(x)) for x in r]) for r in rows])


def canon_po_part(toks):
    """`ok <po>` / `err X` token list -> canonical string"""
    if not toks or toks[0] != "ok":
        return " ".join(toks)
    try:
        tk = Toks(toks[1:])
        cls, lo, hi, rows = parse_po(tk)
        if not tk.done():
            return " ".join(toks)
        lo = float(lo)
        lo = lo if lo > 0 else 0          # PointObject.__init__
        return "ok " + dump_po(cls, lo, float(hi), [[float(x) for x in r] for r in rows])
    except (ValueError, IndexError, AssertionError):
        return " ".join(toks)


def canon(c, line):
    op = c["op"]
    toks = line.split(" ")
    if op in ("kg", "kgtext"):
        k = 3 if op == "kg" else 0
        if len(toks) > k + 1 and toks[k] == "ok":
            body = canon_secs(toks[k + 1:])
            if body is not None:
                return " ".join(toks[:k + 1] + [body])
        return line
    if op in ("po",):
        if toks[:1] == ["ok"] and "|" in toks:
            j = toks.index("|")
            return " ".join(toks[:3]) + " " + canon_po_part(toks[3:j]) + " | " + canon_po_part(toks[j + 1:])
        return line
    if op in ("pofix", "potext"):
        return canon_po_part(toks)
    if op == "psd" and toks[:1] == ["ok"]:
        try:
            return " ".join(toks[:2] + [h(rp(unh(x))) for x in toks[2:]])
        except ValueError:
            return line
    return line


# ----------------------------------------------------------------------------------------------
# implementation side
# ----------------------------------------------------------------------------------------------
class CleanSpy:
    """records the argument and result of `_cleanNumericValues` during `Klattgrid.save`"""

    def __enter__(self):
        self.orig = kc._cleanNumericValues
        self.calls = []

        def spy(txt):
            out = self.orig(txt)
            self.calls.append((txt, out))
            return out

        kc._cleanNumericValues = spy
        return self

    def __exit__(self, *a):
        kc._cleanNumericValues = self.orig


def read_text(fn):
    with io.open(fn, "r", encoding="utf-8", newline="") as fd:
        return fd.read()


def write_text(fn, text):
    with io.open(fn, "w", encoding="utf-8", newline="") as fd:
        fd.write(text)


def apply_mods(kg, mods, log, direct=False):
    for m in mods:
        f0 = FUNCS[m["f"]]

        def f(v, f0=f0, m=m):
            log.append((m["sec"], m.get("sub"), v))
            return f0(v)

        tier = kg.getTier(m["sec"])
        if m.get("sub") is None:
            tier.modifyValues(f)
        elif direct:
            # the route of examples/klatt_resynthesis.py: modifyValues on the sub-tier objects themselves, in the order
            # modifySubtiers visits them (round 3, C19-v1: a text cache that only modifySubtiers invalidates)
            kit = tier.tierDict[m["sub"]]
            for name in kit.tierNameList:
                kit.tierDict[name].modifyValues(f)
        else:
            tier.modifySubtiers(m["sub"], f)


def impl_kg(c):
    d = tempfile.mkdtemp(prefix="praatio-verif.")
    r = {}
    try:
        if c["src"] == "ref":
            src = REF
        else:
            src = os.path.join(d, "src.KlattGrid")
            write_text(src, write_klatt(c["src"]))
        o = call(lambda: kgmod.openKlattgrid(src))
        if o[0] == "err":
            return {"fail": ("open-source", o[1])}
        kg = o[1]
        r["tree0"] = snap_kg(kg)
        log = []
        # every other case the object has a past when it is modified: it has been saved once already, and the sub-tiers
        # are then modified directly; both are deterministic functions of the case
        past = (len(c["mods"]) + len(json.dumps(c["mods"], sort_keys=True, default=str))) % 2 == 1
        if past:
            o = call(lambda: kg.save(os.path.join(d, "zero.KlattGrid")))
            if o[0] == "err":
                return {"fail": ("save-before-modify", o[1])}
            r["tree0"] = snap_kg(kg)       # save passes minTimestamps through toIntOrFloat (as recorded for tree1s below)
        o = call(lambda: apply_mods(kg, c["mods"], log, direct=past))
        if o[0] == "err":
            return {"fail": ("modify", o[1])}
        r["calls"] = log
        r["tree1"] = snap_kg(kg)
        f1, f2 = os.path.join(d, "one.KlattGrid"), os.path.join(d, "two.KlattGrid")
        with CleanSpy() as spy:
            o = call(lambda: kg.save(f1))
        if o[0] == "err":
            return dict(r, fail=("save", o[1]))
        r["tree1s"] = snap_kg(kg)          # after save: minTimestamps have been passed through toIntOrFloat
        r["pre"], r["post"] = spy.calls[0] if spy.calls else (None, None)
        r["text1"] = read_text(f1)
        o = call(lambda: kgmod.openKlattgrid(f1))
        r["read"] = o if o[0] == "err" else ("ok", snap_kg(o[1]))
        if o[0] == "err":
            return r
        kg2 = o[1]
        o = call(lambda: kg2.save(f2))
        if o[0] == "err":
            return dict(r, fail=("save-again", o[1]))
        r["text2"] = read_text(f2)
        o = call(lambda: kgmod.openKlattgrid(f2))
        r["read2"] = o if o[0] == "err" else ("ok", snap_kg(o[1]))
        return r
    finally:
        shutil.rmtree(d, ignore_errors=True)


def snap_po(po):
    return {"cls": po.objectClass, "min": po.minTime, "max": po.maxTime, "rows": [list(r) for r in po.pointList]}


def opener(two):
    return data_points.open2DPointObject if two else data_points.open1DPointObject


def impl_po(c):
    d = tempfile.mkdtemp(prefix="praatio-verif.")
    try:
        cls = c["cls"]
        two = cls != "PointProcess"
        ctor = PointObject2D if two else PointObject1D
        o = call(lambda: ctor([tuple(p) for p in c["rows"]], cls, c["min"], c["max"]))
        if o[0] == "err":
            return {"fail": ("construct", o[1])}
        po = o[1]
        r = {"po": snap_po(po)}
        f1, f2, f3 = (os.path.join(d, n + "." + cls) for n in ("one", "two", "long"))
        o = call(lambda: po.save(f1))
        if o[0] == "err":
            return dict(r, fail=("save", o[1]))
        r["text1"] = read_text(f1)
        o = call(lambda: opener(two)(f1))
        r["read"] = o if o[0] == "err" else ("ok", snap_po(o[1]))
        if o[0] == "ok":
            po2 = o[1]
            o = call(lambda: po2.save(f2))
            r["text2"] = read_text(f2) if o[0] == "ok" else None
        r["long"] = write_long_po(cls, po.minTime, po.maxTime, po.pointList)
        write_text(f3, r["long"])
        o = call(lambda: opener(two)(f3))
        r["readlong"] = o if o[0] == "err" else ("ok", snap_po(o[1]))
        return r
    finally:
        shutil.rmtree(d, ignore_errors=True)


def impl_pofix(c):
    d = tempfile.mkdtemp(prefix="praatio-verif.")
    try:
        fn = os.path.join(FILES, c["fn"])
        two = c["two"]
        o = call(lambda: opener(two)(fn))
        if o[0] == "err":
            return {"read": o, "text": read_text(fn)}
        po = o[1]
        r = {"read": ("ok", snap_po(po)), "text": read_text(fn).replace("\r\n", "\n")}
        f1 = os.path.join(d, "one." + po.objectClass)
        po.save(f1)
        r["text1"] = read_text(f1)
        o = call(lambda: opener(two)(f1))
        r["reread"] = o if o[0] == "err" else ("ok", snap_po(o[1]))
        if c.get("twin"):
            o = call(lambda: opener(two)(os.path.join(FILES, c["twin"])))
            r["twin"] = o if o[0] == "err" else ("ok", snap_po(o[1]))
        return r
    finally:
        shutil.rmtree(d, ignore_errors=True)


def build_container(its):
    kct = kc.KlattContainerTier("oral_formants")
    for i in its:
        kit = kc.KlattIntermediateTier(i["name"])
        for t in i["subs"]:
            kit.addTier(kc.KlattSubPointTier(t["name"], [tuple(p) for p in t["pts"]], t["min"], t["max"]))
        kct.addTier(kit)
    return kct


def snap_its(kct):
    return [{"name": n, "subs": [snap_pt(kct.tierDict[n].tierDict[s]) for s in kct.tierDict[n].tierNameList]} for n in kct.tierNameList]


_CACHE = {}      # id(case) -> (case, result): `encode` needs what the implementation wrote for this case


def cached(c, fn):
    hit = _CACHE.get(id(c))
    if hit is not None and hit[0] is c:
        return hit[1]
    r = fn(c)
    _CACHE[id(c)] = (c, r)
    return r


def impl(c):
    op = c["op"]
    if op == "kg":
        _CACHE.pop(id(c), None)
        return cached(c, impl_kg)
    if op == "po":
        _CACHE.pop(id(c), None)
        return cached(c, impl_po)
    if op == "pofix":
        return impl_pofix(c)
    if op == "kgtext":
        o = call(lambda: kgmod._openNormalKlattgrid(c["text"]))
        return o if o[0] == "err" else ("ok", snap_kg(o[1]))
    if op == "potext":
        d = tempfile.mkdtemp(prefix="praatio-verif.")
        try:
            fn = os.path.join(d, "x.txt")
            write_text(fn, c["text"])
            o = call(lambda: opener(c["two"])(fn))
            return o if o[0] == "err" else ("ok", snap_po(o[1]))
        finally:
            shutil.rmtree(d, ignore_errors=True)
    if op == "clean":
        return call(lambda: kc._cleanNumericValues(c["text"]))
    if op == "psd":
        return call(lambda: kgmod._processSectionData(c["text"]))
    if op == "slices":
        return ("ok", None)
    if op == "modsub":
        kct = build_container(c["its"])
        tbl = dict(c["tbl"])
        o = call(lambda: kct.modifySubtiers(c["name"], lambda v: float(tbl.get(repr(v), repr(v)))))
        return o if o[0] == "err" else ("ok", snap_its(kct))
    s = c.get("s")
    if op == "u_find":
        return ("ok", s.find(c["p"], c["start"]))
    if op == "u_findall":
        from praatio.utilities import utils
        return ("ok", utils.findAll(s, c["p"]))
    if op == "u_rfind":
        return ("ok", s.rfind(c["p"], 0, c["hi"]))
    if op == "u_slice":
        return ("ok", s[c["a"]:c["b"]])
    if op == "u_splitn":
        return ("ok", s.split(c["p"], c["n"]))
    if op == "u_rstrip":
        return ("ok", s.rstrip())
    if op == "u_firsttok":
        return call(lambda: s.split()[0])
    if op == "u_natdec":
        return ("ok", "%d" % c["n"])
    if op == "u_fclass":
        try:
            v = float(s)
        except ValueError:
            return ("ok", "none")
        return ("ok", "nan" if v != v else ("zero" if v == 0 else ("pos" if v > 0 else "neg")))
    if op == "u_isint":
        try:
            int(s)
            return ("ok", True)
        except ValueError:
            return ("ok", False)
    raise KeyError(op)


# ----------------------------------------------------------------------------------------------
# model side
# ----------------------------------------------------------------------------------------------
def enc_po(p, f=repr):
    rows = p["rows"]
    w = len(rows[0]) if rows else (1 if p["cls"] == "PointProcess" else 2)
    return " ".join([h(p["cls"]), h(f(p["min"])), h(f(p["max"])), str(len(rows)), str(w)] + [h(f(x)) for r in rows for x in r])


def encode(c, enc):
    op = c["op"]
    if op == "kg":
        r = cached(c, impl_kg)
        if "pre" not in r or r["pre"] is None:
            return "skip"
        return f"klatt_file {enc_tree(r['tree1s'])} {h(r['pre'])} {h(r['text1'])}"
    if op == "po":
        r = cached(c, impl_po)
        if "text1" not in r:
            return "skip"
        return f"po_file {int(c['cls'] != 'PointProcess')} {enc_po(r['po'])} {h(r['text1'])} {h(r['long'])}"
    if op == "pofix":
        text = read_text(os.path.join(FILES, c["fn"])).replace("\r\n", "\n")
        return ("po_read2d " if c["two"] else "po_read1d ") + h(text)
    if op == "kgtext":
        return "klatt_read " + h(c["text"])
    if op == "potext":
        return ("po_read2d " if c["two"] else "po_read1d ") + h(c["text"])
    if op == "clean":
        return "klatt_clean " + h(c["text"])
    if op == "psd":
        return "klatt_psd " + h(c["text"])
    if op == "slices":
        return f"klatt_slices {int(c['old'])} {h(c['text'])}"
    if op == "modsub":
        tbl = c["tbl"]
        return (f"klatt_modsub {enc_its(c['its'], rp)} {h(c['name'])} {len(tbl)} " + " ".join(f"{h(a)} {h(b)}" for a, b in tbl)).rstrip()
    if op == "u_find":
        return f"u_find {h(c['p'])} {h(c['s'])} {c['start']}"
    if op == "u_findall":
        return f"u_findall {h(c['p'])} {h(c['s'])}"
    if op == "u_rfind":
        return f"u_rfind {h(c['p'])} {h(c['s'])} {c['hi']}"
    if op == "u_slice":
        return f"u_slice {h(c['s'])} {c['a']} {c['b']}"
    if op == "u_splitn":
        return f"u_splitn {h(c['p'])} {c['n']} {h(c['s'])}"
    if op in ("u_rstrip", "u_firsttok", "u_fclass", "u_isint"):
        return f"{op} {h(c['s'])}"
    if op == "u_natdec":
        return f"u_natdec {c['n']}"
    raise KeyError(op)


def render_po_result(o):
    if o[0] == "err":
        return "err " + o[1]
    p = o[1]
    return "ok " + dump_po(p["cls"], p["min"], p["max"], p["rows"])


def render(c, r, enc):
    op = c["op"]
    if op == "kg":
        if "pre" not in r or r["pre"] is None:
            return "ok skip"
        rd = r["read"]
        return "ok w=1 c=1 " + ("err " + rd[1] if rd[0] == "err" else "ok " + dump_secs(rd[1]))
    if op == "po":
        if "text1" not in r:
            return "ok skip"
        return "ok w=1 lw=1 " + render_po_result(r["read"]) + " | " + render_po_result(r["readlong"])
    if op == "pofix":
        return render_po_result(r["read"])
    if op == "potext":
        return render_po_result(r)
    if op == "kgtext":
        return "err " + r[1] if r[0] == "err" else "ok " + dump_secs(r[1])
    if op == "clean":
        return "ok " + h(r[1])
    if op == "psd":
        return "err " + r[1] if r[0] == "err" else "ok " + enc_pts(r[1], rp)
    if op == "slices":
        return "ok " + c["expect"]
    if op == "modsub":
        return "err " + r[1] if r[0] == "err" else "ok " + enc_its(r[1], rp)
    if r[0] == "err":
        return "err " + r[1]
    v = r[1]
    if op in ("u_find", "u_rfind"):
        return f"ok {v}"
    if op == "u_findall":
        return "ok " + " ".join([str(len(v))] + [str(i) for i in v])
    if op in ("u_slice", "u_rstrip", "u_firsttok", "u_natdec"):
        return "ok " + h(v)
    if op == "u_splitn":
        return "ok " + " ".join([str(len(v))] + [h(x) for x in v])
    if op == "u_fclass":
        return "ok " + v
    if op == "u_isint":
        return "ok " + ("1" if v else "0")
    raise KeyError(op)


# ----------------------------------------------------------------------------------------------
# oracles
# ----------------------------------------------------------------------------------------------
NUMERAL_CHARS = set("0123456789.e+-infa")


def trusted_base_problem(x):
    """float(repr(x)) == x and repr(x) has the shape the theorems assume of a numeral"""
    s = repr(x)
    if not (float(s) == x or x != x):
        return f"float(repr({s})) != value"
    if s != s.strip() or not s or not set(s) <= NUMERAL_CHARS or "=" in s or "\n" in s:
        return f"repr gives an unexpected numeral shape {s!r}"
    return None


def expected_after(tree0, mods):
    import copy
    t = copy.deepcopy(tree0)
    addressed = 0
    for m in mods:
        f = FUNCS[m["f"]]
        sec = [s for s in t["secs"] if s["name"] == m["sec"]][0]
        tiers = [sec] if m.get("sub") is None else [it for it in sec["its"] if it["name"] == m["sub"]][0]["subs"]
        for tier in tiers:
            tier["pts"] = [[a, f(float(v))] for a, v in tier["pts"]]
            addressed += len(tier["pts"])
    return t, addressed


def spec_tree(spec):
    """the snapshot a correct reader returns for a synthetic source (all spans are the file's span)"""
    lo, hi = spec["xmin"], spec["xmax"]
    secs = []
    for s in spec["secs"]:
        if s["k"] == "T":
            secs.append({"k": "T", "name": s["name"], "min": lo, "max": hi, "pts": [list(p) for p in (s["pts"] or [])]})
        else:
            secs.append({"k": "C", "name": s["name"], "min": lo, "max": hi, "its": [
                {"name": it["name"], "subs": [{"name": f"{it['name']} [{j + 1}]", "min": lo, "max": hi, "pts": [list(p) for p in pts]}
                                               for j, pts in enumerate(it["subs"])]} for it in s["its"]]})
    return {"min": lo, "max": hi, "secs": secs}


def strip_container_spans(tree):
    return tree


def classify(diffs):
    """signature parts for a list of differences; differences that are only a lost sign of zero come last"""
    hard = [d for d in diffs if not is_negzero_diff(d[1], d[2])]
    if hard:
        p = hard[0][0]
        what = "hierarchy" if p.endswith("hierarchy") else p.rsplit("/", 1)[-1].split("[")[0]
        return what, None, hard[0]
    return "value", "negative-zero", diffs[0]


def oracle_kg(c, r):
    sig = {"op": "kg", "src": "ref" if c["src"] == "ref" else "synthetic"}
    if "fail" in r:
        return Failure(dict(sig, clause="no-error", stage=r["fail"][0], exc=r["fail"][1]), f"{r['fail'][0]} raised {r['fail'][1]}")
    for x in all_numbers_kg(r["tree1"]):
        if x is not None:
            p = trusted_base_problem(x)
            if p:
                return Failure(dict(sig, clause="trusted-base"), p)
    # a synthetic source opens to what the independent writer put into it
    if c["src"] != "ref":
        d = diff_kg(spec_tree(c["src"]), strip_container_spans(r["tree0"]))
        if d:
            return Failure(dict(sig, clause="source-read"), f"opening the source file gives {d[0][0]} = {d[0][2]!r}, the file says {d[0][1]!r}")
    # modify: every addressed value exactly once, nothing else
    exp, addressed = expected_after(r["tree0"], c["mods"])
    d = diff_kg(exp, r["tree1"])
    if d:
        return Failure(dict(sig, clause="modify-spec"), f"after modification {d[0][0]} is {d[0][2]!r}, expected {d[0][1]!r}")
    if len(r["calls"]) != addressed:
        return Failure(dict(sig, clause="modify-once"), f"the value function was called {len(r['calls'])} times for {addressed} addressed values")
    # save -> open
    if r["read"][0] == "err":
        return Failure(dict(sig, clause="reopen", exc=r["read"][1]), f"re-opening the saved file raised {r['read'][1]}")
    d = diff_kg(r["tree1"], r["read"][1])
    held = None
    if d:
        what, cause, (path, a, b) = classify(d)
        s2 = dict(sig, clause="roundtrip-" + what)
        if cause:
            s2["cause"] = cause
        held = Failure(s2, f"after save/open {path} is {b!r}, was {a!r} ({len(d)} difference(s))")
        if not cause:
            return held
        # only signs of zero were lost: the remaining clauses are still checked, this failure is reported last
    # second save / third open
    ints = any(isinstance(x, int) and not isinstance(x, bool) for s in r["tree1"]["secs"]
               for t in ([s] if s["k"] == "T" else [st for it in s["its"] for st in it["subs"]]) for p in t["pts"] for x in p)
    if r.get("text2") is None:
        return Failure(dict(sig, clause="second-save"), "no second file")
    if not ints and r["text2"] != r["text1"]:
        return Failure(dict(sig, clause="second-save-bytes"), "the second save differs from the first: " + first_diff(r["text1"], r["text2"]))
    if r["read2"][0] == "err":
        return Failure(dict(sig, clause="reopen2", exc=r["read2"][1]), f"re-opening the second file raised {r['read2'][1]}")
    d = diff_kg(r["read"][1], r["read2"][1])
    if d:
        return Failure(dict(sig, clause="roundtrip2"), f"second round trip changed {d[0][0]}: {d[0][1]!r} -> {d[0][2]!r}")
    return held


def first_diff(a, b):
    la, lb = a.split("\n"), b.split("\n")
    for i, (x, y) in enumerate(zip(la, lb)):
        if x != y:
            return f"line {i + 1}: {x!r} vs {y!r}"
    return f"{len(la)} vs {len(lb)} lines"


def diff_po(a, b):
    out = []
    if a["cls"] != b["cls"]:
        out.append(("class", a["cls"], b["cls"]))
    for k in ("min", "max"):
        if not same_num(a[k], b[k]):
            out.append((k, a[k], b[k]))
    if len(a["rows"]) != len(b["rows"]):
        out.append(("npoints", len(a["rows"]), len(b["rows"])))
        return out
    for i, (p, q) in enumerate(zip(a["rows"], b["rows"])):
        if len(p) != len(q) or not all(same_num(x, y) for x, y in zip(p, q)):
            out.append((f"point[{i}]", p, q))
    return out


def oracle_po(c, r):
    sig = {"op": "po", "cls": c["cls"]}
    if "fail" in r:
        return Failure(dict(sig, clause="no-error", stage=r["fail"][0], exc=r["fail"][1]), f"{r['fail'][0]} raised {r['fail'][1]}")
    po = r["po"]
    for x in [po["min"], po["max"]] + [x for row in po["rows"] for x in row]:
        p = trusted_base_problem(x)
        if p:
            return Failure(dict(sig, clause="trusted-base"), p)
    if r["read"][0] == "err":
        return Failure(dict(sig, clause="reopen", exc=r["read"][1]), f"re-opening the saved file raised {r['read'][1]}")
    d = diff_po(po, r["read"][1])
    if d:
        return Failure(dict(sig, clause="roundtrip-" + d[0][0].split("[")[0]), f"after save/open {d[0][0]} is {d[0][2]!r}, was {d[0][1]!r}")
    ints = any(isinstance(x, int) for row in po["rows"] for x in row) or isinstance(po["max"], int) or (isinstance(po["min"], int) and po["min"] != 0)
    if not ints and r.get("text2") != r["text1"]:
        return Failure(dict(sig, clause="second-save-bytes"), "the second save differs from the first")
    if r["readlong"][0] == "err":
        s2 = dict(sig, clause="long-open", exc=r["readlong"][1], npoints=min(len(po["rows"]), 1), dim=1 if c["cls"] == "PointProcess" else 2)
        return Failure(s2, f"opening the long layout of the same data raised {r['readlong'][1]}")
    d = diff_po(r["read"][1], r["readlong"][1])
    if d:
        return Failure(dict(sig, clause="long-short-agree"), f"long and short layout disagree on {d[0][0]}: {d[0][1]!r} vs {d[0][2]!r}")
    return None


def oracle_pofix(c, r):
    sig = {"op": "pofix", "fn": c["fn"]}
    if r["read"][0] == "err":
        return Failure(dict(sig, clause="open", exc=r["read"][1]), f"opening {c['fn']} raised {r['read'][1]}")
    if r["reread"][0] == "err":
        return Failure(dict(sig, clause="reopen", exc=r["reread"][1]), "re-opening the saved copy raised " + r["reread"][1])
    d = diff_po(r["read"][1], r["reread"][1])
    if d:
        return Failure(dict(sig, clause="roundtrip"), f"after save/open {d[0][0]} is {d[0][2]!r}, was {d[0][1]!r}")
    if "twin" in r:
        if r["twin"][0] == "err":
            return Failure(dict(sig, clause="twin-open", exc=r["twin"][1]), "opening the twin layout raised " + r["twin"][1])
        d = diff_po(r["read"][1], r["twin"][1])
        if d:
            return Failure(dict(sig, clause="long-short-agree"), f"long and short fixture disagree on {d[0][0]}")
    return None


def oracle(c, r):
    op = c["op"]
    if op == "kg":
        return oracle_kg(c, r)
    if op == "po":
        return oracle_po(c, r)
    if op == "pofix":
        return oracle_pofix(c, r)
    return None      # model-only correspondence cases


# ----------------------------------------------------------------------------------------------
# evidence
# ----------------------------------------------------------------------------------------------
def tags(c, r):
    op = c["op"]
    out = [op]
    if op == "kg":
        out.append("src:" + ("ref" if c["src"] == "ref" else "synthetic:" + c["src"].get("style", "praat")))
        for m in c["mods"]:
            out.append("f:" + m["f"])
            out.append("addr:" + ("subtiers" if m.get("sub") else "tier"))
        if not c["mods"]:
            out.append("f:none")
        if c["src"] != "ref":
            nf = [len(it["subs"]) for s in c["src"]["secs"] if s["k"] == "C" and s["name"] == "oral_formants" for it in s["its"][:1]]
            out += ["formants:%d" % n for n in nf]
    elif op == "po":
        out += ["cls:" + c["cls"], "npoints:%d" % min(len(c["rows"]), 7)]
    elif op in ("kgtext", "potext", "psd", "modsub"):
        out.append(op + (":err:" + r[1] if r[0] == "err" else ":ok"))
    elif op == "u_fclass":
        out.append("fclass:" + r[1])
    return out


def nontrivial(c, r):
    op = c["op"]
    if op == "kg":
        return "tree1" in r and any(len(t["pts"]) for s in r["tree1"]["secs"] for t in ([s] if s["k"] == "T" else [st for it in s["its"] for st in it["subs"]]))
    if op == "po":
        return len(c["rows"]) > 0
    if op == "pofix":
        return True
    if op in ("kgtext", "potext", "psd", "modsub", "clean", "slices"):
        return True
    if op == "u_find" or op == "u_rfind":
        return r[1] != -1
    if op == "u_findall":
        return len(r[1]) > 0
    if op == "u_slice":
        return r[1] != ""
    if op == "u_splitn":
        return len(r[1]) > 1
    if op == "u_fclass":
        return r[1] != "none"
    if op == "u_isint":
        return bool(r[1])
    return True


# ----------------------------------------------------------------------------------------------
# generators
# ----------------------------------------------------------------------------------------------
VALUE_POOL = [55, 5, 0, 100, -3, 7, 1e-05, 1e22, 1.5e-07, 0.1 + 0.2, 2519.3075148880134, 383.52407830611463,
              98.61948118117667, 0.0, 1234567.0, 4.9e-324, 1.7976931348623157e308, -12.5, 1 / 3, 60, 9]


def gen_value(rnd):
    k = rnd.random()
    if k < 0.45:
        return rnd.choice(VALUE_POOL)
    if k < 0.8:
        return rnd.uniform(50, 5000)
    if k < 0.9:
        return float(rnd.randint(0, 99))
    return rnd.uniform(-1, 1) * 10 ** rnd.randint(-30, 30)


def gen_points(rnd, lo, hi, nmax=5):
    n = rnd.choice([0, 0, 1, 1, 2, 3, 4, 5][:nmax + 3])
    n = min(n, nmax)
    ts = set()
    while len(ts) < n:
        k = rnd.random()
        t = rnd.uniform(lo, hi) if k < 0.6 else round(rnd.uniform(lo, hi), rnd.randint(1, 4))
        if lo <= t <= hi:
            ts.add(t)
    return [[t, gen_value(rnd)] for t in sorted(ts)]


def gen_spec(rnd, nmax=5):
    lo = rnd.choice([0, 0, 0, 0.5])
    hi = rnd.choice([1.194625, 2, 1.5, 0.75 + rnd.random()])
    nf = rnd.randint(1, 6) if rnd.random() < 0.8 else rnd.randint(10, 13)    # two-digit sub-tier numbers now and then
    secs = []

    def T(name, header_only=False):
        secs.append({"k": "T", "name": name, "pts": None if header_only else gen_points(rnd, lo, hi, nmax)})

    def C(name, inames, n):
        secs.append({"k": "C", "name": name, "its": [{"name": i, "subs": [gen_points(rnd, lo, hi, nmax) for _ in range(k)]} for i, k in zip(inames, n)]})

    T("phonation", True)
    for n in ["pitch", "flutter", "voicingAmplitude", "doublePulsing", "openPhase", "collisionPhase", "power1", "power2",
              "spectralTilt", "aspirationAmplitude", "breathinessAmplitude"]:
        if n in ("pitch", "voicingAmplitude") or rnd.random() < 0.4:
            T(n)
    T("vocalTract", True)
    C("oral_formants", ["formants", "bandwidths"], [nf, nf])
    k = rnd.randint(1, 2)
    C("nasal_formants", ["formants", "bandwidths"], [k, k])
    if rnd.random() < 0.7:
        C("nasal_antiformants", ["formants", "bandwidths", "oral_formants_amplitudes", "nasal_formants_amplitudes"], [k, k, nf, k])
    T("coupling", True)
    if rnd.random() < 0.6:
        C("tracheal_formants", ["formants", "bandwidths"], [1, 1])
        C("tracheal_antiformants", ["formants", "bandwidths", "tracheal_formants_amplitudes"], [1, 1, 1])
        C("delta_formants", ["formants", "bandwidths"], [1, 1])
    T("frication", True)
    T("fricationAmplitude")
    m = rnd.randint(1, 6) if rnd.random() < 0.85 else rnd.randint(10, 12)
    C("frication_formants", ["formants", "bandwidths", "frication_formants_amplitudes"], [m, m, m])
    if rnd.random() < 0.8:
        T("bypass")
    if rnd.random() < 0.8:
        T("gain")
    spec = {"xmin": lo, "xmax": hi, "style": rnd.choice(["praat", "praat", "plain"]), "secs": secs}
    if rnd.random() < 0.15:
        spec["nofinalnl"] = True
    return spec


def addresses(spec_or_ref):
    if spec_or_ref == "ref":
        return ([("pitch", None), ("voicingAmplitude", None), ("flutter", None), ("gain", None)] +
                [(c, i) for c in ("oral_formants", "frication_formants", "nasal_formants", "nasal_antiformants") for i in ("formants", "bandwidths")] +
                [("nasal_antiformants", "oral_formants_amplitudes"), ("frication_formants", "frication_formants_amplitudes")])
    out = []
    for s in spec_or_ref["secs"]:
        if s["k"] == "T":
            if s["pts"] is not None:
                out.append((s["name"], None))
        else:
            out += [(s["name"], it["name"]) for it in s["its"]]
    return out


def gen_mods(rnd, src):
    adr = addresses(src)
    k = rnd.choice([0, 1, 1, 2, 3, len(adr)])
    chosen = rnd.sample(adr, min(k, len(adr)))
    if rnd.random() < 0.15 and chosen:
        chosen.append(chosen[0])       # the same tier twice (two different functions compose)
    return [{"sec": a, "sub": b, "f": rnd.choice(FNAMES)} for a, b in chosen]


def kg_cases(rnd, tier):
    nref, nsyn = (48, 2500) if tier == "thorough" else (9, 260)
    first = gen_spec(rnd)
    yield {"op": "kg", "src": first, "mods": gen_mods(rnd, first)}
    yield {"op": "kg", "src": "ref", "mods": []}
    for i in range(nref):
        f = REF_FUNCS[i % len(REF_FUNCS)]
        adr = addresses("ref")
        yield {"op": "kg", "src": "ref", "mods": [{"sec": a, "sub": b, "f": f} for a, b in rnd.sample(adr, rnd.randint(1, 4))]}
    for _ in range(nsyn):
        s = gen_spec(rnd)
        yield {"op": "kg", "src": s, "mods": gen_mods(rnd, s)}


PO_NUMS = [0, 1, 5, 55, 100, 1e-05, 1e22, 0.1 + 0.2, 1 / 3, 104.93004632536243, 0.36484374999999997, 2.353214804464138,
           1.7976931348623157e308, 4.9e-324, 123456789012345.67, 0.0, 7.0, 1e16, 1.5e-07]


def gen_po(rnd, nmax):
    cls = rnd.choice(["PointProcess", "PitchTier", "DurationTier"])
    n = rnd.choice([0, 0, 1, 1, 2, 3]) if rnd.random() < 0.5 else rnd.randint(0, nmax)
    ts = set()
    while len(ts) < n:
        k = rnd.random()
        ts.add(rnd.choice(PO_NUMS) if k < 0.3 else (rnd.randint(0, 50) if k < 0.4 else rnd.uniform(0, 10)))
    ts = sorted(ts)
    if cls == "PointProcess":
        rows = [[t] for t in ts]
    else:
        def val():
            k = rnd.random()
            if k < 0.4:
                return rnd.choice(PO_NUMS + [-0.0, -2.5, -1e-05])
            if k < 0.5:
                return rnd.randint(-5, 500)
            return rnd.uniform(50, 400)
        rows = [[t, val()] for t in ts]
    lo = rnd.choice([0, 0, 0.0, 0.25, 1, -1.5])
    hi = rnd.choice([(max(ts) if ts else 1) + rnd.choice([0, 1, 0.5, 1e-05]), 1.8696875, 100, 1e22])
    return {"op": "po", "cls": cls, "min": lo, "max": hi, "rows": rows}


def po_cases(rnd, tier):
    n, nmax = (6000, 40) if tier == "thorough" else (900, 6)
    for _ in range(n):
        yield gen_po(rnd, nmax)


def mutate_text(rnd, text):
    """small damage to a well-formed text (model-only correspondence on the error paths)"""
    lines = text.split("\n")
    k = rnd.randrange(9)
    if k == 0 and len(lines) > 3:
        del lines[rnd.randrange(len(lines))]
    elif k == 1:
        return text[:rnd.randrange(len(text) + 1)]
    elif k == 2:
        return text.rstrip("\n")
    elif k == 3:
        i = rnd.randrange(len(lines))
        lines[i] = lines[i].replace("=", rnd.choice(["", "==", " "]))
    elif k == 4:
        i = rnd.randrange(len(lines))
        lines.insert(i, lines[i])
    elif k == 5:
        i = rnd.randrange(len(lines))
        lines[i] = lines[i] + rnd.choice(["  ", "\t", " x", "=1"])
    elif k == 6:
        i, j = rnd.randrange(len(lines)), rnd.randrange(len(lines))
        lines[i], lines[j] = lines[j], lines[i]
    elif k == 7:
        i = rnd.randrange(len(lines))
        lines[i] = rnd.choice(["", " ", "formants [9]:", "points: size = 0", "xmin = 0", "bandwidths: size = 1", "gain? <exists>", "value = abc"])
    else:
        return text.replace("\n", "\n\n", 1) if rnd.random() < 0.5 else text + "trailer"
    return "\n".join(lines)


def text_cases(rnd, tier):
    n = 6000 if tier == "thorough" else 700
    for i in range(n):
        s = gen_spec(rnd, nmax=3)
        text = write_klatt(s)
        if rnd.random() < 0.3:
            text = kc._cleanNumericValues(text) if rnd.random() < 0.5 else text
        else:
            text = mutate_text(rnd, text)
            if rnd.random() < 0.3:
                text = mutate_text(rnd, text)
        yield {"op": "kgtext", "text": text}
    for i in range(n):
        p = gen_po(rnd, 4)
        two = p["cls"] != "PointProcess"
        if rnd.random() < 0.5:
            text = write_long_po(p["cls"], p["min"], p["max"], p["rows"])
        else:
            text = 'File type = "ooTextFile"\nObject class = "%s"\n\n%s\n%s\n%d\n%s\n' % (
                p["cls"], repr(p["min"]), repr(p["max"]), len(p["rows"]), "\n".join(repr(x) for r in p["rows"] for x in r))
        if rnd.random() < 0.6:
            text = mutate_text(rnd, text)
        if rnd.random() < 0.1:
            two = not two
        yield {"op": "potext", "text": text, "two": two}


CLEAN_ROWS = ["xmin = 0 ", "xmax = 1.194625 ", "points: size= 3", "    value = 0.0", "value = -0.0", "a = b = c", "novalue", "x =", " = 5",
              "value = 1e-05", "value = 007", "value = +5", "value = 1_000", "value = abc", "formants: size=5", "maximum = 3.0",
              "domino = 0.0", "value = 0e0", "value = .0", "value = 5.", "value = inf", "value = nan", "   ", "", "trailing   ",
              "\tvalue\t=\t2.50  ", "value = -0", "value = 0.000", "value = 1e-400", "value = -1e-400", "value = 1e400", "value = 5 5",
              "value = 0x10", "value = 1__0", "value = 1_", "value = _1", "value = 1e5_0", "value = 1._5", "value = .", "value = -.5e-3",
              "value = Infinity", "value = -INF", "value = +nan", "number = 0.03231250000000002 ", "points [1]:", "pitch? <exists> ",
              "value = 2.4703282292062327e-324", "value = 2.4703282292062328e-324", "value = 00", "value = 0_0", "value = 1e-05 = 2",
              "value = 5 ", "value = 5\x1c", "=", "= =", "value = \x1c5", "value = \xa05", "value\xa0=\xa05\x1f", "value = \x1c5\xa0"]


def clean_cases(rnd, tier):
    n = 3000 if tier == "thorough" else 400
    for r in CLEAN_ROWS:
        yield {"op": "clean", "text": r}
    for _ in range(n):
        rows = [rnd.choice(CLEAN_ROWS) for _ in range(rnd.randint(0, 6))]
        yield {"op": "clean", "text": "\n".join(rows) + rnd.choice(["", "\n"])}


def psd_cases(rnd, tier):
    n = 3000 if tier == "thorough" else 400
    for _ in range(n):
        ind = rnd.choice(["", "    "])
        pts = gen_points(rnd, 0, 2, 4)
        rows = []
        for i, (t, v) in enumerate(pts):
            rows += [f"{ind}points [{i + 1}]:", f"{ind}    number = {num(t)}{rnd.choice(['', ' '])}", f"{ind}    value = {num(v)}{rnd.choice(['', ' '])}"]
        text = "\n".join(rows)
        if rnd.random() < 0.4:
            text = mutate_text(rnd, text) if text else text
        yield {"op": "psd", "text": text}


def modsub_cases(rnd, tier):
    n = 1500 if tier == "thorough" else 200
    for _ in range(n):
        names = rnd.sample(["formants", "bandwidths", "oral_formants_amplitudes"], rnd.randint(1, 3))
        its = []
        for nm in names:
            subs = []
            for j in range(rnd.randint(0, 3)):
                pts = [[float(t), float(v)] for t, v in gen_points(rnd, 0, 2, 4)]
                subs.append({"name": f"{nm} [{j + 1}]", "min": 0.0, "max": 2.0, "pts": pts})
            its.append({"name": nm, "subs": subs})
        vals = sorted({rp(v) for i in its for t in i["subs"] for _, v in t["pts"]})
        tbl = [[v, rp(FUNCS[rnd.choice(FNAMES)](float(v)))] for v in vals if rnd.random() < 0.8]
        name = rnd.choice(names + ["formants", "nosuch"])
        yield {"op": "modsub", "its": its, "name": name, "tbl": tbl}


def unit_cases(rnd, tier):
    n = 4000 if tier == "thorough" else 500
    alpha = "ab\n= "

    def rs(k):
        return "".join(rnd.choice(alpha) for _ in range(rnd.randint(0, k)))

    for _ in range(n):
        s = rs(12)
        p = rnd.choice(["a", "b", "\n", "=", "ab", "\n\n", "aa", "a b", ""]) if rnd.random() < 0.9 else rs(3)
        yield {"op": "u_find", "p": p, "s": s, "start": rnd.randint(0, len(s) + 2)}
        if p:
            yield {"op": "u_findall", "p": p, "s": s}
        yield {"op": "u_rfind", "p": rnd.choice("ab\n="), "s": s, "hi": rnd.randint(0, len(s) + 2)}
        yield {"op": "u_slice", "s": s, "a": rnd.randint(-len(s) - 3, len(s) + 3), "b": rnd.randint(-len(s) - 3, len(s) + 3)}
        yield {"op": "u_splitn", "p": rnd.choice("ab\n="), "s": s, "n": rnd.choice([-1, -1, 0, 1, 2, 3, 4, 7])}
    ws = [" ", "\t", "\n", "\r", "\x0b", "\x0c", "\x1c", "\x1f", "\x85", "\xa0", " ", "　", "​", "x", "formants", "[1]", ""]
    for _ in range(n):
        s = "".join(rnd.choice(ws) for _ in range(rnd.randint(0, 6)))
        yield {"op": "u_rstrip", "s": s}
        yield {"op": "u_firsttok", "s": s}
    for k in list(range(0, 130)) + [999, 1000, 1001, 4294967296, 10 ** 18 + 7] + [rnd.randint(0, 10 ** rnd.randint(1, 25)) for _ in range(n // 4)]:
        yield {"op": "u_natdec", "n": k}
    toks = ["0", "1", "9", "00", "12", "5", ".", "e", "E", "+", "-", "_", "inf", "nan", "Infinity", "INF", "x", " ", "\t", "", "0", ".", "e", "-", "000", "e-", "e+"]
    fixed = ["1e-400", "-1e-400", "1e400", "-1e400", "2.4703282292062327e-324", "2.4703282292062328e-324", "2.47032822920623272e-324",
             "2.4703282292062327208e-324", "2.4703282292062327209e-324", "4.9e-324", "5e-324", "2.47e-324", "2.48e-324", "1e-323", "0e999999", "0.0e-999999",
             "1e-999999", "1e999999", "0." + "0" * 330 + "1", "0." + "0" * 322 + "3", "0." + "0" * 323 + "2", "0." + "0" * 323 + "3",
             "1" + "0" * 400, "1" + "0" * 400 + "e-800", "1_0", "1_0.5_5e1_0", "infinity", "iNf", "nAn", "-nan", "+inf", "++1", "--1", "+-1", "1e+-1",
             " 1 ", "\x1c1\x1f", " 1　", "1 .0", "1e 5", "", " ", ".", "-", "+", "e", "1.e5", ".e5", "1e", "1e+", "0_", "_0", "1._0", "1_.0",
             "\x1c1", "1\x1f", "\xa01\x1c", "\x1c1\xa0", "\x1f\u30001", " 1\x0b", "\x0c1\r", "1\u2003", "\u30001\u3000", "1\xa0_", "1,5", "1d5", "0b1", "0o7", "1L", "1j", "nan0", "inf1", "infinit", "in", "na"]
    for s in fixed:
        yield {"op": "u_fclass", "s": s}
        yield {"op": "u_isint", "s": s}
    for _ in range(3 * n):
        s = "".join(rnd.choice(toks) for _ in range(rnd.randint(1, 6)))
        yield {"op": "u_fclass", "s": s}
        yield {"op": "u_isint", "s": s}
    for _ in range(n):
        s = repr(gen_value(rnd))
        yield {"op": "u_fclass", "s": s}
        yield {"op": "u_isint", "s": s}


A7_BODY = ("formants: size = 2\nformants [1]:\n    xmin = 0\n    xmax = 1\n    points: size = 1\n    points [1]:\n        number = 0.5\n"
           "        value = 55\nformants [2]:\n    xmin = 0\n    xmax = 1\n    points: size = 0\nbandwidths: size = 1\nbandwidths [1]:\n"
           "    xmin = 0\n    xmax = 1\n    points: size = 1\n    points [1]:\n        number = 0.25\n        value = 60")


def slice_expect(old):
    f1 = "formants [1]:\n    xmin = 0\n    xmax = 1\n    points: size = 1\n    points [1]:\n        number = 0.5\n        value = 55"
    f2 = "formants [2]:\n    xmin = 0\n    xmax = 1\n    points: size = 0"
    b1 = "bandwidths [1]:\n    xmin = 0\n    xmax = 1\n    points: size = 1\n    points [1]:\n        number = 0.25\n        value = 60"
    if old:
        f2, b1 = f2[:-1].strip(), b1[:-1].strip()
    ls = [["", f1, f2], ["bandwidths: size = 1", b1], [], [], [], []]
    return " ".join([str(len(ls))] + [" ".join([str(len(l))] + [h(x) for x in l]) for l in ls])


def corpus():
    # A7 (fixed in 10be40b): the last character of the last value of each index list was dropped ("55" -> "5").
    # `slices` cases pin what the model's repaired / old bookkeeping cut out of a container body.
    yield {"op": "slices", "old": False, "text": A7_BODY, "expect": slice_expect(False)}
    yield {"op": "slices", "old": True, "text": A7_BODY, "expect": slice_expect(True)}
    spec = {"xmin": 0, "xmax": 1, "style": "plain", "secs": [
        {"k": "T", "name": "phonation", "pts": None},
        {"k": "T", "name": "pitch", "pts": [[0.5, 55]]},
        {"k": "C", "name": "oral_formants", "its": [{"name": "formants", "subs": [[[0.5, 55]], []]}, {"name": "bandwidths", "subs": [[[0.25, 60]], [[0.5, 7]]]}]},
        {"k": "T", "name": "gain", "pts": [[0.75, 9]]}]}
    yield {"op": "kg", "src": spec, "mods": []}
    yield {"op": "kg", "src": spec, "mods": [{"sec": "oral_formants", "sub": "bandwidths", "f": "c55"}]}
    yield {"op": "kg", "src": spec, "mods": [{"sec": "oral_formants", "sub": "formants", "f": "third"}, {"sec": "pitch", "sub": None, "f": "c1e-05"}]}
    # regression C19-negzero (fixed in /repo bd8eb8f): sign change applied to a zero value, in a tier and in a container
    z = {"xmin": 0, "xmax": 1, "style": "plain", "secs": [{"k": "T", "name": "phonation", "pts": None}, {"k": "T", "name": "pitch", "pts": [[0.5, 0.0]]}]}
    yield {"op": "kg", "src": z, "mods": [{"sec": "pitch", "sub": None, "f": "neg"}]}
    zc = {"xmin": 0, "xmax": 1, "style": "praat", "secs": [
        {"k": "T", "name": "phonation", "pts": None}, {"k": "T", "name": "pitch", "pts": [[0.5, 0]]},
        {"k": "C", "name": "oral_formants", "its": [{"name": "formants", "subs": [[[0.25, 0.0], [0.5, 7]]]}, {"name": "bandwidths", "subs": [[[0.5, 0]]]}]}]}
    yield {"op": "kg", "src": zc, "mods": [{"sec": "oral_formants", "sub": "formants", "f": "neg"}, {"sec": "oral_formants", "sub": "bandwidths", "f": "neg"}]}
    yield {"op": "clean", "text": "value = -0.0\n    value = -0e0 \nvalue = -0\nvalue = -.0\nvalue = 0.0\nvalue = -1e-400"}
    # regression C19-empty2d-long (fixed in /repo 3bc936d): long layout without points, both readers
    for cls, two in (("PitchTier", True), ("DurationTier", True), ("PointProcess", False)):
        yield {"op": "potext", "two": two, "text": write_long_po(cls, 0, 1.5, [])}
    # point objects: empty objects in all classes, exponent numerals
    for cls in ("PointProcess", "PitchTier", "DurationTier"):
        yield {"op": "po", "cls": cls, "min": 0, "max": 1.5, "rows": []}
    yield {"op": "po", "cls": "PitchTier", "min": 0, "max": 1e22, "rows": [[1e-05, 1e22], [5, 55]]}
    yield {"op": "po", "cls": "PointProcess", "min": 0.25, "max": 2, "rows": [[1e-05], [0.30000000000000004], [1]]}
    yield {"op": "pofix", "fn": "bobby.PointProcess", "two": False, "twin": "bobby_longfile.PointProcess"}
    yield {"op": "pofix", "fn": "bobby_longfile.PointProcess", "two": False, "twin": "bobby.PointProcess"}
    yield {"op": "pofix", "fn": "mary.PitchTier", "two": True, "twin": "mary_longfile.PitchTier"}
    yield {"op": "pofix", "fn": "mary_longfile.PitchTier", "two": True, "twin": "mary.PitchTier"}
    yield {"op": "pofix", "fn": "mary.DurationTier", "two": True}


def gen(rnd, tier):
    yield from kg_cases(rnd, tier)
    yield from po_cases(rnd, tier)
    yield from text_cases(rnd, tier)
    yield from clean_cases(rnd, tier)
    yield from psd_cases(rnd, tier)
    yield from modsub_cases(rnd, tier)
    yield from unit_cases(rnd, tier)


# ----------------------------------------------------------------------------------------------
# shrinking
# ----------------------------------------------------------------------------------------------
def shrink(c):
    import copy
    op = c["op"]
    if op == "kg":
        for i in range(len(c["mods"])):
            yield dict(c, mods=c["mods"][:i] + c["mods"][i + 1:])
        if c["src"] == "ref":
            return
        src = c["src"]
        used = {m["sec"] for m in c["mods"]}
        for i, s in enumerate(src["secs"]):
            if s["name"] not in used and len(src["secs"]) > 2:
                yield dict(c, src=dict(src, secs=src["secs"][:i] + src["secs"][i + 1:]))
        for i, s in enumerate(src["secs"]):
            if s["k"] == "T" and s["pts"]:
                s2 = dict(s, pts=s["pts"][:-1])
                yield dict(c, src=dict(src, secs=src["secs"][:i] + [s2] + src["secs"][i + 1:]))
            if s["k"] == "C":
                for a, it in enumerate(s["its"]):
                    for b, pts in enumerate(it["subs"]):
                        if pts:
                            s2 = copy.deepcopy(s)
                            s2["its"][a]["subs"][b] = pts[:-1]
                            yield dict(c, src=dict(src, secs=src["secs"][:i] + [s2] + src["secs"][i + 1:]))
                    if len(it["subs"]) > 1 and all(len(x["subs"]) == len(it["subs"]) for x in s["its"]):
                        s2 = copy.deepcopy(s)
                        for x in s2["its"]:
                            x["subs"].pop()
                        yield dict(c, src=dict(src, secs=src["secs"][:i] + [s2] + src["secs"][i + 1:]))
                        break
    elif op == "po":
        for i in range(len(c["rows"])):
            yield dict(c, rows=c["rows"][:i] + c["rows"][i + 1:])
    elif op in ("kgtext", "potext", "clean", "psd"):
        lines = c["text"].split("\n")
        if len(lines) > 1:
            for i in range(len(lines)):
                yield dict(c, text="\n".join(lines[:i] + lines[i + 1:]))
    elif op.startswith("u_") and "s" in c and len(c["s"]) > 0:
        yield dict(c, s=c["s"][1:])
        yield dict(c, s=c["s"][:-1])
