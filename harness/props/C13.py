"""C13 — copy-returning operations never mutate; failed mutations change nothing; a failing save leaves the file."""
import contextlib
import io
import os
import tempfile

from framework import Failure
import tiers as T
import tierops
import tgops
import dispatch
import scriptops as SC   # splitTierEntries / spellCheckEntries (DESIGN 11.8)

RULE = ("every step of the histories of C05 (all tier operations), C11 (insert/delete) and C12 (all Textgrid operations in all "
        "reachable states; tier-wise edits, merge, append, align) re-run with snapshots (names, order, entries, spans) of the "
        "receiver and every argument before and after, on the success path and on the exception path; after each "
        "copy-returning call the result is mutated and the receiver re-checked, and vice versa (aliasing); a fault stream "
        "makes each mutator fail in each documented way; Textgrid.save with failing overrides / invalid textgrids under "
        "reportingMode='error' / an invalid format, onto a pre-existing file whose bytes are compared. "
        "non-trivial = the operation raised, or returned an object with entries")
TRUSTED = ["oracle: deep snapshot comparison on the real objects (harness/props/C13.py:frames)"]
ASSUMPTIONS = ["the no-aliasing clause is monitored on the real objects, not proved (a pure functional model has no aliasing)",
               "file-system behaviour of io.open/write itself is trusted; crashes in the middle of write() are outside the property"]

BOGUS = "bogus_option"     # an option value that is in no validOptions list
MUTATORS = {"iinsert", "pinsert", "idelete", "pdelete", "tg_add", "tg_remove", "tg_rename", "tg_replace"}
INPLACE_OK = {"tg_align"}   # documented to modify and return the given textgrid

case_json = lambda c: c
case_from_json = lambda j: j


def wants_x(c):
    return c.get("grid", False) and c["op"] != "save"


def canon(c, line):
    if c.get("anyerr") and line.startswith("err"):
        parts = line.split(" ", 2)     # err <Class> <state after the raise>: the class is not compared, the state is
        return "err * " + (parts[2] if len(parts) > 2 else "")
    return line


# Statement-level correspondence (DESIGN 11.10): every mutator call of every history is sent to the IMPERATIVE model
# (lean/PraatModel/Imperative.lean through RunImperative.lean, ops imp_*), which prints the object's final state on both
# paths - after a normal return and after a raise - plus the error class; the line is compared with the state of the real
# object after the real call (tierops._mut / tgops._mut return it on both paths).  The functional ops (iinsert, tg_add, ...)
# are compared on the same histories by C05/C11/C12.
def encode(c, enc):
    if c["op"] == "save":
        return "skip"
    line = dispatch.encode(c, enc)
    if c["op"] in MUTATORS:
        line = "imp_" + line
        if c["op"] in ("iinsert", "pinsert"):
            line += " " + c.get("report", "silence")
        # an option value outside validOptions travels as `?` (names and labels are hex tokens: no clash)
        line = " ".join("?" if tok == BOGUS else tok for tok in line.split(" "))
    return line


def render(c, r, enc):
    if c["op"] == "save":
        return "ok skip"
    rr = r[1]
    if c["op"] in MUTATORS and rr[0] == "err":
        after = rr[-1]      # observable state of the receiver after the raise
        return "err " + rr[1] + " " + (tgops.enc_tg(enc, after) if dispatch.is_tg(c) else T.enc_spec(enc, after))
    return dispatch.render(c, rr, enc)


def snap_any(o):
    return tgops.snap(o) if hasattr(o, "tierNames") else T.snap(o)


def poke(o):
    """mutate an object in place in an observable way"""
    from praatio.utilities.constants import Interval, Point
    from praatio.data_classes.interval_tier import IntervalTier
    with contextlib.redirect_stdout(io.StringIO()):
        if hasattr(o, "tierNames"):
            for t in o.tiers:
                poke(t)
            o.addTier(IntervalTier("__poke__", [(0.0, 1.0, "z")], 0.0, 1.0), reportingMode="silence")
        elif o.tierType == "IntervalTier":
            o.insertEntry(Interval(9990.0, 9991.0, "z"), "merge", "silence")
        else:
            o.insertEntry(Point(9990.0, "z"), "merge", "silence")


def impl(c):
    if c["op"] == "save":
        return ("c13", ("ok", None), save_frames(c))
    objs = {}
    r = dispatch.impl(c, objs)
    if SC.is_sc(c):
        return ("c13", r, SC.c13_problems(c, r))
    problems = []
    op = c["op"]
    spec_of = {"tier": c.get("tier"), "other": c.get("other"), "ref": c.get("ref"), "tg": c.get("tg")}
    norm = lambda k: tgops.norm(spec_of[k]) if k in ("tg",) or (k == "other" and dispatch.is_tg(c)) else T.norm(spec_of[k])
    receiver = "tg" if dispatch.is_tg(c) else "tier"
    for k in ("tier", "other", "ref", "tg"):
        if k not in objs or objs[k] is None or spec_of[k] is None:
            continue
        changed = snap_any(objs[k]) != norm(k)
        if not changed:
            continue
        if k == receiver and op in MUTATORS:
            if r[0] == "err" and not c.get("outside"):
                problems.append(("failed-mutation-changes-nothing", k))
        elif k == receiver and op in INPLACE_OK:
            pass
        else:
            problems.append(("receiver-mutated" if k == receiver else "argument-mutated", k))
    # aliasing: a later mutation of the result must not show in the sources, and vice versa
    res = objs.get("result")
    if res is not None and op not in MUTATORS and op not in INPLACE_OK and hasattr(res, "validate") and not isinstance(res, bool):
        before = {k: snap_any(objs[k]) for k in ("tier", "other", "ref", "tg") if objs.get(k) is not None and spec_of[k] is not None}
        try:
            poke(res)
            for k, s0 in before.items():
                if snap_any(objs[k]) != s0:
                    problems.append(("result-aliases-source", k))
            rs = snap_any(res)
            for k in before:
                poke(objs[k])
            if snap_any(res) != rs:
                problems.append(("source-aliases-result", receiver))
        except Exception as e:  # poke failed: no aliasing verdict
            pass
    if op in ("tg_add", "tg_replace") and r[0] == "ok" and objs.get("tier") is not None:
        pass  # the textgrid holds the tier object itself by design (documented container semantics)
    return ("c13", r, problems)


def save_frames(c):
    from praatio.utilities import textgrid_io
    g = tgops.build(c["tg"])
    if c.get("corrupt"):
        # make the textgrid invalid: a tier whose span differs from the textgrid's
        g.tiers[0].maxTimestamp = g.tiers[0].maxTimestamp + 1.0
    before = tgops.snap(g)
    d = tempfile.mkdtemp(prefix="praatio-verif.")
    fn = os.path.join(d, "out.TextGrid")
    old = b"PRE-EXISTING \xff\x00 content\n"
    with open(fn, "wb") as fd:
        fd.write(old)
    problems = []
    r = T.call(lambda: g.save(fn, c["format"], c["blanks"], c.get("min"), c.get("max"), reportingMode=c["report"]))
    try:
        now = open(fn, "rb").read()
    except OSError:
        now = None
    if r[0] == "err" and now != old:
        problems.append(("failing-save-touched-file", r[1]))
    if r[0] == "ok" and now == old:
        problems.append(("successful-save-wrote-nothing", ""))
    if tgops.snap(g) != before:
        problems.append(("save-mutated-textgrid", ""))
    try:
        os.remove(fn)
        os.rmdir(d)
    except OSError:
        pass
    return problems + [("save-result", r[0] if r[0] == "ok" else r[1])]


OBSERVATION_ONLY = {"result-aliases-source", "source-aliases-result"}


def oracle(c, r):
    # Sharing of tier objects between a returned Textgrid and its source (editTimestamps on empty tiers, appendTextgrid,
    # mergeTiers keep the very same tier objects) is counted in the evidence (tags alias:*) but is not a failure: the
    # property speaks about the state of receiver and arguments across the call itself.
    probs = [p for p in r[2] if p[0] != "save-result" and p[0] not in OBSERVATION_ONLY]
    if probs:
        return Failure({"op": c["op"], "clause": probs[0][0], "object": probs[0][1]}, f"{c['op']}: {probs}")
    return None


def tags(c, r):
    if SC.is_sc(c):
        return SC.tags(c, r[1])
    out = [c["op"]]
    if c["op"] == "save":
        out += ["save:" + p[1] for p in r[2] if p[0] == "save-result"]
        return out
    if r[1][0] == "err":
        out.append("err:" + r[1][1])
    out.append("mutator" if c["op"] in MUTATORS else "copy")
    if c["op"] in MUTATORS:
        out.append("stmt:" + c["op"] + (":err:" + r[1][1] if r[1][0] == "err" else ":ok"))
        if c.get("outside"):
            out.append("stmt:outside-the-quantifier")
    out += ["alias:" + c["op"] for p in r[2][:1] if p[0] in OBSERVATION_ONLY]
    return out


def nontrivial(c, r):
    if SC.is_sc(c):
        return SC.nontrivial(c, r[1])
    if c["op"] == "save":
        return True
    rr = r[1]
    if rr[0] == "err":
        return True
    v = rr[1]
    if isinstance(v, dict):
        return bool(v.get("es")) or any(t["es"] for t in v.get("tiers", []))
    return True


def fault_stream():
    it = {"k": "I", "name": "a", "es": [[1.0, 2.0, "x"], [3.0, 4.0, "y"]], "lo": 0.0, "hi": 5.0}
    pt = {"k": "P", "name": "p", "es": [[1.0, "x"]], "lo": 0.0, "hi": 5.0}
    wide = {"k": "I", "name": "c", "es": [[1.0, 2.0, "x"]], "lo": 0.0, "hi": 7.0}
    low = {"k": "I", "name": "d", "es": [[1.0, 2.0, "x"]], "lo": -1.0, "hi": 5.0}
    g = {"lo": 0.0, "hi": 5.0, "tiers": [it, dict(pt), {"k": "I", "name": "b", "es": [], "lo": 0.0, "hi": 5.0}]}
    yield {"op": "iinsert", "tier": it, "entry": [1.5, 3.5, "n"], "mode": "error", "report": "silence"}
    yield {"op": "pinsert", "tier": pt, "entry": [1.0, "n"], "mode": "error", "report": "warning"}
    # zero-length / reversed interval: ArgumentError out of the crop that looks for collisions, in every mode
    for mode in ("error", "replace", "merge"):
        yield {"op": "iinsert", "tier": it, "entry": [2.0, 2.0, "n"], "mode": mode, "report": "silence"}
        yield {"op": "iinsert", "tier": it, "entry": [3.5, 1.5, "n"], "mode": mode, "report": "warning"}
        yield {"op": "iinsert", "tier": it, "entry": [1.5, 6.5, " n "], "mode": mode, "report": "warning"}
        yield {"op": "pinsert", "tier": pt, "entry": [1.0, " n "], "mode": mode, "report": "silence"}
    # collisionReportingMode='error': OUTSIDE the property's quantifier (the signature says Literal["silence", "warning"]),
    # accepted by validateOption; the reporter raises AFTER the tier has been modified.  Not judged by the oracle
    # ("outside"); the statement-level model must leave the very same half-way state behind (Imp.exec_iinsertEntry_gen)
    for mode in ("replace", "merge"):
        yield {"op": "iinsert", "tier": it, "entry": [1.5, 6.5, "n"], "mode": mode, "report": "error", "outside": True}
        yield {"op": "pinsert", "tier": pt, "entry": [1.0, "n"], "mode": mode, "report": "error", "outside": True}
    yield {"op": "iinsert", "tier": it, "entry": [2.0, 3.0, "n"], "mode": "replace", "report": "error"}     # no collision: no report
    # invalid option values: WrongOption from validateOption.  For replaceTier the option is validated by addTier INSIDE the
    # try, after the old tier has been removed: only the except block makes the textgrid whole again
    yield {"op": "iinsert", "tier": it, "entry": [1.5, 3.5, "n"], "mode": BOGUS, "report": "silence"}
    yield {"op": "iinsert", "tier": it, "entry": [1.5, 3.5, "n"], "mode": "replace", "report": BOGUS}
    yield {"op": "iinsert", "tier": it, "entry": [2.0, 3.0, "n"], "mode": BOGUS, "report": BOGUS}
    yield {"op": "pinsert", "tier": pt, "entry": [1.0, "n"], "mode": BOGUS, "report": "warning"}
    yield {"op": "pinsert", "tier": pt, "entry": [1.0, "n"], "mode": "merge", "report": BOGUS}
    for idx in (None, 0, 7):
        yield {"op": "tg_add", "tg": g, "tier": wide, "index": idx, "report": BOGUS}
        yield {"op": "tg_add", "tg": g, "tier": dict(it, name="a"), "index": idx, "report": BOGUS}
    for nm in ("a", "p", "b", "zz"):
        yield {"op": "tg_replace", "tg": g, "name": nm, "tier": wide, "report": BOGUS, "anyerr": nm == "zz"}
        yield {"op": "tg_replace", "tg": g, "name": nm, "tier": dict(wide, name="p"), "report": BOGUS, "anyerr": nm == "zz"}
    yield {"op": "idelete", "tier": it, "entry": [1.0, 2.0, "absent"]}
    yield {"op": "pdelete", "tier": pt, "entry": [2.0, "x"]}
    for idx in (None, 0, 1, -1, 7):
        yield {"op": "tg_add", "tg": g, "tier": dict(it, name="a"), "index": idx, "report": "silence"}        # name clash
        yield {"op": "tg_add", "tg": g, "tier": wide, "index": idx, "report": "error"}                          # span change
        yield {"op": "tg_add", "tg": g, "tier": low, "index": idx, "report": "error"}
    for nm in ("a", "p", "b"):
        for new in ("a", "p", "b"):
            yield {"op": "tg_rename", "tg": g, "name": nm, "new": new}
        yield {"op": "tg_replace", "tg": g, "name": nm, "tier": wide, "report": "error"}
        yield {"op": "tg_replace", "tg": g, "name": nm, "tier": dict(wide, name="p" if nm != "p" else "a"), "report": "silence"}
    yield {"op": "tg_remove", "tg": g, "name": "zz", "anyerr": True}
    yield {"op": "tg_rename", "tg": g, "name": "zz", "new": "a", "anyerr": True}
    yield {"op": "tg_replace", "tg": g, "name": "zz", "tier": wide, "report": "silence", "anyerr": True}


def save_cases(rnd, n):
    for i in range(n):
        g = tgops.gen_tg(rnd, "dec", valid=True)
        fmt = rnd.choice(["short_textgrid", "long_textgrid", "json", "textgrid_json", "bogus_format"])
        hi_entries = max([x for t in g["tiers"] for e in t["es"] for x in e[:-1]] + [0.0])
        c = {"op": "save", "tg": g, "format": fmt, "blanks": rnd.random() < 0.7, "report": rnd.choice(["silence", "error"]),
             "min": rnd.choice([None, None, 0.0, 0.5, 5.0]), "max": rnd.choice([None, None, g["hi"], hi_entries / 2, g["hi"] + 1]),
             "corrupt": rnd.random() < 0.3}
        yield c


def corpus():
    yield from SC.corpus()
    for c in fault_stream():
        c["grid"] = True
        yield c


def gen(rnd, tier):
    import props.C05 as C05
    import props.C11 as C11
    import props.C12 as C12
    import props.C09 as C09
    import props.C14 as C14
    big = tier == "thorough"
    yield from C05.histories(rnd, 4000 if big else 500, 25 if big else 12)
    yield from C11.histories(rnd, 1500 if big else 250, 40 if big else 12)
    yield from C12.bfs(4 if big else 3, limit=150 if big else 25, rnd=rnd)
    for i in range(20000 if big else 2500):
        domain = rnd.choice(["dec", "grid64"])
        c = rnd.choice([C12.gen_edit, C09.tg_case])(rnd, domain)
        c["grid"] = domain != "dec"
        yield c
    for c in C14.gen(rnd, "quick"):
        if c["op"] == "tg_align":
            yield c
    yield from save_cases(rnd, 4000 if big else 500)
    yield from SC.gen(rnd, 3000 if big else 300)


def shrink(c):
    if c["op"] == "save":
        return
    yield from dispatch.shrink(c)


# living-object histories (harness/living.py): on ONE set of living objects every copy-returning operation, query and failed
# mutation must leave receiver and arguments observably unchanged; successful mutations change their receiver only
import living  # noqa: E402
living.install(globals(), judge_ops=(), unchanged=True, rate=0.1)
