"""C01 — TextGrid save/open round trip preserves every tier, time and label."""
from framework import Failure
import tiers as T
import tgops
import ioops
import iomodel
from praatio.utilities import my_math

RULE = ("random well-formed textgrids (1-3 interval/point tiers, 0-4 entries; labels from an adversarial pool: quotes, doubled "
        "quotes, runs of quotes at either end, newlines, '=', digits, brackets, backslash, non-ASCII, astral; times: 1-6 digit "
        "decimals, integers, integers x (1 +- 10^-k) for k=9..16, integers +-1..2 ulp, k/64, powers of ten from 1e-17 to 1e15, "
        "uniform up to 1e15; within one tier distinct times differ by >= 1e-6 so that no sliver is absorbed) x 4 formats x "
        "includeBlankSpaces x includeEmptyIntervals; a separate keyword stream puts the formats' own keywords into labels and "
        "names (known finding A10). Each case: save through a real file, open the file, compare, save the reopened textgrid and "
        "compare the text; the text and the parse are also compared with the Lean emitter / parser models. "
        "non-trivial = the textgrid has at least one entry")
TRUSTED = ["oracle: field-by-field comparison in Python (harness/props/C01.py:oracle); CPython repr/float/json; UTF-8 file I/O",
           "hypothesis hnum of C01.parseShort_emit (every rendered time is a NumWord: non-empty, one line, no quote, no "
           "surrounding whitespace) is sampled on every time of every case (oracle clause 'numword'); likewise hypothesis hnum of "
           "C01.parseLong_emit (LongNum: the numeral matches [\\d.]+(?:[eE][-+]?\\d+)? entirely; oracle clause 'longnum')"]
ASSUMPTIONS = ["labels and names contain no carriage return; names non-empty, single-line, trimmed",
               "intervals and gaps are at least 1e-6 long (sliver absorption is C04's subject)"]

def numword_ok(w):
    """hypothesis `hnum` of C01.parseShort_emit (lean/PraatModel/Props/C01Full.lean), through its sufficient condition
    NumWord.of_plain: a rendered time is a non-empty single line without quotes and without surrounding whitespace"""
    return w != "" and "\n" not in w and '"' not in w and w == w.strip()


def longnum_ok(w):
    """hypothesis `hnum` of C01.parseLong_emit (lean/PraatModel/Props/C01Long.lean): `LongNum`, i.e. the rendered time matches
    the long-format reader's numeral pattern entirely"""
    import re
    return re.fullmatch(r"[\d.]+(?:[eE][-+]?\d+)?", w) is not None


def times_of(g):
    return [g["lo"], g["hi"]] + [x for t in g["tiers"] for x in [t["lo"], t["hi"]] + [y for e in t["es"] for y in e[:-1]]]


case_json = lambda c: c
case_from_json = lambda j: j


def wants_x(c):
    return False


encode = iomodel.encode
render = iomodel.render
canon = iomodel.canon


def impl(c):
    if c["op"] in iomodel.MODEL_OPS:
        return iomodel.impl(c)
    g, fmt = c["tg"], c["fmt"]
    r1 = ioops.save_text(g, fmt, c["blanks"], via_file=True)
    out = {"save": r1}
    if r1[0] == "ok":
        text = r1[1]
        r2 = ioops.open_text(text, c["iei"])
        out["open"] = r2
        if r2[0] == "ok":
            out["resave"] = ioops.save_text(r2[1], fmt, c["blanks"], via_file=False)
        out["parse"] = iomodel.impl_parse(text, c["iei"])
    return out


def expected_tiers(c):
    g = c["tg"]
    out = []
    for t in g["tiers"]:
        es = [list(e) for e in t["es"]]
        if t["k"] == "I" and c["blanks"]:
            filled = []
            prev = g["lo"]
            for s, e, l in es:
                if s > prev:
                    filled.append([prev, s, ""])
                filled.append([s, e, l])
                prev = e
            if prev < g["hi"] or not es:
                filled.append([prev, g["hi"], ""])
            es = filled
        if not c["iei"]:
            es = [e for e in es if e[-1] != ""]
        out.append({"k": t["k"], "name": t["name"], "es": es, "lo": t["lo"], "hi": t["hi"]})
    return out


def has_sliver(g, thr=1e-8):
    """some interval tier has an interval or an unlabelled stretch (between entries, or up to the span ends) shorter
    than save's default minimumIntervalLength"""
    for t in g["tiers"]:
        if t["k"] != "I":
            continue
        marks = [t["lo"]] + [x for e in t["es"] for x in e[:-1]] + [t["hi"]]
        if any(0 < y - x < thr for x, y in zip(marks, marks[1:])):
            return True
    return False


def oracle(c, r):
    if c["op"] in iomodel.MODEL_OPS:
        return None          # model-correspondence case: compared with the Lean model only
    g, fmt = c["tg"], c["fmt"]
    kw, place = ioops.keyword_place(g, fmt)
    sig = {"op": "roundtrip", "fmt": fmt}
    if kw:
        sig["keyword"] = kw
        sig["place"] = place
    for x in times_of(g):          # sampled assumption of the whole-file theorem: CPython's numerals are `NumWord`s
        w = my_math.numToStr(x)
        if not numword_ok(w):
            return Failure(dict(sig, clause="numword"), f"numToStr({x!r}) = {w!r} is not a NumWord")
        if not longnum_ok(w):
            return Failure(dict(sig, clause="longnum"), f"numToStr({x!r}) = {w!r} is not a LongNum")
    if r["save"][0] == "err":
        return Failure(dict(sig, clause="save", exc=r["save"][1]), f"save raised {r['save'][1]}")
    if r["open"][0] == "err":
        return Failure(dict(sig, clause="reopen", exc=r["open"][1]), f"opening the saved file raised {r['open'][1]}")
    got = r["open"][1]
    want = expected_tiers(c)
    if c["blanks"] and has_sliver(g):
        return None    # outside this property's domain: absorbing a stretch shorter than 1e-8 is C04's subject (tag `sliver`)
    if [t["name"] for t in got["tiers"]] != [t["name"] for t in want]:
        return Failure(dict(sig, clause="names"), f"names {[t['name'] for t in got['tiers']]} expected {[t['name'] for t in want]}")
    if not (ioops.time_ok(g["lo"], got["lo"]) and ioops.time_ok(g["hi"], got["hi"])):
        return Failure(dict(sig, clause="span"), f"span [{got['lo']!r},{got['hi']!r}] expected [{g['lo']!r},{g['hi']!r}]")
    for w, t in zip(want, got["tiers"]):
        if w["k"] != t["k"]:
            return Failure(dict(sig, clause="type"), f"tier {t['name']!r} changed type")
        if fmt != "json" and not (ioops.time_ok(w["lo"], t["lo"]) and ioops.time_ok(w["hi"], t["hi"])):
            return Failure(dict(sig, clause="tier-span"), f"tier {t['name']!r} span [{t['lo']!r},{t['hi']!r}] expected [{w['lo']!r},{w['hi']!r}]")
        if len(w["es"]) != len(t["es"]):
            return Failure(dict(sig, clause="entries"), f"tier {t['name']!r}: {len(t['es'])} entries, expected {len(w['es'])}: {t['es']} vs {w['es']}")
        for a, b in zip(w["es"], t["es"]):
            if a[-1] != b[-1]:
                return Failure(dict(sig, clause="label"), f"tier {t['name']!r}: label {b[-1]!r} expected {a[-1]!r}")
            if not all(ioops.time_ok(x, y) for x, y in zip(a[:-1], b[:-1])):
                return Failure(dict(sig, clause="time"), f"tier {t['name']!r}: times {b[:-1]!r} expected {a[:-1]!r}")
    # (with includeEmptyIntervals=False the empty-labelled entries are gone, so only textgrids without them re-save identically)
    if c["iei"] or all(e[-1] != "" for t in g["tiers"] for e in t["es"]):
        rs = r["resave"]
        if rs[0] == "err":
            return Failure(dict(sig, clause="resave", exc=rs[1]), f"re-saving the reopened textgrid raised {rs[1]}")
        if rs[1] != r["save"][1]:
            return Failure(dict(sig, clause="fixed-point"), "re-saving the reopened textgrid does not reproduce the first file")
    return None


def tags(c, r):
    if c["op"] in iomodel.MODEL_OPS:
        return ["model:" + c["op"]] + (["err:" + r[1]] if r[0] == "err" else [])
    out = [c["fmt"], "blanks:%s" % c["blanks"], "iei:%s" % c["iei"], c.get("stream", "plain")] + _sliver_tag(c)
    for k in ("save", "open"):
        if k in r and r[k][0] == "err":
            out.append(f"{k}-err:{r[k][1]}")
    return out


def _sliver_tag(c):
    return ["sliver"] if c["op"] not in iomodel.MODEL_OPS and c.get("blanks") and has_sliver(c["tg"]) else []


def nontrivial(c, r):
    if c["op"] in iomodel.MODEL_OPS:
        return True
    return any(t["es"] for t in c["tg"]["tiers"])


def despace(g, rnd):
    """within each tier keep distinct times >= 1e-6 apart (relative to 1), so nothing is a sliver"""
    for t in g["tiers"]:
        es = []
        last = None
        for e in t["es"]:
            ok = True
            for x in e[:-1]:
                if last is not None and x != last and abs(x - last) < 1e-6 * max(1.0, abs(x)):
                    ok = False
            if e[0] != 0.0 and e[0] < 1e-6:
                ok = False      # the stretch between the span start (0) and the first entry would be a sliver
            if ok and (t["k"] == "P" or e[1] - e[0] >= 1e-6 * max(1.0, abs(e[1]))):
                es.append(e)
                last = e[-2]
        t["es"] = es
    top = max([x for t in g["tiers"] for e in t["es"] for x in e[:-1]] + [1.0])
    hi = top if rnd.random() < 0.3 else top + max(1.0, abs(top) * 1e-3)
    for t in g["tiers"]:
        t["hi"] = hi
        # the stretch between a tier's last entry and the common span end must not be a sliver either
        while t["es"] and t["es"][-1][-2] != hi and hi - t["es"][-1][-2] < 1e-6 * max(1.0, abs(hi)):
            t["es"].pop()
    g["hi"] = hi
    return g


def corpus():
    g = {"lo": 0.0, "hi": 5.0, "tiers": [{"k": "I", "name": "a", "es": [[1e-05, 2.0, "x"]], "lo": 0.0, "hi": 5.0}]}
    for fmt in ioops.FORMATS:                                              # A8 (fixed): exponent numerals
        yield {"op": "roundtrip", "tg": g, "fmt": fmt, "blanks": True, "iei": False}
    g2 = {"lo": 1e-05, "hi": 5.0, "tiers": [{"k": "I", "name": "a", "es": [[1.0, 2.0, "x"]], "lo": 1e-05, "hi": 5.0}]}
    yield {"op": "roundtrip", "tg": g2, "fmt": "short_textgrid", "blanks": True, "iei": True}      # A8b (fixed)
    g3 = {"lo": 0.0, "hi": 5.0, "tiers": [{"k": "P", "name": "p", "es": [[1.0, 'say "hi"']], "lo": 0.0, "hi": 5.0}]}
    yield {"op": "roundtrip", "tg": g3, "fmt": "long_textgrid", "blanks": True, "iei": True}       # A9 (fixed)
    g4 = {"lo": 0.0, "hi": 5.0, "tiers": [{"k": "I", "name": "a", "es": [[1.0, 2.0, "item [2]:"]], "lo": 0.0, "hi": 5.0}]}
    yield {"op": "roundtrip", "tg": g4, "fmt": "long_textgrid", "blanks": True, "iei": True, "stream": "keyword"}    # A10 (known)
    g5 = {"lo": 0.0, "hi": 5.0, "tiers": [{"k": "I", "name": "a", "es": [[1.0, 2.0, "IntervalTier"]], "lo": 0.0, "hi": 5.0}]}
    yield {"op": "roundtrip", "tg": g5, "fmt": "short_textgrid", "blanks": True, "iei": True, "stream": "keyword"}   # A10 (known)
    # seeded-change regressions: a quote ending a non-final line of a label; a time two ulps below an integer
    g6 = {"lo": 0.0, "hi": 5.0, "tiers": [{"k": "P", "name": "p", "es": [[1.0, 'say "ah"\nrising'], [2.0, '"\n"']], "lo": 0.0, "hi": 5.0},
                                        {"k": "I", "name": "i", "es": [[1.0, 2.9999999999999996, 'a"\nb']], "lo": 0.0, "hi": 5.0}]}
    for fmt in ioops.FORMATS:
        yield {"op": "roundtrip", "tg": g6, "fmt": fmt, "blanks": True, "iei": True}


def gen(rnd, tier):
    for c in gen_main(rnd, tier):
        yield c
        yield from derived(c, rnd)


def derived(c, rnd):
    """model-correspondence cases derived from one round-trip case: the emitted text and its parse"""
    if c["fmt"] not in ("short_textgrid", "long_textgrid"):
        return
    kw = c.get("stream") == "keyword"
    yield {"op": "emit", "tg": c["tg"], "fmt": c["fmt"], "blanks": c["blanks"], "minlen": 1e-8}
    r = ioops.save_text(c["tg"], c["fmt"], c["blanks"], via_file=False)
    if r[0] == "ok":
        p = {"op": "parse", "text": r[1], "iei": c["iei"]}
        if kw:
            p["anyerr"] = True
        yield p


def gen_main(rnd, tier):
    n = 30000 if tier == "thorough" else 2500
    for i in range(n):
        kw = rnd.random() < 0.12
        labels = ioops.PLAIN_LABELS + (ioops.KEYWORD_LABELS if kw else [])
        names = ioops.NAMES + (ioops.KEYWORD_NAMES if kw and rnd.random() < 0.3 else [])
        g = despace(ioops.gen_tg(rnd, rnd.choice(["full", "full", "simple"]), labels=labels, names=names), rnd)
        yield {"op": "roundtrip", "tg": g, "fmt": rnd.choice(ioops.FORMATS), "blanks": rnd.random() < 0.6, "iei": rnd.random() < 0.5,
               "stream": "keyword" if kw else "plain"}


def shrink(c):
    for c2 in tgops.shrink_tg(c):
        yield c2
    g = c["tg"]
    for i, t in enumerate(g["tiers"]):
        for j, e in enumerate(t["es"]):
            lab = e[-1]
            for cut in (lab[:len(lab) // 2], lab[len(lab) // 2:], lab[1:], lab[:-1]):
                if cut != lab and cut == cut.strip():
                    es = t["es"][:j] + [e[:-1] + [cut]] + t["es"][j + 1:]
                    yield dict(c, tg=dict(g, tiers=g["tiers"][:i] + [dict(t, es=es)] + g["tiers"][i + 1:]))
