"""C01 — TextGrid save/open round trip preserves every tier, time and label."""
from framework import Failure
import tiers as T
import tgops
import ioops
import iomodel
from praatio.utilities import my_math

ESCALATE_MAX = 60000      # cases drawn at most when a changed source file makes the quick tier look harder
RULE = ("random well-formed textgrids (1-3 interval/point tiers, 0-4 entries; labels from an adversarial pool: quotes, doubled "
        "quotes, runs of quotes at either end, newlines, '=', digits, brackets, backslash, non-ASCII, astral; times: 1-6 digit "
        "decimals, integers, integers x (1 +- 10^-k) for k=9..16, integers +-1..2 ulp, k/64, powers of ten from 1e-17 to 1e15, "
        "uniform up to 1e15; a quarter of the textgrids reflected to NEGATIVE times - wholly below 0 with the span ending at -0.0, or on "
        "both sides of 0; tier names with leading/trailing blanks, tabs, U+3000, with line breaks and with lines that read like a span row; within one tier distinct "
        "times differ by >= 1e-6 so that no sliver is absorbed) x 4 formats x "
        "includeBlankSpaces x includeEmptyIntervals; a separate keyword stream puts the formats' own keywords into labels and "
        "names (known finding A10). Each case: save through a real file, open the file, compare, save the reopened textgrid and "
        "compare the text; the text and the parse are also compared with the Lean emitter / parser models - for every textgrid "
        "also both JSON texts (json.dumps model) and what parseTextgridStr reads from them and from an independently written "
        "JSON document with the same content (other key order, white space, \\u escapes, numeral styles, extra/duplicate keys). "
        "non-trivial = the textgrid has at least one entry")
TRUSTED = ["oracle: field-by-field comparison in Python (harness/props/C01.py:oracle); CPython repr/float/json; UTF-8 file I/O",
           "hypothesis hnum of C01.parseShort_emit (every rendered time is a NumWord: non-empty, one line, no quote, no "
           "surrounding whitespace) is sampled on every time of every case (oracle clause 'numword'); likewise hypothesis hnum of "
           "C01.parseLong_emit (LongNum: the numeral matches -?[\\d.]+(?:[eE][-+]?\\d+)? entirely; oracle clause 'longnum'); likewise "
           "hypothesis hnum of C02.decode_json_full / parseAny_json_full (JsonNum: float.__repr__ of the time is a number of the JSON "
           "grammar; oracle clause 'jsonnum')",
           "CPython's json module (json.dumps / json.loads) is trusted as a component and compared on every case with its Lean model: "
           "the written JSON text byte for byte with Json.render (op emitjson), the reader with Json.parse + tgOfJson on praatio-written, "
           "independently written, damaged and handwritten documents (ops parsejson, u_jsonstr, u_jsonnum, u_jsondoc)"]
ASSUMPTIONS = ["labels and names contain no carriage return; names non-empty",
               "intervals and gaps are at least 1e-6 long (sliver absorption is C04's subject)"]

def numword_ok(w):
    """hypothesis `hnum` of C01.parseShort_emit (lean/PraatModel/Props/C01Full.lean), through its sufficient condition
    NumWord.of_plain: a rendered time is a non-empty single line without quotes and without surrounding whitespace"""
    return w != "" and "\n" not in w and '"' not in w and w == w.strip()


def longnum_ok(w):
    """hypothesis `hnum` of C01.parseLong_emit (lean/PraatModel/Props/C01Long.lean): `LongNum`, i.e. the rendered time matches
    the captured group of the long-format reader's numeric rows (an optional minus sign and the numeral) entirely"""
    import re
    return re.fullmatch(r"-?[\d.]+(?:[eE][-+]?\d+)?", w) is not None


def jsonnum_ok(w):
    """hypothesis `hnum` of C02.decode_json_full / decode_json_simple / parseAny_json_* (lean/PraatModel/Props/C02Json.lean):
    `JsonNum`, i.e. the numeral json.dumps writes for the time is a number of the JSON grammar (RFC 8259), entirely"""
    import re
    return re.fullmatch(r"-?(0|[1-9][0-9]*)(\.[0-9]+)?([eE][-+]?[0-9]+)?", w) is not None


def times_of(g):
    return [g["lo"], g["hi"]] + [x for t in g["tiers"] for x in [t["lo"], t["hi"]] + [y for e in t["es"] for y in e[:-1]]]


case_json = lambda c: c
case_from_json = lambda j: j


def wants_x(c):
    return False


encode = iomodel.encode
render = iomodel.render
canon = iomodel.canon


def impl(c):
    if c["op"] in iomodel.MODEL_OPS:
        return iomodel.impl(c)
    g, fmt = c["tg"], c["fmt"]
    r1 = ioops.save_text(g, fmt, c["blanks"], via_file=True, through_insert=c.get("ints", False))
    out = {"save": r1}
    if r1[0] == "ok":
        text = r1[1]
        r2 = ioops.open_text(text, c["iei"])
        out["open"] = r2
        if r2[0] == "ok":
            out["resave"] = ioops.save_text(r2[1], fmt, c["blanks"], via_file=False)
        out["parse"] = iomodel.impl_parse(text, c["iei"])
    return out


def expected_tiers(c):
    g = c["tg"]
    out = []
    for t in g["tiers"]:
        es = [list(e) for e in t["es"]]
        if t["k"] == "I" and c["blanks"]:
            filled = []
            prev = g["lo"]
            for s, e, l in es:
                if s > prev:
                    filled.append([prev, s, ""])
                filled.append([s, e, l])
                prev = e
            if prev < g["hi"] or not es:
                filled.append([prev, g["hi"], ""])
            es = filled
        if not c["iei"]:
            es = [e for e in es if e[-1] != ""]
        out.append({"k": t["k"], "name": t["name"], "es": es, "lo": t["lo"], "hi": t["hi"]})
    return out


def has_sliver(g, thr=1e-8):
    """some interval tier has an interval or an unlabelled stretch (between entries, or up to the span ends) shorter
    than save's default minimumIntervalLength"""
    for t in g["tiers"]:
        if t["k"] != "I":
            continue
        marks = [t["lo"]] + [x for e in t["es"] for x in e[:-1]] + [t["hi"]]
        if any(0 < y - x < thr for x, y in zip(marks, marks[1:])):
            return True
    return False


def oracle(c, r):
    if c["op"] in iomodel.MODEL_OPS:
        return None          # model-correspondence case: compared with the Lean model only
    g, fmt = c["tg"], c["fmt"]
    kw, place = ioops.keyword_place(g, fmt)
    sig = {"op": "roundtrip", "fmt": fmt}
    if kw:
        sig["keyword"] = kw
        sig["place"] = place
    for x in times_of(g):          # sampled assumption of the whole-file theorem: CPython's numerals are `NumWord`s
        w = my_math.numToStr(x)
        if not numword_ok(w):
            return Failure(dict(sig, clause="numword"), f"numToStr({x!r}) = {w!r} is not a NumWord")
        if not longnum_ok(w):
            return Failure(dict(sig, clause="longnum"), f"numToStr({x!r}) = {w!r} is not a LongNum")
        if not jsonnum_ok(iomodel.numeral(x)):
            return Failure(dict(sig, clause="jsonnum"), f"json.dumps({x!r}) = {iomodel.numeral(x)!r} is not a JSON number")
    if r["save"][0] == "err":
        return Failure(dict(sig, clause="save", exc=r["save"][1]), f"save raised {r['save'][1]}")
    if r["open"][0] == "err":
        return Failure(dict(sig, clause="reopen", exc=r["open"][1]), f"opening the saved file raised {r['open'][1]}")
    got = r["open"][1]
    want = expected_tiers(c)
    if c["blanks"] and has_sliver(g):
        return None    # outside this property's domain: absorbing a stretch shorter than 1e-8 is C04's subject (tag `sliver`)
    if [t["name"] for t in got["tiers"]] != [t["name"] for t in want]:
        return Failure(dict(sig, clause="names"), f"names {[t['name'] for t in got['tiers']]} expected {[t['name'] for t in want]}")
    if not (ioops.time_ok(g["lo"], got["lo"]) and ioops.time_ok(g["hi"], got["hi"])):
        return Failure(dict(sig, clause="span"), f"span [{got['lo']!r},{got['hi']!r}] expected [{g['lo']!r},{g['hi']!r}]")
    for w, t in zip(want, got["tiers"]):
        if w["k"] != t["k"]:
            return Failure(dict(sig, clause="type"), f"tier {t['name']!r} changed type")
        if fmt != "json" and not (ioops.time_ok(w["lo"], t["lo"]) and ioops.time_ok(w["hi"], t["hi"])):
            return Failure(dict(sig, clause="tier-span"), f"tier {t['name']!r} span [{t['lo']!r},{t['hi']!r}] expected [{w['lo']!r},{w['hi']!r}]")
        if len(w["es"]) != len(t["es"]):
            return Failure(dict(sig, clause="entries"), f"tier {t['name']!r}: {len(t['es'])} entries, expected {len(w['es'])}: {t['es']} vs {w['es']}")
        for a, b in zip(w["es"], t["es"]):
            if a[-1] != b[-1]:
                # a lone carriage return inside a label comes back as a line feed from the text formats (the files are read with
                # universal newlines): known finding A35, narrow signature lone_cr
                lone_cr = "\r" in a[-1].replace("\r\n", "") and b[-1] == a[-1].replace("\r\n", "\n").replace("\r", "\n")
                return Failure(dict(sig, clause="label", **({"lone_cr": True} if lone_cr else {})),
                               f"tier {t['name']!r}: label {b[-1]!r} expected {a[-1]!r}")
            if not all(ioops.time_ok(x, y) for x, y in zip(a[:-1], b[:-1])):
                return Failure(dict(sig, clause="time"), f"tier {t['name']!r}: times {b[:-1]!r} expected {a[:-1]!r}")
    # (with includeEmptyIntervals=False the empty-labelled entries are gone, so only textgrids without them re-save identically)
    if c["iei"] or all(e[-1] != "" for t in g["tiers"] for e in t["es"]):
        rs = r["resave"]
        if rs[0] == "err":
            return Failure(dict(sig, clause="resave", exc=rs[1]), f"re-saving the reopened textgrid raised {rs[1]}")
        if rs[1] != r["save"][1]:
            return Failure(dict(sig, clause="fixed-point"), "re-saving the reopened textgrid does not reproduce the first file")
    return None


def tags(c, r):
    if c["op"] in iomodel.MODEL_OPS:
        return ["model:" + c["op"]] + (["err:" + r[1]] if r[0] == "err" else [])
    out = [c["fmt"], "blanks:%s" % c["blanks"], "iei:%s" % c["iei"], c.get("stream", "plain")] + _sliver_tag(c)
    if any(x < 0 for x in times_of(c["tg"])):
        out.append("negative-times")
    for k in ("save", "open"):
        if k in r and r[k][0] == "err":
            out.append(f"{k}-err:{r[k][1]}")
    return out


def _sliver_tag(c):
    return ["sliver"] if c["op"] not in iomodel.MODEL_OPS and c.get("blanks") and has_sliver(c["tg"]) else []


def nontrivial(c, r):
    if c["op"] in iomodel.MODEL_OPS:
        return True
    return any(t["es"] for t in c["tg"]["tiers"])


def despace(g, rnd):
    """within each tier keep distinct times >= 1e-6 apart (relative to 1), so nothing is a sliver"""
    for t in g["tiers"]:
        es = []
        last = None
        for e in t["es"]:
            ok = True
            for x in e[:-1]:
                if last is not None and x != last and abs(x - last) < 1e-6 * max(1.0, abs(x)):
                    ok = False
            if e[0] != 0.0 and e[0] < 1e-6:
                ok = False      # the stretch between the span start (0) and the first entry would be a sliver
            if ok and (t["k"] == "P" or e[1] - e[0] >= 1e-6 * max(1.0, abs(e[1]))):
                es.append(e)
                last = e[-2]
        t["es"] = es
    top = max([x for t in g["tiers"] for e in t["es"] for x in e[:-1]] + [1.0])
    hi = top if rnd.random() < 0.3 else top + max(1.0, abs(top) * 1e-3)
    for t in g["tiers"]:
        t["hi"] = hi
        # the stretch between a tier's last entry and the common span end must not be a sliver either
        while t["es"] and t["es"][-1][-2] != hi and hi - t["es"][-1][-2] < 1e-6 * max(1.0, abs(hi)):
            t["es"].pop()
    g["hi"] = hi
    return g


def narrow_one_tier(g, rnd):
    """a copy of `g` in which one tier keeps its entries but has a span of its own inside the textgrid's"""
    import copy
    g = copy.deepcopy(g)
    t = rnd.choice(g["tiers"])
    times = [x for e in t["es"] for x in e[:-1]]
    first, last = (min(times), max(times)) if times else (g["hi"] / 4.0, g["hi"] / 2.0)
    lo = rnd.choice([first, first / 2.0, round(first / 3.0, 3)])
    hi = rnd.choice([last, (last + g["hi"]) / 2.0, round((last + g["hi"]) / 2.0, 3)])
    if g["lo"] <= lo <= first and last <= hi <= g["hi"] and lo < hi:
        t["lo"], t["hi"] = float(lo), float(hi)
    return g


def corpus():
    g = {"lo": 0.0, "hi": 5.0, "tiers": [{"k": "I", "name": "a", "es": [[1e-05, 2.0, "x"]], "lo": 0.0, "hi": 5.0}]}
    for fmt in ioops.FORMATS:                                              # A8 (fixed): exponent numerals
        yield {"op": "roundtrip", "tg": g, "fmt": fmt, "blanks": True, "iei": False}
    g2 = {"lo": 1e-05, "hi": 5.0, "tiers": [{"k": "I", "name": "a", "es": [[1.0, 2.0, "x"]], "lo": 1e-05, "hi": 5.0}]}
    yield {"op": "roundtrip", "tg": g2, "fmt": "short_textgrid", "blanks": True, "iei": True}      # A8b (fixed)
    g3 = {"lo": 0.0, "hi": 5.0, "tiers": [{"k": "P", "name": "p", "es": [[1.0, 'say "hi"']], "lo": 0.0, "hi": 5.0}]}
    yield {"op": "roundtrip", "tg": g3, "fmt": "long_textgrid", "blanks": True, "iei": True}       # A9 (fixed)
    g4 = {"lo": 0.0, "hi": 5.0, "tiers": [{"k": "I", "name": "a", "es": [[1.0, 2.0, "item [2]:"]], "lo": 0.0, "hi": 5.0}]}
    yield {"op": "roundtrip", "tg": g4, "fmt": "long_textgrid", "blanks": True, "iei": True, "stream": "keyword"}    # A10 (known)
    g5 = {"lo": 0.0, "hi": 5.0, "tiers": [{"k": "I", "name": "a", "es": [[1.0, 2.0, "IntervalTier"]], "lo": 0.0, "hi": 5.0}]}
    yield {"op": "roundtrip", "tg": g5, "fmt": "short_textgrid", "blanks": True, "iei": True, "stream": "keyword"}   # A10 (known)
    # seeded-change regressions: a quote ending a non-final line of a label; a time two ulps below an integer
    g6 = {"lo": 0.0, "hi": 5.0, "tiers": [{"k": "P", "name": "p", "es": [[1.0, 'say "ah"\nrising'], [2.0, '"\n"']], "lo": 0.0, "hi": 5.0},
                                        {"k": "I", "name": "i", "es": [[1.0, 2.9999999999999996, 'a"\nb']], "lo": 0.0, "hi": 5.0}]}
    for fmt in ioops.FORMATS:
        yield {"op": "roundtrip", "tg": g6, "fmt": fmt, "blanks": True, "iei": True}
    # A30 (fixed): negative times - the long-format reader dropped the sign of a start and refused a negative end
    g7 = {"lo": -3.0, "hi": 2.0, "tiers": [{"k": "I", "name": "a", "es": [[-2.5, -1.0, "x"], [0.5, 1.0, "y"]], "lo": -3.0, "hi": 2.0},
                                         {"k": "P", "name": "p", "es": [[-2.0, "m"], [1.5, "n"]], "lo": -3.0, "hi": 2.0}]}
    g8 = {"lo": -5.0, "hi": -0.0, "tiers": [{"k": "I", "name": "a", "es": [[-4.000000000000001, -1e-05, "x"]], "lo": -5.0, "hi": -0.0},
                                          {"k": "P", "name": "p", "es": [[-1e-17, "m"]], "lo": -5.0, "hi": -0.0}]}
    for fmt in ioops.FORMATS:
        for blanks in (True, False):
            yield {"op": "roundtrip", "tg": g7, "fmt": fmt, "blanks": blanks, "iei": True}
            yield {"op": "roundtrip", "tg": g8, "fmt": fmt, "blanks": blanks, "iei": blanks}
    # A31 (fixed): a tier name with surrounding blanks / tabs - the short-format reader stripped it
    g9 = {"lo": 0.0, "hi": 2.0, "tiers": [{"k": "I", "name": " a b ", "es": [[0.0, 1.0, "x"]], "lo": 0.0, "hi": 2.0},
                                        {"k": "P", "name": "\tq ", "es": [[0.5, "m"]], "lo": 0.0, "hi": 2.0}]}
    for fmt in ioops.FORMATS:
        yield {"op": "roundtrip", "tg": g9, "fmt": fmt, "blanks": True, "iei": True}
    # A32 (fixed): a tier name with a line break - the long-format reader's name pattern had no DOTALL (ParsingError)
    g10 = {"lo": 0.0, "hi": 2.0, "tiers": [{"k": "I", "name": "c\nd", "es": [[0.0, 1.0, "x"]], "lo": 0.0, "hi": 2.0},
                                         {"k": "P", "name": " e\n f\"g\" \n", "es": [[0.5, "m"]], "lo": 0.0, "hi": 2.0}]}
    for fmt in ioops.FORMATS:
        yield {"op": "roundtrip", "tg": g10, "fmt": fmt, "blanks": True, "iei": True}
    # A33 (fixed): a line of a multi-line name that reads like the tier's span row was taken for it by the long-format reader
    g11 = {"lo": 0.0, "hi": 2.0, "tiers": [{"k": "P", "name": "xmin = 1\nb", "es": [[0.5, "p"]], "lo": 0.0, "hi": 2.0}]}
    g12 = {"lo": 0.0, "hi": 2.0, "tiers": [{"k": "P", "name": "a\n xmax= -2.5 \nz", "es": [[0.5, "p"]], "lo": 0.0, "hi": 2.0}]}
    for g in (g11, g12):
        for fmt in ioops.FORMATS:
            yield {"op": "roundtrip", "tg": g, "fmt": fmt, "blanks": False, "iei": True}
    yield from json_corpus()


HOSTILE = 'q"t\\b\nnl\ttab' + chr(1) + chr(0x1f) + chr(0x7f) + chr(0xe9) + chr(0x2028) + chr(0x2029) + chr(0x1d11e) + "/</script>"


def json_corpus():
    """fixed JSON cases: hostile labels; Python ints among the floats (textgrid span, overrides, fillers made from them); the
    dictionary semantics of the simplified format; handwritten documents; every control character"""
    h = {"lo": 0.0, "hi": 5.0, "tiers": [{"k": "I", "name": 'n"\\' + chr(0xe9), "es": [[1e-05, 1.0, HOSTILE], [2.0, 3.5, "\\u0041"]], "lo": 0.0, "hi": 5.0},
                                       {"k": "P", "name": chr(0x1d11e), "es": [[1.0, HOSTILE], [2.5, ""]], "lo": 0.0, "hi": 5.0}]}
    for fmt in ("json", "textgrid_json"):
        for blanks in (True, False):
            yield {"op": "emitjson", "tg": h, "fmt": fmt, "blanks": blanks, "minlen": 1e-8}
            yield {"op": "emitjson", "tg": h, "fmt": fmt, "blanks": blanks, "min": 0, "max": 7, "minlen": 1e-8}           # int overrides
            yield {"op": "emitjson", "tg": h, "fmt": fmt, "blanks": blanks, "min": -0.0, "max": 1e22, "minlen": 1e-8}
            yield {"op": "emitjson", "tg": dict(h, lo=0, hi=5), "fmt": fmt, "blanks": blanks, "minlen": 1e-8}             # int span
            yield {"op": "emitjson", "tg": dict(h, lo=0, hi=5), "fmt": fmt, "blanks": blanks, "max": 5.0, "minlen": None}
            yield {"op": "emitjson", "tg": h, "fmt": fmt, "blanks": blanks, "min": 0, "max": 3, "minlen": 1e-8}           # ParsingError
        yield {"op": "roundtrip", "tg": h, "fmt": fmt, "blanks": True, "iei": True}
        yield {"op": "roundtrip", "tg": h, "fmt": fmt, "blanks": False, "iei": False}
    # an int override that starts a sliver: `Interval(minTimestamp, end, label)` of _removeUltrashortIntervals carries the int on
    sl = {"lo": 0.0, "hi": 5.0, "tiers": [{"k": "I", "name": "a", "es": [[1e-09, 2.0, "x"], [2.0, 4.999999999, "y"]], "lo": 0.0, "hi": 5.0}]}
    for fmt in ("json", "textgrid_json"):
        yield {"op": "emitjson", "tg": sl, "fmt": fmt, "blanks": True, "min": 0, "max": 5, "minlen": 1e-8}
        yield {"op": "emitjson", "tg": sl, "fmt": fmt, "blanks": True, "min": 0, "max": 5, "minlen": None}
    # the simplified format is a dict keyed by tier name: a repeated name keeps its first place and takes the last tier
    d = {"lo": 0.0, "hi": 5.0, "tiers": [{"k": "I", "name": "a", "es": [[1.0, 2.0, "x"]], "lo": 0.0, "hi": 5.0},
                                       {"k": "P", "name": "b", "es": [[1.0, "m"]], "lo": 0.0, "hi": 5.0},
                                       {"k": "P", "name": "a", "es": [[3.0, "z"]], "lo": 0.0, "hi": 5.0}]}
    for fmt in ("json", "textgrid_json"):
        yield {"op": "emitjson", "tg": d, "fmt": fmt, "blanks": False, "minlen": 1e-8, "rawdict": True}
    for text in JSON_TEXTS:
        for iei in (True, False):
            yield {"op": "parsejson", "text": text, "iei": iei}
    for i in list(range(0x20)) + [0x22, 0x2f, 0x5c, 0x7f, 0x80, 0xa0, 0x2028, 0x2029, 0xfeff, 0xffff, 0x10000, 0x1d11e, 0x10ffff]:
        yield {"op": "u_jsonstr", "s": chr(i)}
        yield {"op": "u_jsonstr", "s": "a" + chr(i) + chr(i) + "b"}
    yield {"op": "u_jsonstr", "s": ""}
    yield {"op": "u_jsonstr", "s": HOSTILE}
    yield {"op": "u_jsonstr", "s": "".join(chr(i) for i in range(0x30))}
    for w in ioops.NUM_WORDS:
        yield {"op": "u_jsonnum", "s": w}
    for t in JSON_DOCS:
        yield {"op": "u_jsondoc", "s": t}


# handwritten documents: README examples, other key orders and white space, escapes, duplicates, both-schema mixes, off-schema and
# invalid ones
JSON_TEXTS = [
    '{"start": 0.0, "end": 1.8, "tiers": {"phone": {"type": "IntervalTier", "entries": [[0.0, 0.3, ""], [0.3, 0.38, "m"]]}, '
    '"pitch": {"type": "TextTier", "entries": [[0.32, "120"], [0.37, "85"]]}}}',
    '{\n    "xmin": 0.0,\n    "xmax": 1.8,\n    "tiers": [\n        {\n            "class": "IntervalTier",\n            "name": "phone",\n'
    '            "xmin": 0.0,\n            "xmax": 1.8,\n            "entries": [[0.0, 0.3, ""], [0.3, 0.38, "m"]]\n        },\n        {\n'
    '            "class": "TextTier",\n            "name": "pitch",\n            "xmin": 0.0,\n            "xmax": 1.8,\n'
    '            "entries": [[0.32, "120"], [0.37, "85"]]\n        }\n    ]\n}\n',
    '{"tiers":[{"entries":[[1,2,"\\u00e9\\ud834\\udd1e\\/\\"\\\\\\b\\f\\n\\r\\t\\u0001"]],"xmax":5,"xmin":0,"name":"\\u0061\\u0041","class":"IntervalTier"}],"xmax":5E0,"xmin":-0}',
    '{"end":2.50e+0,"tiers":{"b":{"entries":[[1,"x"]],"type":"TextTier"},"a":{"entries":[],"type":"IntervalTier"},'
    '"b":{"entries":[[2,"y"],[3,""]],"type":"TextTier"}},"start":0,"start":1}',
    '\t{"xmin":0,"xmax":1,"tiers":[]}\r\n',
    '{"start":0,"end":1,"tiers":{}}',
    '{"start":0,"end":1,"xmin":3,"xmax":4,"tiers":{"t":{"type":"TextTier","entries":[[0.5,"p"]],"class":"IntervalTier","name":"other"}}}',
    '{"xmin":0,"xmax":1,"tiers":[{"class":"TextTier","name":"start","xmin":0,"xmax":1,"entries":[[0.5,"start"]]}]}',
    '{"xmin":0,"xmax":1e400,"tiers":[{"class":"TextTier","name":"n","xmin":NaN,"xmax":Infinity,"entries":[[-Infinity,"x"]]}]}',
    '{"xmin":0,"xmax":1,"tiers":[{"class":"TextTier","name":"n","xmin":0,"xmax":1,"entries":[[0.5,"p"]],"extra":{"a":[1,2,{"b":null}]}}],"z":true}',
    # off the schemas (valid JSON)
    '{"xmin":0,"xmax":1}', '{"xmin":0,"tiers":[]}', '{"start":0,"tiers":{}}', '{"start":0,"end":1,"tiers":[]}', '{"xmin":0,"xmax":1,"tiers":{}}',
    '[]', '[1,2]', '3', '"start"', 'null', 'true', '{}',
    '{"xmin":"0","xmax":1,"tiers":[]}', '{"xmin":true,"xmax":1,"tiers":[]}', '{"xmin":null,"xmax":1,"tiers":[]}',
    '{"xmin":0,"xmax":1,"tiers":[{"class":"Foo","name":"n","xmin":0,"xmax":1,"entries":[]}]}',
    '{"xmin":0,"xmax":1,"tiers":[{"class":"IntervalTier","name":"n","xmin":0,"xmax":1,"entries":[[0.5,"p"]]}]}',
    '{"xmin":0,"xmax":1,"tiers":[{"class":"TextTier","name":"n","xmin":0,"xmax":1,"entries":[[0.5,0.6,"p"]]}]}',
    '{"xmin":0,"xmax":1,"tiers":[{"class":"TextTier","name":"n","xmin":0,"xmax":1,"entries":[[0.5,7]]}]}',
    '{"xmin":0,"xmax":1,"tiers":[{"class":"TextTier","name":"n","xmin":0,"xmax":1,"entries":[["0.5","p"]]}]}',
    '{"xmin":0,"xmax":1,"tiers":[{"class":"TextTier","name":"n","xmin":0,"xmax":1,"entries":[[]]}]}',
    '{"xmin":0,"xmax":1,"tiers":[{"class":"TextTier","name":"n","xmin":0,"xmax":1,"entries":[5]}]}',
    '{"xmin":0,"xmax":1,"tiers":[{"class":"TextTier","name":"n","xmin":0,"xmax":1,"entries":{}}]}',
    '{"xmin":0,"xmax":1,"tiers":[{"class":"TextTier","name":7,"xmin":0,"xmax":1,"entries":[]}]}',
    '{"xmin":0,"xmax":1,"tiers":[{"class":"TextTier","xmin":0,"xmax":1,"entries":[]}]}',
    '{"xmin":0,"xmax":1,"tiers":[{"class":"TextTier","name":"n","xmin":0,"xmax":1}]}',
    '{"xmin":0,"xmax":1,"tiers":[[]]}', '{"xmin":0,"xmax":1,"tiers":[null]}',
    '{"start":0,"end":1,"tiers":{"t":{"type":"TextTier"}}}', '{"start":0,"end":1,"tiers":{"t":{"entries":[]}}}', '{"start":0,"end":1,"tiers":{"t":[]}}',
    '{"start":0,"end":1,"tiers":{"t":{"type":"Foo","entries":[]}}}', '{"start":"0","end":1,"tiers":{}}', '{"start":null,"end":1,"tiers":{}}',
    # not JSON: the text readers take over
    '{"xmin":0,"xmax":1,"tiers":[],}', '{"xmin":0,"xmax":1,"tiers":[]', "{'xmin':0,'xmax':1,'tiers':[]}", '{"xmin":01,"xmax":1,"tiers":[]}',
    '{"xmin":0,"xmax":1,"tiers":[]} x', chr(0xfeff) + '{"xmin":0,"xmax":1,"tiers":[]}', '{"xmin":0,"xmax":1.,"tiers":[]}', '{"xmin":.5,"xmax":1,"tiers":[]}',
    '{"xmin":0,"xmax":1,"tiers":[{"class":"TextTier","name":"a\nb","xmin":0,"xmax":1,"entries":[]}]}', '{"xmin":0,"xmax":+1,"tiers":[]}',
    '{"xmin":0,"xmax":1,"tiers":[{"class":"TextTier","name":"a\\x","xmin":0,"xmax":1,"entries":[]}]}',
    '{"xmin":0,"xmax":1,"tiers":[{"class":"TextTier","name":"\\u12g4","xmin":0,"xmax":1,"entries":[]}]}',
    '{"xmin":0,"xmax":1,"tiers":[{"class":"TextTier","name":"\\ud834\\u12","xmin":0,"xmax":1,"entries":[]}]}',
    '', ' ', '{', 'nul', '// c\n{}', '{"a":1 "b":2}', '[1 2]', '{"xmin" 0}', '{1:2}', 'tru', 'falsey', '-', '-I', 'Infinit', 'Na',
]

JSON_DOCS = ['{"a": [1, 2.5e+3, "x"], "a": null, "b": {"c": [[], {}, [[]]]}}', ' [ ] ', '{ }', '[[[[[[1]]]]]]', '"\\u00e9\\ud834\\udd1e\\/"', '"\\uD834\\uDD1E"',
             '"\\ud7ff\\ue000\\uffff\\u0000"', '"\\u00E9\\u00e9"', '-0', '-0.0', '0', '1E5', '[NaN, Infinity, -Infinity]', '[1,2,]', '[,1]', '{"a":1,}', '{,}', '[1,,2]', '{"a"}',
             '{"a":}', '[1}', '{"a":1]', '"abc', '"a\\', '"a\\u12', '"\\u"', '"\\ud834\\n"', 'nulll', 'truefalse', '1 2', '1,2', '[1] [2]', '01', '-01', '1.', '.5', '1e', '1e+',
             '[-]', '[1.5.5]', '[1e5e5]', '["a" "b"]', '{"a":1 ,"b" :2 }', '\n\t\r [\n1\t,\r2 ]\n', '\f[1]', '[1]\v', chr(0xa0) + '[1]', '[1' + chr(0x2028) + ']',
             '"' + chr(0x7f) + chr(0x2028) + chr(0x1d11e) + '"', '"' + chr(0x1f) + '"', '"\t"', '{"k": "v", "k": "w", "K": "x"}', '[true,false,null]', '[tru]', '[nul]', 'True',
             'None', "'a'", '{a:1}', '[1e-05, 1e+22, 5e-324, 1.7976931348623157e+308, 123456789012345678901234567890]']


def gen(rnd, tier):
    for c in gen_main(rnd, tier):
        yield c
        yield from derived(c, rnd)


def json_derived(g, blanks, mn, mx, iei, rnd):
    """the JSON side of one textgrid, both formats: praatio's text against the Lean emitter (json.dumps model), what
    parseTextgridStr makes of that text and of an independently written document with the same content (other key order, white
    space, escapes, numeral styles, extra and duplicate keys) against the Lean JSON reader, and now and then a damaged text"""
    for fmt in ("json", "textgrid_json"):
        yield {"op": "emitjson", "tg": g, "fmt": fmt, "blanks": blanks, "min": mn, "max": mx, "minlen": 1e-8}
        r = ioops.save_text(g, fmt, blanks, mn, mx, via_file=False)
        if r[0] == "ok":
            yield {"op": "parsejson", "text": r[1], "iei": iei}
            if rnd.random() < 0.1:
                yield {"op": "parsejson", "text": ioops.json_break(r[1], rnd), "iei": iei}
    fmt = rnd.choice(["json", "textgrid_json"])
    yield {"op": "parsejson", "text": ioops.json_variant(g, fmt, rnd), "iei": rnd.random() < 0.5}


def derived(c, rnd):
    """model-correspondence cases derived from one round-trip case: the emitted text and its parse"""
    yield from json_derived(c["tg"], c["blanks"], None, None, c["iei"], rnd)
    if c["fmt"] not in ("short_textgrid", "long_textgrid"):
        return
    kw = c.get("stream") == "keyword"
    yield {"op": "emit", "tg": c["tg"], "fmt": c["fmt"], "blanks": c["blanks"], "minlen": 1e-8}
    r = ioops.save_text(c["tg"], c["fmt"], c["blanks"], via_file=False)
    if r[0] == "ok":
        p = {"op": "parse", "text": r[1], "iei": c["iei"]}
        if kw:
            p["anyerr"] = True
        yield p


def gen_main(rnd, tier):
    n = 30000 if tier == "thorough" else 2500
    for i in range(n):
        kw = rnd.random() < 0.12
        labels = ioops.PLAIN_LABELS + (ioops.KEYWORD_LABELS if kw else [])
        names = ioops.NAMES + (ioops.KEYWORD_NAMES if kw and rnd.random() < 0.3 else [])
        g = despace(ioops.gen_tg(rnd, rnd.choice(["full", "full", "simple"]), labels=labels, names=names), rnd)
        blanks = rnd.random() < 0.6
        if not blanks and rnd.random() < 0.3:
            g = narrow_one_tier(g, rnd)         # the tier's own span must survive the round trip (not in the plain json format)
        if rnd.random() < 0.25:
            g = ioops.negate_tg(g, rnd)         # negative times: all below 0, or on both sides of it (A30, fixed)
        c = {"op": "roundtrip", "tg": g, "fmt": rnd.choice(ioops.FORMATS), "blanks": blanks, "iei": rnd.random() < 0.5,
             "stream": "keyword" if kw else "plain"}
        if i % 5 == 0 and any(float(x).is_integer() for t in g["tiers"] for e in t["es"] for x in e[:-1]) \
                and all(len({e[0] for e in t["es"]}) == len(t["es"]) for t in g["tiers"]):
            c["ints"] = True      # the same textgrid built entry by entry through insertEntry, whole-number times as ints (A34)
        yield c


def shrink(c):
    for c2 in tgops.shrink_tg(c):
        yield c2
    g = c["tg"]
    for i, t in enumerate(g["tiers"]):
        for j, e in enumerate(t["es"]):
            lab = e[-1]
            for cut in (lab[:len(lab) // 2], lab[len(lab) // 2:], lab[1:], lab[:-1]):
                if cut != lab and cut == cut.strip():
                    es = t["es"][:j] + [e[:-1] + [cut]] + t["es"][j + 1:]
                    yield dict(c, tg=dict(g, tiers=g["tiers"][:i] + [dict(t, es=es)] + g["tiers"][i + 1:]))
