"""C12 — a Textgrid is an ordered, uniquely-named tier map and edits act tier-wise."""
from framework import Failure
import tiers as T
import tgops
import scriptops as SC   # splitTierEntries / spellCheckEntries (DESIGN 11.8)

RULE = ("mutators: breadth-first enumeration of every textgrid state reachable from the empty textgrid within depth d "
        "(quick 3, thorough 5) over a universe of 4 names / 5 tier slots (two different tiers share the name 'w'; one slot "
        "has a wider span), and in every such state EVERY operation addTier(slot, index in None,-2..len+2, silence|error), "
        "removeTier(name), renameTier(old,new), replaceTier(name, slot, silence|error) — step-wise against the ordered-list "
        "model, which covers every operation sequence of that depth; tier-wise edits / mergeTiers / validate on random "
        "1-3 tier textgrids (decimals and k/64) incl. spans that differ between tiers. non-trivial = the textgrid has a tier")
TRUSTED = ["oracle: ordered-list model and per-tier recomputation with the tier-level implementation (harness/tgops.py)"]
ASSUMPTIONS = ["tier-level correctness of crop/eraseRegion/insertSpace/editTimestamps/union is the business of C06-C10; here the "
               "Textgrid-level result is compared with the tier-level operation applied to each tier",
               "removing / renaming / replacing an absent name is compared only as 'raises'"]

case_json = lambda c: c
case_from_json = lambda j: j
encode = lambda c, enc: SC.encode(c, enc) if SC.is_sc(c) else tgops.encode(c, enc)
impl = lambda c, objs=None: SC.impl(c) if SC.is_sc(c) else tgops.impl(c, objs)
render = lambda c, r, enc: SC.render(c, r, enc) if SC.is_sc(c) else tgops.render(c, r, enc)
oracle = lambda c, r: SC.oracle(c, r) if SC.is_sc(c) else tgops.oracle(c, r)


def wants_x(c):
    if SC.is_sc(c):
        return SC.wants_x(c)
    return c.get("grid", False)


def canon(c, line):
    if c.get("anyerr") and line.startswith("err"):
        return "err"
    return line


def tags(c, r):
    if SC.is_sc(c):
        return SC.tags(c, r)
    out = [c["op"], "grid" if c.get("grid") else "dec", "ntiers:%d" % len(c["tg"]["tiers"])]
    if r[0] == "err":
        out.append("err:" + r[1])
    if "index" in c:
        out.append("index:" + str(c["index"]))
    if "depth" in c:
        out.append("depth:%d" % c["depth"])
    return out


def nontrivial(c, r):
    if SC.is_sc(c):
        return SC.nontrivial(c, r)
    return len(c["tg"]["tiers"]) > 0


SLOTS = [
    {"k": "I", "name": "w", "es": [[1.0, 2.0, "a"]], "lo": 0.0, "hi": 4.0},
    {"k": "P", "name": "p", "es": [[1.5, "b"]], "lo": 0.0, "hi": 4.0},
    {"k": "I", "name": "x", "es": [], "lo": 0.0, "hi": 4.0},
    {"k": "I", "name": "y", "es": [[0.5, 5.0, "c"]], "lo": 0.0, "hi": 6.0},      # wider span
    {"k": "P", "name": "w", "es": [[3.0, "d"]], "lo": 0.0, "hi": 4.0},             # same name as slot 0
]
NAMES = ["w", "p", "x", "y"]


def all_ops(state):
    n = len(state["tiers"])
    for t in SLOTS:
        for idx in [None] + list(range(-2, n + 3)):
            for rep in ("silence", "error"):
                yield {"op": "tg_add", "tg": state, "tier": t, "index": idx, "report": rep}
    present = [t["name"] for t in state["tiers"]]
    for nm in NAMES:
        c = {"op": "tg_remove", "tg": state, "name": nm}
        if nm not in present:
            c["anyerr"] = True
        yield c
        for new in NAMES:
            c = {"op": "tg_rename", "tg": state, "name": nm, "new": new}
            if nm not in present:
                c["anyerr"] = True
            yield c
        for t in SLOTS:
            for rep in ("silence", "error"):
                c = {"op": "tg_replace", "tg": state, "name": nm, "tier": t, "report": rep}
                if nm not in present:
                    c["anyerr"] = True
                yield c


def bfs(depth, limit=None, rnd=None):
    import json
    start = {"lo": None, "hi": None, "tiers": []}
    seen = {json.dumps(start, sort_keys=True)}
    frontier = [start]
    for d in range(depth):
        nxt = []
        for st in frontier:
            ops = list(all_ops(st))
            for c in ops:
                c["grid"] = True
                c["depth"] = d
                yield c
                r = tgops.impl(c)
                if r[0] == "ok":
                    key = json.dumps(r[1], sort_keys=True)
                    if key not in seen:
                        seen.add(key)
                        nxt.append(r[1])
        frontier = nxt
        if limit is not None and len(frontier) > limit:
            frontier = rnd.sample(frontier, limit)


def corpus():
    yield from SC.corpus()      # S1-1, S1-2 (fixed) and worked examples of splitTierEntries / spellCheckEntries
    g = {"lo": 0.0, "hi": 5.0, "tiers": [{"k": "I", "name": "a", "es": [[1.0, 2.0, "x"]], "lo": 0.0, "hi": 5.0},
                                       {"k": "I", "name": "b", "es": [[1.0, 2.0, "x"]], "lo": 0.0, "hi": 5.0}]}
    wide = {"k": "I", "name": "c", "es": [[1.0, 2.0, "x"]], "lo": 0.0, "hi": 7.0}
    # A11 (fixed): half-applied mutators
    yield {"op": "tg_rename", "tg": g, "name": "a", "new": "b", "grid": True}
    yield {"op": "tg_add", "tg": g, "tier": wide, "index": None, "report": "error", "grid": True}
    yield {"op": "tg_replace", "tg": g, "name": "a", "tier": wide, "report": "error", "grid": True}
    # A1 (fixed) downstream: Textgrid.crop with rebase when a tier has nothing in the window
    yield {"op": "tg_crop", "tg": g, "a": 3.0, "b": 4.0, "mode": "strict", "rebase": True, "grid": True}
    # A28 (fixed): Textgrid.eraseRegion with doShrink and a region sticking out of the span returned a textgrid whose tiers
    # did not share its span (validate() False)
    g2 = {"lo": 0.0, "hi": 10.0, "tiers": [{"k": "P", "name": "marks", "es": [[3.0, "p"], [8.0, "q"]], "lo": 0.0, "hi": 10.0},
                                        {"k": "P", "name": "none", "es": [], "lo": 0.0, "hi": 10.0},
                                        {"k": "I", "name": "e", "es": [], "lo": 0.0, "hi": 10.0}]}
    for (a, b) in [(6.0, 15.0), (5.0, 30.0), (-5.0, 2.0), (12.0, 15.0)]:
        yield {"op": "tg_erase", "tg": g2, "a": a, "b": b, "shrink": True, "grid": True}


def gen_edit(rnd, domain):
    g = tgops.gen_tg(rnd, domain, valid=rnd.random() < 0.8)
    pool = sorted({x for t in g["tiers"] for x in T.boundary_pool(t, rnd, domain)})
    pool = [x for x in pool if 0 <= x <= g["hi"]]
    inside = list(pool)
    if rnd.random() < 0.25:
        pool = pool + T.outside_times(rnd, domain, g["lo"], g["hi"])
    a, b = rnd.choice(pool), rnd.choice(pool)
    if a > b and rnd.random() < 0.95:
        a, b = b, a
    k = rnd.random()
    if not 0.25 <= k < 0.45:
        # only eraseRegion is exercised with regions outside the span here
        a, b = rnd.choice(inside), rnd.choice(inside)
        if a > b and rnd.random() < 0.95:
            a, b = b, a
    if k < 0.25:
        return {"op": "tg_crop", "tg": g, "a": a, "b": b, "mode": rnd.choice(["strict", "lax", "truncated"]), "rebase": rnd.random() < 0.5}
    if k < 0.45:
        return {"op": "tg_erase", "tg": g, "a": a, "b": b, "shrink": rnd.random() < 0.6}
    if k < 0.65:
        d = rnd.choice([0.25, 1.0, 2.5]) if domain != "dec" else round(rnd.uniform(0.01, 3), 2)
        return {"op": "tg_space", "tg": g, "s": a, "d": d, "mode": rnd.choice(["stretch", "split", "no_change", "error"])}
    if k < 0.8:
        o = rnd.choice([0.0, 1.0, -1.0, -a, -20.0, 0.5]) if domain != "dec" else round(rnd.uniform(-6, 6), 2)
        return {"op": "tg_shift", "tg": g, "o": float(o), "report": rnd.choice(["silence", "warning", "error"])}
    if k < 0.92:
        names = [t["name"] for t in g["tiers"]]
        sel = rnd.choice([None, names[:1], names[::-1], names[1:]])
        return {"op": "tg_merge", "tg": g, "names": sel, "preserve": rnd.random() < 0.5}
    return {"op": "tg_validate", "tg": g}


def gen(rnd, tier):
    if tier == "thorough":
        yield from bfs(5, limit=400, rnd=rnd)
        nrand = 40000
    else:
        yield from bfs(3, limit=40, rnd=rnd)
        nrand = 6000
    yield from SC.gen(rnd, 4000 if tier == "thorough" else 400)
    for i in range(nrand):
        domain = rnd.choice(["dec", "dec", "grid64"])
        c = gen_edit(rnd, domain)
        c["grid"] = domain != "dec"
        yield c


shrink = lambda c: (tgops.shrink_tg(c) if "tg" in c else iter(()))


# random walks of mutators on ONE living Textgrid (harness/living.py): the breadth-first enumeration above rebuilds the
# textgrid before every call, which covers every operation sequence only if the object remembers nothing else
import living  # noqa: E402
living.install_tg(globals(), all_ops)
