"""C08 — insertSpace opens exactly the requested gap and eraseRegion undoes it."""
from framework import Failure
import tiers as T
import tierops
import tgops
import dispatch

RULE = ("exhaustive family on the dyadic grid: tiers of <=3 disjoint intervals with integer boundaries in [0,6] x s on the "
        "half-integer grid in [0,6] x d in {0.5,1,2.5} x 4 collision modes, each also composed with "
        "eraseRegion(s,s+d,'truncate',True); random tiers on 1-3 digit decimals with s from boundaries/midpoints/fresh "
        "times and decimal d; point tiers likewise. non-trivial = some entry ends after s")
TRUSTED = ["oracle: direct Python statement of the property (harness/props/C08.py:oracle)"]
ASSUMPTIONS = ["finite non-negative timestamps, s inside the span, d > 0",
               "moved times are compared with the oracle within 1e-9; model vs implementation bit for bit"]
MODES = ["stretch", "split", "no_change", "error"]

case_json = lambda c: c
case_from_json = lambda j: j
encode = dispatch.encode
impl = dispatch.impl
render = dispatch.render


def wants_x(c):
    return c.get("grid", False)


def expected(c):
    s, d, t = c["s"], c["d"], c["tier"]
    if t["k"] == "P":
        return [[e[0] if e[0] <= s else e[0] + d, e[1]] for e in t["es"]]
    out = []
    for s0, e0, l in t["es"]:
        if e0 <= s:
            out.append([s0, e0, l])
        elif s0 >= s:
            out.append([s0 + d, e0 + d, l])
        else:
            m = c["mode"]
            if m == "stretch":
                out.append([s0, e0 + d, l])
            elif m == "split":
                out.append([s0, s, l])
                if s + d < e0 + d:       # a remainder below the resolution of binary64 at s + d cannot be an interval
                    out.append([s + d, e0 + d, l])
            elif m == "no_change":
                out.append([s0, e0, l])
            else:
                return None
    return out


def oracle(c, r):
    if dispatch.is_tg(c):
        return tgops.oracle(c, r)
    s, d, t = c["s"], c["d"], c["tier"]
    op = c["op"]
    sig = {"op": op, "mode": c.get("mode")}
    exp = expected(c)
    if exp is None:
        if r[0] == "err" and r[2]:
            return None
        return Failure(dict(sig, clause="straddler-rejected"), f"straddling interval in 'error' mode not rejected by a praatio error: {r}")
    if op == "ispace_erase":
        if c["mode"] not in ("stretch", "split"):
            return None if r[0] == "ok" or r[2] else Failure(dict(sig, clause="no-error", exc=r[1]), f"raised {r[1]}")
        if r[0] == "err":
            return Failure(dict(sig, clause="inverse-no-error", exc=r[1]), f"insertSpace;eraseRegion raised {r[1]}")
        res = r[1]
        diff = T.labelling_diff(t["es"], res["es"], extra=(s,))
        if diff:
            return Failure(dict(sig, clause="inverse-labelling"), f"after insert+erase label at t={diff[0]} is {diff[2]!r}, originally {diff[1]!r}")
        if not (T.close(res["hi"], t["hi"]) and res["lo"] == t["lo"]):
            return Failure(dict(sig, clause="inverse-span"), f"span [{res['lo']},{res['hi']}] not restored to [{t['lo']},{t['hi']}]")
        return None
    if r[0] == "err" and r[1] == "TextgridStateError" and t["k"] == "I" and any(e[0] >= s and e[0] + d >= e[1] + d for e in t["es"]):
        # the one refusal no float arithmetic can avoid (DESIGN 2.2 / 11.7, layer R `space_collapse`): a WHOLE entry a few ulps
        # long whose two ends, moved by d, are the same float.  A praatio error, as C05 demands.  Met by living histories that
        # go on with the result of a 'split' whose right-hand remainder is such an entry.
        return None
    if r[0] == "err":
        return Failure(dict(sig, clause="no-error", exc=r[1]), f"insertSpace of a well-formed tier raised {r[1]}")
    res = r[1]
    if c.get("mode") != "no_change":
        probs = T.wf_problems(res)
        if probs:
            return Failure(dict(sig, clause="well-formed"), f"result ill-formed: {probs[0]}")
    if not T.entries_close(exp, res["es"]):
        return Failure(dict(sig, clause="entries"), f"entries {res['es']} expected {exp}")
    for x, y in zip(exp, res["es"]):
        # unchanged entries must be exactly unchanged
        if x in t["es"] and x != y:
            return Failure(dict(sig, clause="unchanged-entries"), f"entry {y} expected exactly {x}")
    if not (T.close(res["hi"], t["hi"] + d) and res["lo"] == t["lo"]):
        return Failure(dict(sig, clause="span"), f"span [{res['lo']},{res['hi']}] expected [{t['lo']},{t['hi'] + d}]")
    return None


def tags(c, r):
    if dispatch.is_tg(c):
        return [c['op'], 'grid' if c.get('grid') else 'dec'] + (['err:' + r[1]] if r[0] == 'err' else [])
    out = [c["op"], "mode:" + str(c.get("mode")), "grid" if c.get("grid") else "dec"]
    if r[0] == "err":
        out.append("err:" + r[1])
    if c["tier"]["k"] == "I" and any(s0 < c["s"] < e0 for s0, e0, _ in c["tier"]["es"]):
        out.append("straddler")
    return out


def nontrivial(c, r):
    if dispatch.is_tg(c):
        return any(t['es'] for t in c['tg']['tiers'])
    return any(e[-2] > c["s"] for e in c["tier"]["es"])


def family_cases(max_iv, top=6):
    import props.C06 as C06
    for es in C06.family(max_iv, top):
        tier = {"k": "I", "name": "T", "es": es, "lo": 0.0, "hi": float(top)}
        for s2 in range(0, 2 * top + 1):
            for d in (0.5, 1.0, 2.5):
                for m in MODES:
                    for op in ("ispace", "ispace_erase"):
                        yield {"op": op, "tier": tier, "s": s2 / 2.0, "d": d, "mode": m, "grid": True}


def corpus():
    # A5 (fixed): the split piece and its follower were shifted along different arithmetic paths
    t = {"k": "I", "name": "a", "es": [[0.3, 4.1, "a"], [4.1, 5.7, "b"]], "lo": 0.0, "hi": 6.0}
    yield {"op": "ispace", "tier": t, "s": 1.1, "d": 0.7, "mode": "split", "grid": False}
    yield {"op": "ispace_erase", "tier": t, "s": 1.1, "d": 0.7, "mode": "split", "grid": False}
    yield {"op": "ispace_erase", "tier": t, "s": 4.1, "d": 0.123, "mode": "stretch", "grid": False}
    # A21 (fixed): the insertion time a few ulps before the end of the straddled interval
    t2 = {"k": "I", "name": "T", "es": [[1.786, 2.86, "a"]], "lo": 0.0, "hi": 10.0}
    yield {"op": "ispace", "tier": t2, "s": 2.8599999999999994, "d": 2.542, "mode": "split", "grid": False}
    t3 = {"k": "I", "name": "T", "es": [[0.858, 3.34, "a"]], "lo": 0.0, "hi": 10.0}
    yield {"op": "ispace_erase", "tier": t3, "s": 3.3399999999999994, "d": 1.92, "mode": "split", "grid": False}


def gen(rnd, tier):
    yield from gen_tier_level(rnd, tier)
    for i in range(20000 if tier == 'thorough' else 1500):
        domain = rnd.choice(['dec', 'dec', 'grid64'])
        c = tg_case(rnd, domain)
        c['grid'] = domain != 'dec'
        yield c


def tg_case(rnd, domain):
    g = tgops.gen_tg(rnd, domain, valid=rnd.random() < 0.8)
    pool = sorted({x for t in g['tiers'] for x in T.boundary_pool(t, rnd, domain)})
    pool = [x for x in pool if 0 <= x <= g['hi']]
    a, b = rnd.choice(pool), rnd.choice(pool)
    if a > b and rnd.random() < 0.95:
        a, b = b, a
    d = rnd.choice([0.25, 1.0, 2.5]) if domain != 'dec' else round(rnd.uniform(0.01, 3), 2)
    return {'op': 'tg_space', 'tg': g, 's': a, 'd': d, 'mode': rnd.choice(MODES)}


def gen_tier_level(rnd, tier):
    if tier == "thorough":
        for c in family_cases(3):
            yield c
        nrand = 120000
    else:
        fam = list(family_cases(2, top=5)) + list(family_cases(3, top=4))
        for c in rnd.sample(fam, min(len(fam), 8000)):
            yield c
        nrand = 9000
    for i in range(nrand):
        domain = rnd.choice(["dec", "dec", "dec", "grid64"])
        if rnd.random() < 0.8:
            t = T.gen_itier(rnd, domain, nmax=6, labels=["a", "b", "a", "x y", ""], lo_choice="zero")
            op = rnd.choice(["ispace", "ispace_erase"])
        else:
            t = T.gen_ptier(rnd, domain, nmax=6)
            op = "pspace"
        pool = [x for x in T.boundary_pool(t, rnd, domain) if t["lo"] <= x <= t["hi"]]
        s = rnd.choice(pool)
        d = rnd.choice([0.25, 0.5, 1.0, 3.0]) if domain != "dec" else max(0.001, round(rnd.uniform(0.001, 3), rnd.choice([1, 2, 3])))
        yield {"op": op, "tier": t, "s": s, "d": d, "mode": rnd.choice(MODES), "grid": domain != "dec"}


shrink = dispatch.shrink


def perturb(c, rnd):
    pool = [x for x in T.boundary_pool(c["tier"], rnd, "dec") if c["tier"]["lo"] <= x <= c["tier"]["hi"]]
    c2 = dict(c, grid=False)
    k = rnd.choice(["s", "d", "mode"])
    if k == "s":
        c2["s"] = rnd.choice(pool)
    elif k == "d":
        c2["d"] = round(rnd.uniform(0.001, 3), 3)
    else:
        c2["mode"] = rnd.choice(MODES)
    return c2


# living-object histories built from the step-wise cases above (harness/living.py)
import living  # noqa: E402
living.install(globals())
