"""C11 — insertEntry/deleteEntry follow the selected collision policy exactly (step-wise along histories)."""
import itertools

from framework import Failure
import tiers as T
import tierops

RULE = ("random histories (quick: length <= 12, thorough: <= 40) of insertEntry / deleteEntry on interval and point tiers; "
        "each step is compared on its own: the model and the oracle are applied to the implementation's state before the "
        "step. Inserted entries are drawn to be disjoint, touching, overlapping one or several entries, containing, "
        "contained, or outside the current span; 3 collision modes x {silence, warning}; deletes of present and absent "
        "entries. Point tiers with several points at one time are generated on purpose (start tiers and mid-history, built "
        "through the constructor) and inserts are aimed at such times. non-trivial = an insert that collides or a delete of a present entry")
TRUSTED = ["oracle: sorted-list model of the collision policy in Python (harness/props/C11.py:oracle)"]
ASSUMPTIONS = ["well-formed start tiers; inserted intervals have start < end; distinct boundary times differ by more than 1e-9 relative"]
MODES = ["error", "replace", "merge"]

case_json = lambda c: c
case_from_json = lambda j: j
encode = tierops.encode
impl = tierops.impl
render = tierops.render


def wants_x(c):
    return c.get("grid", False)


def colliding(t, entry):
    if t["k"] == "I":
        return [e for e in t["es"] if max(e[0], entry[0]) < min(e[1], entry[1])]
    # EVERY point at that time collides (a point tier can hold several; finding A24: the code used to stop at the first)
    return [e for e in t["es"] if e[0] == entry[0]]


def oracle(c, r):
    op, t = c["op"], c["tier"]
    sig = {"op": op, "mode": c.get("mode")}
    entry = [float(x) for x in c["entry"][:-1]] + [c["entry"][-1].strip()]
    if op in ("idelete", "pdelete"):
        present = entry in t["es"]
        if not present:
            # the library's entry equality is tolerant (math.isclose: 1e-9 relative; points also 1e-14 absolute): an
            # entry equal to the argument in that sense IS the given entry; the first such entry is the one removed
            import math
            close = [e for e in t["es"] if e[-1] == entry[-1] and all(
                math.isclose(a, b, abs_tol=1e-14 if op == "pdelete" else 0.0) for a, b in zip(e[:-1], entry[:-1]))]
            if close:
                if r[0] == "err":
                    return Failure(dict(sig, clause="no-error", exc=r[1]), f"deleteEntry of an entry equal (isclose) to {close[0]} raised {r[1]}")
                want = list(t["es"])
                want.remove(close[0])
                if r[1]["es"] != want or (r[1]["lo"], r[1]["hi"]) != (t["lo"], t["hi"]):
                    return Failure(dict(sig, clause="delete-exactly"), f"after delete {r[1]['es']} expected {want}")
                return None
            if r[0] == "err":
                if r[3] != T.norm(t):
                    return Failure(dict(sig, clause="failed-delete-changes-nothing"), "tier changed by a failing deleteEntry")
                return None
            return Failure(dict(sig, clause="absent-raises"), "deleteEntry of an absent entry did not raise")
        if r[0] == "err":
            return Failure(dict(sig, clause="no-error", exc=r[1]), f"deleteEntry of a present entry raised {r[1]}")
        want = list(t["es"])
        want.remove(entry)
        if r[1]["es"] != want or (r[1]["lo"], r[1]["hi"]) != (t["lo"], t["hi"]):
            return Failure(dict(sig, clause="delete-exactly"), f"after delete {r[1]['es']} expected {want}")
        return None
    col = colliding(t, entry)
    if col and c["mode"] == "error":
        if r[0] == "err" and r[1] == "CollisionError":
            if r[3] != T.norm(t):
                return Failure(dict(sig, clause="failed-insert-changes-nothing"), "tier changed by a failing insertEntry")
            return None
        return Failure(dict(sig, clause="collision-error"), f"collision in 'error' mode gave {r[:2]}")
    if r[0] == "err":
        return Failure(dict(sig, clause="no-error", exc=r[1]), f"insertEntry raised {r[1]}")
    res = r[1]
    rest = [e for e in t["es"] if e not in col]     # 'replace' removes ALL colliding entries
    if not col or c["mode"] == "replace":
        want = [sorted(rest + [entry])]
    else:
        members = col + [entry]
        if t["k"] == "I":
            lo, hi = min(m[0] for m in members), max(m[1] for m in members)
            import props.C10 as C10
            want = [sorted(rest + [[lo, hi, lab]]) for lab in C10.label_orders(members)]
        else:
            # 'merge': ONE point whose label joins the labels of ALL colliding points (list order = time/label order), then
            # the new label
            want = [sorted(rest + [[entry[0], "-".join([e[1] for e in col] + [entry[1]])]])]
    if res["es"] not in want:
        return Failure(dict(sig, clause="policy", collided=bool(col)), f"entries {res['es']} expected {want[0]}")
    lo = min(t["lo"], entry[0])
    hi = max(t["hi"], entry[-2])
    if (res["lo"], res["hi"]) != (lo, hi):
        return Failure(dict(sig, clause="span-grows-just-enough"), f"span [{res['lo']},{res['hi']}] expected [{lo},{hi}]")
    return None


def tags(c, r):
    out = [c["op"], "mode:" + str(c.get("mode")), "grid" if c.get("grid") else "dec", "step:%d" % min(c.get("step", 0), 12)]
    if r[0] == "err":
        out.append("err:" + r[1])
    if c["op"] in ("iinsert", "pinsert"):
        n = len(colliding(c["tier"], [float(x) for x in c["entry"][:-1]] + [c["entry"][-1]]))
        out.append("collides:%d" % min(n, 3))
        e, t = c["entry"], c["tier"]
        if e[0] < t["lo"] or e[-2] > t["hi"]:
            out.append("outside-span")
    return out


def nontrivial(c, r):
    if c["op"] in ("iinsert", "pinsert"):
        return bool(colliding(c["tier"], [float(x) for x in c["entry"][:-1]] + [c["entry"][-1]]))
    return r[0] == "ok"


def gen_entry(rnd, t, domain):
    pool = T.boundary_pool(t, rnd, domain, hi=12.0) + [t["hi"] + 1.0, t["hi"] + 2.5]
    lab = rnd.choice(["n", "m", " p ", "", "a-b"])
    if t["k"] == "P":
        dups = T.dup_times(t)
        if dups and rnd.random() < 0.5:
            # on purpose: at a time that already carries two or more points, under another (sometimes an existing) label
            here = [e[1] for e in t["es"] if e[0] == dups[0]]
            return [rnd.choice(dups), rnd.choice([lab, lab, " q ", rnd.choice(here)])]
        return [rnd.choice(pool), lab]
    for _ in range(20):
        a, b = rnd.choice(pool), rnd.choice(pool)
        if a > b:
            a, b = b, a
        if a < b:
            return [a, b, lab]
    return [0.0, 1.0, lab]


def histories(rnd, n, maxlen):
    for h in range(n):
        domain = rnd.choice(["dec", "dec", "grid64"])
        t = T.gen_itier(rnd, domain, nmax=4) if rnd.random() < 0.65 else T.gen_ptier(rnd, domain, nmax=4)
        if t["k"] == "P" and rnd.random() < 0.4:
            t = T.with_dup_times(rnd, t)      # several points at one time (built through the constructor by tierops.impl)
        k = "i" if t["k"] == "I" else "p"
        for step in range(rnd.randint(1, maxlen)):
            if t["k"] == "P" and t["es"] and not T.dup_times(t) and rnd.random() < 0.08:
                # re-create coinciding times in the middle of a history: the same tier rebuilt by the constructor with a
                # second point at one of its times (insertEntry itself never creates one)
                t = T.with_dup_times(rnd, t)
            if rnd.random() < 0.75 or not t["es"]:
                c = {"op": k + "insert", "tier": t, "entry": gen_entry(rnd, t, domain), "mode": rnd.choice(MODES),
                     "report": rnd.choice(["silence", "warning"])}
            else:
                e = list(rnd.choice(t["es"]))
                if rnd.random() < 0.25:
                    e[-1] = e[-1] + "?"       # absent entry
                elif rnd.random() < 0.15:
                    e[0] = e[0] + 0.5         # absent entry
                    if t["k"] == "I" and e[0] >= e[1]:
                        e[1] = e[0] + 0.25
                c = {"op": k + "delete", "tier": t, "entry": e}
            c.update(grid=domain != "dec", hist=h, step=step)
            yield c
            r = tierops.impl(c)
            if r[0] == "ok":
                t = r[1]
                if T.wf_problems(t):
                    break  # an ill-formed state is C05's business; do not build on it
            else:
                t = r[3] if len(r) > 3 else t


def corpus():
    t = {"k": "P", "name": "p", "es": [[1.0, "a"]], "lo": 0.0, "hi": 2.0}
    # A3 (fixed): span not grown by a point insert outside the span
    yield {"op": "pinsert", "tier": t, "entry": [3.0, "b"], "mode": "error", "grid": True}
    # A18 (fixed): labels with surrounding whitespace
    ti = {"k": "I", "name": "a", "es": [[1.0, 2.0, "x"]], "lo": 0.0, "hi": 5.0}
    yield {"op": "iinsert", "tier": ti, "entry": [3.0, 4.0, " y "], "mode": "error", "grid": True}
    ti2 = {"k": "I", "name": "a", "es": [[0.0, 2.0, "a"], [2.0, 4.0, "b"], [5.0, 6.0, "c"]], "lo": 0.0, "hi": 7.0}
    yield {"op": "iinsert", "tier": ti2, "entry": [1.0, 5.5, "n"], "mode": "merge", "grid": True}
    yield {"op": "iinsert", "tier": ti2, "entry": [1.0, 5.5, "n"], "mode": "replace", "grid": True}
    yield {"op": "iinsert", "tier": ti2, "entry": [4.0, 5.0, "n"], "mode": "error", "grid": True}
    # A20 (fixed): two same-labelled entries closer than the tolerance of Point/Interval equality
    tc = {"k": "P", "name": "P", "es": [[4.999999999999999, "n"], [5.0, "n"]], "lo": 0.0, "hi": 10.0}
    yield {"op": "pdelete", "tier": tc, "entry": [5.0, "n"], "grid": False}
    tc2 = {"k": "P", "name": "P", "es": [[8.3, ""], [8.300000000000004, ""]], "lo": 0.0, "hi": 10.0}
    for mode in ("merge", "replace"):
        yield {"op": "pinsert", "tier": tc2, "entry": [8.300000000000004, " p "], "mode": mode, "grid": False}
    tc3 = {"k": "I", "name": "I", "es": [[1.0, 2.0, "x"], [2.0, 2.000000000000001, "x"], [2.000000000000001, 2.0000000000000018, "x"]], "lo": 0.0, "hi": 10.0}
    yield {"op": "idelete", "tier": tc3, "entry": [2.000000000000001, 2.0000000000000018, "x"], "grid": False}
    yield {"op": "iinsert", "tier": tc3, "entry": [2.0000000000000013, 3.0, "y"], "mode": "replace", "grid": False}
    # A24 (fixed): several points at the insertion time — 'replace'/'merge' handled only the first of them
    td = {"k": "P", "name": "P", "es": [[10.0, "a"], [40.0, "b"], [40.0, "c"], [70.0, "d"]], "lo": 0.0, "hi": 100.0}
    for mode in MODES:
        yield {"op": "pinsert", "tier": td, "entry": [40.0, "n"], "mode": mode, "grid": True}
        yield {"op": "pinsert", "tier": td, "entry": [40.0, " c "], "mode": mode, "grid": True}
    td3 = {"k": "P", "name": "P", "es": [[40.0, "b"], [40.0, "b"], [40.0, "b-a"]], "lo": 0.0, "hi": 100.0}
    for mode in ("replace", "merge"):
        yield {"op": "pinsert", "tier": td3, "entry": [40.0, "z"], "mode": mode, "grid": True}
    yield {"op": "pdelete", "tier": td, "entry": [40.0, "c"], "grid": True}


def gen(rnd, tier):
    if tier == "thorough":
        yield from histories(rnd, 4000, 40)
    else:
        yield from histories(rnd, 1500, 12)


def shrink(c):
    for s in T.shrink_spec(c["tier"]):
        yield dict(c, tier=s)


# living-object histories (harness/living.py): every generated history is ALSO run on one living tier object, and
# sandwiches op ; mutation ; op ride along
import living  # noqa: E402
_histories_stepwise = histories


def histories(rnd, n, maxlen):
    buf, h = [], None
    for c in _histories_stepwise(rnd, n, maxlen):
        if c.get("hist") != h and buf:
            yield from living.from_history(buf)
            buf = []
        h = c.get("hist")
        buf.append(c)
        yield c
    yield from living.from_history(buf)


living.install(globals(), rate=0.05)
