"""C15 — queries and derived views agree with their definitions."""
import contextlib
import io
import re

from framework import Failure
import tiers as T
import tierops
import tgops
from praatio.utilities import utils as putils
from praatio.utilities.constants import Interval, Point
from praatio.data_classes.interval_tier import IntervalTier
from praatio.data_classes.point_tier import PointTier

RULE = ("find over label lists from a small alphabet x queries (equality, substring, regex); getNonEntries / timestamps on random "
        "tiers with entries; getValuesInIntervals / getValuesAtPoints (exact and fuzzy) on sample series sorted or shuffled, "
        "with ties and samples exactly on boundaries; intervalOverlapCheck on all order types of two intervals on a 5-point "
        "grid x {default, boundaryInclusive, timeThreshold, percentThreshold}; invertIntervalList on sorted/shuffled lists "
        "with touching members and bounds inside/outside/None; tier and textgrid equality under every single-field "
        "perturbation (name, class, label, count, one time by 1 ulp / by 1e-6 relative); validate() on tiers and textgrids "
        "with injected span / order / overlap corruptions. non-trivial = the query result is non-empty / True / a discriminated change")
TRUSTED = ["oracle: the definitions computed directly in Python (harness/props/C15.py:oracle); regex semantics = CPython re",
           "percentThreshold and regex cases are checked by the oracle only (no model: float division / re are parameters)"]
ASSUMPTIONS = ["sample series passed to getValuesAtPoints(fuzzy) are non-empty", "getNonEntries is asked only of tiers with entries"]

case_json = lambda c: c
case_from_json = lambda j: j


def wants_x(c):
    return c.get("grid", False)


def canon(c, line):
    if c.get("anyerr") and line.startswith("err"):
        return "err"
    return line


def enc_samples(enc, d):
    return " ".join([str(len(d))] + [f"{enc.time(t)} {i}" for t, i in d])


def encode(c, enc):
    op = c["op"]
    if c.get("nomodel"):
        return "skip"
    if op == "po_points":
        return " ".join(["po_points", str(len(c["times"]))] + [enc.time(t) for t in c["times"]] +
                        [enc.time(c["a"]), enc.time(c["b"]), str(c["idx"])])
    if op == "find":
        return "find " + " ".join([str(len(c["labels"]))] + [enc.s(x) for x in c["labels"]]) + f" {enc.s(c['q'])} {enc.b(c['substr'])}"
    if op in ("nonentries", "itimestamps", "ptimestamps", "ivalidate", "pvalidate"):
        return f"{op} {T.enc_spec(enc, c['tier'])}"
    if op == "valuesin":
        return f"valuesin {T.enc_spec(enc, c['tier'])} {enc_samples(enc, c['data'])}"
    if op == "valuesat":
        return f"valuesat {T.enc_spec(enc, c['tier'])} {enc_samples(enc, c['data'])} {enc.b(c['fuzzy'])}"
    if op == "overlap":
        return f"overlap {enc.iv(c['x'] + [''])} {enc.iv(c['y'] + [''])} {enc.time(c['thr'])} {enc.b(c['binc'])}"
    if op == "invert":
        l = c["list"]
        return "invert " + " ".join([str(len(l))] + [f"{enc.time(a)} {enc.time(b)}" for a, b in l]) + f" {enc.otime(c['min'])} {enc.otime(c['max'])}"
    if op == "teq":
        return f"teq {T.enc_spec(enc, c['tier'])} {T.enc_spec(enc, c['other'])}"
    if op == "tgeq":
        return f"tgeq {tgops.enc_tg(enc, c['tg'])} {tgops.enc_tg(enc, c['other'])}"
    if op == "tg_validate":
        return f"tg_validate {tgops.enc_tg(enc, c['tg'])}"
    raise KeyError(op)


def build_raw(spec):
    """a tier whose protected attributes are set verbatim (possibly ill-formed)"""
    with contextlib.redirect_stdout(io.StringIO()):
        if spec["k"] == "I":
            t = IntervalTier(spec["name"], [], 0.0, 1.0)
            t._entries = [Interval(*e) for e in spec["es"]]
        else:
            t = PointTier(spec["name"], [], 0.0, 1.0)
            t._entries = [Point(*e) for e in spec["es"]]
        t.minTimestamp, t.maxTimestamp = spec["lo"], spec["hi"]
    return t


def build_raw_tg(spec):
    from praatio.data_classes.textgrid import Textgrid
    g = Textgrid()
    for ts in spec["tiers"]:
        g._tierDict[ts["name"]] = build_raw(ts)
    g.minTimestamp, g.maxTimestamp = spec["lo"], spec["hi"]
    return g


def impl(c):
    op = c["op"]
    if op == "po_points":
        # PointObject.getPointsInInterval on real objects of the three classes (DESIGN 11.8); the 2-D classes carry a value
        from praatio.data_classes.data_point import PointObject1D, PointObject2D
        if c["cls"] == "PointProcess":
            po = PointObject1D([(t,) for t in c["times"]], "PointProcess", 0, 100.0)
        else:
            po = PointObject2D([(t, 100.0 + k) for k, t in enumerate(c["times"])], c["cls"], 0, 100.0)
        return T.call(lambda: po.getPointsInInterval(c["a"], c["b"], c["idx"]))
    if op == "find":
        t = IntervalTier("f", [], 0.0, float(len(c["labels"]) + 1))
        t._entries = [Interval(float(i), float(i) + 0.5, l) for i, l in enumerate(c["labels"])]
        return T.call(lambda: t.find(c["q"], c["substr"], c.get("regex", False)))
    if op in ("ivalidate", "pvalidate"):
        t = build_raw(c["tier"])
        return T.call(lambda: t.validate("silence"))
    if op == "tg_validate":
        g = build_raw_tg(c["tg"])
        return T.call(lambda: g.validate("silence"))
    if op in ("nonentries", "itimestamps", "ptimestamps"):
        return tierops.impl(c)
    if op == "valuesin":
        t = T.build(c["tier"])
        data = [(x, i) for x, i in c["data"]]
        return T.call(lambda: [[i for _, i in vs] for _, vs in t.getValuesInIntervals(data)])
    if op == "valuesat":
        t = T.build(c["tier"])
        data = [(x, i) for x, i in c["data"]]
        return T.call(lambda: [(None if row == () else row[1]) for row in t.getValuesAtPoints(data, c["fuzzy"])])
    if op == "overlap":
        return T.call(lambda: putils.intervalOverlapCheck(Interval(*c["x"], ""), Interval(*c["y"], ""), c.get("pct", 0), c["thr"], c["binc"]))
    if op == "invert":
        return T.call(lambda: [[float(a), float(b)] for a, b in putils.invertIntervalList([tuple(x) for x in c["list"]], c["min"], c["max"])])
    if op == "teq":
        a, b = T.build(c["tier"]), T.build(c["other"])
        return T.call(lambda: (a == b, b == a, a == a))
    if op == "tgeq":
        a, b = tgops.build(c["tg"]), tgops.build(c["other"])
        return T.call(lambda: (a == b, b == a, a == a))
    raise KeyError(op)


def render(c, r, enc):
    op = c["op"]
    if op == "po_points":
        return "err " + r[1] if r[0] == "err" else " ".join(["ok", str(len(r[1]))] + [enc.time(t) for t in r[1]])
    if c.get("nomodel"):
        return "ok skip"
    if r[0] == "err":
        return "err " + r[1]
    v = r[1]
    if op == "find":
        return "ok " + " ".join(str(i) for i in v)
    if op in ("ivalidate", "pvalidate", "tg_validate", "overlap"):
        return "ok " + enc.b(v)
    if op in ("teq", "tgeq"):
        return "ok " + enc.b(v[0])
    if op in ("nonentries", "itimestamps", "ptimestamps"):
        return tierops.render(c, r, enc)
    if op == "valuesin":
        return "ok " + " ".join(" ".join([str(len(ids))] + [str(i) for i in ids]) for ids in v)
    if op == "valuesat":
        return "ok " + " ".join("_" if i is None else str(i) for i in v)
    if op == "invert":
        return "ok " + " ".join([str(len(v))] + [f"{enc.time(a)} {enc.time(b)}" for a, b in v])
    raise KeyError(op)


def oracle(c, r):
    op = c["op"]
    if op == "po_points":
        # exactly the times t with start <= t <= end among pointList[startIndex:] — for a point list in time order (what Praat
        # writes; neither the constructors nor the file readers sort).  On a shuffled list the early `break` may hide points:
        # outside every property's wording (PointQuery.points_unsorted_counterexample), there only soundness is required
        if r[0] == "err":
            return Failure({"op": op, "clause": "no-error", "exc": r[1]}, f"getPointsInInterval raised {r[1]}")
        sl = c["times"][c["idx"]:]
        want = [t for t in sl if c["a"] <= t <= c["b"]]
        if c["times"] == sorted(c["times"]):
            if r[1] != want:
                return Failure({"op": op, "clause": "exactly-the-points-inside"}, f"got {r[1]} expected {want}")
        else:
            it = iter(want)
            if not all(any(t == u for u in it) for t in r[1]):
                return Failure({"op": op, "clause": "sound"}, f"got {r[1]}, not a subsequence of {want}")
        return None
    sig = {"op": op}
    if op == "find":
        if c.get("regex"):
            want = [i for i, l in enumerate(c["labels"]) if re.search(c["q"], l, re.I)]
        elif c["substr"]:
            want = [i for i, l in enumerate(c["labels"]) if c["q"] in l]
        else:
            want = [i for i, l in enumerate(c["labels"]) if c["q"] == l]
        if r != ("ok", want):
            return Failure(dict(sig, regex=c.get("regex", False), substr=c["substr"]), f"find gives {r[:2]}, expected {want}")
        return None
    if op == "nonentries":
        t = c["tier"]
        if r[0] == "err":
            return Failure(dict(sig, clause="no-error", exc=r[1]), f"getNonEntries raised {r[1]}")
        allv = sorted(t["es"] + r[1])
        if any(e[2] != "" for e in r[1]) or any(not e[0] < e[1] for e in r[1]):
            return Failure(dict(sig, clause="positive-unlabelled"), f"non-entries {r[1]}")
        if allv[0][0] != min(0.0, allv[0][0]) or (allv[0][0] != 0.0 and t["es"][0][0] > 0):
            return Failure(dict(sig, clause="tiling-start"), f"tiling starts at {allv[0][0]}")
        for x, y in zip(allv, allv[1:]):
            if x[1] != y[0]:
                return Failure(dict(sig, clause="tiling"), f"gap or overlap between {x} and {y}")
        if allv[-1][1] != t["hi"]:
            return Failure(dict(sig, clause="tiling-end"), f"tiling ends at {allv[-1][1]}, span end {t['hi']}")
        return None
    if op in ("itimestamps", "ptimestamps"):
        want = sorted({x for e in c["tier"]["es"] for x in e[:-1]})
        if r != ("ok", want):
            return Failure(sig, f"timestamps {r[:2]} expected {want}")
        return None
    if op == "valuesin":
        want = [[i for x, i in c["data"] if s <= x <= e] for s, e, _ in c["tier"]["es"]]
        if r != ("ok", want):
            return Failure(sig, f"values {r[:2]} expected {want}")
        return None
    if op == "valuesat":
        data = sorted((x, i) for x, i in c["data"])
        pts = [e[0] for e in c["tier"]["es"]]
        if not data and c["fuzzy"]:
            return None
        if r[0] == "err":
            return Failure(dict(sig, clause="no-error", exc=r[1], fuzzy=c["fuzzy"]), f"getValuesAtPoints raised {r[1]}")
        if len(r[1]) != len(pts):
            return Failure(dict(sig, clause="count"), "one row per point expected")
        tm = {i: x for x, i in data}
        for p, got in zip(pts, r[1]):
            if not c["fuzzy"]:
                at = [i for x, i in data if x == p]
                if (got is None) != (not at) or (got is not None and got not in at):
                    return Failure(dict(sig, clause="exact"), f"point {p}: got {got}, samples at the point {at}")
            else:
                best = min(abs(x - p) for x, _ in data)
                if got is None or abs(tm[got] - p) != best:
                    return Failure(dict(sig, clause="nearest"), f"point {p}: got sample {got} at {tm.get(got)}, nearest distance {best}")
        return None
    if op == "overlap":
        (s1, e1), (s2, e2) = c["x"], c["y"]
        ov = max(0.0, min(e1, e2) - max(s1, s2))
        flag = ov > 0
        pct = c.get("pct", 0)
        if pct > 0 and flag:
            flag = ov / (max(e1, e2) - min(s1, s2)) >= pct
        if c["thr"] > 0 and flag:
            flag = ov >= c["thr"]
        if c["binc"] and (s1 == e2 or e1 == s2):
            flag = True
        if r != ("ok", flag):
            return Failure(dict(sig, binc=c["binc"], thr=c["thr"] > 0, pct=pct > 0), f"overlap {r[:2]} expected {flag}")
        return None
    if op == "invert":
        l = sorted(tuple(x) for x in c["list"])
        disjoint = all(x[1] <= y[0] for x, y in zip(l, l[1:]))
        lo, hi = c["min"], c["max"]
        if not l and (lo is None or hi is None):
            return None  # A13: outside the stated domain
        if not disjoint:
            return None
        if r[0] == "err":
            return Failure(dict(sig, clause="no-error", exc=r[1]), f"invertIntervalList raised {r[1]}")
        # complement within [lo, hi] (bounds default to the data hull)
        a = lo if lo is not None else l[0][0]
        b = hi if hi is not None else l[-1][1]
        want = []
        cur = a
        for s, e in l:
            if s > cur:
                want.append([cur, s])
            cur = max(cur, e)
        if b > cur:
            want.append([cur, b])
        inside = all(a <= s and e <= b for s, e in l)
        if inside and r[1] != want:
            return Failure(dict(sig, clause="complement"), f"inverse {r[1]} expected {want}")
        return None
    if op in ("teq", "tgeq"):
        if r[0] == "err":
            return Failure(dict(sig, clause="no-error", exc=r[1]), f"== raised {r[1]}")
        ab, ba, aa = r[1]
        if not aa:
            return Failure(dict(sig, clause="reflexive"), "a == a is False")
        if ab != ba:
            return Failure(dict(sig, clause="symmetric"), f"a == b is {ab} but b == a is {ba}")
        exp = c.get("expect")
        if exp is not None and ab != exp:
            return Failure(dict(sig, clause="discriminates", what=c.get("what")), f"== is {ab} after perturbation {c.get('what')}, expected {exp}")
        return None
    if op in ("ivalidate", "pvalidate"):
        t = c["tier"]
        ok = not T.wf_problems(dict(t, es=[e[:-1] + [e[-1].strip()] for e in t["es"]]))
        if r != ("ok", ok):
            return Failure(dict(sig, what=c.get("what")), f"validate() is {r[:2]}, expected {ok}")
        return None
    if op == "tg_validate":
        return tgops.oracle_validate(c, r)
    raise KeyError(op)


def tags(c, r):
    if c["op"] == "po_points":
        srt = c["times"] == sorted(c["times"])
        full = r[0] == "ok" and r[1] == [t for t in c["times"][c["idx"]:] if c["a"] <= t <= c["b"]]
        return ["po_points", c["cls"], "sorted" if srt else "shuffled", "idx<0" if c["idx"] < 0 else "idx>=0"] + \
               ([] if srt or full else ["shuffled:break-hid-points"])
    out = [c["op"]]
    if r[0] == "err":
        out.append("err:" + r[1])
    for k in ("what", "fuzzy", "regex", "substr", "binc"):
        if k in c:
            out.append(f"{k}:{c[k]}")
    if c["op"] in ("ivalidate", "pvalidate", "tg_validate", "overlap") and r[0] == "ok":
        out.append("result:" + str(r[1]))
    return out


def nontrivial(c, r):
    if c["op"] == "po_points":
        return r[0] == "ok" and len(r[1]) > 0
    if r[0] == "err":
        return True
    v = r[1]
    if c["op"] in ("teq", "tgeq"):
        return True
    return bool(v)


def perturb_tier(rnd, t):
    """(what, perturbed spec, expect_equal)"""
    import struct
    from proto import f2bits, bits2f
    opts = ["name", "label", "count", "ulp", "rel6", "same", "class"]
    if not t["es"]:
        opts = ["name", "same", "class", "count"]
    w = rnd.choice(opts)
    u = {"k": t["k"], "name": t["name"], "es": [list(e) for e in t["es"]], "lo": t["lo"], "hi": t["hi"]}
    if w == "name":
        u["name"] = t["name"] + "x"
        return w, u, False
    if w == "same":
        return w, u, True
    if w == "class":
        if t["k"] == "I":
            u = {"k": "P", "name": t["name"], "es": [[e[0], e[2]] for e in t["es"]], "lo": t["lo"], "hi": t["hi"]}
        else:
            u = {"k": "I", "name": t["name"], "es": [], "lo": t["lo"], "hi": t["hi"]}
        return w, u, False
    if w == "count":
        if t["es"]:
            u["es"] = u["es"][:-1]
        else:
            u["es"] = [[t["lo"], t["hi"], "n"]] if t["k"] == "I" else [[t["lo"], "n"]]
            if t["k"] == "I" and not t["lo"] < t["hi"]:
                return "same", dict(u, es=[]), True
        return w, u, False
    i = rnd.randrange(len(u["es"]))
    if w == "label":
        u["es"][i][-1] = u["es"][i][-1] + "x"
        return w, u, False
    j = rnd.randrange(len(u["es"][i]) - 1)
    x = u["es"][i][j]
    if w == "ulp":
        y = bits2f(f2bits(x) + 1) if x > 0 else x
        ok_eq = True
    else:
        y = x * (1 + 1e-6) if x > 0 else x + 1e-6
        ok_eq = False
    # keep the tier well-formed
    v = dict(u, es=[list(e) for e in u["es"]])
    v["es"][i][j] = y
    v["hi"] = max(v["hi"], y)
    if T.wf_problems(v):
        return "same", u, True
    return w, v, ok_eq


def corpus():
    # PointObject.getPointsInInterval: a tie and points on both window edges, negative startIndex; the shuffled list on which
    # the early break hides two points (PointQuery.points_example / points_unsorted_counterexample)
    yield {"op": "po_points", "cls": "PointProcess", "times": [1.0, 2.0, 2.0, 3.0, 5.0], "a": 2.0, "b": 3.0, "idx": -4, "grid": True}
    yield {"op": "po_points", "cls": "PitchTier", "times": [5.0, 1.0, 2.0], "a": 0.0, "b": 3.0, "idx": 0, "grid": True}


def gen_points(rnd, n):
    for _ in range(n):
        domain = rnd.choice(["dec", "grid64"])
        k = rnd.randint(0, 7)
        ts = T.gen_times(rnd, domain, k) if k else []
        ts = sorted(ts + [rnd.choice(ts) for _ in range(rnd.randint(0, 2)) if ts])     # ties
        if rnd.random() < 0.2:
            rnd.shuffle(ts)
        pool = ts + (T.gen_times(rnd, domain, 2) or [1.0]) + [0.0, 10.0]
        a, b = rnd.choice(pool), rnd.choice(pool)                                      # window edges on points, too
        if a > b and rnd.random() < 0.9:
            a, b = b, a
        yield {"op": "po_points", "cls": rnd.choice(["PointProcess", "PitchTier", "DurationTier"]), "times": ts, "a": a, "b": b,
               "idx": rnd.randint(-len(ts) - 2, len(ts) + 2), "grid": domain != "dec"}


def gen(rnd, tier):
    yield from gen_points(rnd, 5000 if tier == "thorough" else 500)
    n = 8 if tier == "thorough" else 1
    alpha = ["a", "b", "ab", "ba", "A", "", "a.b", "aa"]
    for i in range(1500 * n):
        labels = [rnd.choice(alpha) for _ in range(rnd.randint(0, 6))]
        k = rnd.random()
        if k < 0.7:
            yield {"op": "find", "labels": labels, "q": rnd.choice(alpha), "substr": rnd.random() < 0.5, "grid": True}
        else:
            yield {"op": "find", "labels": labels, "q": rnd.choice(["a", "^a", "b$", "a.b", "[ab]{2}", "A"]), "substr": False, "regex": True, "nomodel": True}
    for i in range(1500 * n):
        domain = rnd.choice(["dec", "grid64"])
        t = T.gen_itier(rnd, domain, nmax=5)
        if t["es"]:
            yield {"op": "nonentries", "tier": t, "grid": domain != "dec"}
        t2 = T.gen_itier(rnd, domain, nmax=5) if rnd.random() < 0.6 else T.gen_ptier(rnd, domain, nmax=5)
        yield {"op": ("i" if t2["k"] == "I" else "p") + "timestamps", "tier": t2, "grid": domain != "dec"}
    for i in range(2500 * n):
        domain = rnd.choice(["dec", "grid64"])
        fz = rnd.random() < 0.6
        if rnd.random() < 0.4:
            t = T.gen_itier(rnd, domain, nmax=4)
            op = "valuesin"
        else:
            t = T.gen_ptier(rnd, domain, nmax=5)
            op = "valuesat"
        pool = T.boundary_pool(t, rnd, domain)
        m = rnd.randint(1 if fz else 0, 8)
        times = [rnd.choice(pool) if rnd.random() < 0.6 else (rnd.choice(T.gen_times(rnd, domain, 1) or [1.0])) for _ in range(m)]
        if rnd.random() < 0.5:
            times.sort()
        data = [[x, j] for j, x in enumerate(times)]
        c = {"op": op, "tier": t, "data": data, "grid": domain != "dec"}
        if op == "valuesat":
            c["fuzzy"] = fz
        yield c
    g = [0.0, 1.0, 2.0, 3.0, 4.0]
    pairs = [(a, b) for a in g for b in g if a < b]
    for x in pairs:
        for y in pairs:
            for binc in (False, True):
                for thr in (0.0, 1.0, 1.5):
                    yield {"op": "overlap", "x": list(x), "y": list(y), "thr": thr, "binc": binc, "grid": True}
                if rnd.random() < 0.3 * n:
                    yield {"op": "overlap", "x": list(x), "y": list(y), "thr": 0.0, "binc": binc, "pct": rnd.choice([0.2, 0.5, 0.75]), "nomodel": True}
    for i in range(1500 * n):
        domain = rnd.choice(["dec", "grid64"])
        t = T.gen_itier(rnd, domain, nmax=5)
        l = [[e[0], e[1]] for e in t["es"]]
        rnd.shuffle(l)
        lo = rnd.choice([None, 0.0, l[0][0] if l else 1.0])
        hi = rnd.choice([None, 10.0, max([e[1] for e in l]) if l else 2.0])
        c = {"op": "invert", "list": l, "min": lo, "max": hi, "grid": domain != "dec"}
        if not l and (lo is None or hi is None):
            c["anyerr"] = True
        yield c
    for i in range(2000 * n):
        domain = rnd.choice(["dec", "grid64"])
        if rnd.random() < 0.6:
            t = T.gen_itier(rnd, domain, nmax=4) if rnd.random() < 0.6 else T.gen_ptier(rnd, domain, nmax=4)
            w, u, exp = perturb_tier(rnd, t)
            yield {"op": "teq", "tier": t, "other": u, "what": w, "expect": exp, "grid": domain != "dec" and w not in ("ulp", "rel6")}
        else:
            g1 = tgops.gen_tg(rnd, domain)
            j = rnd.randrange(len(g1["tiers"]))
            w, u, exp = perturb_tier(rnd, g1["tiers"][j])
            g2 = dict(g1, tiers=g1["tiers"][:j] + [u] + g1["tiers"][j + 1:])
            g2["hi"] = max([g2["hi"]] + [t["hi"] for t in g2["tiers"]])
            if w == "count" and rnd.random() < 0.3:
                g2 = dict(g1, tiers=g1["tiers"][:-1]) if len(g1["tiers"]) > 1 else g2
            yield {"op": "tgeq", "tg": g1, "other": g2, "what": w, "expect": exp if g2["hi"] == g1["hi"] else None,
                   "grid": domain != "dec" and w not in ("ulp", "rel6")}
    for i in range(2000 * n):
        domain = rnd.choice(["dec", "grid64"])
        t = T.gen_itier(rnd, domain, nmax=4) if rnd.random() < 0.6 else T.gen_ptier(rnd, domain, nmax=4)
        w = rnd.choice(["none", "lo", "hi", "swap", "overlap", "degenerate"])
        u = {"k": t["k"], "name": t["name"], "es": [list(e) for e in t["es"]], "lo": t["lo"], "hi": t["hi"]}
        if w == "lo" and u["es"]:
            u["lo"] = u["es"][0][0] + 0.5
        elif w == "hi" and u["es"]:
            u["hi"] = u["es"][-1][-2] - 0.25
        elif w == "swap" and len(u["es"]) > 1:
            u["es"][0], u["es"][1] = u["es"][1], u["es"][0]
        elif w == "overlap" and len(u["es"]) > 1 and u["k"] == "I":
            u["es"][0][1] = u["es"][1][0] + 0.125
        elif w == "degenerate" and u["es"] and u["k"] == "I":
            u["es"][0][1] = u["es"][0][0]
        else:
            w = "none"
        if rnd.random() < 0.7:
            yield {"op": ("i" if u["k"] == "I" else "p") + "validate", "tier": u, "what": w, "grid": domain != "dec"}
        else:
            g1 = tgops.gen_tg(rnd, domain)
            g2 = dict(g1, tiers=[dict(u, name="zz")] + g1["tiers"])
            if rnd.random() < 0.2:
                g2["tiers"][0]["name"] = g1["tiers"][0]["name"]   # cannot happen through the dict; kept distinct below
                g2["tiers"][0]["name"] = "zz"
            yield {"op": "tg_validate", "tg": g2, "what": w, "grid": domain != "dec"}


# living-object histories for the derived views that go through tierops (harness/living.py): timestamps / getNonEntries
# read, the tier mutated through insertEntry / deleteEntry, read again on the same object
import living  # noqa: E402
living.install(globals(), only_ops=("nonentries", "itimestamps", "ptimestamps"), rate=0.5, cap=800, cap_thorough=6000,
               inside=lambda s: s["op"] != "nonentries" or bool(s["tier"]["es"]))   # "getNonEntries on a tier with entries"
