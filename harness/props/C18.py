"""C18 — zero-crossing search finds real crossings; splicing keeps audio and text in step.

Three parties per case:
  implementation  praatio.audio.Wav.findNearestZeroCrossing, audio._getNearestZero / _getZeroThresholdCrossing,
                  utils.getInterval / chooseClosestTime / sign, praatio_scripts._shiftTimes /
                  tgBoundariesToZeroCrossings / audioSplice on real objects, under a 2 s interval timer
                  (a call that does not come back is the failure class `nonterminating`);
  model           lean/PraatModel/Zero.lean through the driver operations `z_*` of RunZero.lean.  The search
                  runs in integer *ticks* of 1/(rate*m) s; a case goes to the model only when every float
                  operation the code performs on its times is exact (power-of-two rate, dyadic target/step of
                  few bits) — otherwise it is oracle-only (`skip`).  The textgrid bookkeeping of
                  tgBoundariesToZeroCrossings / audioSplice is compared step-wise: the values the real search
                  returned for the boundaries travel with the line (binary64 bit patterns, F run; exact k/64, X run);
  oracle          the property text evaluated on implementation I/O (this file), no model involved.
"""
import contextlib
import io
import json
import math
import signal
from fractions import Fraction

from framework import Failure
from proto import on_grid
import tiers as T
import tgops
from praatio import audio
from praatio import praatio_scripts
from praatio.utilities import utils as putils
from praatio.utilities import errors as perrors

RULE = ("findNearestZeroCrossing: recordings of 0..~400 samples (1500 at 44100 Hz; random, all-positive, all-negative, all-zero, "
        "sparse-zero, single-crossing, sine, two-level square; widths 1/2/4; rates 8, 16, 64, 1024, 8192 (model + oracle) and 10, 100, "
        "44100 (oracle only)) x targets on every kind of position (sample positions 0..n, half / quarter / eighth samples, decimals, "
        "negative, beyond the end, 40..2500 steps away on either side, and very far: 1e6, 1e9, 2^40, 1e17 on either side - regression "
        "of the repaired A16: must come back within the time limit) x steps (whole 2..40 samples, fractional 2.0625..7.5 samples, the "
        "default 0.002 s; malformed: 1, 1.5 and 1.9375 samples, 0, negative).  unit comparisons of _getNearestZero / "
        "_getZeroThresholdCrossing / _findNextZeroCrossing on random windows in both directions, getInterval, chooseClosestTime, sign.  "
        "tgBoundariesToZeroCrossings: 1-3 tier textgrids (interval + point tiers, boundaries on and off sample positions) on such "
        "recordings at 1024/8192/8000/16000/44100 Hz, adjustPointTiers/adjustIntervalTiers in {T,F}.  audioSplice: such textgrids "
        "(span = audio duration) x insertion points on boundaries / inside intervals / in gaps / at the ends x optional replaced region "
        "x alignToZeroCrossing in {T,F} (textgrid and audio bytes compared); _shiftTimes alone.  "
        "non-trivial = the recording has samples and the step is admissible / the window is non-empty / the textgrid has entries")
TRUSTED = ["oracle: the property text evaluated on plain Python lists of samples and entry lists (harness/props/C18.py:oracle); bytes "
           "decoded with int.from_bytes, independently of struct",
           "the 2 s signal.setitimer guard as the observation of non-termination",
           "for tgBoundariesToZeroCrossings / audioSplice the model receives the values the real search returned for each boundary "
           "(step-wise comparison): the search itself is compared separately (op 'find')"]
ASSUMPTIONS = ["mono recordings made of whole samples, widths 1, 2, 4",
               "model correspondence of the search is claimed where binary64 arithmetic on the times is exact: rate a power of two, "
               "target and step dyadic with few bits, |target| below 2^50 ticks; 10/100/44100 Hz, decimal times and targets 1e17 away "
               "are checked by the oracle only (range, grid, genuine crossing, exception class, termination)",
               "'genuine crossing' and 'on a sample position' are demanded where the property demands them: target on a sample "
               "position; for other targets only termination, range and the exception class are judged",
               "audioSplice: the textgrid's span equals the audio duration, the named tier is an interval tier, the new label is "
               "not used elsewhere; an insertion point strictly inside an interval of the named tier raises CollisionError "
               "(insertSpace 'stretch' then insertEntry) — accepted as 'does not return'"]

WIDTHS = [1, 2, 4]
DYADIC_RATES = [8, 16, 64, 1024, 8192]
OTHER_RATES = [10, 100, 44100]
TIMEOUT = 2.0
MAX_ROUNDS = 3000

case_json = lambda c: c
case_from_json = lambda j: j


# ------------------------------------------------------------------------------------------------
# guarded calls
# ------------------------------------------------------------------------------------------------
class _Timeout(BaseException):
    pass


def _on_alarm(signum, frame):
    raise _Timeout()


_timeouts = 0


def guarded(fn, limit=TIMEOUT):
    """("ok", v) | ("err", class, is_praatio) | ("timeout",)
    After three calls that did not come back the limit drops to 0.25 s (an ordinary call takes well under a millisecond),
    so that a change which makes the search loop forever is reported in minutes, not hours."""
    global _timeouts
    if _timeouts >= 40:
        return ("timeout",)      # the run has its violation; do not spend minutes on more calls that do not come back
    if _timeouts >= 3:
        limit = min(limit, 0.25)
    old = signal.signal(signal.SIGALRM, _on_alarm)
    signal.setitimer(signal.ITIMER_REAL, limit)
    try:
        with contextlib.redirect_stdout(io.StringIO()):
            v = fn()
        return ("ok", v)
    except _Timeout:
        _timeouts += 1
        return ("timeout",)
    except Exception as e:  # noqa: BLE001 - the class is the observable
        return ("err", type(e).__name__, isinstance(e, perrors.PraatioException))
    finally:
        signal.setitimer(signal.ITIMER_REAL, 0)
        signal.signal(signal.SIGALRM, old)


# ------------------------------------------------------------------------------------------------
# helpers
# ------------------------------------------------------------------------------------------------
def q(t):
    f = Fraction(t)
    return f"{f.numerator}/{f.denominator}"


def decode(b, w):
    return [int.from_bytes(b[i:i + w], "little", signed=True) for i in range(0, len(b) - len(b) % w, w)]


def enc_samples(xs, w):
    return b"".join(int(x).to_bytes(w, "little", signed=True) for x in xs)


def mkwav(h, w, rate):
    fr = bytes.fromhex(h)
    return audio.Wav(fr, [1, w, rate, len(fr) // w, "NONE", "not compressed"])


def sgn(x):
    return (x > 0) - (x < 0)


def genuine(S, i):
    if not (0 <= i < len(S)):
        return False
    if S[i] == 0:
        return True
    if i + 1 < len(S) and sgn(S[i]) != sgn(S[i + 1]):
        return True
    if i > 0 and sgn(S[i - 1]) != sgn(S[i]):
        return True
    return False


def is_pow2(n):
    return n > 0 and n & (n - 1) == 0


def step_of(c):
    return audio.ZERO_CROSSING_TIMESTEP if c.get("step") is None else c["step"]


def on_sample(t, rate):
    """is t a sample position (exactly for dyadic rates, to 1e-9 samples otherwise)?"""
    x = Fraction(t) * rate
    if x.denominator == 1:
        return True
    return not is_pow2(rate) and abs(x - round(x)) <= Fraction(1, 10 ** 6)


def find_ticks(c):
    """(m, T, S) when the search of case c is exact in binary64, else None"""
    rate, t, step = c["rate"], c["t"], step_of(c)
    n = len(c["hex"]) // 2 // c["w"]
    if not is_pow2(rate) or not all(math.isfinite(x) for x in (t, step)):
        return None
    ft, fs = Fraction(t) * rate, Fraction(step) * rate
    m = max(ft.denominator, fs.denominator)        # powers of two: the lcm is the max
    if m > 2 ** 20:
        return None
    T_, S_ = int(ft * m), int(fs * m)
    if S_ < 2 * m:
        rounds = 0
    else:
        rounds = n * m // S_ + 2       # the cursors start inside the recording (0d5ac6f): independent of the target
    if rounds > MAX_ROUNDS:
        return None
    # every intermediate value is a multiple of 1/(rate*m) of magnitude below `big` ticks
    big = abs(T_) + n * m + (rounds + 3) * (abs(S_) + m)
    if big >= 2 ** 50:
        return None
    return m, T_, S_


def prod_exact(t, rate):
    return Fraction(t * rate) == Fraction(t) * rate and abs(t * rate) < 2 ** 53


_memo = {}


def memo(c, key, fn):
    k = (key, json.dumps(c, sort_keys=True, default=str))
    if k not in _memo:
        if len(_memo) > 20000:
            _memo.clear()
        _memo[k] = fn()
    return _memo[k]


def zc_call(wv, t):
    return guarded(lambda: wv.findNearestZeroCrossing(t))


def zc_tok(enc, r):
    if r[0] == "ok":
        return "V " + enc.time(r[1])
    return "E " + r[1]


def tg_times(spec, adjp=True, adji=True):
    out = []
    for t in spec["tiers"]:
        if t["k"] == "I" and adji:
            for e in t["es"]:
                out += [e[0], e[1]]
        if t["k"] == "P" and adjp:
            for e in t["es"]:
                out.append(e[0])
    seen, res = set(), []
    for x in out:
        if x not in seen:
            seen.add(x)
            res.append(x)
    return res


def zc_table(c):
    def run():
        wv = mkwav(c["hex"], c["w"], c["rate"])
        return [(t, zc_call(wv, t)) for t in tg_times(c["tg"], c["adjp"], c["adji"])]
    return memo(c, "zc", run)


def seg_params(c):
    """(width, rate) of the splice segment; the audio's own unless the case says otherwise"""
    return c.get("segw", c["w"]), c.get("segrate", c["rate"])


def splice_rejected(c):
    """why audioSplice must refuse the call before doing anything (the property speaks of 'all textgrids x insertion
    points' of the textgrid; a segment is audio of the recording's kind): None when the call is admissible"""
    if seg_params(c) != (c["w"], c["rate"]):
        return "segment-params"
    a, b = c["a"], c["b"]
    if b is not None and Fraction(a) > Fraction(b):
        return "reversed-region"
    lo, hi = Fraction(c["tg"]["lo"]), Fraction(c["tg"]["hi"])
    if any(t is not None and not lo <= Fraction(t) <= hi for t in (a, b)):
        return "outside-span"
    return None


def splice_pre(c):
    """what audioSplice computes before it touches the textgrid: the aligned times and the cut segment"""
    def run():
        w, rate = c["w"], c["rate"]
        seg = bytes.fromhex(c["seg"])
        a, b = c["a"], c["b"]
        out = {"shifts": [], "a": a, "b": b, "seg": seg, "fail": None}
        if splice_rejected(c) is not None:      # refused before any search or cut
            out["d"] = len(seg) / rate / w
            out["cut_exact"] = False
            return out
        if c["align"]:
            sw = mkwav(c["seg"], w, rate)
            wv = mkwav(c["hex"], w, rate)
            zs = zc_call(sw, 0)
            ze = zc_call(sw, sw.duration) if zs[0] == "ok" else None
            for r in (zs, ze):
                if r is not None and r[0] != "ok":
                    out["fail"] = r
                    return out
            i, j = round(zs[1] * rate) * w, round(ze[1] * rate) * w
            out["seg"] = seg[i:j]
            out["cut_exact"] = prod_exact(zs[1], rate) and prod_exact(ze[1], rate)
            za = zc_call(wv, a)
            if za[0] != "ok":
                out["fail"] = za
                return out
            out["shifts"].append((a, za[1]))
            out["a"] = za[1]
            if b is not None:
                zb = zc_call(wv, b)
                if zb[0] != "ok":
                    out["fail"] = zb
                    return out
                out["shifts"].append((b, zb[1]))
                out["b"] = zb[1]
        out["d"] = len(out["seg"]) / rate / w
        return out
    return memo(c, "pre", run)


def has_model(c):
    op = c["op"]
    if c.get("nomodel"):
        return False
    if op == "find":
        return find_ticks(c) is not None
    if op == "tgzc":
        return all(r[0] != "timeout" for _, r in zc_table(c))
    if op == "splice":
        pre = splice_pre(c)
        return pre["fail"] is None
    return True


def wants_x(c):
    if c["op"] == "shift":
        return on_grid(c["v"], c["nv"]) and tg_on_grid(c["tg"])
    if c["op"] == "splice":
        return (not c["align"]) and c["rate"] in (8, 64) and tg_on_grid(c["tg"]) and on_grid(c["a"], c["b"]) and \
            on_grid(len(bytes.fromhex(c["seg"])) / c["rate"] / c["w"])
    return False


def tg_on_grid(spec):
    xs = [spec["lo"], spec["hi"]]
    for t in spec["tiers"]:
        xs += [t["lo"], t["hi"]]
        for e in t["es"]:
            xs += e[:-1]
    return on_grid(*xs)


# ------------------------------------------------------------------------------------------------
# encode / impl / render
# ------------------------------------------------------------------------------------------------
def encode(c, enc):
    op = c["op"]
    if not has_model(c):
        return "skip"
    if op == "next":
        return f"z_next {enc.b(c['rev'])} " + " ".join(str(x) for x in [len(c["xs"])] + c["xs"])
    if op == "sign":
        return f"z_sign {c['x']}"
    if op == "interval":
        return f"z_interval {c['s']} {c['d']} {c['max']} {enc.b(c['rev'])}"
    if op == "choose":
        f = lambda x: "N" if x is None else str(x)
        return f"z_choose {c['t']} {f(c['a'])} {f(c['b'])}"
    if op == "find":
        m, T_, S_ = find_ticks(c)
        return f"z_find {c['w']} {c['rate']} h{c['hex']} {m} {T_} {S_}"
    if op == "shift":
        return f"z_shift {tgops.enc_tg(enc, c['tg'])} {enc.time(c['v'])} {enc.time(c['nv'])}"
    if op == "tgzc":
        tbl = zc_table(c)
        return (f"z_tgzc {tgops.enc_tg(enc, c['tg'])} {enc.b(c['adjp'])} {enc.b(c['adji'])} {len(tbl)} " +
                " ".join(f"{enc.time(t)} {zc_tok(enc, r)}" for t, r in tbl)).rstrip()
    if op == "splice":
        pre = splice_pre(c)
        sh = " ".join(f"{enc.time(o)} {enc.time(n)}" for o, n in pre["shifts"])
        a, b = pre["a"], pre["b"]
        if audio_exact(c, pre):
            au = f"{c['w']} {c['rate']} h{c['hex']} h{pre['seg'].hex()} {q(a)} {'N' if b is None else q(b)}"
        else:
            au = "N"
        same = seg_params(c) == (c["w"], c["rate"])
        return " ".join(x for x in [f"z_splice {tgops.enc_tg(enc, c['tg'])} {len(pre['shifts'])}", sh, enc.s(c["tier"]), enc.s(c["label"]),
                                     enc.time(a), enc.otime(b), enc.time(pre["d"]), enc.b(same), enc.time(c["a"]), enc.otime(c["b"]),
                                     au] if x != "")
    raise KeyError(op)


def audio_exact(c, pre):
    ts = [pre["a"]] + ([] if pre["b"] is None else [pre["b"]])
    return all(prod_exact(t, c["rate"]) for t in ts) and pre.get("cut_exact", True)


def impl(c):
    op = c["op"]
    if op == "next":
        xs = tuple(c["xs"])
        def run():
            z = audio._getNearestZero(xs, c["rev"])
            th = audio._getZeroThresholdCrossing(xs, c["rev"])
            full = audio._findNextZeroCrossing(0.0, xs, 1.0, c["rev"])
            return [z, th, None if full is None else int(full)]
        return guarded(run)
    if op == "sign":
        return guarded(lambda: putils.sign(c["x"]))
    if op == "interval":
        return guarded(lambda: [int(x) for x in putils.getInterval(float(c["s"]), float(c["d"]), float(c["max"]), c["rev"])])
    if op == "choose":
        f = lambda x: None if x is None else float(x)
        return guarded(lambda: int(putils.chooseClosestTime(float(c["t"]), f(c["a"]), f(c["b"]))))
    if op == "find":
        wv = mkwav(c["hex"], c["w"], c["rate"])
        if (len(c["hex"]) // (2 * c["w"])) % 2 == 1 and len(c["hex"]) > 0:
            # every other recording has a past: the Wav first held other audio of the same length (every sample's lowest
            # bit flipped... i.e. the bytes XOR 0x55), was searched once, and was then given the real audio in place with
            # replaceSegment (round 3, C18-mutE: a cache of unpacked samples that a length-preserving edit leaves stale)
            real = bytes.fromhex(c["hex"])
            wv = mkwav(bytes(b ^ 0x55 for b in real).hex(), c["w"], c["rate"])
            guarded(lambda: wv.findNearestZeroCrossing(c["t"]) if c.get("step") is None else wv.findNearestZeroCrossing(c["t"], c["step"]))
            wv.replaceSegment(0.0, wv.duration, real)
            assert wv.frames == real
        if c.get("step") is None:
            return guarded(lambda: wv.findNearestZeroCrossing(c["t"]))
        return guarded(lambda: wv.findNearestZeroCrossing(c["t"], c["step"]))
    if op == "shift":
        g = tgops.build(c["tg"])
        before = tgops.snap(g)
        r = guarded(lambda: tgops.snap(praatio_scripts._shiftTimes(g, c["v"], c["nv"])))
        return r + ({"untouched": tgops.snap(g) == before},)
    if op == "tgzc":
        g = tgops.build(c["tg"])
        wv = mkwav(c["hex"], c["w"], c["rate"])
        tbl = zc_table(c)
        r = guarded(lambda: tgops.snap(praatio_scripts.tgBoundariesToZeroCrossings(g, wv, c["adjp"], c["adji"])), limit=4 * TIMEOUT)
        return r + ({"zc": [[t, list(z)] for t, z in tbl]},)
    if op == "splice":
        g = tgops.build(c["tg"])
        wv = mkwav(c["hex"], c["w"], c["rate"])
        sw = mkwav(c["seg"], *seg_params(c))
        before = tgops.snap(g)
        wav_before, seg_before = bytes(wv.frames), bytes(sw.frames)

        def run():
            w2, g2 = praatio_scripts.audioSplice(wv, sw, g, c["tier"], c["label"], c["a"], c["b"], c["align"])
            return {"tg": tgops.snap(g2), "frames": w2.frames.hex(), "duration": w2.duration}
        r = guarded(run, limit=4 * TIMEOUT)
        return r + ({"tg_untouched": tgops.snap(g) == before, "wav_untouched": wv.frames == wav_before and sw.frames == seg_before},)
    raise KeyError(op)


def render(c, r, enc):
    op = c["op"]
    if not has_model(c):
        return "ok skip"
    if r[0] == "timeout":
        return "timeout"
    if r[0] == "err":
        return "err " + r[1]
    v = r[1]
    o = lambda x: "N" if x is None else str(x)
    if op == "next":
        return "ok " + " ".join(o(x) for x in v)
    if op == "sign":
        return f"ok {v}"
    if op == "interval":
        return f"ok {v[0]} {v[1]}"
    if op == "choose":
        return f"ok {v}"
    if op == "find":
        m, _, _ = find_ticks(c)
        x = Fraction(v) * c["rate"] * m
        return f"ok {x.numerator}" if x.denominator == 1 else f"ok offlattice:{v!r}"
    if op in ("shift", "tgzc"):
        return "ok " + tgops.enc_tg(enc, v)
    if op == "splice":
        pre = splice_pre(c)
        au = "h" + v["frames"] if audio_exact(c, pre) else "N"
        return "ok " + tgops.enc_tg(enc, v["tg"]) + " " + au
    raise KeyError(op)


# ------------------------------------------------------------------------------------------------
# oracle
# ------------------------------------------------------------------------------------------------
DOCUMENTED = ("ArgumentError", "FindZeroCrossingError")


def judge_crossing(S, rate, n, target, res, sig, what):
    """the clauses on one value returned by the search for `target`: range always; sample position and genuine
    crossing when the target is a sample position of the recording (0..n)"""
    dur = Fraction(n, rate)
    if not (0 <= Fraction(res) <= dur):
        return Failure(dict(sig, clause="range"), f"{what}: result {res!r} outside [0, {float(dur)}]")
    if on_sample(target, rate) and 0 <= Fraction(target) <= dur:
        if not on_sample(res, rate):
            return Failure(dict(sig, clause="on-grid"),
                           f"{what}: target {target!r} is sample {float(Fraction(target) * rate)} but the result {res!r} is sample position {float(Fraction(res) * rate)!r}")
        i = round(Fraction(res) * rate)
        if not genuine(S, i):
            return Failure(dict(sig, clause="genuine"), f"{what}: result {res!r} = sample {i} (value {S[i] if 0 <= i < n else None}) is not a crossing")
    return None


def oracle_find(c, r):
    w, rate = c["w"], c["rate"]
    S = decode(bytes.fromhex(c["hex"]), w)
    n = len(S)
    t, step = c["t"], step_of(c)
    if not (math.isfinite(t) and math.isfinite(step)):
        return None
    spw = Fraction(step) * rate
    whole = spw.denominator == 1 or (not is_pow2(rate) and abs(spw - round(spw)) < Fraction(1, 10 ** 9))
    inside = 0 <= Fraction(t) <= Fraction(n, rate)
    sig = {"op": "find", "step_whole": bool(whole), "target_inside": bool(inside)}
    if r[0] == "timeout":
        return Failure(dict(sig, clause="nonterminating"),
                       f"findNearestZeroCrossing({t!r}, {step!r}) on {n} samples at {rate} Hz did not return within {TIMEOUT} s")
    small = spw < 2
    if r[0] == "err":
        if r[1] == "ArgumentError" and small:
            return None
        if r[1] == "FindZeroCrossingError" and not small:
            return None
        return Failure(dict(sig, clause="exception", exc=r[1]),
                       f"findNearestZeroCrossing({t!r}, {step!r}) raised {r[1]} ({n} samples, {rate} Hz, step = {float(spw)} samples)")
    if small:
        return Failure(dict(sig, clause="small-step-accepted"), f"step of {float(spw)} samples accepted, returned {r[1]!r}")
    what = f"findNearestZeroCrossing({t!r}, {step!r}) at {rate} Hz"
    f = judge_crossing(S, rate, n, t, r[1], sig, what)
    if f is None and n and not any(S) and inside and on_sample(t, rate) and whole:
        # an all-zero recording: the target itself or the nearest sample
        if abs(Fraction(r[1]) - Fraction(t)) * rate > 1 + Fraction(1, 10 ** 6):
            return Failure(dict(sig, clause="all-zero-nearest"), f"{what}: all samples are zero but the result {r[1]!r} is more than a sample away")
    return f


def default_step_whole(rate):
    return (Fraction(audio.ZERO_CROSSING_TIMESTEP) * rate - round(audio.ZERO_CROSSING_TIMESTEP * rate)).__abs__() < Fraction(1, 10 ** 9)


def entries_after_zc(ts, tbl):
    """entry list of tier spec ts with every time sent through the table, or the first failing lookup"""
    z = {t: r for t, r in tbl}
    out = []
    for e in ts["es"]:
        ne = []
        for x in e[:-1]:
            r = z[x]
            if r[0] != "ok":
                return r
            ne.append(float(r[1]))
        out.append(ne + [e[-1]])
    return ("ok", sorted(out, key=lambda e: tuple(e)))


def oracle_tgzc(c, r):
    w, rate = c["w"], c["rate"]
    S = decode(bytes.fromhex(c["hex"]), w)
    n = len(S)
    g = c["tg"]
    whole = default_step_whole(rate)
    sig = {"op": "tgzc", "step_whole": bool(whole)}
    tbl = [(t, tuple(z)) for t, z in r[-1]["zc"]]
    if r[0] == "timeout" or any(z[0] == "timeout" for _, z in tbl):
        inside = all(0 <= Fraction(t) <= Fraction(n, rate) for t, _ in tbl)
        return Failure(dict(sig, clause="nonterminating", target_inside=bool(inside)), "tgBoundariesToZeroCrossings did not return")
    touched = [t for t in g["tiers"] if (t["k"] == "I" and c["adji"]) or (t["k"] == "P" and c["adjp"])]
    # what the search does to each boundary, tier by tier in order; the first failure decides
    expect_err = None
    for ts in touched:
        e = entries_after_zc(ts, tbl)
        if e[0] != "ok":
            expect_err = e[1]
            break
        if ts["k"] == "I":
            es = e[1]
            if any(not x[0] < x[1] for x in es) or any(a[1] > b[0] for a, b in zip(es, es[1:])):
                expect_err = "TextgridStateError"
                break
    if r[0] == "err":
        if expect_err is not None and r[1] == expect_err and (r[1] in DOCUMENTED or r[1] == "TextgridStateError"):
            return None   # the search raised a documented error for a boundary / moved boundaries collapse an interval
        return Failure(dict(sig, clause="exception", exc=r[1]), f"tgBoundariesToZeroCrossings raised {r[1]} (expected {expect_err})")
    if expect_err is not None:
        return Failure(dict(sig, clause="error-swallowed", exc=expect_err), f"a boundary search raises {expect_err} but the call returned")
    res = r[1]
    if [t["name"] for t in res["tiers"]] != [t["name"] for t in g["tiers"]] or [t["k"] for t in res["tiers"]] != [t["k"] for t in g["tiers"]]:
        return Failure(dict(sig, clause="tier-order"), f"tiers {[t['name'] for t in res['tiers']]} expected {[t['name'] for t in g['tiers']]}")
    for ts, got in zip(g["tiers"], res["tiers"]):
        if ts not in touched:
            if T.norm(ts)["es"] != got["es"]:
                return Failure(dict(sig, clause="untouched-tier"), f"tier {ts['name']!r} was not to be adjusted but changed")
            continue
        if len(got["es"]) != len(ts["es"]):
            return Failure(dict(sig, clause="entry-count"), f"tier {ts['name']!r}: {len(ts['es'])} entries before, {len(got['es'])} after")
        old = sorted({x for e in ts["es"] for x in e[:-1]})
        z = dict(tbl)
        for x in old:
            f = judge_crossing(S, rate, n, x, z[x][1], sig, f"tier {ts['name']!r} boundary {x!r}")
            if f is not None:
                return f
        l0, l1 = [e[-1] for e in ts["es"]], [e[-1] for e in got["es"]]
        # same labels; in the same order for intervals whenever the search keeps the boundaries in order (points that
        # move past each other may swap places; a search that reverses boundaries may reorder whole intervals)
        monotone = all(z[x][1] <= z[y][1] for x, y in zip(old, old[1:]))
        if (ts["k"] == "I" and monotone and l0 != l1) or sorted(l0) != sorted(l1):
            return Failure(dict(sig, clause="labels"), f"tier {ts['name']!r}: labels {l0} became {l1}")
        want = entries_after_zc(ts, tbl)[1]
        if want != got["es"]:
            return Failure(dict(sig, clause="moved-to-search-result"), f"tier {ts['name']!r}: {got['es']} but the search maps the old boundaries to {want}")
    return None


def oracle_shift(c, r):
    sig = {"op": "shift"}
    if r[0] == "timeout":
        return Failure(dict(sig, clause="nonterminating"), "_shiftTimes did not return")
    if not r[-1]["untouched"]:
        return Failure(dict(sig, clause="argument-mutated"), "_shiftTimes changed its argument")
    if r[0] == "err":
        return None if r[2] else Failure(dict(sig, clause="exception", exc=r[1]), f"_shiftTimes raised {r[1]}")
    g, res = c["tg"], r[1]
    v, nv = c["v"], c["nv"]
    if [t["name"] for t in res["tiers"]] != [t["name"] for t in g["tiers"]]:
        return Failure(dict(sig, clause="tier-order"), "tier names/order changed")
    for ts, got in zip(g["tiers"], res["tiers"]):
        want = sorted(([nv if x == v else x for x in e[:-1]] + [e[-1]] for e in ts["es"]), key=tuple)
        if ts["k"] == "I":
            # the code moves one boundary per entry (start first); an entry [v, v] cannot exist
            want = sorted(([nv, e[1], e[2]] if e[0] == v else ([e[0], nv, e[2]] if e[1] == v else list(e)) for e in ts["es"]), key=tuple)
        if want != got["es"]:
            return Failure(dict(sig, clause="only-matching-times-move"), f"tier {ts['name']!r}: {got['es']} expected {want}")
    return None


def straddled(ts, x):
    return any(e[0] < x < e[1] for e in ts["es"])


def oracle_splice(c, r):
    w, rate = c["w"], c["rate"]
    S = decode(bytes.fromhex(c["hex"]), w)
    G = decode(bytes.fromhex(c["seg"]), w)
    n = len(S)
    g = c["tg"]
    a, b, align = c["a"], c["b"], c["align"]
    whole = default_step_whole(rate)
    sig = {"op": "splice", "align": bool(align), "region": b is not None, "step_whole": bool(whole)}
    if r[0] == "timeout":
        return Failure(dict(sig, clause="nonterminating"), "audioSplice did not return")
    named = next(t for t in g["tiers"] if t["name"] == c["tier"])
    extra = r[-1] if isinstance(r[-1], dict) else {}
    why = splice_rejected(c)
    if why is not None:
        # outside the property's domain: the call must be refused with ArgumentError and nothing may have been touched
        sig = dict(sig, rejected=why)
        if not (r[0] == "err" and r[1] == "ArgumentError" and r[2]):
            return Failure(dict(sig, clause="argument-check"), f"audioSplice ({why}: a={a}, b={b}, segment {seg_params(c)}, audio {(w, rate)}, "
                           f"textgrid [{g['lo']}, {g['hi']}]) gave {r[0]} {r[1] if r[0] == 'err' else ''}, not ArgumentError")
        if not (extra.get("wav_untouched", True) and extra.get("tg_untouched", True)):
            return Failure(dict(sig, clause="rejected-unchanged"), f"audioSplice ({why}) raised but changed the caller's audio or textgrid")
        return None
    if r[0] == "err" and not (extra.get("wav_untouched", True) and extra.get("tg_untouched", True)):
        return Failure(dict(sig, clause="raised-unchanged", exc=r[1]), f"audioSplice raised {r[1]} after it had changed the caller's audio or textgrid")
    if r[0] == "err":
        if align:
            pre = splice_pre(c)
            if pre["fail"] is not None and pre["fail"][0] == "err" and pre["fail"][1] == r[1] and r[1] in DOCUMENTED:
                return None        # the search raised a documented error
            if r[1] in ("CollisionError", "TextgridStateError") and r[2]:
                return None        # moved boundaries collide (documented: "no checks are done")
            if r[1] == "ArgumentError" and r[2]:
                return None        # aligned region collapsed (start >= stop)
        ins = a if b is None else b
        if r[1] == "CollisionError" and any(straddled(t, ins) for t in g["tiers"] if t["name"] == c["tier"]):
            return None
        return Failure(dict(sig, clause="exception", exc=r[1]), f"audioSplice raised {r[1]}")
    res = r[1]
    tg2 = res["tg"]
    S2 = decode(bytes.fromhex(res["frames"]), w)
    one = 1.0 / rate
    # 1. durations agree to within a sample
    if abs(res["duration"] - tg2["hi"]) > one * (1 + 1e-9):
        return Failure(dict(sig, clause="durations"), f"audio {res['duration']!r} s vs textgrid maxTimestamp {tg2['hi']!r} (one sample = {one})")
    if abs(res["duration"] - len(S2) / rate) > 1e-12 + one * 1e-9:
        return Failure(dict(sig, clause="duration-samples"), "duration is not samples/rate")
    # 2. exactly one new interval with the label, covering the inserted audio
    if [t["name"] for t in tg2["tiers"]] != [t["name"] for t in g["tiers"]]:
        return Failure(dict(sig, clause="tier-order"), "tier names/order changed")
    nt = next(t for t in tg2["tiers"] if t["name"] == c["tier"])
    new = [e for e in nt["es"] if e[2] == c["label"]]
    others = [e for t in tg2["tiers"] if t["k"] == "I" and t["name"] != c["tier"] for e in t["es"] if e[2] == c["label"]]
    if len(new) != 1 or others:
        return Failure(dict(sig, clause="one-new-interval"), f"{len(new)} intervals labelled {c['label']!r} on the tier, {len(others)} elsewhere")
    s, e, _ = new[0]
    i, j = round(s * rate), round(e * rate)
    inserted = S2[i:j]
    if not align:
        if not (T.close(s, a) and T.close(e - s, len(G) / rate)):
            return Failure(dict(sig, clause="new-interval-position"), f"new interval [{s},{e}] expected [{a},{a + len(G) / rate}]")
        # the interval covers the inserted audio to within the sample grid: at an exact half-sample start both
        # neighbouring samples are "the nearest one" (round() goes to the even one)
        import math
        starts = {math.floor(s * rate), math.ceil(s * rate), i}
        if not any(S2[k:k + len(G)] == G for k in starts if k >= 0):
            return Failure(dict(sig, clause="covers-inserted-audio"), f"audio under the new interval [{s},{e}] is not the splice segment")
        k = round(a * rate)
        k2 = k if b is None else round(b * rate)
        if S2 != S[:k] + G + S[k2:]:
            return Failure(dict(sig, clause="audio"), "audio is not original[:start] + segment + original[stop:]")
    else:
        ok = any(G[k:k + len(inserted)] == inserted for k in range(0, len(G) - len(inserted) + 1)) and len(S2) - n <= len(G)
        if not ok or (len(inserted) == 0 and len(G) > 0 and abs((e - s) * rate) >= 1):
            return Failure(dict(sig, clause="covers-inserted-audio"), f"audio under the new interval [{s},{e}] is not a stretch of the splice segment")
    # 3. earlier entries unchanged, later entries keep their labels
    before_pt = min(a, s)
    after_pt = (a if b is None else b)
    if align:
        pre = splice_pre(c)
        after_pt = max(after_pt, pre["a"] if pre["b"] is None else pre["b"])
    for ts, got in zip(g["tiers"], tg2["tiers"]):
        if ts["k"] == "I":
            # "ended before": an entry ending exactly on the insertion point is unchanged too, except that with a
            # replaced region eraseRegion's re-join may fuse it with an equal-labelled remnant (C07/C08: same labelling)
            strict = align or b is not None
            early = [list(x) for x in ts["es"] if (x[1] < before_pt if strict else x[1] <= before_pt)]
            late = [x[2] for x in ts["es"] if x[0] >= after_pt]
            got_late = [x[2] for x in got["es"] if x[0] >= e - 1e-9 and x[2] != c["label"]]
        else:
            early = [list(x) for x in ts["es"] if (x[0] < before_pt if align else x[0] <= before_pt) and (b is None or x[0] < a)]
            late = [x[1] for x in ts["es"] if x[0] > after_pt]
            got_late = [x[1] for x in got["es"] if x[0] > s + 1e-9]
        got_early = got["es"][:len(early)]
        if got_early != early:
            return Failure(dict(sig, clause="earlier-entries-unchanged", kind=ts["k"]), f"tier {ts['name']!r}: entries before the insertion point {early} became {got_early}")
        if late and got_late[-len(late):] != late:
            return Failure(dict(sig, clause="later-entries-keep-labels", kind=ts["k"]), f"tier {ts['name']!r}: later labels {late} became {got_late}")
    return None


def oracle(c, r):
    op = c["op"]
    if op == "find":
        return oracle_find(c, r)
    if op == "tgzc":
        return oracle_tgzc(c, r)
    if op == "shift":
        return oracle_shift(c, r)
    if op == "splice":
        return oracle_splice(c, r)
    sig = {"op": op}
    if r[0] != "ok" and not (op == "choose" and c["a"] is None and c["b"] is None):
        return Failure(dict(sig, clause="exception", exc=r[1] if r[0] == "err" else "timeout"), f"{op} raised / hung: {r}")
    if op == "next":
        # crossing_genuine at window level: whatever index the three functions return is a genuine crossing of the window
        z, th, full = r[1]
        xs = c["xs"]
        for name, i in (("_getNearestZero", z), ("_getZeroThresholdCrossing", th), ("_findNextZeroCrossing", full)):
            if i is not None and not genuine(xs, i):
                return Failure(dict(sig, clause="genuine", fn=name), f"{name}({xs}, reverse={c['rev']}) = {i}: not a crossing")
        has = any(genuine(xs, i) for i in range(len(xs)))
        if has and full is None:
            return Failure(dict(sig, clause="missed"), f"window {xs} has a crossing but none was found")
        if z is not None and xs[z] != 0:
            return Failure(dict(sig, clause="zero"), f"_getNearestZero = {z} but the sample is {xs[z]}")
    return None


# ------------------------------------------------------------------------------------------------
# evidence helpers
# ------------------------------------------------------------------------------------------------
def tags(c, r):
    op = c["op"]
    out = [op, "model" if has_model(c) else "oracle-only"]
    if r[0] == "err":
        out.append("err:" + r[1])
    if r[0] == "timeout":
        out.append("timeout")
    if "style" in c:
        out.append("style:" + c["style"])
    if "w" in c:
        out.append(f"width:{c['w']}")
    if "rate" in c:
        out.append(f"rate:{c['rate']}")
    if op == "find":
        rate = c["rate"]
        n = len(c["hex"]) // 2 // c["w"]
        t = c["t"]
        out.append("target:" + ("on" if on_sample(t, rate) else "off") + ("" if 0 <= Fraction(t) <= Fraction(n, rate) else "-outside"))
        spw = Fraction(step_of(c)) * rate
        out.append("step:" + ("default" if c.get("step") is None else "small" if spw < 2 else "whole" if spw.denominator == 1 else "fractional"))
        if r[0] == "ok":
            S = decode(bytes.fromhex(c["hex"]), c["w"])
            i = round(Fraction(r[1]) * rate)
            out.append("result:" + ("genuine" if genuine(S, i) else "not-genuine") + ("" if on_sample(r[1], rate) else "-offgrid"))
            out.append("result:" + ("left" if r[1] < t else "right" if r[1] > t else "target"))
        if r[0] == "err" and r[1] == "FindZeroCrossingError":
            S = decode(bytes.fromhex(c["hex"]), c["w"])
            out.append("findzc:" + ("crossing-exists" if any(genuine(S, i) for i in range(len(S))) else "no-crossing"))
    if op == "splice":
        out.append("rejected:%s" % splice_rejected(c))
        out.append("align:%d" % c["align"])
        out.append("region:%d" % (c["b"] is not None))
    if op in ("tgzc", "splice", "shift"):
        out.append("ntiers:%d" % len(c["tg"]["tiers"]))
    return out


def nontrivial(c, r):
    op = c["op"]
    if op in ("sign", "interval", "choose"):
        return True
    if op == "next":
        return len(c["xs"]) > 0
    if op == "find":
        return len(c["hex"]) > 0 and Fraction(step_of(c)) * c["rate"] >= 2
    return any(t["es"] for t in c["tg"]["tiers"])


# ------------------------------------------------------------------------------------------------
# generators
# ------------------------------------------------------------------------------------------------
STYLES = ["random", "positive", "negative", "zero", "sparse-zero", "single", "sine", "square"]
STYLE_POOL = ["random"] * 3 + ["sine"] * 3 + ["square"] * 2 + ["single"] * 2 + ["sparse-zero"] * 2 + ["zero", "positive", "negative"]


def gen_samples(rnd, w, n, style):
    hi = (1 << (8 * w - 1)) - 1
    lo = -hi - 1
    amp = min(hi, 1000)
    if style == "random":
        return [rnd.randint(-amp, amp) for _ in range(n)]
    if style == "positive":
        return [rnd.randint(1, amp) for _ in range(n)]
    if style == "negative":
        return [rnd.randint(-amp, -1) for _ in range(n)]
    if style == "zero":
        return [0] * n
    if style == "sparse-zero":
        s = rnd.choice([1, -1])
        xs = [s * rnd.randint(1, amp) for _ in range(n)]
        for _ in range(rnd.choice([1, 1, 2, 3])):
            if n:
                xs[rnd.randrange(n)] = 0
        return xs
    if style == "single":
        k = rnd.randint(0, n)
        s = rnd.choice([1, -1])
        return [s * rnd.randint(1, amp) for _ in range(k)] + [-s * rnd.randint(1, amp) for _ in range(n - k)]
    if style == "sine":
        per = rnd.choice([5, 8, 13, 32, 50, 220.5])
        ph = rnd.uniform(0, 6.28)
        off = rnd.choice([0, 0, 3, -7])
        return [max(lo, min(hi, round(amp * math.sin(2 * math.pi * i / per + ph)) + off)) for i in range(n)]
    if style == "square":
        per = rnd.choice([3, 4, 7, 20])
        return [(amp if (i // per) % 2 == 0 else -amp) for i in range(n)]
    raise KeyError(style)


def gen_recording(rnd, rates, nmax=None):
    w = rnd.choice(WIDTHS)
    rate = rnd.choice(rates)
    style = rnd.choice(STYLE_POOL)
    if rate <= 100:
        n = rnd.choice([0, 1, 2, 3, rnd.randint(4, 24), rnd.randint(4, 24), rnd.randint(25, 80)])
    elif rate <= 8192:
        n = rnd.choice([rnd.randint(1, 40), rnd.randint(40, 200), rnd.randint(100, 400)])
    else:
        n = rnd.randint(150, 1500)
    if nmax:
        n = min(n, nmax)
    return w, rate, style, n, enc_samples(gen_samples(rnd, w, n, style), w).hex()


VERY_FAR = [1e17, -1e17, 1e9, -1e6]


def gen_target(rnd, rate, n, step):
    """a target and its kind; `far` targets cost a bounded number of loop rounds (a multiple of the step away)"""
    k = rnd.random()
    if k < 0.62:
        return rnd.randint(0, n) / rate, "on"
    if k < 0.70:
        return (rnd.randint(0, n) + rnd.choice([0.5, 0.25, 0.75, 0.125])) / rate, "off"
    if k < 0.77:
        return round(rnd.uniform(0, n / rate), rnd.choice([1, 2, 3, 4])), "dec"
    if k < 0.84:
        return -rnd.choice([1, 2, 5, 64]) / rate if rnd.random() < 0.6 else -rnd.choice([0.5, 1.0, 3.25]), "neg"
    if k < 0.93:
        return (n + rnd.choice([1, 2, 3, 10, 50])) / rate if rnd.random() < 0.6 else n / rate + rnd.choice([0.5, 1.0, 2.75]), "beyond"
    if rnd.random() < 0.35:
        return rnd.choice(VERY_FAR + [1e6, -1e9, 2.0 ** 40, -2.0 ** 30]), "very-far"
    st = step if step is not None and step > 0 else 4 / rate
    rounds = rnd.choice([40, 300, 1000, 2500])
    far = rounds * st
    return (n / rate + far if rnd.random() < 0.6 else -far), "far"


def gen_step(rnd, rate):
    k = rnd.random()
    if k < 0.55:
        return rnd.choice([2, 2, 3, 4, 5, 8, 16, 40]) / rate, "whole"
    if k < 0.72:
        return rnd.choice([2.5, 2.25, 3.75, 2.0625, 7.5]) / rate, "fractional"
    if k < 0.84:
        return (None if rate >= 1000 else rnd.choice([2, 4]) / rate), "default"
    return rnd.choice([1 / rate, 1.5 / rate, 0.0, -2 / rate, 1.9375 / rate]), "small"


LABELS = ["a", "b", "c", "x y", "", "é"]


def gen_tg(rnd, rate, n, grid):
    """1-3 tiers spanning [0, n/rate]; boundaries on sample positions (grid) or decimals"""
    dur = n / rate
    tiers = []
    names = ["w", "p", "v"]
    kinds = rnd.choice([["I"], ["I", "P"], ["P", "I"], ["I", "P", "I"], ["I", "I"]])
    for name, k in zip(names, kinds):
        cnt = rnd.randint(0, 4) if k == "I" else rnd.randint(0, 4)
        if grid:
            pool = sorted(rnd.sample(range(0, n + 1), min(n + 1, 2 * cnt + 2)))
            ts = [x / rate for x in pool]
        else:
            ts = sorted({round(rnd.uniform(0, dur), rnd.choice([3, 4, 5])) for _ in range(2 * cnt + 2)})
            ts = [x for x in ts if 0 <= x <= dur]
        if k == "I":
            es, i = [], 0
            while i + 1 < len(ts) and len(es) < cnt:
                if ts[i] < ts[i + 1]:
                    es.append([ts[i], ts[i + 1], rnd.choice(LABELS)])
                i += 1 if rnd.random() < 0.5 else 2
            tiers.append({"k": "I", "name": name, "es": es, "lo": 0.0, "hi": dur})
        else:
            es = [[t, rnd.choice(LABELS)] for t in ts[:cnt]]
            es.sort(key=tuple)
            tiers.append({"k": "P", "name": name, "es": es, "lo": 0.0, "hi": dur})
    return {"lo": 0.0, "hi": dur, "tiers": tiers}


def gen_find(rnd):
    rates = DYADIC_RATES if rnd.random() < 0.72 else OTHER_RATES
    w, rate, style, n, h = gen_recording(rnd, rates)
    step, sk = gen_step(rnd, rate)
    t, tk = gen_target(rnd, rate, n, step)
    if rate >= 1000 and tk in ("neg", "beyond") and abs(t) >= 0.5:
        t = t / 64      # keep the number of loop rounds small at high rates
    return {"op": "find", "w": w, "rate": rate, "hex": h, "style": style, "t": t, "step": step}


def gen_tgzc(rnd):
    rate = rnd.choice([1024, 8192, 8000, 16000, 44100, 8000, 16000])
    w = rnd.choice(WIDTHS)
    style = rnd.choice(["random", "sine", "sine", "square", "sparse-zero", "single", "positive", "zero"])
    n = rnd.randint(rate // 40, rate // 8)
    h = enc_samples(gen_samples(rnd, w, n, style), w).hex()
    tg = gen_tg(rnd, rate, n, grid=rnd.random() < 0.75)
    return {"op": "tgzc", "w": w, "rate": rate, "hex": h, "style": style, "tg": tg,
            "adjp": rnd.random() < 0.85, "adji": rnd.random() < 0.85}


def gen_splice(rnd, align=None):
    align = (rnd.random() < 0.4) if align is None else align
    if align:
        rate = rnd.choice([1024, 8192, 8000, 16000, 44100, 8000])
        n = rnd.randint(rate // 30, rate // 8)
        sn = rnd.randint(rate // 60, rate // 20)
        style = rnd.choice(["sine", "sine", "square", "random", "single", "positive"])
    else:
        rate = rnd.choice([8, 64, 8, 64, 1024, 100, 44100])
        n = rnd.randint(4, 60) if rate <= 100 else rnd.randint(50, 300)
        sn = rnd.choice([1, 2, 3, rnd.randint(1, 20)])
        style = rnd.choice(STYLES)
    w = rnd.choice(WIDTHS)
    h = enc_samples(gen_samples(rnd, w, n, style), w).hex()
    seg = enc_samples(gen_samples(rnd, w, sn, rnd.choice(["sine", "random", "square"]) if align else rnd.choice(STYLES)), w).hex()
    tg = gen_tg(rnd, rate, n, grid=rnd.random() < 0.8)
    itiers = [t for t in tg["tiers"] if t["k"] == "I"]
    named = rnd.choice(itiers)
    # insertion points: boundaries of the named tier, gaps, inside intervals, the ends
    pool = [0.0, n / rate] + [x for t in tg["tiers"] for e in t["es"] for x in e[:-1]]
    pool += [rnd.randint(0, n) / rate for _ in range(3)]
    a = rnd.choice(pool)
    b = None
    if rnd.random() < 0.45:
        later = [x for x in pool if x > a]
        if later:
            b = rnd.choice(later)
    c = {"op": "splice", "w": w, "rate": rate, "hex": h, "seg": seg, "style": style, "tg": tg, "tier": named["name"],
         "label": "NEW", "a": a, "b": b, "align": align}
    # the formerly unexplored inputs (defect C18-3): an insertion point or region end outside the textgrid's span, a
    # reversed region, a segment of another frame rate or sample width
    k = rnd.random()
    D = n / rate
    if k < 0.05:
        c["a"] = rnd.choice([-1.0 / rate, -0.5, -D, D + 1.0 / rate, D + 0.5, 2 * D + 1.0, 1e6, -1e6])
        if c["b"] is not None and rnd.random() < 0.5:
            c["b"] = max(c["b"], c["a"])
    elif k < 0.08:
        c["b"] = rnd.choice([D + 1.0 / rate, D + 0.5, 2 * D + 1.0, 1e6])
    elif k < 0.11 and b is not None and b > a:
        c["a"], c["b"] = b, a
    elif k < 0.15:
        if rnd.random() < 0.5:
            c["segrate"] = rnd.choice([r for r in (8, 64, 1024, 8000, 16000, 44100, 2 * rate) if r != rate])
        else:
            c["segw"] = rnd.choice([x for x in WIDTHS if x != w])
            c["seg"] = enc_samples(gen_samples(rnd, c["segw"], sn, "random"), c["segw"]).hex()
    return c


def gen_shift(rnd):
    rate = rnd.choice([8, 64])
    n = rnd.randint(8, 60)
    tg = gen_tg(rnd, rate, n, grid=True)
    pool = [x for t in tg["tiers"] for e in t["es"] for x in e[:-1]] + [rnd.randint(0, n) / rate]
    v = rnd.choice(pool)
    nv = v + rnd.choice([-2, -1, 1, 2, 0, 3, -0.5, 0.5]) / rate
    if nv < 0 or nv > n / rate:
        nv = v
    return {"op": "shift", "tg": tg, "v": v, "nv": nv}


def gen(rnd, tier):
    m = 6 if tier == "thorough" else 1
    for _ in range(500 * m):
        n = rnd.choice([0, 1, 2, 3, rnd.randint(2, 12)])
        st = rnd.choice(STYLES)
        yield {"op": "next", "xs": gen_samples(rnd, 2, n, st), "rev": rnd.random() < 0.5}
    for x in (-5, -1, 0, 1, 7):
        yield {"op": "sign", "x": x}
    for _ in range(150 * m):
        yield {"op": "interval", "s": rnd.randint(-6, 30), "d": rnd.randint(0, 12), "max": rnd.randint(0, 24), "rev": rnd.random() < 0.5}
    for _ in range(100 * m):
        o = lambda: rnd.choice([None, rnd.randint(-5, 25)])
        yield {"op": "choose", "t": rnd.randint(0, 20), "a": o(), "b": o()}
    for _ in range(2200 * m):
        yield gen_find(rnd)
    for t in VERY_FAR:
        # A16 (fixed, 0d5ac6f): must return or raise the documented error within the time limit
        c = gen_find(rnd)
        while Fraction(step_of(c)) * c["rate"] < 2:
            c = gen_find(rnd)
        yield dict(c, t=t)
    for _ in range(120 * m):
        yield gen_shift(rnd)
    for _ in range(150 * m):
        yield gen_tgzc(rnd)
    for _ in range(420 * m):
        yield gen_splice(rnd)


# ------------------------------------------------------------------------------------------------
# corpus
# ------------------------------------------------------------------------------------------------
def corpus():
    ramp = [5, 3, 2, 1, -1, -4, 2, 7, 7, 7, 7, 7, 7, -3, 4, 4, 4, 4, 4, 4]
    h = enc_samples(ramp, 1).hex()
    # A6 (fixed, 4789608): a step that is not a whole number of samples put the result off the sample grid
    yield {"op": "find", "w": 1, "rate": 8, "hex": h, "style": "corpus", "t": 0.0, "step": 2.5 / 8}
    yield {"op": "find", "w": 1, "rate": 8, "hex": h, "style": "corpus", "t": 1.125, "step": 2.25 / 8}
    # A16 (fixed, 0d5ac6f): a target far outside the recording: the cursors walked from the target and never arrived
    yield {"op": "find", "w": 1, "rate": 8, "hex": h, "style": "corpus", "t": 1e17, "step": 0.25}
    yield {"op": "find", "w": 1, "rate": 8, "hex": h, "style": "corpus", "t": -1e17, "step": 0.25}
    yield {"op": "find", "w": 1, "rate": 8, "hex": h, "style": "corpus", "t": 1e6, "step": 0.25}
    yield {"op": "find", "w": 2, "rate": 44100, "hex": enc_samples([round(1000 * math.sin(2 * math.pi * 200 * i / 44100)) + 3 for i in range(1500)], 2).hex(),
           "style": "corpus", "t": 1000 / 44100, "step": None}
    # moderately far: terminates, compared with the model
    yield {"op": "find", "w": 1, "rate": 8, "hex": h, "style": "corpus", "t": 250.0, "step": 0.25}
    yield {"op": "find", "w": 1, "rate": 8, "hex": h, "style": "corpus", "t": -1.0, "step": 0.25}
    # documented errors
    yield {"op": "find", "w": 1, "rate": 8, "hex": h, "style": "corpus", "t": 1.0, "step": 0.125}
    yield {"op": "find", "w": 1, "rate": 8, "hex": enc_samples([3] * 12, 1).hex(), "style": "positive", "t": 0.5, "step": 0.25}
    # all-zero: the target itself; at the very end the sample before it; a recording shorter than one step: no crossing found
    yield {"op": "find", "w": 2, "rate": 8, "hex": enc_samples([0] * 12, 2).hex(), "style": "zero", "t": 0.5, "step": 0.25}
    yield {"op": "find", "w": 2, "rate": 8, "hex": enc_samples([0] * 12, 2).hex(), "style": "zero", "t": 1.5, "step": 0.25}
    yield {"op": "find", "w": 2, "rate": 8, "hex": enc_samples([0] * 2, 2).hex(), "style": "zero", "t": 0.0, "step": 0.25}
    # ties go left
    yield {"op": "find", "w": 1, "rate": 8, "hex": enc_samples([1, 0, 1, 1, 1, 0, 1], 1).hex(), "style": "sparse-zero", "t": 0.375, "step": 0.5}
    # C18-3 (fixed, e7d7671): audioSplice accepted an insertion point outside the textgrid's span and a segment of another
    # rate / width, and had edited the caller's Wav before it raised (CollisionError, KeyError, reversed region)
    tg = {"lo": 0.0, "hi": 12.5, "tiers": [{"k": "I", "name": "T", "lo": 0.0, "hi": 12.5,
                                              "es": [[1.25, 3.75, "a"], [3.75, 7.5, "b"], [10.0, 11.25, "c"]]}]}
    base = {"op": "splice", "w": 2, "rate": 8, "hex": enc_samples([(i % 7) - 3 for i in range(100)], 2).hex(),
            "seg": enc_samples([5, -5, 5, -5, 5], 2).hex(), "style": "corpus", "tg": tg, "tier": "T", "label": "NEW", "b": None, "align": False}
    yield dict(base, a=13.0)
    yield dict(base, a=-1.0)
    yield dict(base, a=8.0, b=13.0)
    yield dict(base, a=8.0, segrate=16)
    yield dict(base, a=8.0, segw=1, seg=enc_samples([5, -5, 5, -5, 5], 1).hex())
    yield dict(base, a=9.0, b=8.0)
    yield dict(base, a=2.5)             # strictly inside an interval: CollisionError, the caller's audio untouched
    yield dict(base, a=8.0)
    yield dict(base, a=8.0, b=9.0)
    yield {"op": "next", "xs": [3, -3], "rev": False}
    yield {"op": "next", "xs": [3, -2], "rev": True}
    yield {"op": "next", "xs": [5, 5, 0, -1, 0, 2], "rev": True}


# ------------------------------------------------------------------------------------------------
# shrinking / perturbation
# ------------------------------------------------------------------------------------------------
def shrink(c):
    op = c["op"]
    if op == "next" and len(c["xs"]) > 1:
        yield dict(c, xs=c["xs"][1:])
        yield dict(c, xs=c["xs"][:-1])
    if op == "find":
        w = c["w"]
        n = len(c["hex"]) // 2 // w
        if n > 2:
            yield dict(c, hex=c["hex"][: (n // 2) * w * 2])
            yield dict(c, hex=c["hex"][: (n - 1) * w * 2])
            k = n // 2
            if c["t"] * c["rate"] >= k:
                yield dict(c, hex=c["hex"][k * w * 2:], t=c["t"] - k / c["rate"])
    if op in ("tgzc", "splice", "shift"):
        for g2 in tgops.shrink_tg({"op": "tg_validate", "tg": c["tg"]}):
            tg = g2["tg"]
            if op == "splice" and not any(t["name"] == c["tier"] and t["k"] == "I" for t in tg["tiers"]):
                continue
            yield dict(c, tg=tg)
        if op == "splice" and c["b"] is not None:
            yield dict(c, b=None)


def perturb(c, rnd):
    op = c["op"]
    if op == "find":
        n = len(c["hex"]) // 2 // c["w"]
        c2 = dict(c)
        if rnd.random() < 0.5:
            c2["t"] = gen_target(rnd, c["rate"], n, c.get("step"))[0]
        else:
            c2["step"] = gen_step(rnd, c["rate"])[0]
        return c2
    if op == "next":
        return dict(c, xs=gen_samples(rnd, 2, max(1, len(c["xs"])), rnd.choice(STYLES)), rev=rnd.random() < 0.5)
    if op == "splice":
        return gen_splice(rnd, c["align"])
    if op == "tgzc":
        return gen_tgzc(rnd)
    if op == "shift":
        return gen_shift(rnd)
    raise KeyError(op)
