"""C04 — saving adds only blanks and absorbs only sub-threshold slivers."""
from framework import Failure
import tiers as T
import tgops
import ioops
import iomodel

RULE = ("interval tiers mixing ordinary intervals with gaps and slivers: lengths drawn from {1e-12 .. 5e-8} around the 1e-8 default "
        "threshold, placed at the start, middle and end of the tier, alone and in chains, between labelled neighbours and next "
        "to gaps (sliver gaps too) x minimumIntervalLength in {None, 1e-8 (default), 0.06, 0.5} x min/max overrides below, "
        "equal to and above the data span x 4 formats x includeBlankSpaces; point tiers under overrides; now and then a tier of "
        "nothing but slivers under a user threshold (0.06, 0.5), a textgrid of length zero, an override that makes the span run "
        "backwards. The written file is decoded with the independent reader. non-trivial = the tier contains a sliver or an "
        "override is given")
TRUSTED = ["oracle: the four statements of the property evaluated on (input tier, decoded file) in Python (harness/props/C04.py), and "
           "the exact rule proved for the model (C04.removeUltrashort_spec / prep_ok: `kept` below) as the last clause"]
ASSUMPTIONS = ["timestamps are finite and non-negative; tiers share the textgrid's span before the override"]

case_json = lambda c: c
case_from_json = lambda j: j


def wants_x(c):
    return False


encode = iomodel.encode
render = iomodel.render
canon = iomodel.canon


def impl(c):
    if c["op"] in iomodel.MODEL_OPS:
        return iomodel.impl(c)
    r = ioops.save_text(c["tg"], c["fmt"], c["blanks"], c.get("min"), c.get("max"), min_len=c["minlen"], via_file=False)
    if r[0] == "err":
        r = tuple(r[:3]) + ({"file_touched": ioops.refused_save_touches_file(c["tg"], c["fmt"], c["blanks"], c.get("min"), c.get("max"), c["minlen"])},)
    return r


def fill(es, lo, hi):
    out = []
    prev = lo
    for s, e, l in es:
        if s > prev:
            out.append([prev, s, ""])
        out.append([s, e, l])
        prev = e
    if prev < hi:            # an empty tier gets one blank over the span; a span of length zero holds no interval
        out.append([prev, hi, ""])
    return out


def kept(F, thr, lo, hi):
    """the exact rule of _removeUltrashortIntervals on the filled tier F (Lean: C04.kept, removeUltrashort_spec): the intervals
    at least thr long survive with their labels; the first starts at lo, each ends where the next survivor starts, the last at
    hi (so a sliver is absorbed by the PRECEDING survivor, an initial run by the first one); no survivor: one blank"""
    longs = [e for e in F if not e[1] - e[0] < thr]
    if not longs:
        return [[lo, hi, ""]] if F else []
    starts = [lo] + [e[0] for e in longs[1:]] + [hi]
    return [[starts[i], starts[i + 1], e[2]] for i, e in enumerate(longs)]


def oracle(c, r):
    if c["op"] in iomodel.MODEL_OPS:
        return None          # model-correspondence case: compared with the Lean model only
    g = c["tg"]
    thr = c["minlen"]
    lo = g["lo"] if c.get("min") is None else c["min"]
    hi = g["hi"] if c.get("max") is None else c["max"]
    sig = {"op": "save", "blanks": c["blanks"], "thr": thr is not None}
    if r[0] == "err" and len(r) > 3 and isinstance(r[3], dict) and r[3].get("file_touched"):
        return Failure(dict(sig, clause="refused-save-wrote-file"), f"save raised {r[1]} but the file that stood at the destination was overwritten or removed")
    if lo > hi:
        if r[0] == "err" and r[2]:
            return None
        return Failure(dict(sig, clause="reversed-span-raises"), f"the requested span [{lo},{hi}] runs backwards and was not rejected: {r[0]}")
    outside = any(t["es"] and (t["es"][0][0] < lo or t["es"][-1][-2] > hi) for t in g["tiers"])
    if outside:
        if r[0] == "err" and r[2]:
            return None
        return Failure(dict(sig, clause="outside-span-raises"), f"an interval outside the requested span [{lo},{hi}] was not rejected: {r[0]}")
    if r[0] == "err":
        return Failure(dict(sig, clause="no-error", exc=r[1]), f"save raised {r[1]}")
    try:
        got = ioops.decode_any(r[1], c["fmt"])
    except Exception as e:  # noqa: BLE001
        return Failure(dict(sig, clause="well-formed"), f"written text not decodable: {e}")
    if c["fmt"] in ("short_textgrid", "long_textgrid"):
        # numToStr writes a time within 1e-14 (relative) of an integer as that integer (C01 permits it by name); this
        # property is about the save preparation, so such a numeral is read as the in-memory time it stands for
        universe = {lo, hi} | {x for t in g["tiers"] for e in t["es"] for x in e[:-1]} | {float(t["lo"]) for t in g["tiers"]} | {float(t["hi"]) for t in g["tiers"]}

        def unsnap(y):
            if y in universe or not float(y).is_integer():
                return y
            cands = [x for x in universe if ioops.time_ok(x, y)]
            return min(cands, key=lambda x: abs(x - y)) if cands else y
        got = {"lo": unsnap(got["lo"]), "hi": unsnap(got["hi"]),
               "tiers": [dict(t, lo=unsnap(t["lo"]), hi=unsnap(t["hi"]), es=[[unsnap(x) for x in e[:-1]] + [e[-1]] for e in t["es"]]) for t in got["tiers"]]}
    if (got["lo"], got["hi"]) != (lo, hi):
        return Failure(dict(sig, clause="override-span"), f"file span [{got['lo']},{got['hi']}] expected [{lo},{hi}]")
    for t, w in zip(g["tiers"], got["tiers"]):
        # an override is the span of every tier too (the simplified json layout has no tier spans)
        tlo = t["lo"] if c.get("min") is None else c["min"]
        thi = t["hi"] if c.get("max") is None else c["max"]
        if c["fmt"] != "json" and (w["lo"], w["hi"]) != (tlo, thi):
            return Failure(dict(sig, clause="tier-span"), f"tier {t['name']!r}: span lines [{w['lo']},{w['hi']}] expected [{tlo},{thi}]")
        if t["k"] == "P" or not c["blanks"]:
            if w["es"] != [list(e) for e in t["es"]]:
                return Failure(dict(sig, clause="verbatim"), f"tier {t['name']!r}: entries {w['es']} expected verbatim {t['es']}")
            continue
        F = fill([list(e) for e in t["es"]], lo, hi)
        W = w["es"]
        if not F:
            # lo == hi and no entry: a span of length zero holds no interval
            if W:
                return Failure(dict(sig, clause="zero-span-no-interval"), f"tier {t['name']!r}: {W} written into a span of length zero")
            continue
        if thr is not None and all(e[1] - e[0] < thr for e in F) and W != [[lo, hi, ""]]:
            return Failure(dict(sig, clause="all-slivers-one-blank"), f"tier {t['name']!r}: every interval is shorter than {thr}: {W} expected one blank over [{lo},{hi}]")
        # partition with positive lengths
        if not W or W[0][0] != lo or W[-1][1] != hi or any(not e[0] < e[1] for e in W) or any(x[1] != y[0] for x, y in zip(W, W[1:])):
            return Failure(dict(sig, clause="partition"), f"tier {t['name']!r}: written entries {W} do not tile [{lo},{hi}]")
        if thr is None:
            if W != F:
                return Failure(dict(sig, clause="nothing-absorbed"), f"tier {t['name']!r}: {W} expected {F}")
            continue
        if hi - lo >= thr and any(e[1] - e[0] < thr for e in W):
            return Failure(dict(sig, clause="no-short-output"), f"tier {t['name']!r}: a written interval is shorter than {thr}: {W}")
        sliver = [e[1] - e[0] < thr for e in F]
        keep = [(i, e) for i, e in enumerate(F) if e[2] != "" and not sliver[i]]
        outl = [e for e in W if e[2] != ""]
        if [e[2] for _, e in keep] != [e[2] for e in outl]:
            return Failure(dict(sig, clause="labels-kept"), f"tier {t['name']!r}: labelled intervals {[e[2] for e in outl]} expected {[e[2] for _, e in keep]}")
        for (i, e), o in zip(keep, outl):
            if o[0] != e[0] and not (i > 0 and sliver[i - 1]):
                return Failure(dict(sig, clause="boundary-unchanged"), f"tier {t['name']!r}: start of {e} became {o[0]} without an absorbed sliver before it")
            if o[1] != e[1] and not (i + 1 < len(F) and sliver[i + 1]):
                return Failure(dict(sig, clause="boundary-unchanged"), f"tier {t['name']!r}: end of {e} became {o[1]} without an absorbed sliver after it")
            # a boundary may move only across absorbed slivers: never beyond the run of slivers next to it
            j = i
            while j > 0 and sliver[j - 1]:
                j -= 1
            k = i
            while k + 1 < len(F) and sliver[k + 1]:
                k += 1
            if not (F[j][0] <= o[0] <= e[0] and e[1] <= o[1] <= F[k][1]):
                return Failure(dict(sig, clause="boundary-moves-only-over-slivers"), f"tier {t['name']!r}: {e} became {o}")
        # the exact rule: which neighbour absorbs a sliver (the preceding kept interval; an initial run goes to the first kept
        # interval, whose start becomes the file's xmin), blank intervals included
        K = kept(F, thr, lo, hi)
        if W != K:
            return Failure(dict(sig, clause="absorbed-by-preceding"), f"tier {t['name']!r}: {W} expected {K}")
    return None


def tags(c, r):
    if c["op"] in iomodel.MODEL_OPS:
        return ["model:" + c["op"]] + (["err:" + r[1]] if r[0] == "err" else [])
    out = [c["fmt"], "blanks:%s" % c["blanks"], "thr:%s" % c["minlen"], "override:%s" % (c.get("min") is not None or c.get("max") is not None)]
    if r[0] == "err":
        out.append("err:" + r[1])
    return out


def nontrivial(c, r):
    if c["op"] in iomodel.MODEL_OPS:
        return True
    thr = c["minlen"] or 1e-8
    g = c["tg"]
    return c.get("min") is not None or c.get("max") is not None or any(
        t["k"] == "I" and any(e[1] - e[0] < thr for e in fill([list(e) for e in t["es"]], g["lo"], g["hi"])) for t in g["tiers"])


def gen_sliver_tier(rnd, thr):
    """boundaries walk to the right with steps that are ordinary (0.1..2) or slivers around the threshold"""
    base = thr or 1e-8
    x = rnd.choice([0.0, 0.0, 0.5, base / 2])
    es = []
    n = rnd.randint(1, 6)
    for _ in range(n):
        if rnd.random() < 0.35:
            x += rnd.choice([base / 1e4, base / 2, base * 0.99, base * 1.5, base * 5, 0.0]) if rnd.random() < 0.8 else 0.0   # gap
        else:
            x += rnd.choice([0.0, 0.0, round(rnd.uniform(0.1, 2), 2)])
        ln = rnd.choice([base / 1e4, base / 3, base * 0.999, base, base * 1.001, base * 5]) if rnd.random() < 0.4 else round(rnd.uniform(0.1, 2), 2)
        s, e = x, x + ln
        if e > s:
            es.append([s, e, rnd.choice(["a", "b", "", "c d"])])
            x = e
    return es


def gen(rnd, tier):
    for c in gen_main(rnd, tier):
        yield c
        yield from derived(c, rnd)


def derived(c, rnd):
    yield {"op": "prep", "tg": c["tg"], "blanks": c["blanks"], "min": c.get("min"), "max": c.get("max"), "minlen": c["minlen"]}
    if c["fmt"] in ("short_textgrid", "long_textgrid"):
        yield {"op": "emit", "tg": c["tg"], "fmt": c["fmt"], "blanks": c["blanks"], "min": c.get("min"), "max": c.get("max"), "minlen": c["minlen"]}


def gen_special(rnd):
    """the three edges the full specification found (A25, A26, A27): a tier of nothing but slivers under a user threshold,
    a textgrid of length zero, a requested span that runs backwards"""
    kind = rnd.choice(["allsliver", "zero", "reversed"])
    fmt = rnd.choice(ioops.FORMATS)
    if kind == "allsliver":
        thr = rnd.choice([0.5, 0.06])
        x = rnd.choice([0.0, 0.0, thr / 3])
        es = []
        for _ in range(rnd.randint(1, 5)):
            if rnd.random() < 0.3:
                x += thr * rnd.choice([0.2, 0.5, 0.9])          # a sliver gap
            ln = thr * rnd.choice([0.1, 0.5, 0.9])
            es.append([x, x + ln, rnd.choice(["a", "b", "", "c d"])])
            x += ln
        hi = rnd.choice([x, x, x + thr / 2, x + 1.0])
        g = {"lo": 0.0, "hi": hi, "tiers": [{"k": "I", "name": "w", "es": es, "lo": 0.0, "hi": hi}]}
        c = {"op": "save", "tg": g, "fmt": fmt, "blanks": rnd.random() < 0.9, "minlen": thr}
        if rnd.random() < 0.2:
            c["min"] = 0.0
        return c
    if kind == "zero":
        x = rnd.choice([0.0, 1.0, 2.5])
        tiers = [{"k": "I", "name": "w", "es": [], "lo": x, "hi": x}]
        if rnd.random() < 0.5:
            tiers.append({"k": "P", "name": "p", "es": rnd.choice([[], [[x, "m"]]]), "lo": x, "hi": x})
        g = {"lo": x, "hi": x, "tiers": tiers}
        c = {"op": "save", "tg": g, "fmt": fmt, "blanks": rnd.random() < 0.8, "minlen": rnd.choice([None, None, 1e-8, 0.5])}
        if rnd.random() < 0.3:       # a zero-length request on an ordinary (empty) textgrid
            g["hi"] = x + 1.0
            for t in tiers:
                t["hi"] = x + 1.0
            c["max"] = x
        return c
    thr = rnd.choice([None, 1e-8, 0.06])
    es = gen_sliver_tier(rnd, thr) if rnd.random() < 0.5 else []
    top = max([x for e in es for x in e[:-1]] + [1.0])
    g = {"lo": 0.0, "hi": top, "tiers": [{"k": "I", "name": "w", "es": es, "lo": 0.0, "hi": top}]}
    c = {"op": "save", "tg": g, "fmt": fmt, "blanks": rnd.random() < 0.8, "minlen": thr}
    k = rnd.random()
    if k < 0.4:
        c["min"] = top + rnd.choice([1e-9, 1.0])
    elif k < 0.8:
        c["max"] = rnd.choice([-1.0, -1e-9])
    else:
        c["min"], c["max"] = 2.0, 1.0
    return c


def gen_main(rnd, tier):
    n = 40000 if tier == "thorough" else 4000
    for i in range(n):
        if rnd.random() < 0.05:
            yield gen_special(rnd)
            continue
        thr = rnd.choice([None, 1e-8, 1e-8, 0.06, 0.5])
        tiers = []
        for name in ["w", "p"][:rnd.randint(1, 2)]:
            if rnd.random() < 0.8:
                tiers.append({"k": "I", "name": name, "es": gen_sliver_tier(rnd, thr), "lo": 0.0, "hi": 0.0})
            else:
                tiers.append({"k": "P", "name": name, "es": [[round(rnd.uniform(0, 5), 2), "m"] for _ in range(rnd.randint(0, 3))], "lo": 0.0, "hi": 0.0})
                tiers[-1]["es"].sort()
        top = max([x for t in tiers for e in t["es"] for x in e[:-1]] + [1.0])
        hi = rnd.choice([top, top + (thr or 1e-8) / 2, top + 1.0])
        for t in tiers:
            t["hi"] = hi
        g = {"lo": 0.0, "hi": hi, "tiers": tiers}
        c = {"op": "save", "tg": g, "fmt": rnd.choice(ioops.FORMATS), "blanks": rnd.random() < 0.8, "minlen": thr}
        k = rnd.random()
        if k < 0.15:
            c["max"] = rnd.choice([hi, hi + 1.0, top / 2, top - 1e-9])
        elif k < 0.25:
            c["min"] = rnd.choice([0.0, 0.25, 1e-9])
        yield c


def corpus():
    g = {"lo": 0.0, "hi": 3.0, "tiers": [{"k": "I", "name": "w", "es": [[0.0, 1.0, "a"], [1.0, 1.000000001, "s"], [1.000000001, 2.0, "b"]], "lo": 0.0, "hi": 3.0}]}
    yield {"op": "save", "tg": g, "fmt": "short_textgrid", "blanks": True, "minlen": 1e-8}
    yield {"op": "save", "tg": g, "fmt": "short_textgrid", "blanks": True, "minlen": None}
    yield {"op": "save", "tg": g, "fmt": "long_textgrid", "blanks": True, "minlen": 1e-8, "max": 1.5}
    # A12 (fixed): a point / an interval with blank filling off outside the requested span was written silently
    gp = {"lo": 0.0, "hi": 4.0, "tiers": [{"k": "P", "name": "p", "es": [[3.0, "m"]], "lo": 0.0, "hi": 4.0}]}
    for fmt in ioops.FORMATS:
        yield {"op": "save", "tg": gp, "fmt": fmt, "blanks": True, "minlen": 1e-8, "max": 1.5}
        yield {"op": "save", "tg": g, "fmt": fmt, "blanks": False, "minlen": 1e-8, "max": 1.5}
        yield {"op": "save", "tg": g, "fmt": fmt, "blanks": False, "minlen": 1e-8, "min": 0.5}
    for c in corpus_edges():
        yield c
        yield {"op": "prep", "tg": c["tg"], "blanks": c["blanks"], "min": c.get("min"), "max": c.get("max"), "minlen": c["minlen"]}
        if c["fmt"] in ("short_textgrid", "long_textgrid"):
            yield {"op": "emit", "tg": c["tg"], "fmt": c["fmt"], "blanks": c["blanks"], "min": c.get("min"), "max": c.get("max"), "minlen": c["minlen"]}


def corpus_edges():
    """the former witnesses of A25 (every interval a sliver), A26 (span of length zero), A27 (override and the tiers' own span
    lines; a request that runs backwards) - repaired in /repo"""
    def tg(es, lo, hi, pts=None):
        tiers = [{"k": "I", "name": "w", "es": es, "lo": lo, "hi": hi}]
        if pts is not None:
            tiers.append({"k": "P", "name": "p", "es": pts, "lo": lo, "hi": hi})
        return {"lo": lo, "hi": hi, "tiers": tiers}
    for fmt in ioops.FORMATS:
        yield {"op": "save", "tg": tg([[0.0, 0.4, "a"], [0.4, 0.8, "b"], [0.8, 1.0, "c"]], 0.0, 1.0), "fmt": fmt, "blanks": True, "minlen": 0.5}
        yield {"op": "save", "tg": tg([[0.0, 5e-9, "a"]], 0.0, 5e-9), "fmt": fmt, "blanks": True, "minlen": 1e-8}
        yield {"op": "save", "tg": tg([], 0.0, 0.005), "fmt": fmt, "blanks": True, "minlen": 0.01}
        yield {"op": "save", "tg": tg([], 1.0, 1.0), "fmt": fmt, "blanks": True, "minlen": None}
        yield {"op": "save", "tg": tg([], 1.0, 1.0), "fmt": fmt, "blanks": True, "minlen": 1e-8}
        yield {"op": "save", "tg": tg([], 0.0, 3.0), "fmt": fmt, "blanks": True, "minlen": None, "min": 0.0, "max": 0.0}
        yield {"op": "save", "tg": tg([], 0.0, 3.0), "fmt": fmt, "blanks": True, "minlen": None, "min": 5.0}
        yield {"op": "save", "tg": tg([], 0.0, 3.0), "fmt": fmt, "blanks": False, "minlen": 1e-8, "max": -1.0}
        yield {"op": "save", "tg": tg([[0.0, 1.0, "a"]], 0.0, 3.0, [[0.5, "m"]]), "fmt": fmt, "blanks": True, "minlen": None, "max": 5.0}
        yield {"op": "save", "tg": tg([[1.0, 1.001, "s"], [1.001, 2.0, "a"]], 0.0, 3.0, [[1.5, "m"]]), "fmt": fmt, "blanks": True, "minlen": 0.01, "min": 0.5}
        yield {"op": "save", "tg": tg([[1.0, 2.0, "a"]], 0.0, 3.0, []), "fmt": fmt, "blanks": False, "minlen": 1e-8, "min": 0.5, "max": 4.0}


def shrink(c):
    yield from tgops.shrink_tg(c)
