"""C16 — in-memory audio edits are sample-exact and sample-aligned.

Three parties per case:
  implementation  praatio.audio (Wav, QueryWav, convertFromBytes/ToBytes, readFramesAtTime) on real
                  objects and real temp files;
  model           lean/PraatModel/Audio.lean through the driver operations `a_*` of RunAudio.lean —
                  times travel as exact fractions `num/den` (the exact value of the binary64 the code
                  receives), bytes as hex; the F/X number modes play no role (same line in both);
  oracle          a plain list-of-samples model written from the property text (this file).

A case is sent to the model only when every floating-point operation the code performs on its
times is exact (then `round(t * rate)` in binary64 is `round` of the exact product, which is what
the model computes); otherwise it is an oracle-only ("nomodel") case.
"""
import math
import os
import shutil
import tempfile
import wave
from fractions import Fraction

from framework import Failure
import tiers as T
from praatio import audio

RULE = ("widths {1,2,4} x rates {8, 64, 8000, 16000, 44100} x 0..400 samples (random, ramps, constant, always with the extremes "
        "-2^(8w-1), 2^(8w-1)-1, 0, -1 of the width mixed in) x times on sample boundaries, off them, exactly half-way (dyadic "
        "k/2^m so that t*rate is exact), decimals with 1-4 digits and thirds (oracle only when t*rate is inexact), 0 and the "
        "duration, and times OUTSIDE [0,duration] (negative, just outside, far beyond the end: judged by the oracle as the "
        "nearest sample boundary of the recording). operations: _getIndexAtTime, getFrames, getSamples, "
        "duration, convertToBytes/convertFromBytes (in and out of range, whole and ragged byte strings), histories of 1..6 "
        "insert/deleteSegment/replaceSegment/concatenate/getSubwav (state compared after every step), insert-then-delete of "
        "the same stretch, Wav.save -> Wav.open and QueryWav.getSamples / readFramesAtTime on real temp files, plus unit "
        "comparisons of round-half-even and of Python slicing. non-trivial = the recording has samples and the operation "
        "addresses at least one time inside it (or converts a non-empty list)")
TRUSTED = ["oracle: list-of-samples model in Python written from the property text (harness/props/C16.py:oracle); bytes are "
           "decoded with int.from_bytes(..., 'little', signed=True), independently of struct",
           "CPython wave / struct / the file system: exercised on real temp files and compared with the abstract-file model, not proved",
           "CPython round(Fraction) as the reference for round-half-even in the unit comparison"]
ASSUMPTIONS = ["mono recordings, sample widths 1, 2, 4, frame rate a positive integer",
               "model correspondence is claimed for times t with t*rate exact in binary64 (t = k/2^m with few significant bits, "
               "|t*rate| < 2^53); other times (0.3, 1/3, k/8000 ...) are checked by the oracle only",
               "where the exact product t*rate lies within one binary64 rounding error (|x|*2^-52) of a half-sample point, or exactly "
               "on it, the oracle accepts either neighbouring sample index ('the sample indices nearest to the requested times')",
               "times are arbitrary (negative, beyond the end): 'the sample indices nearest to the requested times' is read as the "
               "nearest of the recording's sample boundaries 0..n; a two-time operation with start > end must raise ArgumentError and leave "
               "the recording unchanged (the bare function readFramesAtTime, which has no such check, is compared with the model only); the insert-then-delete "
               "clause is judged for insertion times in [0, duration]"]

WIDTHS = [1, 2, 4]
RATES = [8, 64, 8000, 16000, 44100, 48000, 7, 3]
HALF = Fraction(1, 2)

case_json = lambda c: c
case_from_json = lambda j: j


def wants_x(c):
    return False


# ------------------------------------------------------------------------------------------------
# helpers
# ------------------------------------------------------------------------------------------------
def q(t):
    """exact value of a float as the model's time token"""
    f = Fraction(t)
    return f"{f.numerator}/{f.denominator}"


def qo(t):
    return "N" if t is None else q(t)


def hx(h):
    return "h" + h


def decode(b, w):
    """independent of struct: whole samples only, None when ragged"""
    if len(b) % w:
        return None
    return [int.from_bytes(b[i:i + w], "little", signed=True) for i in range(0, len(b), w)]


def enc_samples(xs, w):
    return b"".join(int(x).to_bytes(w, "little", signed=True) for x in xs)


def prod_exact(t, rate):
    """is the binary64 product t*rate the exact product?"""
    return Fraction(t * rate) == Fraction(t) * rate and abs(t * rate) < 2 ** 53


def read_exact(rate, t0, t1):
    """are the float operations of readFramesAtTime(file, t0, t1) (round(rate*t0), round(rate*t1)) exact?"""
    return prod_exact(t0, rate) and prod_exact(t1, rate)


def tend(c):
    """end of 'the same stretch' after inserting c['g'] at c['t']: t + len(g)/rate/width, as Wav.duration computes lengths"""
    return c["t"] + len(c["g"]) // 2 / c["rate"] / c["w"]


def times_of(c):
    op = c["op"]
    if op in ("index",):
        return [c["t"]]
    if op in ("getframes", "getsamples"):
        return [c["t0"], c["t1"]]
    if op == "invdel":
        return [c["t"], tend(c)]
    if op == "edits":
        return [x for e in c["edits"] for x in e[1:] if isinstance(x, float)]
    return []


def has_model(c):
    op = c["op"]
    if c.get("nomodel"):
        return False
    if op in ("readat", "query"):
        t0 = 0.0 if c["t0"] is None else c["t0"]
        if c["t1"] is None:
            n = len(c["hex"]) // 2 // c["w"]
            t1 = float(n) / c["rate"]
            if Fraction(t1) != Fraction(n, c["rate"]):
                return prod_exact(t0, c["rate"])   # round(rate * (n/rate)) = n whatever the rounding of the quotient
        else:
            t1 = c["t1"]
        return read_exact(c["rate"], t0, t1)
    return all(prod_exact(t, c["rate"]) for t in times_of(c))


def nearest(t, rate):
    """the acceptable sample indices for time t: nearest to the exact product, both neighbours at (or within one
    rounding error of) a half-sample point"""
    return nearest_x(Fraction(t) * rate)


def nearest_x(x):
    fl = math.floor(x)
    tol = abs(x) / 2 ** 52
    return [k for k in (fl - 1, fl, fl + 1, fl + 2) if abs(k - x) <= HALF + tol]


def nearest_in(t, rate, n):
    """the acceptable sample boundaries of a recording of n samples for time t: the nearest index, clamped into [0, n]"""
    return sorted(set(min(max(k, 0), n) for k in nearest(t, rate)))


def is_half(x):
    return x == math.floor(x) + 0.5


def kind_of(t, rate):
    x = Fraction(t) * rate
    if x.denominator == 1:
        return "on"
    if x.denominator == 2:
        return "half"
    return "off"


def mkwav(c, hexkey="hex"):
    fr = bytes.fromhex(c[hexkey])
    return audio.Wav(fr, [1, c["w"], c["rate"], len(fr) // c["w"], "NONE", "not compressed"])


class TempDir:
    def __enter__(self):
        self.d = tempfile.mkdtemp(prefix="praatio-verif.")
        return self.d

    def __exit__(self, *a):
        shutil.rmtree(self.d, ignore_errors=True)


# ------------------------------------------------------------------------------------------------
# encode / impl / render
# ------------------------------------------------------------------------------------------------
def enc_edit(e):
    k = e[0]
    if k == "ins":
        return f"ins {q(e[1])} {hx(e[2])}"
    if k == "del":
        return f"del {q(e[1])} {q(e[2])}"
    if k == "rep":
        return f"rep {q(e[1])} {q(e[2])} {hx(e[3])}"
    if k == "cat":
        return f"cat {hx(e[1])}"
    if k == "sub":
        return f"sub {q(e[1])} {q(e[2])}"
    raise KeyError(k)


def encode(c, enc):
    op = c["op"]
    if not has_model(c):
        return "skip"
    if op == "round":
        return f"a_round {c['num']} {c['den']}"
    if op == "slice":
        return f"a_slice {hx(c['hex'])} {c['i']} {c['j']}"
    if op == "pack":
        return f"a_pack {c['w']} {len(c['xs'])} " + " ".join(str(x) for x in c["xs"]) if c["xs"] else f"a_pack {c['w']} 0"
    if op == "unpack":
        return f"a_unpack {c['w']} {hx(c['hex'])}"
    wv = f"{c['w']} {c['rate']} {hx(c['hex'])}"
    if op == "index":
        return f"a_index {wv} {q(c['t'])}"
    if op == "getframes":
        return f"a_getframes {wv} {q(c['t0'])} {q(c['t1'])}"
    if op == "getsamples":
        return f"a_getsamples {wv} {q(c['t0'])} {q(c['t1'])}"
    if op == "duration":
        return f"a_duration {wv}"
    if op == "edits":
        return f"a_edits {wv} {len(c['edits'])} " + " ".join(enc_edit(e) for e in c["edits"])
    if op == "invdel":
        return f"a_invdel {wv} {q(c['t'])} {hx(c['g'])} {q(tend(c))}"
    if op == "saveopen":
        return f"a_saveopen {wv}"
    if op == "readat":
        return f"a_readat {wv} {q(c['t0'])} {q(c['t1'])}"
    if op == "query":
        return f"a_query {wv} {qo(c['t0'])} {qo(c['t1'])}"
    raise KeyError(op)


def impl(c):
    op = c["op"]
    if op == "round":
        return ("ok", round(Fraction(c["num"], c["den"])))
    if op == "slice":
        b = bytes.fromhex(c["hex"])
        return ("ok", [b[c["i"]:c["j"]].hex(), b[:c["i"]].hex(), b[c["j"]:].hex()])
    if op == "pack":
        return T.call(lambda: audio.convertToBytes(tuple(c["xs"]), c["w"]).hex())
    if op == "unpack":
        return T.call(lambda: list(audio.convertFromBytes(bytes.fromhex(c["hex"]), c["w"])))
    if op == "index":
        return T.call(lambda: mkwav(c)._getIndexAtTime(c["t"]))
    if op == "getframes":
        return T.call(lambda: mkwav(c).getFrames(c["t0"], c["t1"]).hex())
    if op == "getsamples":
        return T.call(lambda: list(mkwav(c).getSamples(c["t0"], c["t1"])))
    if op == "duration":
        return T.call(lambda: mkwav(c).duration)
    if op == "edits":
        def run():
            wv = mkwav(c)
            states, untouched, err, after, derived = [], True, None, None, []
            for e in c["edits"]:
                k = e[0]
                before_step = bytes(wv.frames)
                try:
                    step_edit(wv, e)
                except Exception as ex:      # the history stops at the first edit that raises
                    err = type(ex).__name__
                    after = wv.frames.hex()
                    break
                if k == "sub":
                    sub = step_edit.last
                    untouched = untouched and wv.frames == before_step and (sub.sampleWidth, sub.frameRate) == (wv.sampleWidth, wv.frameRate)
                    wv = sub
                states.append(wv.frames.hex())
                # what the SAME living object reports about itself after the edit (round 3, C16-v1 / C18-v1: a frame
                # count or an unpacked-sample cache that an edit forgets to refresh)
                if len(wv.frames) % wv.sampleWidth == 0:
                    derived.append([wv.duration, list(wv.getSamples(0.0, wv.duration)) == list(audio.convertFromBytes(wv.frames, wv.sampleWidth))])
                else:
                    derived.append(None)
            return {"states": states, "untouched": untouched, "err": err, "after": after, "derived": derived}
        return T.call(run)
    if op == "invdel":
        def run():
            wv = mkwav(c)
            wv.insert(c["t"], bytes.fromhex(c["g"]))
            mid = wv.frames.hex()
            wv.deleteSegment(c["t"], tend(c))
            return [mid, wv.frames.hex()]
        return T.call(run)
    if op == "saveopen":
        def run():
            with TempDir() as d:
                fn = os.path.join(d, "a.wav")
                mkwav(c).save(fn)
                back = audio.Wav.open(fn)
                return {"w": back.sampleWidth, "rate": back.frameRate, "hex": back.frames.hex(), "nchannels": back.nchannels,
                        "nframes": back.nframes, "comptype": back.comptype, "duration": back.duration}
        return T.call(run)
    if op in ("readat", "query"):
        def run():
            with TempDir() as d:
                fn = os.path.join(d, "a.wav")
                mkwav(c).save(fn)
                if op == "readat":
                    f = wave.open(fn, "r")
                    try:
                        return audio.readFramesAtTime(f, c["t0"], c["t1"]).hex()
                    finally:
                        f.close()
                qw = audio.QueryWav(fn)
                try:
                    kw = {}
                    if c["t0"] is not None:
                        kw["startTime"] = c["t0"]
                    if c["t1"] is not None:
                        kw["endTime"] = c["t1"]
                    fr = qw.getFrames(**kw)
                    xs = list(audio.convertFromBytes(fr, qw.sampleWidth)) if (c["t0"] is None or c["t1"] is None) else list(qw.getSamples(c["t0"], c["t1"]))
                    return {"w": qw.sampleWidth, "rate": qw.frameRate, "nframes": qw.nframes, "xs": xs, "duration": qw.duration,
                            "nchannels": qw.nchannels}
                finally:
                    qw.audiofile.close()
        return T.call(run)
    raise KeyError(op)


def step_edit(wv, e):
    """one edit of a history on the real object; getSubwav's result is left in step_edit.last"""
    k = e[0]
    if k == "ins":
        wv.insert(e[1], bytes.fromhex(e[2]))
    elif k == "del":
        wv.deleteSegment(e[1], e[2])
    elif k == "rep":
        wv.replaceSegment(e[1], e[2], bytes.fromhex(e[3]))
    elif k == "cat":
        wv.concatenate(bytes.fromhex(e[1]))
    elif k == "sub":
        step_edit.last = wv.getSubwav(e[1], e[2])
    else:
        raise KeyError(k)


def render(c, r, enc):
    op = c["op"]
    if not has_model(c):
        return "ok skip"
    if r[0] == "err":
        return "err " + r[1]
    v = r[1]
    if op in ("round", "index"):
        return f"ok {v}"
    if op == "slice":
        return "ok " + " ".join(hx(h) for h in v)
    if op in ("pack", "getframes", "readat"):
        return "ok " + hx(v)
    if op in ("unpack", "getsamples"):
        return "ok " + " ".join(str(x) for x in [len(v)] + v)
    if op == "duration":
        from proto import f2bits
        return f"ok {len(c['hex']) // 2} {c['rate'] * c['w']} {f2bits(v)}"
    if op == "edits":
        return "ok " + " ".join([hx(h) for h in v["states"]] + (["err", v["err"]] if v["err"] else []))
    if op == "invdel":
        return "ok " + " ".join(hx(h) for h in v)
    if op == "saveopen":
        return f"ok {v['w']} {v['rate']} {hx(v['hex'])}"
    if op == "query":
        return f"ok {v['w']} {v['rate']} {v['nframes']} " + " ".join(str(x) for x in [len(v["xs"])] + v["xs"])
    raise KeyError(op)


# ------------------------------------------------------------------------------------------------
# oracle: the property on a plain list of samples
# ------------------------------------------------------------------------------------------------
def in_domain(t, n, rate):
    return 0 <= Fraction(t) <= Fraction(n, rate)


def expect_edit(S, e, w, rate):
    """list of acceptable sample lists after edit e on sample list S, or None when the property does not speak"""
    k = e[0]
    n = len(S)
    if k == "cat":
        G = decode(bytes.fromhex(e[1]), w)
        return None if G is None else [S + G]
    if k == "ins":
        G = decode(bytes.fromhex(e[2]), w)
        return None if G is None else [S[:i] + G + S[i:] for i in nearest_in(e[1], rate, n)]
    if Fraction(e[1]) > Fraction(e[2]):
        return "reject"
    pairs = [(i, j) for i in nearest_in(e[1], rate, n) for j in nearest_in(e[2], rate, n) if i <= j]
    if k == "del":
        return [S[:i] + S[j:] for i, j in pairs]
    if k == "rep":
        G = decode(bytes.fromhex(e[3]), w)
        return None if G is None else [S[:i] + G + S[j:] for i, j in pairs]
    if k == "sub":
        return [S[i:j] for i, j in pairs]
    raise KeyError(k)


def oracle_range(c, got, sig):
    """QueryWav / readFramesAtTime over [t0, t1] (None = start / end of the file): `got` = decoded samples"""
    w, rate = c["w"], c["rate"]
    S = decode(bytes.fromhex(c["hex"]), w)
    if S is None:
        return None
    n = len(S)
    t0 = 0.0 if c["t0"] is None else c["t0"]
    t1 = c["t1"]
    if t1 is not None and Fraction(t1) < Fraction(t0):
        return None
    sig = dict(sig, op="readFramesAtTime", via=c["op"])
    if got is None:
        return Failure(dict(sig, clause="whole-samples"), "the frames returned are not a whole number of samples")
    x0 = Fraction(t0) * rate
    x1 = Fraction(n) if t1 is None else Fraction(t1) * rate
    I = sorted(set(min(max(k, 0), n) for k in nearest_x(x0)))
    J = sorted(set(min(max(k, 0), n) for k in nearest_x(x1)))
    if any(got == S[i:j] for i in I for j in J if i <= j):
        return None
    return Failure(dict(sig, clause="range"), f"[{c['t0']},{c['t1']}] at rate {rate}: samples {got[:8]}… ({len(got)}) are not S[{I}:{J}]")


def oracle(c, r):
    op = c["op"]
    sig = {"op": op}
    if op in ("round", "slice"):
        return None  # unit comparisons of the model's Python semantics
    w = c["w"]
    if w not in WIDTHS:
        return None  # the property quantifies over widths 1, 2, 4
    if op == "pack":
        lo, hi = -(1 << (8 * w - 1)), (1 << (8 * w - 1)) - 1
        if not all(lo <= x <= hi for x in c["xs"]):
            return None
        if r[0] == "err":
            return Failure(dict(sig, clause="no-error", exc=r[1]), f"convertToBytes raised {r[1]}")
        b = bytes.fromhex(r[1])
        if b != enc_samples(c["xs"], w):
            return Failure(dict(sig, clause="little-endian-twos-complement"), f"bytes {r[1]} for {c['xs'][:8]}…")
        back = T.call(lambda: list(audio.convertFromBytes(b, w)))
        if back != ("ok", list(c["xs"])):
            return Failure(dict(sig, clause="bytes-and-back"), f"samples -> bytes -> samples gives {back[:2]}")
        return None
    if op == "unpack":
        b = bytes.fromhex(c["hex"])
        S = decode(b, w)
        if S is None:
            return None
        if r[0] == "err":
            return Failure(dict(sig, clause="no-error", exc=r[1]), f"convertFromBytes raised {r[1]}")
        if r[1] != S:
            return Failure(dict(sig, clause="little-endian-twos-complement"), f"samples {r[1][:8]}… expected {S[:8]}…")
        back = T.call(lambda: audio.convertToBytes(tuple(r[1]), w))
        if back != ("ok", b):
            return Failure(dict(sig, clause="samples-and-back"), "bytes -> samples -> bytes is not the identity")
        return None
    rate = c["rate"]
    fr = bytes.fromhex(c["hex"])
    S = decode(fr, w)
    if S is None:
        return None  # ragged recordings: correspondence only
    n = len(S)
    if op == "index":
        if r[0] == "err":
            return Failure(dict(sig, clause="no-error", exc=r[1]), f"_getIndexAtTime raised {r[1]}")
        if r[1] % w:
            return Failure(dict(sig, clause="aligned"), f"index {r[1]} is not a multiple of the sample width {w} (t={c['t']}, rate={rate})")
        if r[1] // w not in nearest_in(c["t"], rate, n):
            return Failure(dict(sig, clause="nearest"), f"index {r[1]}/{w} but t*rate = {float(Fraction(c['t']) * rate)}")
        return None
    if op in ("getframes", "getsamples"):
        t0, t1 = c["t0"], c["t1"]
        if not Fraction(t0) <= Fraction(t1):
            if tuple(r[:2]) != ("err", "ArgumentError"):
                return Failure(dict(sig, clause="reversed-rejected"), f"{op}({t0},{t1}): a time range that ends before it starts gave {r[0]} {str(r[1])[:40]}, not ArgumentError")
            return None
        if r[0] == "err":
            return Failure(dict(sig, clause="no-error", exc=r[1]), f"{op}({t0},{t1}) raised {r[1]} (width {w}, rate {rate})")
        got = decode(bytes.fromhex(r[1]), w) if op == "getframes" else r[1]
        if got is None:
            return Failure(dict(sig, clause="whole-samples"), f"getFrames({t0},{t1}) returned a ragged byte string")
        if not any(got == S[i:j] for i in nearest_in(t0, rate, n) for j in nearest_in(t1, rate, n) if i <= j):
            return Failure(dict(sig, clause="range"), f"{op}({t0},{t1}) at rate {rate}: {got[:8]}… ({len(got)}) is not S[{nearest_in(t0, rate, n)}:{nearest_in(t1, rate, n)}]")
        return None
    if op == "duration":
        if r[0] == "err":
            return Failure(dict(sig, clause="no-error", exc=r[1]), f"duration raised {r[1]}")
        if not math.isclose(r[1], n / rate, rel_tol=1e-15, abs_tol=0.0):
            return Failure(dict(sig, clause="count-over-rate"), f"duration {r[1]!r} but {n} samples at {rate} Hz")
        return None
    if op == "edits":
        if r[0] == "err":
            return Failure(dict(sig, clause="no-error", exc=r[1]), f"edit history: harness-level error {r[1]}")
        if not r[1]["untouched"]:
            return Failure(dict(sig, clause="getSubwav-leaves-source"), "getSubwav changed its receiver or the parameters")
        cur = S
        v = r[1]
        for step, e in enumerate(c["edits"]):
            if cur is None:
                return None
            ok = expect_edit(cur, e, w, rate)
            if step >= len(v["states"]):
                # the history stopped here with an exception: only a reversed time range may do that, with an ArgumentError,
                # and the recording must be what it was before the call
                if ok != "reject":
                    return Failure(dict(sig, edit=e[0], clause="no-error", exc=v["err"]), f"step {step} {e[:3] if e[0] != 'cat' else e[0]} raised {v['err']}")
                if v["err"] != "ArgumentError":
                    return Failure(dict(sig, edit=e[0], clause="reversed-rejected", exc=v["err"]), f"step {step} {e[:3]}: reversed range raised {v['err']}, not ArgumentError")
                if decode(bytes.fromhex(v["after"]), w) != cur:
                    return Failure(dict(sig, edit=e[0], clause="rejected-unchanged"), f"step {step} {e[:3]}: the rejected call changed the recording")
                return None
            h = v["states"][step]
            got = decode(bytes.fromhex(h), w)
            if ok == "reject":
                return Failure(dict(sig, edit=e[0], clause="reversed-rejected"),
                               f"step {step} {e[:3]} at rate {rate}: a time range that ends before it starts was accepted ({len(cur)} -> {len(got) if got is not None else '?'} samples)")
            if ok is not None:
                if got is None:
                    return Failure(dict(sig, edit=e[0], clause="whole-samples"), f"step {step} {e[0]}: ragged byte string (width {w})")
                if got not in ok:
                    return Failure(dict(sig, edit=e[0], clause="samples"),
                                   f"step {step} {e[:3] if e[0] != 'cat' else e[0]} at rate {rate} width {w}: {len(cur)} -> {len(got)} samples, not the list-model result")
            cur = got
            d = r[1].get("derived", [None] * (step + 1))[step]
            if got is not None and d is not None:
                if not math.isclose(d[0], len(got) / rate, rel_tol=1e-15, abs_tol=0.0):
                    return Failure(dict(sig, edit=e[0], clause="duration-after-edit"),
                                   f"step {step} {e[0]}: the recording holds {len(got)} samples at {rate} Hz but reports duration {d[0]!r}")
                if not d[1]:
                    return Failure(dict(sig, edit=e[0], clause="samples-after-edit"),
                                   f"step {step} {e[0]}: getSamples(0, duration) is not the recording's samples after the edit")
        return None
    if op == "invdel":
        G = decode(bytes.fromhex(c["g"]), w)
        te = tend(c)
        if G is None or not in_domain(c["t"], n, rate):
            return None
        if r[0] == "err":
            return Failure(dict(sig, clause="no-error", exc=r[1]), f"insert/deleteSegment raised {r[1]}")
        mid = decode(bytes.fromhex(r[1][0]), w)
        if mid is None or mid not in [S[:i] + G + S[i:] for i in nearest(c["t"], rate)]:
            return Failure(dict(sig, clause="insert"), f"insert({c['t']}) at rate {rate}: not the list-model result")
        if r[1][1] == c["hex"]:
            return None
        xs, xe = Fraction(c["t"]) * rate, Fraction(te) * rate
        near = any(abs((x % 1) - HALF) <= Fraction(1, 2 ** 30) for x in (xs, xe))
        return Failure(dict(sig, clause="inverse", half_sample_tie=near),
                       f"insert({c['t']}, {len(G)} samples) then deleteSegment({c['t']}, {te}) at rate {rate}, width {w}: "
                       f"{n} samples before, {len(r[1][1]) // 2 // w} after; t*rate = {float(xs)}, end*rate = {float(xe)}")
    if op == "saveopen":
        if r[0] == "err":
            return Failure(dict(sig, clause="no-error", exc=r[1]), f"save/open raised {r[1]}")
        v = r[1]
        if (v["w"], v["rate"], v["nchannels"], v["comptype"]) != (w, rate, 1, "NONE") or v["nframes"] != n:
            return Failure(dict(sig, clause="parameters"), f"parameters after save/open: {v['w']}, {v['rate']}, {v['nchannels']}, {v['nframes']}, {v['comptype']}")
        if decode(bytes.fromhex(v["hex"]), w) != S:
            return Failure(dict(sig, clause="samples"), "samples after save/open differ")
        if not math.isclose(v["duration"], n / rate, rel_tol=1e-15, abs_tol=0.0):
            return Failure(dict(sig, clause="duration"), f"duration after save/open {v['duration']!r}")
        return None
    if op == "readat":
        if r[0] == "err":
            t0, t1 = c["t0"], c["t1"]
            if Fraction(t0) <= Fraction(t1):
                return Failure(dict(sig, clause="no-error", exc=r[1]), f"readFramesAtTime({t0},{t1}) raised {r[1]}")
            return None
        return oracle_range(c, decode(bytes.fromhex(r[1]), w), sig)
    if op == "query":
        t0 = 0.0 if c["t0"] is None else c["t0"]
        t1 = Fraction(n, rate) if c["t1"] is None else Fraction(c["t1"])
        if Fraction(t0) > t1 and c["t1"] is not None:
            # (with endTime=None the end is the float duration n/rate, which the oracle does not second-guess)
            if tuple(r[:2]) != ("err", "ArgumentError"):
                return Failure(dict(sig, clause="reversed-rejected"), f"QueryWav.getSamples({c['t0']},{c['t1']}): a reversed range gave {r[0]}, not ArgumentError")
            return None
        if r[0] == "err":
            if c["t1"] is None and Fraction(t0) > t1 - Fraction(1, 2 ** 40) and r[1] == "ArgumentError":
                return None
            if c["t1"] is None or Fraction(t0) <= Fraction(c["t1"]):
                return Failure(dict(sig, clause="no-error", exc=r[1]), f"QueryWav.getSamples({c['t0']},{c['t1']}) raised {r[1]}")
            return None
        v = r[1]
        if (v["w"], v["rate"], v["nframes"], v["nchannels"]) != (w, rate, n, 1):
            return Failure(dict(sig, clause="parameters"), f"QueryWav parameters {v['w']}, {v['rate']}, {v['nframes']}")
        if not math.isclose(v["duration"], n / rate, rel_tol=1e-15, abs_tol=0.0):
            return Failure(dict(sig, clause="duration"), f"QueryWav.duration {v['duration']!r}")
        return oracle_range(c, v["xs"], sig)
    raise KeyError(op)


# ------------------------------------------------------------------------------------------------
# evidence helpers
# ------------------------------------------------------------------------------------------------
def tags(c, r):
    op = c["op"]
    out = [op, "model" if has_model(c) else "oracle-only"]
    if r[0] == "err":
        out.append("err:" + r[1])
    if "w" in c:
        out.append(f"width:{c['w']}")
    if "rate" in c:
        out.append(f"rate:{c['rate']}")
        for t in set(kind_of(t, c["rate"]) for t in times_of(c)):
            out.append("time:" + t)
        if op in ("readat", "query"):
            for t in (c["t0"], c["t1"]):
                out.append("time:" + ("none" if t is None else kind_of(t, c["rate"])))
    if op in ("getframes", "getsamples", "readat", "query") and c.get("t0") is not None and c.get("t1") is not None \
            and Fraction(c["t0"]) > Fraction(c["t1"]):
        out.append("window:reversed")
    if any(isinstance(t, float) and t < 0 for t in times_of(c) + [c.get("t0"), c.get("t1")]):
        out.append("time:negative")
    if op == "edits":
        if r[0] == "ok" and r[1].get("err"):
            out.append("history:stopped:" + r[1]["err"])
        out.append(f"history:{len(c['edits'])}")
        out += ["edit:" + e[0] for e in c["edits"]]
    if op == "invdel" and r[0] == "ok":
        out.append("inverse:restored" if r[1][1] == c["hex"] else "inverse:not-restored")
    if op == "pack":
        lo, hi = -(1 << (8 * c["w"] - 1)), (1 << (8 * c["w"] - 1)) - 1
        if lo in c["xs"] or hi in c["xs"]:
            out.append("extreme-sample")
    return out


def nontrivial(c, r):
    op = c["op"]
    if op in ("round", "slice"):
        return True
    if op == "pack":
        return len(c["xs"]) > 0
    if op == "unpack":
        return len(c["hex"]) > 0
    n = len(c["hex"]) // 2 // c["w"]
    if n == 0:
        return False
    if op in ("duration", "saveopen"):
        return True
    ts = times_of(c) + [t for t in (c.get("t0"), c.get("t1")) if isinstance(t, float)]
    if op == "query" and c["t0"] is None and c["t1"] is None:
        return True
    return any(0 <= Fraction(t) * c["rate"] <= n for t in ts) or any(e[0] == "cat" for e in c.get("edits", []))


# ------------------------------------------------------------------------------------------------
# corpus
# ------------------------------------------------------------------------------------------------
def ramp(n, w, start=1):
    return enc_samples([((start + i) % 100) for i in range(n)], w).hex()


def corpus():
    # A4 (fixed): the byte index fell inside a multi-byte sample (t=0.3, rate=8, width=2 -> 5)
    yield {"op": "index", "w": 2, "rate": 8, "hex": ramp(8, 2), "t": 0.3}
    yield {"op": "getsamples", "w": 2, "rate": 8, "hex": ramp(8, 2), "t0": 0.3, "t1": 0.8}
    yield {"op": "getsamples", "w": 4, "rate": 8, "hex": ramp(8, 4), "t0": 0.3, "t1": 0.8}
    yield {"op": "edits", "w": 2, "rate": 8, "hex": ramp(8, 2), "edits": [["del", 0.3, 0.8], ["ins", 0.3, ramp(2, 2, 50)]]}
    # A15: insert one sample at an exact half-sample time, then delete [t, t + 1/rate]
    yield {"op": "invdel", "w": 1, "rate": 8, "hex": ramp(8, 1), "t": 0.3125, "g": ramp(1, 1, 77)}
    yield {"op": "invdel", "w": 2, "rate": 8, "hex": ramp(8, 2), "t": 0.4375, "g": ramp(1, 2, 77)}
    yield {"op": "invdel", "w": 2, "rate": 8, "hex": ramp(8, 2), "t": 0.3125, "g": ramp(2, 2, 77)}   # even count: restored
    yield {"op": "invdel", "w": 2, "rate": 8, "hex": ramp(8, 2), "t": 0.3, "g": ramp(3, 2, 77)}      # off a tie: restored
    # C16-R1 (fixed, fedc16f): QueryWav / readFramesAtTime read round(rate*(t1-t0)) samples from round(rate*t0), so the end
    # index was not the one nearest to t1 and endTime=None could drop the last sample of the file
    yield {"op": "query", "w": 1, "rate": 8, "hex": ramp(9, 1), "t0": 0.0625, "t1": 0.203125}
    yield {"op": "readat", "w": 2, "rate": 8, "hex": ramp(9, 2), "t0": 0.0625, "t1": 0.203125}
    yield {"op": "getsamples", "w": 1, "rate": 8, "hex": ramp(9, 1), "t0": 0.0625, "t1": 0.203125}
    yield {"op": "query", "w": 1, "rate": 8, "hex": ramp(9, 1), "t0": 0.3125, "t1": None}
    yield {"op": "query", "w": 2, "rate": 44100, "hex": "0080ff7fff7fff7fff7fff7fff7fff7fff7f0000ff7fff7f", "t0": 0.00010204081632653062, "t1": None}
    # C16-2 (fixed, 3f424d1): times outside the recording.  A negative time became a negative Python slice bound (counted from
    # the END of the frames): getSamples(-0.5, 0.5) was empty, deleteSegment(-0.5, 0.25) returned 26 samples for 16,
    # insert(-0.25, x) put x before the last two samples; QueryWav raised wave.Error for the same windows and for a start
    # beyond the end (where Wav returns nothing)
    for w in WIDTHS:
        yield {"op": "getsamples", "w": w, "rate": 8, "hex": ramp(16, w), "t0": -0.5, "t1": 0.5}
        yield {"op": "getframes", "w": w, "rate": 8, "hex": ramp(16, w), "t0": 1.5, "t1": 9.0}
        yield {"op": "edits", "w": w, "rate": 8, "hex": ramp(16, w), "edits": [["del", -0.5, 0.25]]}
        yield {"op": "edits", "w": w, "rate": 8, "hex": ramp(16, w), "edits": [["ins", -0.25, ramp(1, w, 77)]]}
        yield {"op": "edits", "w": w, "rate": 8, "hex": ramp(16, w), "edits": [["rep", -1.0, 0.25, ramp(2, w, 77)], ["sub", -0.5, 99.0], ["ins", 50.0, ramp(1, w, 55)]]}
        yield {"op": "query", "w": w, "rate": 8, "hex": ramp(16, w), "t0": -0.5, "t1": 0.5}
        yield {"op": "query", "w": w, "rate": 8, "hex": ramp(16, w), "t0": 3.0, "t1": 9.0}
        yield {"op": "readat", "w": w, "rate": 8, "hex": ramp(16, w), "t0": -0.5, "t1": 0.5}
        yield {"op": "index", "w": w, "rate": 8, "hex": ramp(16, w), "t": -0.5}
        yield {"op": "index", "w": w, "rate": 8, "hex": ramp(16, w), "t": 2.5}
    # C16-3 (fixed, 906b45b): a time range that ends before it starts.  deleteSegment(0.5, 0.25) returned 18 samples for 16
    # (frames[:i] + frames[j:] with i > j duplicates the samples in between), replaceSegment likewise; getSamples(0.5, -0.25)
    # returned 10 samples from Wav and () from QueryWav.  All raise ArgumentError now, before anything is changed
    for w in WIDTHS:
        yield {"op": "edits", "w": w, "rate": 8, "hex": ramp(16, w), "edits": [["del", 0.5, 0.25]]}
        yield {"op": "edits", "w": w, "rate": 8, "hex": ramp(16, w), "edits": [["del", 0.25, 0.5], ["rep", 0.5, 0.25, ramp(1, w, 77)], ["cat", ramp(1, w, 9)]]}
        yield {"op": "edits", "w": w, "rate": 8, "hex": ramp(16, w), "edits": [["sub", 1.5, 0.25]]}
        yield {"op": "getsamples", "w": w, "rate": 8, "hex": ramp(16, w), "t0": 0.5, "t1": -0.25}
        yield {"op": "getframes", "w": w, "rate": 8, "hex": ramp(16, w), "t0": 0.5, "t1": 0.25}
        yield {"op": "query", "w": w, "rate": 8, "hex": ramp(16, w), "t0": 0.5, "t1": -0.25}
        yield {"op": "query", "w": w, "rate": 8, "hex": ramp(16, w), "t0": 0.5, "t1": 0.25}
        yield {"op": "query", "w": w, "rate": 8, "hex": ramp(16, w), "t0": 5.0, "t1": None}
    # a position beyond the file reads nothing (was wave.Error); the bare readFramesAtTime reads nothing for a reversed window
    yield {"op": "readat", "w": 1, "rate": 8, "hex": ramp(9, 1), "t0": 2.0, "t1": 3.0}
    yield {"op": "readat", "w": 1, "rate": 8, "hex": ramp(9, 1), "t0": 0.5, "t1": 0.25}
    yield {"op": "query", "w": 2, "rate": 8000, "hex": ramp(40, 2), "t0": None, "t1": None}
    # ragged byte strings: struct.error from getSamples / convertFromBytes, trailing partial sample dropped by wave
    yield {"op": "unpack", "w": 2, "hex": "0080ff"}
    yield {"op": "saveopen", "w": 2, "rate": 8, "hex": "0001020304"}
    # extremes of every width
    for w in WIDTHS:
        lo, hi = -(1 << (8 * w - 1)), (1 << (8 * w - 1)) - 1
        yield {"op": "pack", "w": w, "xs": [lo, hi, 0, -1, 1, lo + 1, hi - 1]}
        yield {"op": "pack", "w": w, "xs": [hi + 1]}
        yield {"op": "pack", "w": w, "xs": [lo - 1]}
    yield {"op": "pack", "w": 3, "xs": [1]}
    yield {"op": "slice", "hex": "000102030405", "i": -2, "j": 9}
    yield {"op": "slice", "hex": "000102030405", "i": -9, "j": -1}


# ------------------------------------------------------------------------------------------------
# generators
# ------------------------------------------------------------------------------------------------
def gen_samples(rnd, w, n):
    lo, hi = -(1 << (8 * w - 1)), (1 << (8 * w - 1)) - 1
    style = rnd.random()
    if style < 0.55:
        xs = [rnd.randint(lo, hi) for _ in range(n)]
    elif style < 0.8:
        a = rnd.randint(lo, hi)
        xs = [max(lo, min(hi, a + i * rnd.choice([1, -1, 3]))) for i in range(n)]
    elif style < 0.9:
        xs = [i % 251 - 125 if w > 1 else i % 120 - 60 for i in range(n)]
    else:
        xs = [rnd.choice([lo, hi, 0, -1])] * n
    for _ in range(min(n, 4)):
        xs[rnd.randrange(n)] = rnd.choice([lo, hi, 0, -1, 1, lo + 1, hi - 1])
    return xs


def gen_count(rnd):
    k = rnd.random()
    if k < 0.05:
        return 0
    if k < 0.6:
        return rnd.randint(1, 24)
    if k < 0.9:
        return rnd.randint(25, 120)
    return rnd.randint(121, 400)


def gen_time(rnd, rate, n, kind=None, exact=False):
    """a float time for a recording of n samples at `rate`; exact=True: only times whose product with the rate is
    exact in binary64 (so that the case is compared with the model as well as with the oracle)"""
    if exact and rate not in (8, 64) and kind is None:
        kind = rnd.choice(["dyad"] * 6 + ["halfd", "halfd", "zero", "out", "out", "neg"])
        if kind == "halfd":
            ks = [k for k in (62, 187, 312) if k < n]
            if ks:
                return (2 * rnd.choice(ks) + 1) / (2 * rate)
            kind = "dyad"
    kind = kind or rnd.choice(["on", "on", "off", "off", "half", "half", "dyad", "dec", "third", "zero", "end", "out", "out", "neg"])
    k = rnd.randint(0, n)
    if kind == "on":
        return k / rate
    if kind == "half":
        if rate in (8000, 16000) and rnd.random() < 0.7:
            k = rnd.choice([62, 187, 312])     # (2k+1)/(2*rate) is dyadic only there
        return min(k, max(n - 1, 0)) / rate + 0.5 / rate if rate in (8, 64) else (2 * k + 1) / (2 * rate)
    if kind == "off":
        if rate in (8, 64):
            return (k * 16 + rnd.choice([1, 3, 5, 7, 9, 11, 13, 15])) / (16 * rate)
        return (k + rnd.choice([0.25, 0.3, 0.49, 0.51, 0.7, 0.75])) / rate
    if kind == "dyad":
        m = rnd.randint(0, 12)
        top = (n * 2 ** m) // rate
        return rnd.randint(0, top) / 2 ** m
    if kind == "dec":
        return round(rnd.uniform(0, n / rate), rnd.choice([1, 2, 3, 4]))
    if kind == "third":
        return rnd.randint(0, n) / 3.0 / rate
    if kind == "zero":
        return 0.0
    if kind == "end":
        return n / rate
    if kind == "neg":
        j = rnd.randint(0, n + 2)
        return rnd.choice([-j / rate, -(2 * j + 1) / (2 * rate), -0.25 / rate, -0.75 / rate, -0.3, -1.0, -float(rnd.randint(2, 10 ** 6)),
                           -j / 8.0, -1e-9])
    j = rnd.randint(0, n + 2)
    return rnd.choice([-1 / rate, -0.5, (n + 1) / rate, (n + 3.5) / rate, n / rate + 1.0, (n + j) / rate, (2 * n + j + 0.5) / rate,
                       n / rate + j / 8.0, float(rnd.randint(2, 10 ** 6)) + n / rate, 1e9, (n + 0.25) / rate, (n + 0.75) / rate])


def gen_window(rnd, rate, n, exact=False):
    a, b = gen_time(rnd, rate, n, exact=exact), gen_time(rnd, rate, n, exact=exact)
    if Fraction(a) > Fraction(b) and rnd.random() < 0.93:
        a, b = b, a
    return a, b


def gen_wav(rnd):
    w = rnd.choice(WIDTHS)
    rate = rnd.choice(RATES)
    n = gen_count(rnd)
    return w, rate, n, enc_samples(gen_samples(rnd, w, n), w).hex()


def gen_frames(rnd, w, nmax=12):
    n = rnd.choice([0, 1, 1, 2, 3, rnd.randint(1, nmax)])
    return enc_samples(gen_samples(rnd, w, n), w).hex()


def gen_edit(rnd, w, rate, n, exact=False):
    k = rnd.choice(["ins", "ins", "del", "del", "rep", "rep", "cat", "sub"])
    if k == "ins":
        return ["ins", gen_time(rnd, rate, n, exact=exact), gen_frames(rnd, w)]
    if k == "cat":
        return ["cat", gen_frames(rnd, w)]
    a, b = gen_window(rnd, rate, n, exact)
    if k == "rep":
        return ["rep", a, b, gen_frames(rnd, w)]
    return [k, a, b]


def approx_len(n, e, w, rate):
    """rough sample count after an edit, only to aim the next times inside the recording"""
    k = e[0]
    if k == "cat":
        return n + len(e[1]) // 2 // w
    if k == "ins":
        return n + len(e[2]) // 2 // w
    d = max(0, min(n, round(e[2] * rate)) - max(0, round(e[1] * rate)))
    if k == "del":
        return max(0, n - d)
    if k == "rep":
        return max(0, n - d) + len(e[3]) // 2 // w
    return d


def gen(rnd, tier):
    m = 8 if tier == "thorough" else 1
    # unit comparisons of Python semantics
    for i in range(400 * m):
        den = rnd.choice([1, 2, 2, 3, 4, 6, 8, 10, 128, rnd.randint(1, 1000)])
        num = rnd.randint(-40, 40) * den // 2 + rnd.choice([0, 0, 1, -1, rnd.randint(-den, den)])
        yield {"op": "round", "num": num, "den": den}
    for i in range(300 * m):
        n = rnd.randint(0, 10)
        yield {"op": "slice", "hex": bytes(range(n)).hex(), "i": rnd.randint(-n - 3, n + 3), "j": rnd.randint(-n - 3, n + 3)}
    # packing
    for i in range(400 * m):
        w = rnd.choice(WIDTHS)
        n = gen_count(rnd)
        xs = gen_samples(rnd, w, n)
        if rnd.random() < 0.08 and n:
            xs[rnd.randrange(n)] = rnd.choice([1 << (8 * w - 1), -(1 << (8 * w - 1)) - 1, 1 << (8 * w)])
        yield {"op": "pack", "w": w, "xs": xs}
    for i in range(400 * m):
        w = rnd.choice(WIDTHS)
        n = gen_count(rnd)
        b = bytes(rnd.getrandbits(8) for _ in range(n * w + (rnd.randint(1, w) if rnd.random() < 0.08 else 0)))
        yield {"op": "unpack", "w": w, "hex": b.hex()}
    # time -> index, reads
    for i in range(1200 * m):
        w, rate, n, h = gen_wav(rnd)
        yield {"op": "index", "w": w, "rate": rate, "hex": h, "t": gen_time(rnd, rate, n, exact=rnd.random() < 0.4)}
    for i in range(1200 * m):
        w, rate, n, h = gen_wav(rnd)
        a, b = gen_window(rnd, rate, n, exact=rnd.random() < 0.5)
        if rnd.random() < 0.04:
            h = h + "7f"     # ragged recording: struct.error paths (model correspondence only)
        yield {"op": rnd.choice(["getframes", "getsamples", "getsamples"]), "w": w, "rate": rate, "hex": h, "t0": a, "t1": b}
    for i in range(200 * m):
        w, rate, n, h = gen_wav(rnd)
        yield {"op": "duration", "w": w, "rate": rate, "hex": h}
    # histories
    for i in range(1800 * m):
        w, rate, n, h = gen_wav(rnd)
        if n > 150 and rnd.random() < 0.6:
            n = rnd.randint(1, 60)
            h = h[: n * w * 2]
        es, cur = [], n
        exact = rnd.random() < 0.6
        for _ in range(rnd.randint(1, 6)):
            e = gen_edit(rnd, w, rate, cur, exact)
            es.append(e)
            cur = approx_len(cur, e, w, rate)
        yield {"op": "edits", "w": w, "rate": rate, "hex": h, "edits": es}
    # insert then delete the same stretch
    for i in range(900 * m):
        w, rate, n, h = gen_wav(rnd)
        g = enc_samples(gen_samples(rnd, w, rnd.choice([1, 1, 2, 3, 4, 5, rnd.randint(1, 40)])), w).hex()
        kind = rnd.choice(["on", "off", "half", "half", "dyad", "dec", "third", "zero", "end"])
        yield {"op": "invdel", "w": w, "rate": rate, "hex": h, "t": gen_time(rnd, rate, n, kind), "g": g}
    # real files
    for i in range(250 * m):
        w, rate, n, h = gen_wav(rnd)
        if rnd.random() < 0.05:
            h = h + "7f" * rnd.randint(1, w)
        yield {"op": "saveopen", "w": w, "rate": rate, "hex": h}
    for i in range(700 * m):
        w, rate, n, h = gen_wav(rnd)
        a, b = gen_window(rnd, rate, n, exact=rnd.random() < 0.5)
        k = rnd.random()
        if k < 0.12:
            yield {"op": "query", "w": w, "rate": rate, "hex": h, "t0": None, "t1": None}
        elif k < 0.2:
            yield {"op": "query", "w": w, "rate": rate, "hex": h, "t0": a, "t1": None}
        elif k < 0.28:
            yield {"op": "query", "w": w, "rate": rate, "hex": h, "t0": None, "t1": b}
        elif k < 0.75:
            yield {"op": "query", "w": w, "rate": rate, "hex": h, "t0": a, "t1": b}
        else:
            yield {"op": "readat", "w": w, "rate": rate, "hex": h, "t0": a, "t1": b}


# ------------------------------------------------------------------------------------------------
# shrinking / perturbation (failing-input search)
# ------------------------------------------------------------------------------------------------
def shrink(c):
    op = c["op"]
    if op == "edits":
        es = c["edits"]
        for i in range(len(es)):
            if len(es) > 1:
                yield dict(c, edits=es[:i] + es[i + 1:])
        for i, e in enumerate(es):
            for j, x in enumerate(e):
                if isinstance(x, str) and j > 0 and len(x) > 2 * c["w"]:
                    yield dict(c, edits=es[:i] + [e[:j] + [x[: 2 * c["w"]]] + e[j + 1:]] + es[i + 1:])
    if "hex" in c and "w" in c and len(c["hex"]) > 2 * c["w"] * 2:
        n = len(c["hex"]) // 2 // c["w"]
        yield dict(c, hex=c["hex"][: (n // 2) * c["w"] * 2])
        yield dict(c, hex=c["hex"][: (n - 1) * c["w"] * 2])
    if op == "pack" and len(c["xs"]) > 1:
        yield dict(c, xs=c["xs"][: len(c["xs"]) // 2])
        yield dict(c, xs=c["xs"][len(c["xs"]) // 2:])
    if "g" in c and len(c["g"]) > 2 * c["w"]:
        yield dict(c, g=c["g"][: 2 * c["w"]])


def perturb(c, rnd):
    op = c["op"]
    if "rate" not in c:
        raise KeyError(op)
    n = len(c["hex"]) // 2 // c["w"]
    c2 = dict(c)
    if op == "index" or op == "invdel":
        c2["t"] = gen_time(rnd, c["rate"], n)
    elif op in ("getframes", "getsamples", "readat", "query"):
        c2["t0"], c2["t1"] = gen_window(rnd, c["rate"], n)
    elif op == "edits":
        es = [list(e) for e in c["edits"]]
        i = rnd.randrange(len(es))
        es[i] = gen_edit(rnd, c["w"], c["rate"], n)
        c2["edits"] = es
    else:
        raise KeyError(op)
    return c2
