"""C09 — time shifting and concatenation move every entry by exactly the stated amount (tier level;
the Textgrid-level operations are exercised by C12's check with the same oracle)."""
from framework import Failure
import tiers as T
import tierops
import tgops
import dispatch

RULE = ("random interval and point tiers (0..6 entries, dyadic grid k/64 and 1-3 digit decimals, including empty tiers) x "
        "offsets chosen to clip none / some / all entries, zero, and +-tiny x 3 reporting modes; appendTier over random "
        "pairs including empty operands; shift by +x then -x. non-trivial = the tier has entries and the offset is non-zero, "
        "or an append with a non-empty second operand")
TRUSTED = ["oracle: direct Python statement of the property (harness/props/C09.py:oracle)"]
ASSUMPTIONS = ["finite non-negative timestamps in the input tiers",
               "out-of-span reporting is decided on the floating-point sums the code computes (offset + time)"]
REPORTS = ["silence", "warning", "error"]

case_json = lambda c: c
case_from_json = lambda j: j
encode = dispatch.encode
impl = dispatch.impl
render = dispatch.render


def wants_x(c):
    return c.get("grid", False)


def shifted(t, o):
    """(entries after shift/clip, any-out-of-old-span)"""
    out, oob = [], False
    if t["k"] == "I":
        for s, e, l in t["es"]:
            s2, e2 = o + s, o + e
            if s2 < t["lo"] or e2 > t["hi"]:
                oob = True
            if e2 <= 0:
                continue
            out.append([max(s2, 0.0), e2, l])
    else:
        for x, l in t["es"]:
            x2 = x + o
            if x2 < t["lo"] or x2 > t["hi"]:
                oob = True
            if x2 < 0:
                continue
            out.append([x2, l])
    return out, oob


def _torder(t, es):
    """'order' is time order: points that (come to) share one time have no time order to keep, and the constructor every
    result passes through lists them by label (the reading DESIGN 11.4 records for C14).  Met by the living histories:
    a point inserted at the very end of A's span and a point of B at 0; two points a few ulps apart shifted onto one float"""
    return sorted(es, key=lambda e: (e[0], e[-1])) if t["k"] == "P" else es


def oracle(c, r):
    if dispatch.is_tg(c):
        return tgops.oracle(c, r)
    op, t = c["op"], c["tier"]
    sig = {"op": op}
    if op in ("ishift", "pshift"):
        exp, oob = shifted(t, c["o"])
        sig["report"] = c["report"]
        if c["report"] == "error" and oob:
            if r[0] == "err" and r[1] == "OutOfBounds":
                return None
            return Failure(dict(sig, clause="out-of-bounds-reported"), f"leaving the old span under reportingMode='error' gave {r[:2]}")
        if r[0] == "err" and r[1] == "TextgridStateError" and t["k"] == "I" and any(e[0] + c["o"] >= e[1] + c["o"] for e in t["es"]):
            # the one refusal rounding can cause (layer R, editTimestamps_refuses_iff): an entry a few ulps long whose two
            # ends are shifted onto one float; a praatio error, as C05 demands.  Met by the living histories, whose
            # mutations insert such entries.
            return None
        if r[0] == "err":
            return Failure(dict(sig, clause="no-error", exc=r[1]), f"editTimestamps raised {r[1]}")
        res = r[1]
        if not T.entries_close(_torder(t, exp), res["es"]):
            return Failure(dict(sig, clause="entries"), f"entries {res['es']} expected {exp}")
        lo = min([t["lo"]] + [e[0] for e in exp])
        hi = max([t["hi"]] + [e[-2] for e in exp])
        if not (T.close(res["lo"], lo) and T.close(res["hi"], hi)):
            return Failure(dict(sig, clause="span"), f"span [{res['lo']},{res['hi']}] expected [{lo},{hi}]")
        return None
    if op in ("ishift2",):
        return None
    if op in ("iappend", "pappend"):
        u = c["other"]
        if r[0] == "err" and r[1] == "TextgridStateError" and t["k"] == "I" and any(e[0] + t["hi"] >= e[1] + t["hi"] for e in u["es"]):
            return None     # as above: an entry of B a few ulps long collapses when it is shifted by A's end time
        if r[0] == "err":
            return Failure(dict(sig, clause="no-error", exc=r[1]), f"appendTier raised {r[1]}")
        res = r[1]
        exp = [list(e) for e in t["es"]] + [[x + t["hi"] for x in e[:-1]] + [e[-1]] for e in u["es"]]
        if not T.entries_close(_torder(t, exp), res["es"]):
            return Failure(dict(sig, clause="entries"), f"entries {res['es']} expected {exp}")
        if _torder(t, res["es"])[:len(t["es"])] != _torder(t, [list(e) for e in t["es"]]) and t["k"] == "I":
            return Failure(dict(sig, clause="first-operand-unchanged"), "A's entries changed")
        if t["k"] == "P" and any(list(e) not in res["es"] for e in t["es"]):
            return Failure(dict(sig, clause="first-operand-unchanged"), "A's entries changed")
        if not (res["lo"] == t["lo"] and T.close(res["hi"], t["hi"] + u["hi"])):
            return Failure(dict(sig, clause="span"), f"span [{res['lo']},{res['hi']}] expected [{t['lo']},{t['hi'] + u['hi']}]")
        if res["name"] != t["name"]:
            return Failure(dict(sig, clause="name"), "name changed")
        return None
    raise KeyError(op)


def tags(c, r):
    if dispatch.is_tg(c):
        return [c['op'], 'grid' if c.get('grid') else 'dec'] + (['err:' + r[1]] if r[0] == 'err' else [])
    out = [c["op"], "grid" if c.get("grid") else "dec"]
    if "report" in c:
        out.append("report:" + c["report"])
    if r[0] == "err":
        out.append("err:" + r[1])
    elif c["op"] in ("ishift", "pshift"):
        n0, n1 = len(c["tier"]["es"]), len(r[1]["es"])
        out.append("clipped:none" if n0 == n1 else ("clipped:all" if n1 == 0 else "clipped:some"))
        if n0 == 0:
            out.append("empty-tier")
    return out


def nontrivial(c, r):
    if dispatch.is_tg(c):
        return any(t['es'] for t in c['tg']['tiers'])
    if c["op"] in ("ishift", "pshift"):
        return len(c["tier"]["es"]) > 0 and c["o"] != 0
    return len(c["other"]["es"]) > 0


def corpus():
    t = {"k": "I", "name": "a", "es": [[1.0, 2.0, "x"], [3.0, 4.0, "y"]], "lo": 0.0, "hi": 5.0}
    e = {"k": "I", "name": "e", "es": [], "lo": 0.0, "hi": 5.0}
    # A2 (fixed): ValueError when the tier is empty / every entry is clipped
    yield {"op": "ishift", "tier": t, "o": -10.0, "report": "silence", "grid": True}
    yield {"op": "ishift", "tier": e, "o": 1.0, "report": "silence", "grid": True}
    yield {"op": "iappend", "tier": t, "other": e, "grid": True}
    yield {"op": "iappend", "tier": e, "other": t, "grid": True}
    p = {"k": "P", "name": "p", "es": [[1.0, "x"]], "lo": 0.0, "hi": 5.0}
    yield {"op": "pshift", "tier": p, "o": -2.0, "report": "warning", "grid": True}
    yield {"op": "pshift", "tier": p, "o": -1.0, "report": "error", "grid": True}


def gen(rnd, tier):
    yield from gen_tier_level(rnd, tier)
    for i in range(30000 if tier == 'thorough' else 2500):
        domain = rnd.choice(['dec', 'dec', 'grid64'])
        c = tg_case(rnd, domain)
        c['grid'] = domain != 'dec'
        yield c


def tg_case(rnd, domain):
    g = tgops.gen_tg(rnd, domain, valid=rnd.random() < 0.8)
    if rnd.random() < 0.5:
        o = rnd.choice([0.0, 1.0, -1.0, -3.5, -20.0, 0.5]) if domain != 'dec' else round(rnd.uniform(-6, 6), 2)
        return {'op': 'tg_shift', 'tg': g, 'o': float(o), 'report': rnd.choice(REPORTS)}
    h = tgops.gen_tg(rnd, domain, valid=rnd.random() < 0.8)
    # shared names must have the same tier class
    kinds = {t['name']: t['k'] for t in g['tiers']}
    h = dict(h, tiers=[t for t in h['tiers'] if kinds.get(t['name'], t['k']) == t['k']])
    if rnd.random() < 0.3:
        # an appended textgrid that does not start at 0 (e.g. the result of crop(..., rebaseToZero=False)): its entries are
        # still shifted by A's END TIME (round 3, C09-mutF: shifted by A.max - B.min "so that no gap is left")
        m = rnd.choice([0.5, 1.0, 2.0]) if domain != 'dec' else round(rnd.uniform(0.1, 3), 2)
        h = {'lo': h['lo'] + m, 'hi': h['hi'] + m,
             'tiers': [dict(t, lo=t['lo'] + m, hi=t['hi'] + m, es=[[x + m for x in e[:-1]] + [e[-1]] for e in t['es']]) for t in h['tiers']]}
    return {'op': 'tg_append', 'tg': g, 'other': h, 'matching': rnd.random() < 0.5}


def gen_tier_level(rnd, tier):
    n = 60000 if tier == "thorough" else 9000
    for i in range(n):
        domain = rnd.choice(["dec", "dec", "grid64"])
        kind = rnd.random()
        mk = (lambda: T.gen_itier(rnd, domain, nmax=6)) if kind < 0.6 else (lambda: T.gen_ptier(rnd, domain, nmax=6))
        k = "i" if kind < 0.6 else "p"
        t = mk()
        if rnd.random() < 0.7:
            bs = sorted({x for e in t["es"] for x in e[:-1]}) or [1.0]
            choices = [0.0, -bs[0], -bs[-1], -(bs[0] + bs[-1]) / 2, -bs[-1] - 1, 1.0, 0.125, -0.125, t["hi"] - bs[-1], t["hi"] - bs[-1] + 0.5, -20.0]
            if domain == "dec":
                choices += [round(rnd.uniform(-10, 10), rnd.choice([1, 2, 3])), 1e-9, -1e-9]
            else:
                choices += [rnd.randint(-640, 640) / 64.0]
            yield {"op": k + "shift", "tier": t, "o": float(rnd.choice(choices)), "report": rnd.choice(REPORTS), "grid": domain != "dec"}
        else:
            u = mk()
            u["name"] = "U"
            yield {"op": k + "append", "tier": t, "other": u, "grid": domain != "dec"}


shrink = dispatch.shrink


def perturb(c, rnd):
    c2 = dict(c, grid=False)
    if "o" in c:
        c2["o"] = round(rnd.uniform(-10, 10), 2)
        c2["report"] = rnd.choice(REPORTS)
    return c2


# living-object histories built from the step-wise cases above (harness/living.py)
import living  # noqa: E402
living.install(globals())
