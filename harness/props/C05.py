"""C05 — every reachable tier is well-formed (sorted, disjoint, inside its span)."""
from framework import Failure
import tiers as T
import tierops
import tgops
import scriptops as SC   # splitTierEntries / spellCheckEntries (DESIGN 11.8)

RULE = ("random histories (quick: 1200 of length <= 12; thorough: 12000 of length <= 25) over a pool of tiers: construct "
        "(from arbitrary, also malformed, entry lists), crop, eraseRegion, insertSpace, editTimestamps, insertEntry (3 modes), "
        "deleteEntry, union, difference, intersection, mergeLabels, appendTier, dejitter, morph, new — arguments drawn from the "
        "pool's boundaries, midpoints and fresh times, on the dyadic grid k/64 and on 1-3 digit decimals. Each step is "
        "compared on its own (model and oracle applied to the implementation's state before the step); every returned tier "
        "is checked for well-formedness and against validate(). non-trivial = the step returned a tier with entries or raised")
TRUSTED = ["oracle: well-formedness re-checked directly on entries/minTimestamp/maxTimestamp; exception class checked "
           "against praatio.utilities.errors (harness/props/C05.py:oracle)"]
ASSUMPTIONS = ["arguments are type-correct (interval ops get interval tiers, durations > 0, finite times); eraseRegion is exercised "
               "with regions inside, sticking out of and outside the span, the constructors and new() also with a requested "
               "span whose bounds are in the wrong order (a returned tier with minTimestamp > maxTimestamp is ill-formed: A28, A29)",
               "deleteEntry of an absent entry raises a built-in ValueError: recorded as a known finding, see known_findings.json"]

case_json = lambda c: c
case_from_json = lambda j: j
def encode(c, enc):
    if SC.is_sc(c):
        return SC.encode(c, enc)
    if c["op"] == "strip":
        return "strip " + enc.s(c["s"])
    if c.get("report") == "error" and c["op"] in ("iinsert", "pinsert"):
        return "skip"      # oracle-only: the model's insert has no reporting mode (see report_error_inserts)
    return tierops.encode(c, enc)


def impl(c):
    if SC.is_sc(c):
        return SC.impl(c)
    if c["op"] == "strip":
        return ("ok", c["s"].strip())
    return tierops.impl(c)


def render(c, r, enc):
    if SC.is_sc(c):
        return SC.render(c, r, enc)
    if c["op"] == "strip":
        return "ok " + enc.s(r[1])
    if c.get("report") == "error" and c["op"] in ("iinsert", "pinsert"):
        return "ok skip"
    return tierops.render(c, r, enc)


def wants_x(c):
    if SC.is_sc(c):
        return SC.wants_x(c)
    return c.get("grid", False)


def oracle(c, r):
    op = c["op"]
    sig = {"op": op}
    if SC.is_sc(c):
        return SC.oracle(c, r)
    if op == "strip":
        return None  # unit correspondence of the model's str.strip() only
    if r[0] == "err":
        if not r[2]:
            return Failure(dict(sig, clause="praatio-error", exc=r[1]), f"{op} raised the built-in {r[1]} instead of a praatio error")
        # the receiver of a mutator that raised is still a tier the caller holds: it must be well-formed too
        if len(r) > 3 and isinstance(r[3], dict):
            probs = T.wf_problems(r[3])
            if probs:
                return Failure(dict(sig, clause="well-formed-after-raise"), f"{op} raised {r[1]} and left an ill-formed tier behind: {probs[0]}")
        return None
    res = r[1]
    if not isinstance(res, dict):
        return None
    probs = T.wf_problems(res)
    # no exception for a REQUESTED span with minTimestamp > maxTimestamp any more (finding A29, fixed in /repo 9432f3b:
    # C05.construct_wf has no hypothesis): whatever a constructor or new() returns must be well-formed
    if probs:
        if probs[0].startswith("span reversed"):
            sig = dict(sig, cause="span-reversed")
        return Failure(dict(sig, clause="well-formed"), f"{op} returned an ill-formed tier: {probs[0]}")
    # validate() agrees
    t = T.call(lambda: T.build(res).validate("silence"))
    if t != ("ok", True):
        return Failure(dict(sig, clause="validate-agrees"), f"validate() on the returned tier gives {t}")
    return None


def tags(c, r):
    if SC.is_sc(c):
        return SC.tags(c, r)
    if c["op"] == "strip":
        return ["strip-unit"]
    out = [c["op"], "grid" if c.get("grid") else "dec", "step:%d" % min(c.get("step", 0), 25)]
    if r[0] == "err":
        out.append("err:" + r[1])
    return out


def nontrivial(c, r):
    if SC.is_sc(c):
        return SC.nontrivial(c, r)
    if c["op"] == "strip":
        return r[1] != c["s"]
    return r[0] == "err" or (isinstance(r[1], dict) and len(r[1]["es"]) > 0)


def raw_entries(rnd, domain, k):
    """arbitrary constructor input: unsorted, possibly overlapping / degenerate, labels with blanks"""
    n = rnd.randint(0, 4)
    out = []
    for _ in range(n):
        ts = T.gen_times(rnd, domain, 2)
        if len(ts) < 2:
            continue
        lab = rnd.choice(["a", " b", "c ", "\tx\n", "", "é "])
        if k == "I":
            a, b = ts
            if rnd.random() < 0.1:
                a, b = b, a
            if rnd.random() < 0.05:
                b = a
            out.append([a, b, lab])
        else:
            out.append([ts[0], lab])
    if k == "I" and out and domain == "dec" and rnd.random() < 0.25:
        # a neighbour that starts a few ulps BEFORE (overlap by rounding noise: must be refused) or after the end of an entry
        # (round 3, C05-v2: the constructor's overlap test made tolerant)
        import math
        e = rnd.choice(out)
        if e[0] < e[1]:
            s0 = e[1]
            for _ in range(rnd.randint(1, 3)):
                s0 = math.nextafter(s0, rnd.choice([-math.inf, -math.inf, math.inf]))
            out.append([s0, s0 + rnd.choice([0.5, 1.25]), "n"])
    rnd.shuffle(out)
    return out


def gen_step(rnd, pool, domain):
    t = rnd.choice(pool)
    k = t["k"]
    p = "i" if k == "I" else "p"
    same = [u for u in pool if u["k"] == k]
    bp = T.boundary_pool(t, rnd, domain, hi=12.0)
    a, b = rnd.choice(bp), rnd.choice(bp)
    if a > b and rnd.random() < 0.9:
        a, b = b, a
    d = rnd.choice([0.25, 1.0, 2.5]) if domain != "dec" else round(rnd.uniform(0.01, 3), 2)
    ops = ["mk", "crop", "erase", "space", "shift", "insert", "insert", "delete", "append", "dejitter", "new"]
    if k == "I":
        ops += ["union", "diff", "inter", "mergelabels", "morph"]
    else:
        ops += ["union"]
    op = rnd.choice(ops)
    if op == "mk":
        lo = rnd.choice([None, 0.0, a])
        hi = rnd.choice([None, 10.0, b])
        es = raw_entries(rnd, domain, k)
        if rnd.random() < 0.15:
            # bounds in the wrong order, mostly without entries (finding A29: the interval constructor kept them reversed)
            lo, hi = max(a, b) + d, min(a, b)
            if rnd.random() < 0.7:
                es = []
        return {"op": "mk" + p + "tier", "name": "N", "es": es, "lo": lo, "hi": hi}
    if op == "crop":
        return {"op": p + "crop", "tier": t, "a": a, "b": b, "mode": rnd.choice(["strict", "lax", "truncated"]), "rebase": rnd.random() < 0.5}
    if op == "erase":
        return {"op": p + "erase", "tier": t, "a": a, "b": b, "mode": rnd.choice(["truncate", "categorical", "error"]), "shrink": rnd.random() < 0.5}
    if op == "space":
        return {"op": p + "space", "tier": t, "s": a, "d": d, "mode": rnd.choice(["stretch", "split", "no_change", "error"])}
    if op == "shift":
        o = rnd.choice([d, -d, -a, 0.0, -20.0])
        return {"op": p + "shift", "tier": t, "o": float(o), "report": rnd.choice(["silence", "warning", "error"])}
    if op == "insert":
        lab = rnd.choice(["n", " m ", "", "q-r"])
        e = [a, b, lab] if k == "I" else [a, lab]
        if k == "I" and not a < b and rnd.random() < 0.6:
            e = [a, a + d, lab]          # otherwise: a zero-length or reversed interval (must be rejected)
        return {"op": p + "insert", "tier": t, "entry": e, "mode": rnd.choice(["error", "replace", "merge"]), "report": "silence"}
    if op == "delete":
        if t["es"] and rnd.random() < 0.8:
            e = list(rnd.choice(t["es"]))
        else:
            e = [a, a + d, "zz"] if k == "I" else [a, "zz"]
        return {"op": p + "delete", "tier": t, "entry": e}
    u = rnd.choice(same)
    if op == "append":
        return {"op": p + "append", "tier": t, "other": u}
    if op == "union":
        return {"op": p + "union", "tier": t, "other": u}
    if op == "diff":
        return {"op": "idiff", "tier": t, "other": u}
    if op == "inter":
        return {"op": "iinter", "tier": t, "other": u}
    if op == "mergelabels":
        return {"op": "imergelabels", "tier": t, "other": u}
    if op == "dejitter":
        md = rnd.choice([1 / 64, 0.25, 1.0]) if domain != "dec" else rnd.choice([0.001, 0.05, 0.5])
        return {"op": p + "dejitter", "tier": t, "ref": rnd.choice(pool), "maxdiff": md}
    if op == "morph":
        return {"op": "imorph", "tier": t, "other": u, "filter": rnd.choice([None, ["a"], ["a", "b"]])}
    if k == "I" and rnd.random() < 0.5:
        # new(entries=[], minTimestamp=…, maxTimestamp=…): an entry-less copy, now and then with a bound beyond the other
        lo = rnd.choice([None, a, t["hi"] + d])
        hi = rnd.choice([None, b, t["lo"] - d]) if lo is None or rnd.random() < 0.5 else None
        return {"op": "inewe", "tier": t, "lo": lo, "hi": hi}
    return {"op": p + "new", "tier": t}


def histories(rnd, n, maxlen):
    for h in range(n):
        domain = rnd.choice(["dec", "dec", "grid64"])
        pool = [T.gen_itier(rnd, domain, nmax=4, name="A"), T.gen_itier(rnd, domain, nmax=3, name="B"),
                T.gen_ptier(rnd, domain, nmax=4, name="C")]
        if rnd.random() < 0.3:
            pool[2] = T.with_dup_times(rnd, pool[2])     # several points at one time (finding A24 lived there)
        for step in range(rnd.randint(1, maxlen)):
            c = gen_step(rnd, pool, domain)
            c.update(grid=domain != "dec", hist=h, step=step)
            yield c
            r = tierops.impl(c)
            if r[0] == "ok" and isinstance(r[1], dict) and not T.wf_problems(r[1]):
                res = r[1]
                if max([abs(res["hi"])] + [abs(x) for e in res["es"] for x in e[:-1]]) > 500:
                    continue  # keep magnitudes bounded so that the k/64 grid stays exact
                i = rnd.randrange(len(pool))
                if c["op"] in ("iinsert", "pinsert", "idelete", "pdelete"):
                    i = next(j for j, q in enumerate(pool) if q is c["tier"])
                pool[i] = dict(res, name=pool[i]["name"]) if res["name"] == pool[i]["name"] else res


def corpus():
    yield from SC.corpus()      # S1-1, S1-2 (fixed) and the worked examples of splitTierEntries / spellCheckEntries
    pt = {"k": "P", "name": "p", "es": [[1.0, "a"]], "lo": 0.0, "hi": 2.0}
    yield {"op": "pinsert", "tier": pt, "entry": [3.0, "b"], "mode": "error", "report": "silence", "grid": True}      # A3
    it = {"k": "I", "name": "a", "es": [[1.0, 2.0, "x"], [3.0, 4.0, "y"]], "lo": 0.0, "hi": 5.0}
    yield {"op": "icrop", "tier": it, "a": 2.25, "b": 2.75, "mode": "strict", "rebase": True, "grid": True}            # A1
    yield {"op": "ishift", "tier": it, "o": -10.0, "report": "silence", "grid": True}                                 # A2
    yield {"op": "iinsert", "tier": it, "entry": [2.25, 2.75, " y "], "mode": "error", "report": "silence", "grid": True}   # A18
    e = {"k": "I", "name": "e", "es": [], "lo": 0.0, "hi": 5.0}
    yield {"op": "idejitter", "tier": it, "ref": e, "maxdiff": 0.25, "grid": True}                                    # A13a
    yield {"op": "imorph", "tier": e, "other": e, "filter": None, "grid": True}                                       # A13b
    yield {"op": "idelete", "tier": it, "entry": [1.0, 2.0, "nope"], "grid": True}                                    # known finding
    yield {"op": "mkitier", "name": "N", "es": [[1.0, 3.0, "a"], [2.0, 4.0, "b"]], "lo": None, "hi": None, "grid": True}
    yield {"op": "mkitier", "name": "N", "es": [], "lo": None, "hi": None, "grid": True}
    # A29 (fixed): an entry-less interval tier with bounds in the wrong order kept minTimestamp > maxTimestamp
    yield {"op": "mkitier", "name": "T", "es": [], "lo": 5.0, "hi": 2.0, "grid": True}
    yield {"op": "mkitier", "name": "T", "es": [[1.0, 3.0, "a"]], "lo": 5.0, "hi": 2.0, "grid": True}
    yield {"op": "mkptier", "name": "T", "es": [], "lo": 5.0, "hi": 2.0, "grid": True}
    yield {"op": "inewe", "tier": {"k": "I", "name": "T", "es": [[1.0, 3.0, "a"]], "lo": 0.0, "hi": 10.0}, "lo": 20.0, "hi": None,
           "grid": True}
    yield {"op": "inewe", "tier": {"k": "I", "name": "T", "es": [[1.0, 3.0, "a"]], "lo": 0.0, "hi": 10.0}, "lo": None, "hi": -4.0,
           "grid": True}
    # A28 (fixed): eraseRegion with doShrink and a region reaching beyond the span returned a tier ending before its start
    e10 = {"k": "I", "name": "e", "es": [], "lo": 0.0, "hi": 10.0}
    for m in ("truncate", "categorical", "error"):
        yield {"op": "ierase", "tier": e10, "a": 5.0, "b": 30.0, "mode": m, "shrink": True, "grid": True}
    yield {"op": "perase", "tier": {"k": "P", "name": "p", "es": [[3.0, "p"]], "lo": 0.0, "hi": 10.0}, "a": -7.0, "b": -2.0,
           "mode": "truncate", "shrink": True, "grid": True}
    yield {"op": "pdelete", "tier": pt, "entry": [1.0, "nope"], "grid": True}                                        # known finding
    # an inserted interval that becomes the only entry and sticks out of the span on BOTH sides: both ends must grow
    e2 = {"k": "I", "name": "B", "es": [], "lo": 3.5, "hi": 10.0}
    for mode in ("error", "replace", "merge"):
        yield {"op": "iinsert", "tier": e2, "entry": [2.75, 11.0, "n"], "mode": mode, "report": "silence", "grid": True}
    one = {"k": "I", "name": "B", "es": [[4.0, 5.0, "x"]], "lo": 3.5, "hi": 10.0}
    for mode in ("replace", "merge"):
        yield {"op": "iinsert", "tier": one, "entry": [2.75, 11.0, "n"], "mode": mode, "report": "silence", "grid": True}
    # zero-length / reversed intervals must be rejected by insertEntry, not stored
    for mode in ("error", "replace", "merge"):
        yield {"op": "iinsert", "tier": it, "entry": [2.5, 2.5, "z"], "mode": mode, "report": "silence", "grid": True}
        yield {"op": "iinsert", "tier": it, "entry": [2.75, 2.25, "z"], "mode": mode, "report": "silence", "grid": True}
    # A24 (fixed): several points at one time
    pd = {"k": "P", "name": "P", "es": [[10.0, "a"], [40.0, "b"], [40.0, "c"], [70.0, "d"]], "lo": 0.0, "hi": 100.0}
    for mode in ("error", "replace", "merge"):
        yield {"op": "pinsert", "tier": pd, "entry": [40.0, " n "], "mode": mode, "report": "silence", "grid": True}
    yield {"op": "punion", "tier": pd, "other": pd, "grid": True}


def strip_units(rnd, tier):
    """unit correspondence for the model's `str.strip()` / `str.isspace()` table: every whitespace code point (and its
    neighbours) at both ends and in the middle of a label"""
    import sys
    ws = [cp for cp in range(sys.maxunicode + 1) if chr(cp).isspace()]
    cps = sorted(set(ws + [w + d for w in ws for d in (-1, 1) if 0 < w + d <= sys.maxunicode and not 0xD800 <= w + d <= 0xDFFF]))
    for cp in cps:
        ch = chr(cp)
        for s in (ch + "a" + ch, "a" + ch + "b", ch, ch + ch + "x y" + ch):
            yield {"op": "strip", "s": s, "grid": True}
    if tier == "thorough":
        step = 97
        for cp in range(1, sys.maxunicode + 1, step):
            if 0xD800 <= cp <= 0xDFFF:
                continue
            yield {"op": "strip", "s": chr(cp) + "k" + chr(cp), "grid": True}


def report_error_inserts(rnd, n):
    """insertEntry with collisionReportingMode='error' (accepted by validateOption; the signature documents silence|warning
    only): a colliding 'replace'/'merge' is applied and THEN reported by raising CollisionError - whatever one thinks of
    that, the tier the caller is left with must be well-formed (round 4, C05-mutG: the report moved before sort()).
    Oracle-only (the model's insert has no reporting mode) and kept out of `histories`, which C13 reuses."""
    import props.C11 as C11
    for _ in range(n):
        domain = rnd.choice(["dec", "grid64"])
        t = T.gen_itier(rnd, domain, nmax=4) if rnd.random() < 0.5 else T.gen_ptier(rnd, domain, nmax=4)
        if not t["es"]:
            continue
        if t["k"] == "P":
            entry = [rnd.choice(t["es"])[0], "n"]        # an occupied time, preferably not the last one
        else:
            entry = C11.gen_entry(rnd, t, domain)
        yield {"op": ("i" if t["k"] == "I" else "p") + "insert", "tier": t, "entry": entry, "mode": rnd.choice(["replace", "merge", "error"]),
               "report": "error", "grid": False}


def gen(rnd, tier):
    yield from report_error_inserts(rnd, 3000 if tier == "thorough" else 400)
    yield from strip_units(rnd, tier)
    yield from SC.gen(rnd, 3000 if tier == "thorough" else 300)
    if tier == "thorough":
        yield from histories(rnd, 12000, 25)
    else:
        yield from histories(rnd, 1200, 12)


def shrink(c):
    if SC.is_sc(c):
        if "tg" in c:
            yield from tgops.shrink_tg(c)
        return
    if "tier" in c:
        for s in T.shrink_spec(c["tier"]):
            yield dict(c, tier=s)
    for k in ("other", "ref"):
        if k in c:
            for s in T.shrink_spec(c[k]):
                yield dict(c, **{k: s})


# living-object histories built from the step-wise cases above (harness/living.py); here an object that ends up in a state
# its own constructor refuses IS the violation (every reachable tier is well-formed)
import living  # noqa: E402
living.install(globals(), illformed_fails=True, rate=0.25, cap=2500)
