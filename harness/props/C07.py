"""C07 — eraseRegion blanks exactly the region and shrinks time by exactly its length."""
import itertools

from framework import Failure
import tiers as T
import tierops
import tgops
import dispatch

RULE = ("exhaustive family on the dyadic grid: tiers of <=3 disjoint intervals with integer boundaries in [0,6] x regions "
        "a<b on the half-integer grid inside the span (plus a==b, a>b) x 3 collision modes x doShrink; random tiers on 1-3 "
        "digit decimals with regions drawn from boundaries/midpoints/fresh times, one in four of them with an end before "
        "the span's start or after its end (sticking out of the span, or wholly outside it); point tiers likewise; "
        "textgrids likewise. distinct = distinct protocol line; non-trivial = the region touches at least one entry, or "
        "entries lie after it with shrinking")
TRUSTED = ["oracle: direct Python statement of the property (harness/props/C07.py:oracle)"]
ASSUMPTIONS = ["finite timestamps, entries at non-negative times; regions inside the tier span, and (since fix A28) regions "
               "sticking out of it or outside it: what the region covers is removed / truncated with the region as given, "
               "shrinking or not; with doShrink exactly the part of the region inside the span is cut out of the time line "
               "(nothing moves if that part is empty or a single time)",
               "distinct boundary times of the generated tiers differ by more than 1e-9 relative (a fact about this "
               "family's inputs, used by the 1e-9 oracle comparison; NOT a hypothesis of the theorems any more: "
               "deleteEntry matches exactly first, so the theorems hold however close the entries are)",
               "shifted times are compared with the oracle within 1e-9; model vs implementation bit for bit"]
MODES = ["truncate", "categorical", "error"]

case_json = lambda c: c
case_from_json = lambda j: j
encode = dispatch.encode
impl = dispatch.impl
render = dispatch.render


def wants_x(c):
    return c.get("grid", False)


def expected_entries(c):
    """entries after the erase, before any shrinking; None = CollisionError expected"""
    a, b, t = c["a"], c["b"], c["tier"]
    if t["k"] == "P":
        return [e for e in t["es"] if not (a <= e[0] <= b)]
    m = c["mode"]
    out = []
    for s, e, l in t["es"]:
        if s < b and a < e:  # overlaps
            if m == "error":
                return None
            if m == "truncate":
                if s < a:
                    out.append([s, a, l])
                if e > b:
                    out.append([b, e, l])
        else:
            out.append([s, e, l])
    return out


def oracle(c, r):
    if dispatch.is_tg(c):
        return tgops.oracle(c, r)
    a, b, t = c["a"], c["b"], c["tier"]
    op = c["op"]
    sig = {"op": op, "mode": c.get("mode"), "shrink": c["shrink"]}
    if a >= b:
        if r[0] == "err" and r[2]:
            return None
        return Failure(dict(sig, clause="degenerate-region-rejected"), f"region a>=b not rejected by a praatio error: {r}")
    exp = expected_entries(c)
    if exp is None:
        if r[0] == "err" and r[1] == "CollisionError":
            return None
        return Failure(dict(sig, clause="collision-error"), f"overlap in 'error' mode did not raise CollisionError: {r[:2]}")
    if r[0] == "err" and r[1] == "TextgridStateError" and t["k"] == "I" and c["shrink"] and any(
            e[0] >= b and a + (e[0] - b) >= a + (e[1] - b) for e in t["es"]):
        # as in C08: a whole entry a few ulps long behind the region whose two ends are shifted onto one float
        # (layer R: the only refusal rounding can cause); a praatio error
        return None
    if r[0] == "err":
        return Failure(dict(sig, clause="no-error", exc=r[1]), f"eraseRegion of a well-formed tier / in-span region raised {r[1]}")
    s = r[1]
    probs = T.wf_problems(s)
    if probs:
        return Failure(dict(sig, clause="well-formed"), f"result ill-formed: {probs[0]}")
    if s["name"] != t["name"] or s["k"] != t["k"]:
        return Failure(dict(sig, clause="name"), "name/type changed")
    # what the region covers is removed / truncated with the region AS GIVEN, shrinking or not; the shift and the new
    # end use the part of the region inside the span (fix A28); if that part is empty nothing moves
    shrinks = c["shrink"]
    if shrinks:
        a2, b2 = max(a, t["lo"]), min(b, t["hi"])
        if a2 < b2:
            a, b = a2, b2
        else:
            shrinks = False
    d = b - a
    if not shrinks:
        if s["es"] != exp:
            return Failure(dict(sig, clause="entries"), f"entries {s['es']} expected {exp}")
        if (s["lo"], s["hi"]) != (t["lo"], t["hi"]):
            return Failure(dict(sig, clause="span"), f"span changed to [{s['lo']},{s['hi']}]")
        return None
    # shrinking: everything after b moves earlier by exactly b-a
    if t["k"] == "P":
        want = [[e[0] if e[0] < a else e[0] - d, e[1]] for e in exp]
        if not T.entries_close(want, s["es"]):
            return Failure(dict(sig, clause="entries"), f"points {s['es']} expected {want}")
    else:
        # every remaining piece either ends at or before a (stays) or starts at or after b (moves by d)
        want = [e if e[1] <= a else [max(e[0] - d, a), e[1] - d, e[2]] for e in exp]
        diff = T.labelling_diff(want, s["es"], extra=(a,))
        if diff:
            return Failure(dict(sig, clause="labelled-time"), f"label at t={diff[0]} is {diff[2]!r}, expected {diff[1]!r}")
        if c.get("mode") == "truncate":
            for s0, e0, l0 in t["es"]:
                if s0 < a and b < e0:
                    hit = [x for x in s["es"] if T.close(x[0], s0) and T.close(x[1], e0 - d) and x[2] == l0]
                    if len(hit) != 1:
                        return Failure(dict(sig, clause="straddler"), f"straddling interval {(s0, e0, l0)} did not come out as one interval shortened by b-a: {s['es']}")
    if not (T.close(s["hi"], t["hi"] - d) and s["lo"] == t["lo"]):
        return Failure(dict(sig, clause="span"), f"span [{s['lo']},{s['hi']}] expected [{t['lo']},{t['hi'] - d}]")
    return None


def tags(c, r):
    if dispatch.is_tg(c):
        return [c['op'], 'grid' if c.get('grid') else 'dec'] + (['err:' + r[1]] if r[0] == 'err' else [])
    out = [c["op"], "mode:" + str(c.get("mode")), "shrink:" + str(c["shrink"]), "grid" if c.get("grid") else "dec"]
    if r[0] == "err":
        out.append("err:" + r[1])
    else:
        t = c["tier"]
        if t["k"] == "I":
            a, b = c["a"], c["b"]
            if any(s < a and b < e for s, e, _ in t["es"]):
                out.append("straddler")
            if any((s < a < e) or (s < b < e) for s, e, _ in t["es"]):
                out.append("cut")
    return out


def nontrivial(c, r):
    if dispatch.is_tg(c):
        return any(t['es'] for t in c['tg']['tiers'])
    a, b = c["a"], c["b"]
    if c["tier"]["k"] == "I":
        return any(e[1] > a for e in c["tier"]["es"])
    return any(e[0] >= a for e in c["tier"]["es"])


def family_cases(max_iv, top=6):
    import props.C06 as C06
    for es in C06.family(max_iv, top):
        tier = {"k": "I", "name": "T", "es": es, "lo": 0.0, "hi": float(top)}
        g = [x / 2.0 for x in range(0, 2 * top + 1)]
        for a in g:
            for b in g:
                if not (a < b or a == b or a == b + 0.5):
                    continue
                for m in MODES:
                    for sh in (False, True):
                        yield {"op": "ierase", "tier": tier, "a": a, "b": b, "mode": m, "shrink": sh, "grid": True}


def corpus():
    # A5 (fixed): one-ulp overlap / missed re-join on decimals
    t = {"k": "I", "name": "a", "es": [[1.198, 1.34, "a"], [5.22, 6.067, "b"], [7.02, 9.6, "c"]], "lo": 0.0, "hi": 10.0}
    yield {"op": "ierase", "tier": t, "a": 1.34, "b": 7.02, "mode": "truncate", "shrink": True, "grid": False}
    t2 = {"k": "I", "name": "a", "es": [[0.3, 4.1, "a"]], "lo": 0.0, "hi": 5.0}
    yield {"op": "ierase", "tier": t2, "a": 1.1, "b": 2.3, "mode": "truncate", "shrink": True, "grid": False}
    # two different equal-labelled intervals that meet after shrinking (fused by the re-join: same labelling)
    t3 = {"k": "I", "name": "a", "es": [[1.0, 2.0, "x"], [4.0, 5.0, "x"]], "lo": 0.0, "hi": 6.0}
    yield {"op": "ierase", "tier": t3, "a": 2.0, "b": 4.0, "mode": "truncate", "shrink": True, "grid": True}
    # A28 (fixed): a region sticking out of / lying outside the span was subtracted in full when shrinking
    e = {"k": "I", "name": "e", "es": [], "lo": 0.0, "hi": 10.0}
    w = {"k": "I", "name": "w", "es": [[1.0, 4.0, "x"], [5.0, 7.0, "y"]], "lo": 0.0, "hi": 10.0}
    pt = {"k": "P", "name": "P", "es": [[1.0, "a"], [3.0, "b"], [3.0, "c"], [5.0, "d"], [7.0, "e"], [9.0, "f"]], "lo": 0.0, "hi": 10.0}
    for m in MODES:
        yield {"op": "ierase", "tier": e, "a": 5.0, "b": 30.0, "mode": m, "shrink": True, "grid": True}
    for (a, b) in [(6.0, 15.0), (-5.0, 2.0), (5.0, 30.0), (10.0, 15.0), (12.0, 15.0), (-7.0, -2.0), (-5.0, 15.0)]:
        for sh in (True, False):
            yield {"op": "ierase", "tier": w, "a": a, "b": b, "mode": "truncate", "shrink": sh, "grid": True}
            yield {"op": "perase", "tier": pt, "a": a, "b": b, "mode": "truncate", "shrink": sh, "grid": True}
    # A28, second commit (91f0238): a region that only touches an end of the span removes a point sitting on that end,
    # shrinking or not (the first version of the fix kept it when shrinking)
    q = {"k": "P", "name": "Q", "es": [[0.0, "s"], [3.0, "p"], [10.0, "x"]], "lo": 0.0, "hi": 10.0}
    for (a, b) in [(10.0, 15.0), (-5.0, 0.0)]:
        for sh in (True, False):
            yield {"op": "perase", "tier": q, "a": a, "b": b, "mode": "truncate", "shrink": sh, "grid": True}
    g = {"lo": 0.0, "hi": 10.0, "tiers": [w, dict(pt, name="marks"), e, {"k": "P", "name": "none", "es": [], "lo": 0.0, "hi": 10.0}]}
    for (a, b) in [(6.0, 15.0), (-5.0, 2.0), (5.0, 30.0), (12.0, 15.0)]:
        yield {"op": "tg_erase", "tg": g, "a": a, "b": b, "shrink": True, "grid": True}


def gen(rnd, tier):
    yield from gen_tier_level(rnd, tier)
    for i in range(20000 if tier == 'thorough' else 1500):
        domain = rnd.choice(['dec', 'dec', 'grid64'])
        c = tg_case(rnd, domain)
        c['grid'] = domain != 'dec'
        yield c


def tg_case(rnd, domain):
    g = tgops.gen_tg(rnd, domain, valid=rnd.random() < 0.8)
    pool = sorted({x for t in g['tiers'] for x in T.boundary_pool(t, rnd, domain)})
    pool = [x for x in pool if 0 <= x <= g['hi']]
    if rnd.random() < 0.25:
        pool = pool + T.outside_times(rnd, domain, g['lo'], g['hi'])
    a, b = rnd.choice(pool), rnd.choice(pool)
    if a > b and rnd.random() < 0.95:
        a, b = b, a
    return {'op': 'tg_erase', 'tg': g, 'a': a, 'b': b, 'shrink': rnd.random() < 0.6}


def gen_tier_level(rnd, tier):
    if tier == "thorough":
        for c in family_cases(3):
            yield c
        nrand = 120000
    else:
        fam = list(family_cases(2, top=5)) + list(family_cases(3, top=4))
        for c in rnd.sample(fam, min(len(fam), 9000)):
            yield c
        nrand = 9000
    for i in range(nrand):
        domain = rnd.choice(["dec", "dec", "dec", "grid64"])
        if rnd.random() < 0.8:
            t = T.gen_itier(rnd, domain, nmax=6, labels=["a", "b", "a", "x y", ""], lo_choice="zero")
            op = "ierase"
        else:
            t = T.gen_ptier(rnd, domain, nmax=6)
            op = "perase"
        pool = [x for x in T.boundary_pool(t, rnd, domain) if t["lo"] <= x <= t["hi"]]
        if rnd.random() < 0.25:
            pool = pool + T.outside_times(rnd, domain, t["lo"], t["hi"])
        a, b = rnd.choice(pool), rnd.choice(pool)
        if rnd.random() < 0.93 and a > b:
            a, b = b, a
        yield {"op": op, "tier": t, "a": a, "b": b, "mode": rnd.choice(MODES), "shrink": rnd.random() < 0.6,
               "grid": domain != "dec"}


shrink = dispatch.shrink


def perturb(c, rnd):
    pool = [x for x in T.boundary_pool(c["tier"], rnd, "dec") if c["tier"]["lo"] <= x <= c["tier"]["hi"]]
    c2 = dict(c, grid=False)
    k = rnd.choice(["a", "b", "mode", "shrink"])
    if k in ("a", "b"):
        c2[k] = rnd.choice(pool)
    elif k == "mode":
        c2["mode"] = rnd.choice(MODES)
    else:
        c2["shrink"] = not c["shrink"]
    return c2


# living-object histories built from the step-wise cases above (harness/living.py)
import living  # noqa: E402
living.install(globals())
