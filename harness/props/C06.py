"""C06 — crop keeps exactly the annotation inside the window, per mode."""
import itertools

from framework import Failure
import tiers as T
import tierops
import tgops
import dispatch

RULE = ("exhaustive family: every tier of <=3 (quick: sampled; thorough: all, <=4) disjoint intervals with integer "
        "boundaries in [0,6] (touching allowed) x every window a<b on the half-integer grid in [0,6.5] plus a==b, a==b+0.5 "
        "x 3 modes x 2 rebase flags; plus random tiers on 1-3 digit decimals with windows drawn from boundaries, "
        "midpoints and fresh times; point tiers likewise. distinct = distinct protocol line; non-trivial = the window "
        "selects at least one entry or is degenerate (a>=b)")
TRUSTED = ["oracle: direct Python statement of the property (harness/props/C06.py:oracle)"]
ASSUMPTIONS = ["finite non-negative timestamps, no NaN/inf/-0.0",
               "rebased times are compared with the oracle within 1e-9 (the oracle does not fix an arithmetic order); "
               "model vs implementation is compared bit for bit"]
MODES = ["strict", "lax", "truncated"]


def case_json(c):
    return c


def case_from_json(j):
    return j


def wants_x(c):
    return c.get("grid", False)


encode = dispatch.encode
impl = dispatch.impl
render = dispatch.render


def expected(c):
    """the property, computed directly"""
    a, b, t = c["a"], c["b"], c["tier"]
    if a >= b:
        return ("err", "ArgumentError")
    if t["k"] == "P":
        kept = [e for e in t["es"] if a <= e[0] <= b]
        if c["rebase"]:
            return ("ok", [[e[0] - a, e[1]] for e in kept], 0.0, b - a)
        return ("ok", kept, a, b)
    m = c["mode"]
    if m == "strict":
        kept = [e for e in t["es"] if a <= e[0] and e[1] <= b]
    elif m == "lax":
        kept = [e for e in t["es"] if e[0] < b and a < e[1]]
    else:
        kept = [[max(e[0], a), min(e[1], b), e[2]] for e in t["es"] if max(e[0], a) < min(e[1], b)]
    lo, hi = a, b
    if kept:
        lo = min(a, kept[0][0])
        hi = max(b, kept[-1][1])
    if c["rebase"]:
        # shifted so that the window, or an earlier-starting lax interval, begins at 0; span [0, b-a],
        # widened just enough to contain an overhanging (lax) interval
        d = lo
        # a piece whose rebased ends are the same float (a cut within a few ulps of the window edge) cannot be an interval
        kept = [[e[0] - d, e[1] - d, e[2]] for e in kept if e[0] - d < e[1] - d]
        return ("ok", kept, 0.0, max([b - a] + [e[1] for e in kept[-1:]]))
    return ("ok", kept, lo, hi)


def oracle(c, r):
    if dispatch.is_tg(c):
        return tgops.oracle(c, r)
    exp = expected(c)
    op = c["op"]
    if exp[0] == "err":
        if r[0] == "err" and r[1] == "ArgumentError":
            return None
        return Failure({"op": op, "clause": "degenerate-window-rejected"}, f"window a>=b not rejected with ArgumentError: {r[:2]}")
    if r[0] == "err":
        return Failure({"op": op, "clause": "no-error", "exc": r[1], "rebase": c["rebase"]},
                       f"crop of a well-formed tier raised {r[1]}")
    s = r[1]
    _, es, lo, hi = exp
    if len(es) != len(s["es"]):
        return Failure({"op": op, "clause": "entries", "mode": c.get("mode")}, f"kept {len(s['es'])} entries, expected {len(es)}")
    for x, y in zip(es, s["es"]):
        if x[-1] != y[-1] or any(not T.close(p, q) for p, q in zip(x[:-1], y[:-1])):
            return Failure({"op": op, "clause": "entries", "mode": c.get("mode")}, f"entry {y} expected {x}")
        if not c["rebase"] and x[:-1] != y[:-1]:
            return Failure({"op": op, "clause": "timestamps-untouched", "mode": c.get("mode")}, f"entry {y} expected exactly {x}")
    if not (T.close(lo, s["lo"]) and T.close(hi, s["hi"])):
        return Failure({"op": op, "clause": "span", "mode": c.get("mode"), "rebase": c["rebase"]},
                       f"span [{s['lo']},{s['hi']}] expected [{lo},{hi}]")
    if s["name"] != c["tier"]["name"]:
        return Failure({"op": op, "clause": "name"}, "name changed")
    return None


def tags(c, r):
    if dispatch.is_tg(c):
        return [c['op'], 'grid' if c.get('grid') else 'dec'] + (['err:' + r[1]] if r[0] == 'err' else [])
    out = [c["op"], "mode:" + str(c.get("mode")), "rebase:" + str(c["rebase"]), "grid" if c.get("grid") else "dec"]
    if r[0] == "err":
        out.append("err:" + r[1])
    else:
        out.append("kept:" + str(min(len(r[1]["es"]), 3)))
        if r[1]["es"] != [e for e in c["tier"]["es"] if e in r[1]["es"]]:
            out.append("modified-entries")
    return out


def nontrivial(c, r):
    if dispatch.is_tg(c):
        return any(t['es'] for t in c['tg']['tiers'])
    return r[0] == "err" or len(r[1]["es"]) > 0


# ---------------------------------------------------------------------------------------------
def family(max_iv, top=6):
    """all tiers of <= max_iv disjoint intervals with integer boundaries in [0, top]"""
    pts = list(range(0, top + 1))
    out = []
    for n in range(0, max_iv + 1):
        for bs in itertools.combinations_with_replacement(pts, 2 * n):
            # boundaries s1<e1<=s2<e2...
            ok = all(bs[2 * i] < bs[2 * i + 1] for i in range(n)) and all(bs[2 * i + 1] <= bs[2 * i + 2] for i in range(n - 1))
            if ok:
                out.append([[float(bs[2 * i]), float(bs[2 * i + 1]), "ab"[i % 2]] for i in range(n)])
    return out


def windows(top=6):
    g = [x / 2.0 for x in range(0, 2 * top + 2)]
    # every a < b, plus the two kinds of degenerate window (a == b, a just above b)
    return [(a, b) for a in g for b in g if a < b or a == b or a == b + 0.5]


def family_cases(max_iv, top=6):
    for es in family(max_iv, top):
        lo = 0.0
        tier = {"k": "I", "name": "T", "es": es, "lo": lo, "hi": float(top)}
        for a, b in windows(top):
            for m in MODES:
                for rb in (False, True):
                    yield {"op": "icrop", "tier": tier, "a": a, "b": b, "mode": m, "rebase": rb, "grid": True}


def corpus():
    t = {"k": "I", "name": "a", "es": [[1.0, 2.0, "x"], [3.0, 4.0, "y"]], "lo": 0.0, "hi": 5.0}
    # A1 (fixed): empty selection with rebaseToZero raised IndexError
    yield {"op": "icrop", "tier": t, "a": 2.25, "b": 2.75, "mode": "strict", "rebase": True, "grid": True}
    yield {"op": "icrop", "tier": t, "a": 2.25, "b": 2.75, "mode": "truncated", "rebase": True, "grid": True}
    yield {"op": "icrop", "tier": dict(t, es=[]), "a": 1.0, "b": 2.0, "mode": "lax", "rebase": True, "grid": True}
    yield {"op": "icrop", "tier": t, "a": 1.5, "b": 3.5, "mode": "lax", "rebase": True, "grid": True}
    # A23 (fixed): a crop boundary one ulp beside an interval boundary; the cut-off piece vanishes when rebased
    t2 = {"k": "I", "name": "T", "es": [[1.805, 5.39, "a"]], "lo": 0.0, "hi": 10.0}
    yield {"op": "icrop", "tier": t2, "a": 0.362, "b": 1.8050000000000002, "mode": "truncated", "rebase": True, "grid": False}
    yield {"op": "icrop", "tier": t2, "a": 5.389999999999999, "b": 7.0, "mode": "truncated", "rebase": True, "grid": False}


def gen(rnd, tier):
    yield from gen_tier_level(rnd, tier)
    for i in range(20000 if tier == 'thorough' else 1500):
        domain = rnd.choice(['dec', 'dec', 'grid64'])
        c = tg_case(rnd, domain)
        c['grid'] = domain != 'dec'
        yield c


def tg_case(rnd, domain):
    g = tgops.gen_tg(rnd, domain, valid=rnd.random() < 0.8)
    pool = sorted({x for t in g['tiers'] for x in T.boundary_pool(t, rnd, domain)})
    pool = [x for x in pool if 0 <= x <= g['hi']]
    a, b = rnd.choice(pool), rnd.choice(pool)
    if a > b and rnd.random() < 0.95:
        a, b = b, a
    return {'op': 'tg_crop', 'tg': g, 'a': a, 'b': b, 'mode': rnd.choice(MODES), 'rebase': rnd.random() < 0.5}


def gen_tier_level(rnd, tier):
    if tier == "thorough":
        allc = list(family_cases(3))
        for c in allc:
            yield c
        big = list(family_cases(4, top=5))
        for c in rnd.sample(big, min(len(big), 150000)):
            yield c
        nrand = 60000
    else:
        allc = list(family_cases(2, top=5))
        for c in rnd.sample(allc, min(len(allc), 6000)):
            yield c
        c3 = list(family_cases(3, top=4))
        for c in rnd.sample(c3, min(len(c3), 4000)):
            yield c
        nrand = 6000
    for i in range(nrand):
        domain = rnd.choice(["dec", "dec", "grid64"])
        if rnd.random() < 0.75:
            t = T.gen_itier(rnd, domain, nmax=6, labels=T.LABELS)
            pool = T.boundary_pool(t, rnd, domain)
            a, b = rnd.choice(pool), rnd.choice(pool)
            if rnd.random() < 0.9 and a > b:
                a, b = b, a
            yield {"op": "icrop", "tier": t, "a": a, "b": b, "mode": rnd.choice(MODES), "rebase": rnd.random() < 0.5,
                   "grid": domain != "dec"}
        else:
            t = T.gen_ptier(rnd, domain, nmax=6, labels=T.LABELS)
            pool = T.boundary_pool(t, rnd, domain)
            a, b = rnd.choice(pool), rnd.choice(pool)
            if rnd.random() < 0.9 and a > b:
                a, b = b, a
            yield {"op": "pcrop", "tier": t, "a": a, "b": b, "mode": rnd.choice(MODES), "rebase": rnd.random() < 0.5,
                   "grid": domain != "dec"}


shrink = dispatch.shrink


def perturb(c, rnd):
    pool = T.boundary_pool(c["tier"], rnd, "dec")
    c2 = dict(c)
    k = rnd.choice(["a", "b", "mode", "rebase"])
    if k in ("a", "b"):
        c2[k] = rnd.choice(pool)
    elif k == "mode":
        c2["mode"] = rnd.choice(MODES)
    else:
        c2["rebase"] = not c["rebase"]
    c2["grid"] = False
    return c2


# living-object histories built from the step-wise cases above (harness/living.py)
import living  # noqa: E402
living.install(globals())
