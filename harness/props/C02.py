"""C02 — written TextGrid files are well-formed and all four formats say the same."""
from framework import Failure
import tiers as T
import tgops
import ioops
import iomodel

ESCALATE_MAX = 60000      # cases drawn at most when a changed source file makes the quick tier look harder
RULE = ("random well-formed textgrids as in C01 (a fifth on negative times; names with surrounding blanks and line breaks), labels and tier names additionally drawn from the formats' own keywords "
        "('item [2]:', 'intervals [1]:', '\"IntervalTier\"', 'text = \"x\"', 'ooTextFile short', ...) x includeBlankSpaces x "
        "optional minTimestamp/maxTimestamp overrides at / beyond the data span; each textgrid is written in all four "
        "formats and every text is decoded by the independent reader of harness/ioops.py (free-standing-token rule of "
        "Praat's manual; README JSON schemas); every textgrid additionally exercises the Lean JSON model: both JSON texts byte for "
        "byte (emitjson; now and then with Python ints as overrides, which json.dumps writes as ints and _fillInBlanks carries into "
        "the fillers), what parseTextgridStr reads from them, from a damaged copy and from an independently written document with "
        "the same content (parsejson), and unit cases for json.dumps of strings, the JSON number grammar and json.loads of random "
        "documents. non-trivial = the textgrid has at least one entry")
TRUSTED = ["oracle = the independent spec reader spec_decode/json_decode in harness/ioops.py (validated against all Praat- and "
           "ELAN-written fixtures of the repository, see DESIGN §4 C02)",
           "CPython's json module (json.dumps / json.loads) is trusted as a component and compared on every case with its Lean model "
           "(lean/PraatModel/Json.lean): the written JSON text byte for byte with Json.render (op emitjson), the reader with Json.parse + "
           "tgOfJson (ops parsejson, u_jsonstr, u_jsonnum, u_jsondoc); hypothesis JsonNum of C02.decode_json_full / decode_json_simple "
           "(float.__repr__ of a time is a number of the JSON grammar) is sampled on every time of every case (oracle clause 'jsonnum'); "
           "distinct tier names (hypothesis of decode_json_simple) are the Textgrid class's own invariant"]
ASSUMPTIONS = ["labels and names contain no carriage return; intervals and gaps >= 1e-6 long"]

case_json = lambda c: c
case_from_json = lambda j: j


def wants_x(c):
    return False


encode = iomodel.encode
render = iomodel.render
canon = iomodel.canon


def impl(c):
    if c["op"] in iomodel.MODEL_OPS:
        return iomodel.impl(c)
    return {fmt: ioops.save_text(c["tg"], fmt, c["blanks"], c.get("min"), c.get("max"), via_file=False) for fmt in ioops.FORMATS}


def expected(c):
    g = c["tg"]
    lo = g["lo"] if c.get("min") is None else c["min"]
    hi = g["hi"] if c.get("max") is None else c["max"]
    tiers = []
    for t in g["tiers"]:
        es = [list(e) for e in t["es"]]
        if t["k"] == "I" and c["blanks"]:
            filled = []
            prev = lo
            for s, e, l in es:
                if s > prev:
                    filled.append([prev, s, ""])
                filled.append([s, e, l])
                prev = e
            if prev < hi:            # an empty tier: one blank over the span (a span of length zero holds no interval)
                filled.append([prev, hi, ""])
            es = filled
        # a minTimestamp / maxTimestamp override is the span of every tier too (A27)
        tiers.append({"k": t["k"], "name": t["name"], "lo": t["lo"] if c.get("min") is None else c["min"],
                      "hi": t["hi"] if c.get("max") is None else c["max"], "es": es})
    return {"lo": lo, "hi": hi, "tiers": tiers}


def same_content(want, got, fmt, sig):
    if [t["name"] for t in got["tiers"]] != [t["name"] for t in want["tiers"]]:
        return Failure(dict(sig, clause="names"), f"{fmt}: names {[t['name'] for t in got['tiers']]} expected {[t['name'] for t in want['tiers']]}")
    if not (ioops.time_ok(want["lo"], got["lo"]) and ioops.time_ok(want["hi"], got["hi"])):
        return Failure(dict(sig, clause="span"), f"{fmt}: span [{got['lo']!r},{got['hi']!r}] expected [{want['lo']!r},{want['hi']!r}]")
    for w, t in zip(want["tiers"], got["tiers"]):
        if w["k"] != t["k"]:
            return Failure(dict(sig, clause="type"), f"{fmt}: tier {t['name']!r} has the wrong class")
        if fmt != "json" and not (ioops.time_ok(w["lo"], t["lo"]) and ioops.time_ok(w["hi"], t["hi"])):
            return Failure(dict(sig, clause="tier-span"), f"{fmt}: tier {t['name']!r} span [{t['lo']!r},{t['hi']!r}] expected [{w['lo']!r},{w['hi']!r}]")
        if len(w["es"]) != len(t["es"]):
            return Failure(dict(sig, clause="entries"), f"{fmt}: tier {t['name']!r}: {t['es']} expected {w['es']}")
        for a, b in zip(w["es"], t["es"]):
            if a[-1] != b[-1]:
                return Failure(dict(sig, clause="label"), f"{fmt}: tier {t['name']!r}: label {b[-1]!r} expected {a[-1]!r}")
            if not all(ioops.time_ok(x, y) for x, y in zip(a[:-1], b[:-1])):
                return Failure(dict(sig, clause="time"), f"{fmt}: tier {t['name']!r}: times {b[:-1]!r} expected {a[:-1]!r}")
    return None


def oracle(c, r):
    if c["op"] in iomodel.MODEL_OPS:
        return None          # model-correspondence case: compared with the Lean model only
    want = expected(c)
    import props.C01 as C01
    for x in C01.times_of(want):   # sampled hypothesis of C02.decode_json_full / decode_json_simple: json.dumps writes JSON numerals
        if not C01.jsonnum_ok(iomodel.numeral(x)):
            return Failure({"op": "write", "clause": "jsonnum"}, f"json.dumps({x!r}) = {iomodel.numeral(x)!r} is not a JSON number")
    decoded = {}
    for fmt in ioops.FORMATS:
        sig = {"op": "write", "fmt": fmt}
        if r[fmt][0] == "err":
            return Failure(dict(sig, clause="save", exc=r[fmt][1]), f"{fmt}: save raised {r[fmt][1]}")
        try:
            got = ioops.decode_any(r[fmt][1], fmt)
        except (ioops.SpecError, ValueError, KeyError, TypeError) as e:
            return Failure(dict(sig, clause="well-formed"), f"{fmt}: the written text is not a well-formed document: {e}")
        decoded[fmt] = got
        f = None if c.get("sliver") else same_content(want, got, fmt, sig)
        if f:
            return f
        if c["blanks"]:
            for t in got["tiers"]:
                if t["k"] != "I":
                    continue
                es = t["es"]
                if not es or es[0][0] != got["lo"] or es[-1][1] != got["hi"] or any(not e[0] < e[1] for e in es) or \
                        any(x[1] != y[0] for x, y in zip(es, es[1:])):
                    fsig = dict(sig, clause="partition")
                    bad = [e for e in es if not e[0] < e[1]]
                    rest = [e for e in es if e[0] < e[1]]
                    if fmt in ("short_textgrid", "long_textgrid") and bad and all(e[0] == e[1] and float(e[0]).is_integer() and e[2] == "" for e in bad) and \
                            rest and rest[0][0] == got["lo"] and rest[-1][1] == got["hi"] and all(x[1] == y[0] for x, y in zip(rest, rest[1:])):
                        # the only flaw: a filler whose two distinct ends were both written as the same integer by numToStr
                        fsig["cause"] = "integer-snap-collapse"
                    return Failure(fsig, f"{fmt}: tier {t['name']!r} is not a partition of [{got['lo']},{got['hi']}]: {es}")
    # the four formats agree (json keeps one span for all tiers)
    ref = decoded["textgrid_json"]
    for fmt in ("short_textgrid", "long_textgrid", "json"):
        f = same_content(ref, decoded[fmt], fmt, {"op": "write", "fmt": fmt, "clause": "formats-agree"})
        if f:
            return Failure({"op": "write", "fmt": fmt, "clause": "formats-agree"}, f.message)
    return None


def tags(c, r):
    if c["op"] in iomodel.MODEL_OPS:
        return ["model:" + c["op"]] + (["err:" + r[1]] if r[0] == "err" else [])
    out = ["blanks:%s" % c["blanks"], c.get("stream", "plain"), "override:%s" % (c.get("min") is not None or c.get("max") is not None)]
    for fmt in ioops.FORMATS:
        if r[fmt][0] == "err":
            out.append(f"{fmt}-err:{r[fmt][1]}")
    return out


def nontrivial(c, r):
    if c["op"] in iomodel.MODEL_OPS:
        return True
    return any(t["es"] for t in c["tg"]["tiers"])


def corpus():
    g = {"lo": 0.0, "hi": 5.0, "tiers": [{"k": "I", "name": "item [1]", "es": [[1.0, 2.0, "item [2]:"], [3.0, 4.0, '"IntervalTier"']], "lo": 0.0, "hi": 5.0},
                                       {"k": "P", "name": "p", "es": [[1.0, 'text = "x"'], [2.0, "ooTextFile short"]], "lo": 0.0, "hi": 5.0}]}
    yield {"op": "write", "tg": g, "blanks": True, "stream": "keyword"}
    yield {"op": "write", "tg": g, "blanks": False, "min": 0.0, "max": 9.5, "stream": "keyword"}
    # known finding N1: two distinct boundaries written as the same integer (numToStr's relative tolerance at 5e14 s)
    big = 476998082679942.06
    yield {"op": "write", "tg": {"lo": 0.0, "hi": big, "tiers": [{"k": "I", "name": "phones", "es": [[724.99999999275, big, ""]], "lo": 0.0, "hi": big}]},
           "blanks": True, "stream": "plain", "max": 476998082679942.2, "min": 0.0}
    # seeded-change regressions: quote at the end of a non-final line of a point mark; a time a few ulps below an integer
    q = {"lo": 0.0, "hi": 5.0, "tiers": [{"k": "P", "name": "p", "es": [[1.0, 'say "ah"\nrising'], [2.0, '"\n"']], "lo": 0.0, "hi": 5.0},
                                       {"k": "I", "name": "i", "es": [[1.0, 2.9999999999999996, 'a"\nb']], "lo": 0.0, "hi": 5.0}]}
    yield {"op": "write", "tg": q, "blanks": True, "stream": "plain"}
    import props.C01 as C01
    for c in C01.json_corpus():
        if c["op"] == "roundtrip":
            if c["blanks"]:
                yield {"op": "write", "tg": c["tg"], "blanks": True, "stream": "plain"}
                yield {"op": "write", "tg": c["tg"], "blanks": False, "stream": "plain", "max": 7.5}
        else:
            yield c


def gen(rnd, tier):
    for c in gen_main(rnd, tier):
        yield c
        yield from derived(c, rnd)


def derived(c, rnd):
    import props.C01 as C01
    yield from C01.json_derived(c["tg"], c["blanks"], c.get("min"), c.get("max"), rnd.random() < 0.5, rnd)
    if rnd.random() < 0.15:       # Python ints as overrides: written as ints, and carried into the fillers
        top = int(max([c["tg"]["hi"]] + [x for t in c["tg"]["tiers"] for e in t["es"] for x in e[:-1]])) + rnd.choice([1, 2, 10])
        if top < 2 ** 40:
            for fmt in ("json", "textgrid_json"):
                yield {"op": "emitjson", "tg": c["tg"], "fmt": fmt, "blanks": c["blanks"], "min": rnd.choice([None, 0]), "max": top, "minlen": 1e-8}
    k = rnd.random()
    if k < 0.1:
        yield {"op": "u_jsonstr", "s": ioops.rand_jstring(rnd)}
    elif k < 0.2:
        yield {"op": "u_jsonnum", "s": ioops.rand_numword(rnd)}
    elif k < 0.35:
        text = ioops.jdoc_variant(ioops.rand_jdoc(rnd), rnd)
        yield {"op": "u_jsondoc", "s": text}
        yield {"op": "u_jsondoc", "s": ioops.json_break(text, rnd)}
    for fmt in ("short_textgrid", "long_textgrid"):
        yield {"op": "emit", "tg": c["tg"], "fmt": fmt, "blanks": c["blanks"], "min": c.get("min"), "max": c.get("max"), "minlen": 1e-8}
        r = ioops.save_text(c["tg"], fmt, c["blanks"], c.get("min"), c.get("max"), via_file=False)
        if r[0] == "ok":
            yield {"op": "specread", "text": r[1]}      # the Lean spec reader against the Python one, on praatio's output


def gen_main(rnd, tier):
    import props.C01 as C01
    n = 20000 if tier == "thorough" else 2000
    for i in range(n):
        kw = rnd.random() < 0.5
        labels = ioops.PLAIN_LABELS + (ioops.KEYWORD_LABELS * 2 if kw else [])
        names = ioops.NAMES + (ioops.KEYWORD_NAMES if kw else [])
        g = C01.despace(ioops.gen_tg(rnd, rnd.choice(["full", "simple"]), labels=labels, names=names), rnd)
        if rnd.random() < 0.2:
            g = ioops.negate_tg(g, rnd)         # negative times: all below 0, or on both sides of it
        c = {"op": "write", "tg": g, "blanks": rnd.random() < 0.7, "stream": "keyword" if kw else "plain"}
        itiers = [j for j, t in enumerate(g["tiers"]) if t["k"] == "I"]
        if itiers and g["lo"] == 0.0 and rnd.random() < 0.08:
            # an interval tier with slivers and cracks below the default threshold 1e-8 between its entries (what a chain of
            # edits leaves behind): which entries absorb what is C04's subject, but the file must still be a well-formed
            # gap-free partition in every format and the four formats must agree (round 4, C02-mutH: cracks no longer filled)
            import props.C04 as C04
            es = C04.gen_sliver_tier(rnd, 1e-8)
            if es:
                j = rnd.choice(itiers)
                top = max(g["hi"], es[-1][1] + rnd.choice([0.0, 5e-9, 1.0]))
                g = dict(g, hi=top, tiers=[dict(t, hi=top, es=(es if i == j else t["es"])) for i, t in enumerate(g["tiers"])])
                c.update(tg=g, blanks=True, sliver=True)
                yield c
                continue
        if not c["blanks"] and rnd.random() < 0.35:
            # a tier whose own span is narrower than the textgrid's (written verbatim when blank filling is off): the file
            # must carry the tier's own xmin/xmax, not the textgrid's
            c["tg"] = g = C01.narrow_one_tier(g, rnd)
            yield c
            continue
        if rnd.random() < 0.3:
            c["max"] = rnd.choice([g["hi"], g["hi"] + 1.0, g["hi"] + 0.123])
        if rnd.random() < 0.1:
            c["min"] = g["lo"] + 0.0
        yield c


def shrink(c):
    import props.C01 as C01
    yield from C01.shrink(c)
