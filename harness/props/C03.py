"""C03 — the reader returns exactly what a spec-conformant TextGrid file encodes."""
from framework import Failure
import tiers as T
import tgops
import ioops
import iomodel

RULE = ("files produced by the independent writer of harness/ioops.py (not praatio's emitters) from random tier data: labels "
        "with quotes / newlines / Unicode, empty tiers, blank-labelled intervals, duplicate tier names; numerals in plain, "
        "integer and exponent notation, '-0' starts, negative times (a fifth of the files: wholly below 0, or on both sides of it), tier names with "
        "surrounding blanks / tabs and with line breaks x layouts {long, short, elan-long, tight-long (no blank before '='), json, textgrid_json} x encodings "
        "{utf-8, utf-8-sig, utf-16 LE/BE with BOM} x newline {LF, CRLF} x includeEmptyIntervals x duplicateNamesMode; "
        "each file is opened with textgrid.openTextgrid and compared with the data it was written from; the decoded text is also "
        "given to the Lean reader model. non-trivial = the data has at least one entry")
TRUSTED = ["oracle: the data the file was written from (harness/props/C03.py:oracle); Python codecs; the independent writer "
           "ioops.spec_write/json_write (its output is decoded back by the independent reader in the same run)"]
ASSUMPTIONS = ["labels and names avoid the reader-splitting keywords of known finding A10 (C01 reports those)",
               "names non-empty; no carriage returns in labels"]
LAYOUTS = ["long", "short", "elan", "tight", "json", "textgrid_json"]
ENCODINGS = ["utf-8", "utf-8-sig", "utf-16", "utf-16-le-bom", "utf-16-be-bom"]

case_json = lambda c: c
case_from_json = lambda j: j


def wants_x(c):
    return False


encode = iomodel.encode
render = iomodel.render
canon = iomodel.canon


def file_text(c):
    d = c["data"]
    if c["layout"] in ("json", "textgrid_json"):
        return ioops.json_write(d, c["layout"])
    return ioops.spec_write(d, c["layout"], c["style"], c.get("negzero", False))


def write_bytes(text, enc, newline):
    data = text.replace("\n", newline)
    if enc == "utf-16-le-bom":
        return b"\xff\xfe" + data.encode("utf-16-le")
    if enc == "utf-16-be-bom":
        return b"\xfe\xff" + data.encode("utf-16-be")
    return data.encode(enc)


def impl(c):
    if c["op"] in iomodel.MODEL_OPS:
        return iomodel.impl(c)
    import io
    import os
    from praatio import textgrid as ptextgrid
    text = file_text(c)
    fn = os.path.join(ioops.tmpdir(), "r.TextGrid")
    with io.open(fn, "wb") as fd:
        fd.write(write_bytes(text, c["enc"], c["newline"]))
    r = T.call(lambda: ptextgrid.openTextgrid(fn, c["iei"], "silence", c["dup"]))
    if r[0] == "ok":
        r = ("ok", tgops.snap(r[1]))
    return {"open": r, "text": text, "parse": iomodel.impl_parse(text, c["iei"])}


def renamed(names):
    out = []
    for n in names:
        new = n
        i = 2
        while new in out:
            new = f"{n}_{i}"
            i += 1
        out.append(new)
    return out


def oracle(c, r):
    if c["op"] in iomodel.MODEL_OPS:
        return None          # model-correspondence case: compared with the Lean model only
    d = c["data"]
    sig = {"op": "open", "layout": c["layout"]}
    # the independent writer and the independent reader agree on this file (guards the oracle itself)
    try:
        back = ioops.decode_any(r["text"], {"long": "long_textgrid", "short": "short_textgrid", "elan": "long_textgrid", "tight": "long_textgrid"}.get(c["layout"], c["layout"]))
    except Exception as e:  # noqa: BLE001
        raise AssertionError(f"independent writer/reader disagree: {e}")
    names = [t["name"] for t in d["tiers"]]
    dup = len(set(names)) != len(names)
    o = r["open"]
    if c["layout"] == "json" and dup:
        return None  # the plain json schema (a hash keyed by name) cannot encode duplicate names
    if dup and c["dup"] == "error":
        if o[0] == "err" and o[1] == "DuplicateTierName":
            return None
        return Failure(dict(sig, clause="duplicate-error"), f"duplicate names with duplicateNamesMode='error' gave {o[:2]}")
    if o[0] == "err":
        return Failure(dict(sig, clause="no-error", exc=o[1], enc=c["enc"], style=c["style"]), f"openTextgrid raised {o[1]}")
    got = o[1]
    want_names = renamed(names) if dup else names
    if [t["name"] for t in got["tiers"]] != want_names:
        return Failure(dict(sig, clause="names"), f"names {[t['name'] for t in got['tiers']]} expected {want_names}")
    if (got["lo"], got["hi"]) != (d["lo"], d["hi"]):
        return Failure(dict(sig, clause="span"), f"span [{got['lo']!r},{got['hi']!r}] expected [{d['lo']!r},{d['hi']!r}]")
    for w, t in zip(d["tiers"], got["tiers"]):
        if w["k"] != t["k"]:
            return Failure(dict(sig, clause="type"), f"tier {t['name']!r} has the wrong class")
        es = [e for e in w["es"] if c["iei"] or e[-1] != ""]
        wlo, whi = (w["lo"], w["hi"]) if c["layout"] != "json" else (d["lo"], d["hi"])
        # the tier span is the hull of the encoded span and the entries (constructor)
        if (t["lo"], t["hi"]) != (wlo, whi):
            return Failure(dict(sig, clause="tier-span"), f"tier {t['name']!r} span [{t['lo']!r},{t['hi']!r}] expected [{wlo!r},{whi!r}]")
        if len(es) != len(t["es"]):
            return Failure(dict(sig, clause="entries", iei=c["iei"]), f"tier {t['name']!r}: {t['es']} expected {es}")
        for a, b in zip(es, t["es"]):
            if a[-1] != b[-1]:
                # a lone carriage return inside a label comes back as a line feed from the text formats (the files are read with
                # universal newlines): known finding A35, narrow signature lone_cr
                lone_cr = "\r" in a[-1].replace("\r\n", "") and b[-1] == a[-1].replace("\r\n", "\n").replace("\r", "\n")
                return Failure(dict(sig, clause="label", **({"lone_cr": True} if lone_cr else {})),
                               f"tier {t['name']!r}: label {b[-1]!r} expected {a[-1]!r}")
            if list(a[:-1]) != list(b[:-1]):
                return Failure(dict(sig, clause="time", style=c["style"]), f"tier {t['name']!r}: times {b[:-1]!r} expected {a[:-1]!r}")
    return None


def tags(c, r):
    if c["op"] in iomodel.MODEL_OPS:
        return ["model:" + c["op"]] + (["err:" + r[1]] if r[0] == "err" else [])
    out = ["layout:" + c["layout"], "enc:" + c["enc"], "nl:" + ("crlf" if c["newline"] == "\r\n" else "lf"), "style:" + c["style"],
           "iei:%s" % c["iei"], "dup:" + c["dup"]]
    if r["open"][0] == "err":
        out.append("err:" + r["open"][1])
    return out


def nontrivial(c, r):
    if c["op"] in iomodel.MODEL_OPS:
        return True
    return any(t["es"] for t in c["data"]["tiers"])


SAFE_LABELS = [l for l in ioops.PLAIN_LABELS if ioops.keyword_cause([l]) is None]


def gen_data(rnd, style):
    import props.C01 as C01
    g = C01.despace(ioops.gen_tg(rnd, "simple" if style != "exp" else "full", labels=SAFE_LABELS + ["", ""], names=["w", "p", "t 1", "é", "n\"q"] + ioops.BLANK_NAMES + ioops.NL_NAMES + ioops.ROW_NAMES), rnd)
    d = {"lo": g["lo"], "hi": g["hi"], "tiers": g["tiers"]}
    if style == "exp":
        # make sure some numerals really use an exponent
        for t in d["tiers"]:
            if t["k"] == "P" and rnd.random() < 0.7:
                t["es"] = sorted(t["es"] + [[rnd.choice([1e-05, 2.5e-07, 3e-05]), "tiny"]])
    if rnd.random() < 0.25 and len(d["tiers"]) > 1:
        d["tiers"][1]["name"] = d["tiers"][0]["name"]          # duplicate names
        if len(d["tiers"]) > 2 and rnd.random() < 0.5:
            d["tiers"][2]["name"] = d["tiers"][0]["name"]
    if rnd.random() < 0.2:
        d = ioops.negate_tg(d, rnd)             # negative times: all below 0, or on both sides of it (A30, fixed)
    return d


def corpus():
    d = {"lo": 0.0, "hi": 5.0, "tiers": [{"k": "I", "name": "a", "es": [[0.0, 1.0, ""], [1.0, 2.0, 'q"t']], "lo": 0.0, "hi": 5.0},
                                       {"k": "P", "name": "a", "es": [[1e-05, "x"]], "lo": 0.0, "hi": 5.0}]}
    for layout in LAYOUTS:
        for enc in ("utf-8", "utf-8-sig", "utf-16"):                                   # A14 (fixed): BOM + json
            yield {"op": "open", "data": d, "layout": layout, "style": "exp", "enc": enc, "newline": "\r\n", "iei": True, "dup": "rename", "negzero": True}
    # seeded-change regression: a quote ending a non-final line of a point mark / an interval text
    d2 = {"lo": 0.0, "hi": 5.0, "tiers": [{"k": "P", "name": "p", "es": [[1.0, 'say "ah"\nrising'], [2.0, '"\n"']], "lo": 0.0, "hi": 5.0},
                                        {"k": "I", "name": "i", "es": [[1.0, 2.0, 'a"\nb']], "lo": 0.0, "hi": 5.0}]}
    for layout in LAYOUTS:
        yield {"op": "open", "data": d2, "layout": layout, "style": "plain", "enc": "utf-8", "newline": "\n", "iei": True, "dup": "error", "negzero": False}
    # A22 (fixed, df3976c): the class row written without the blank before '=' - an interval tier must stay an interval tier;
    # and a point tier whose name / mark spell the class row must stay a point tier
    d3 = {"lo": 0.0, "hi": 2.0, "tiers": [{"k": "I", "name": "a", "es": [[0.0, 1.0, "x y"]], "lo": 0.0, "hi": 2.0},
                                        {"k": "P", "name": 'class= "IntervalTier"', "es": [[1.0, 'class="IntervalTier"']], "lo": 0.0, "hi": 2.0}]}
    for nl in ("\n", "\r\n"):
        yield {"op": "open", "data": d3, "layout": "tight", "style": "plain", "enc": "utf-8", "newline": nl, "iei": True, "dup": "error", "negzero": False}
    # A30 (fixed): negative times (Praat writes them for a time domain that starts before 0) in every layout
    d4 = {"lo": -3.0, "hi": 2.0, "tiers": [{"k": "I", "name": "a", "es": [[-2.5, -1.0, "x"], [-1.0, 0.0, ""], [0.5, 1.0, "y"]], "lo": -3.0, "hi": 2.0},
                                         {"k": "P", "name": "p", "es": [[-2.0, "m"], [-1e-05, "tiny"], [1.5, "n"]], "lo": -3.0, "hi": 2.0}]}
    for layout in LAYOUTS:
        for style in ("plain", "exp", "float"):
            yield {"op": "open", "data": d4, "layout": layout, "style": style, "enc": "utf-8", "newline": "\n", "iei": True, "dup": "error", "negzero": style == "plain"}
    # A31 (fixed): tier names with surrounding blanks / tabs in every layout (long and short encodings open to equal textgrids)
    d5 = {"lo": 0.0, "hi": 2.0, "tiers": [{"k": "I", "name": " a b ", "es": [[0.0, 1.0, "x"]], "lo": 0.0, "hi": 2.0},
                                        {"k": "P", "name": "\tq ", "es": [[0.5, "m"]], "lo": 0.0, "hi": 2.0}]}
    for layout in LAYOUTS:
        yield {"op": "open", "data": d5, "layout": layout, "style": "plain", "enc": "utf-8", "newline": "\n", "iei": True, "dup": "error", "negzero": False}
    # A32 (fixed): tier names with line breaks in every layout
    d6 = {"lo": 0.0, "hi": 2.0, "tiers": [{"k": "I", "name": "c\nd", "es": [[0.0, 1.0, "x"]], "lo": 0.0, "hi": 2.0},
                                        {"k": "P", "name": " e\n f\"g\" \n", "es": [[0.5, "m"]], "lo": 0.0, "hi": 2.0}]}
    for layout in LAYOUTS:
        for nl in ("\n", "\r\n"):
            yield {"op": "open", "data": d6, "layout": layout, "style": "plain", "enc": "utf-8", "newline": nl, "iei": True, "dup": "error", "negzero": False}
    for t in ['name = "a\nb" \n', 'name = "a\nb"x\n', 'name = "a" \nxmin = 0 \n', 'name = "a\n"\n"\n', 'name = "a\nb']:
        for da in (True, False):
            yield {"op": "u_text", "s": t, "kw": "name", "dotall": da}
            yield {"op": "u_textrest", "s": t, "kw": "name", "dotall": da}
    # A33 (fixed): a line of a multi-line name that reads like the tier's span row, in every layout; the name row with its rest
    d7 = {"lo": 0.0, "hi": 2.0, "tiers": [{"k": "P", "name": "xmin = 1\nb", "es": [[0.5, "p"]], "lo": 0.0, "hi": 2.0},
                                        {"k": "I", "name": "a\n xmax= -2.5 \nz", "es": [[0.5, 1.0, "x"]], "lo": 0.0, "hi": 2.0}]}
    for layout in LAYOUTS:
        yield {"op": "open", "data": d7, "layout": layout, "style": "plain", "enc": "utf-8", "newline": "\n", "iei": True, "dup": "error", "negzero": False}
    for t in ['name = "xmin = 1\nb" \n    xmin = 0 \n    xmax = 2 \n', 'name = "a" \n\n  \nxmin = 0', 'name = "a"', 'name = "a" x\nname= "b"\t\n "\n',
              'name = ""\n', 'xname = "q""" \n"']:
        yield {"op": "u_textrest", "s": t, "kw": "name", "dotall": True}
    for t in ['" a " \n', '"\ta\n "\nx', '"  ""q"" "\n', '" "\n', '""\n']:
        for st in (True, False):
            yield {"op": "u_fetchtext", "s": t, "i": 0, "anyerr": False, "strip": st}
    for t in ["xmin = -1.5 ", "xmax = -1.5", "number= -0\n", "xmax = - 1", "xmin = --1", "xmax = -.5e-3 \n", "xmax = -e5", "xmin = +1", "xmax = -\n1"]:
        for kw in ("xmin", "xmax", "number"):
            yield {"op": "u_num", "s": t, "kw": kw, "neg": True, "ascii": True}
    for t in ['class= "IntervalTier"', 'class ="IntervalTier"', 'class="IntervalTier"', 'class = "IntervalTier"', 'class  = "IntervalTier"',
              'xclass = "IntervalTier"', 'mark = "class = ""IntervalTier"""', 'class =\n"IntervalTier"', 'class = "IntervalTier', 'class == "IntervalTier"']:
        yield {"op": "u_class", "s": t}


def gen(rnd, tier):
    for c in gen_main(rnd, tier):
        yield c
        yield from derived(c, rnd)


UNIT_ALPHABET = ["xmin", "xmax", "text", "name", "number", "mark", "class", "\"IntervalTier\"", "IntervalTier", " ", "=", "\"", "\"\"", "\n", "\t", "\x1c", "1", "2.5", "-", "e", "E", "+", "e-05", ".", "a",
                 "item", "intervals", "[", " [", "\u0663", "\r", "\u3000"]


def unit_cases(rnd, n):
    """the hand-written matchers of the long-format reader model against `re` itself, and the short reader's row
    fetchers against the real helpers, on adversarial strings"""
    for _ in range(n):
        s = "".join(rnd.choice(UNIT_ALPHABET) for _ in range(rnd.randint(0, 14)))
        k = rnd.random()
        if k < 0.3:
            yield {"op": "u_num", "s": s, "kw": rnd.choice(["xmin", "xmax", "number"]), "neg": rnd.random() < 0.5, "ascii": True}
        elif k < 0.6:
            yield {"op": rnd.choice(["u_text", "u_text", "u_textrest"]), "s": s, "kw": rnd.choice(["text", "name", "mark"]), "dotall": rnd.random() < 0.6}
        elif k < 0.7:
            yield {"op": "u_split", "s": s, "kw": rnd.choice(["item", "intervals"])}
        elif k < 0.8:
            # the class test `class ?= ?"IntervalTier"` (A22): adversarial spacings, prefixes, doubled quotes
            t = "".join(rnd.choice(["class", "xclass", " ", "  ", "=", "\"IntervalTier\"", "\"\"IntervalTier\"\"", "\"TextTier\"", "IntervalTier", "\"",
                                    "\n", "mark = \"", "a"]) for _ in range(rnd.randint(0, 8)))
            yield {"op": "u_class", "s": rnd.choice([s, t, t])}
        else:
            t = "".join(rnd.choice(["\"", "\"\"", "a", " ", "\n", "b\"", "\"\"\"", "\t"]) for _ in range(rnd.randint(0, 10)))
            yield {"op": rnd.choice(["u_fetchtext", "u_fetchrow"]), "s": t, "i": rnd.randint(0, max(0, len(t))), "anyerr": False,
                   "strip": rnd.random() < 0.5}


def derived(c, rnd):
    if c["layout"] in ("long", "short", "elan", "tight"):
        yield {"op": "parse", "text": file_text(c), "iei": c["iei"]}
    yield from unit_cases(rnd, 2)
    if rnd.random() < 0.2:
        pool = ["a", "a", "a_2", "b", "a_3", "b_2"]
        names = [rnd.choice(pool) for _ in range(rnd.randint(1, 5))]
        yield {"op": "dupnames", "names": names, "mode": rnd.choice(["rename", "error"])}


def gen_main(rnd, tier):
    n = 30000 if tier == "thorough" else 2500
    for i in range(n):
        style = rnd.choice(["plain", "plain", "int", "exp", "float"])
        yield {"op": "open", "data": gen_data(rnd, style), "layout": rnd.choice(LAYOUTS), "style": style, "enc": rnd.choice(ENCODINGS),
               "newline": rnd.choice(["\n", "\r\n"]), "iei": rnd.random() < 0.5, "dup": rnd.choice(["error", "rename"]),
               "negzero": rnd.random() < 0.15}


def shrink(c):
    d = c["data"]
    for i in range(len(d["tiers"])):
        if len(d["tiers"]) > 1:
            yield dict(c, data=dict(d, tiers=d["tiers"][:i] + d["tiers"][i + 1:]))
    for i, t in enumerate(d["tiers"]):
        for s in T.shrink_spec(t):
            yield dict(c, data=dict(d, tiers=d["tiers"][:i] + [s] + d["tiers"][i + 1:]))
