"""C14 — boundary adjusters move times only as far as allowed and keep labels (dejitter, morph;
alignBoundariesAcrossTiers is exercised through the Textgrid harness, see props/C12.py op 'align')."""
from framework import Failure
import tiers as T
import tierops
import tgops
import dispatch

RULE = ("random interval/point tiers x reference tiers (interval or point) built by jittering the tier's own boundaries by "
        "0, +-maxDiff/2, exactly +-maxDiff, +-1.5 maxDiff, or unrelated; equidistant candidates; maxDiff in {1/64.., 0.001..0.5}; "
        "morph over tier pairs with equal / unequal counts x label filters {None, subsets of the label alphabet}. "
        "non-trivial = at least one timestamp is within maxDiff of a reference time (dejitter) / a selected interval "
        "changes duration (morph)")
TRUSTED = ["oracle: direct Python statement of the property (harness/props/C14.py:oracle)"]
ASSUMPTIONS = ["a timestamp whose distance to the nearest reference time is within 1e-12 relative of maxDifference may go "
               "either way in the oracle (the code's inclusive test has a 1e-14 relative slack); the model mirrors the code exactly",
               "error cases (empty reference, mismatched counts, two empty tiers) are compared only as 'raises'"]

case_json = lambda c: c
case_from_json = lambda j: j
encode = dispatch.encode
impl = dispatch.impl
render = dispatch.render


def wants_x(c):
    return c.get("grid", False)


def canon(c, line):
    if c.get("anyerr") and line.startswith("err"):
        return "err"
    return line


def ref_times(ref):
    return sorted({x for e in ref["es"] for x in e[:-1]})


def check_time(x, y, refs, md):
    """is y an allowed image of x?"""
    dist = min(abs(x - r) for r in refs)
    near = [r for r in refs if abs(x - r) <= dist * (1 + 1e-12) + 1e-300]
    if dist < md * (1 - 1e-12):
        return y in near
    if dist > md * (1 + 1e-12):
        return y == x
    return y == x or y in near


def oracle(c, r):
    if dispatch.is_tg(c):
        return tgops.oracle(c, r)
    op, t = c["op"], c["tier"]
    sig = {"op": op}
    if op in ("idejitter", "pdejitter"):
        refs = ref_times(c["ref"])
        if not refs:
            if r[0] == "err":
                return None
            return Failure(dict(sig, clause="empty-reference"), "empty reference did not raise")
        if r[0] == "err":
            if not r[2]:
                return Failure(dict(sig, clause="praatio-error", exc=r[1]), f"dejitter raised built-in {r[1]}")
            # allowed only if the adjustment would collapse or cross intervals: some allowed image must be ill-formed.
            # (checked with the nearest-image assignment the code uses)
            img = [[(min(refs, key=lambda q: abs(q - x)) if abs(x - min(refs, key=lambda q: abs(q - x))) <= c["maxdiff"] * (1 + 1e-12) else x)
                    for x in e[:-1]] + [e[-1]] for e in t["es"]]
            bad = T.wf_problems({"k": t["k"], "name": "", "es": img, "lo": min([t["lo"]] + [e[0] for e in img]), "hi": max([t["hi"]] + [e[-2] for e in img])})
            if not bad:
                return Failure(dict(sig, clause="spurious-error", exc=r[1]), f"dejitter raised {r[1]} although the adjusted tier is well-formed")
            return None
        res = r[1]
        if len(res["es"]) != len(t["es"]):
            return Failure(dict(sig, clause="count-order-labels"), f"entries {res['es']} vs {t['es']}")
        src = t["es"]
        if t["k"] == "P" and len(set(e[0] for e in res["es"])) < len(res["es"]):
            # points that were moved onto the same time have no defined order among themselves:
            # match them up by label inside each group of coinciding result points
            src = sorted(src, key=lambda e: (min([q[0] for q in res["es"] if q[1] == e[1] and check_time(e[0], q[0], refs, c["maxdiff"])] or [e[0]]), e[1]))
        if [e[-1] for e in res["es"]] != [e[-1] for e in src]:
            return Failure(dict(sig, clause="count-order-labels"), f"entries {res['es']} vs {t['es']}")
        for e0, e1 in zip(src, res["es"]):
            for x, y in zip(e0[:-1], e1[:-1]):
                if not check_time(x, y, refs, c["maxdiff"]):
                    return Failure(dict(sig, clause="moved-iff-within"), f"time {x} became {y}; refs {refs}, maxDifference {c['maxdiff']}")
        probs = T.wf_problems(res)
        if probs:
            return Failure(dict(sig, clause="well-formed"), f"result ill-formed: {probs[0]}")
        return None
    if op == "imorph":
        u = c["other"]
        if len(u["es"]) != len(t["es"]):
            return None if r[0] == "err" else Failure(dict(sig, clause="count-mismatch-raises"), "mismatched counts did not raise")
        if not t["es"]:
            if r[0] == "ok" and r[1]["es"] == [] and (r[1]["lo"], r[1]["hi"]) == (t["lo"], t["hi"]):
                return None
            return Failure(dict(sig, clause="empty-morph"), f"morph of two empty tiers gave {r[:2]}")
        if r[0] == "err" and r[1] == "TextgridStateError":
            # the one refusal rounding can cause (layer R, morph): a new duration so far below the ulp at the interval's place
            # that start + duration is the start again (a target interval a few ulps long near 0 morphed onto a source at
            # 10.0) - no float tier can hold that interval; a praatio error.  Met by the living histories, whose mutations insert
            # such entries.  The walk below is the code's own arithmetic.
            f0 = c.get("filter")
            last_src_end = last_new_end = None
            for e0, tg in zip(t["es"], u["es"]):
                ns = e0[0] if last_new_end is None else last_new_end + (e0[0] - last_src_end)
                ne = ns + ((tg[1] - tg[0]) if (f0 is None or e0[2] in f0) else (e0[1] - e0[0]))
                if not ns < ne:
                    return None
                last_src_end, last_new_end = e0[1], ne
        if r[0] == "err":
            if not r[2]:
                return Failure(dict(sig, clause="praatio-error", exc=r[1]), f"morph raised built-in {r[1]}")
            return Failure(dict(sig, clause="no-error", exc=r[1]), f"morph raised {r[1]}")
        res = r[1]
        f = c.get("filter")
        es0, es1 = t["es"], res["es"]
        if [e[2] for e in es0] != [e[2] for e in es1]:
            return Failure(dict(sig, clause="labels"), "labels changed")
        for i, (e0, e1, tg) in enumerate(zip(es0, es1, u["es"])):
            sel = f is None or e0[2] in f
            want = (tg[1] - tg[0]) if sel else (e0[1] - e0[0])
            if not T.close(e1[1] - e1[0], want):
                return Failure(dict(sig, clause="durations", selected=sel), f"interval {i} has duration {e1[1]-e1[0]}, expected {want}")
        for i in range(len(es0) - 1):
            if not T.close(es1[i + 1][0] - es1[i][1], es0[i + 1][0] - es0[i][1]):
                return Failure(dict(sig, clause="gaps"), f"gap after interval {i} changed")
        if not T.close(es1[0][0], es0[0][0]):
            return Failure(dict(sig, clause="first-start"), "first start changed")
        if not T.close(res["hi"] - es1[-1][1], t["hi"] - es0[-1][1]) or res["lo"] != t["lo"]:
            return Failure(dict(sig, clause="trailing-gap"), f"trailing gap {res['hi'] - es1[-1][1]} expected {t['hi'] - es0[-1][1]}")
        return None
    raise KeyError(op)


def tags(c, r):
    if dispatch.is_tg(c):
        return [c['op'], 'grid' if c.get('grid') else 'dec'] + (['err:' + r[1]] if r[0] == 'err' else [])
    out = [c["op"], "grid" if c.get("grid") else "dec"]
    if r[0] == "err":
        out.append("err:" + r[1])
    if c["op"] != "imorph":
        out.append("ref:" + c["ref"]["k"])
        if r[0] == "ok":
            moved = sum(1 for e0, e1 in zip(c["tier"]["es"], r[1]["es"]) for x, y in zip(e0[:-1], e1[:-1]) if x != y)
            out.append("moved:%d" % min(moved, 3))
    else:
        out.append("filter:" + ("none" if c.get("filter") is None else str(len(c["filter"]))))
    return out


def nontrivial(c, r):
    if dispatch.is_tg(c):
        return r[0] != 'ok' or r[1] != tgops.norm(c['tg'])
    if r[0] != "ok":
        return True
    if c["op"] == "imorph":
        return r[1]["es"] != c["tier"]["es"]
    return r[1]["es"] != c["tier"]["es"]


def corpus():
    t = {"k": "I", "name": "t", "es": [[1.0, 2.0, "a"], [2.0, 3.0, "b"]], "lo": 0.0, "hi": 4.0}
    ref = {"k": "P", "name": "r", "es": [[1.25, "x"], [1.75, "y"], [3.5, "z"]], "lo": 0.0, "hi": 4.0}
    yield {"op": "idejitter", "tier": t, "ref": ref, "maxdiff": 0.25, "grid": True}      # exactly maxDiff away, equidistant for 1.5? no: 2.0 -> 1.75
    yield {"op": "idejitter", "tier": t, "ref": ref, "maxdiff": 0.5, "grid": True}
    ref2 = {"k": "P", "name": "r", "es": [[1.5, "x"]], "lo": 0.0, "hi": 4.0}
    yield {"op": "idejitter", "tier": t, "ref": ref2, "maxdiff": 0.5, "grid": True}      # 1.0 and 2.0 both move to 1.5: collapse
    u = {"k": "I", "name": "u", "es": [[0.0, 0.5, "p"], [3.0, 5.0, "q"]], "lo": 0.0, "hi": 6.0}
    yield {"op": "imorph", "tier": t, "other": u, "filter": None, "grid": True}
    yield {"op": "imorph", "tier": t, "other": u, "filter": ["b"], "grid": True}
    # A19 (fixed): rounding drift made touching intervals overlap
    src = {"k": "I", "name": "T", "es": [[0.3, 5.489, "c"], [5.489, 5.62, "a"], [7.35, 7.63, "a"], [7.668, 8.288, "a"]], "lo": 0.3, "hi": 10.0}
    tgt = {"k": "I", "name": "U", "es": [[1.984, 2.3, ""], [2.384, 2.526, "a-b"], [2.526, 2.542, "x y"], [2.542, 4.9, ""]], "lo": 0.0, "hi": 10.0}
    yield {"op": "imorph", "tier": src, "other": tgt, "filter": ["c"], "grid": False}


def jitter_ref(rnd, t, md, domain):
    times = sorted({x for e in t["es"] for x in e[:-1]})
    out = set()
    ulps = set()
    # one time in ten (decimal domain) EVERY reference time is the boundary itself, a float a few ulps beside it, or far
    # away: adjustments far below the 1e-9 of the library's tolerant equality must still be made
    # (round 3, C14-v2: alignBoundariesAcrossTiers skipped a tier that "did not change" under ==)
    tiny = domain == "dec" and rnd.random() < 0.1
    for x in times:
        k = rnd.choice(["same", "ulp", "ulp", "none"]) if tiny else rnd.choice(["same", "half", "exact", "over", "none", "equi"])
        s = rnd.choice([-1, 1])
        if k == "same":
            out.add(x)
        elif k == "ulp":
            import math
            y = x
            for _ in range(rnd.randint(1, 3)):
                y = math.nextafter(y, s * math.inf)
            ulps.add(y)
        elif k == "half":
            out.add(x + s * md / 2)
        elif k == "exact":
            out.add(x + s * md)
        elif k == "over":
            out.add(x + s * md * 1.5)
        elif k == "equi":
            out.add(x - md / 2)
            out.add(x + md / 2)
    for _ in range(rnd.randint(0, 2)):
        out.add(rnd.choice(T.gen_times(rnd, domain, 1) or [1.0]))
    ts = sorted(x for x in out if x >= 0)
    if domain == "dec":
        ts = sorted({round(x, 6) for x in ts} | {y for y in ulps if y >= 0})
    if rnd.random() < 0.5 or len(ts) < 2:
        return {"k": "P", "name": "R", "es": [[x, "r"] for x in ts], "lo": 0.0, "hi": max([12.0] + ts)}
    es = [[ts[i], ts[i + 1], "r"] for i in range(0, len(ts) - 1, 2)]
    return {"k": "I", "name": "R", "es": es, "lo": 0.0, "hi": max([12.0] + ts)}


def gen(rnd, tier):
    yield from gen_tier_level(rnd, tier)
    for i in range(20000 if tier == "thorough" else 2000):
        domain = rnd.choice(["dec", "dec", "grid64"])
        g = tgops.gen_tg(rnd, domain, ntiers=rnd.randint(2, 3))
        md = rnd.choice([1 / 64, 1 / 16, 0.25]) if domain != "dec" else rnd.choice([0.001, 0.01, 0.05, 0.1])
        # make the first tier a jittered copy of the boundaries of the others, and use it as the reference
        src = {"k": "P", "name": "s", "es": [[x, ""] for x in sorted({x for t in g["tiers"][1:] for e in t["es"] for x in e[:-1]})], "lo": 0.0, "hi": 10.0}
        ref = jitter_ref(rnd, src, md, domain)
        ref = dict(ref, name=g["tiers"][0]["name"], lo=0.0, hi=max(ref["hi"], 10.0))
        top = max(ref["hi"], g["hi"])
        g = dict(g, hi=top, tiers=[dict(ref, hi=top)] + [dict(t, hi=top) for t in g["tiers"][1:]])
        c = {"op": "tg_align", "tg": g, "name": ref["name"], "maxdiff": md, "grid": domain != "dec"}
        if not ref["es"]:
            c["anyerr"] = True
        yield c


def gen_tier_level(rnd, tier):
    n = 60000 if tier == "thorough" else 8000
    for i in range(n):
        domain = rnd.choice(["dec", "dec", "grid64"])
        if rnd.random() < 0.65:
            t = T.gen_itier(rnd, domain, nmax=5) if rnd.random() < 0.7 else T.gen_ptier(rnd, domain, nmax=5)
            md = rnd.choice([1 / 64, 1 / 16, 0.25, 1.0]) if domain != "dec" else rnd.choice([0.001, 0.01, 0.05, 0.1, 0.5])
            ref = jitter_ref(rnd, t, md, domain)
            c = {"op": ("i" if t["k"] == "I" else "p") + "dejitter", "tier": t, "ref": ref, "maxdiff": md}
            if not ref["es"]:
                c["anyerr"] = True
            c["grid"] = domain != "dec"
            yield c
        else:
            t = T.gen_itier(rnd, domain, nmax=5, labels=["a", "b", "c"])
            u = T.gen_itier(rnd, domain, nmax=5, name="U")
            if rnd.random() < 0.8:
                # same count
                k = min(len(t["es"]), len(u["es"]))
                t = dict(t, es=t["es"][:k])
                u = dict(u, es=u["es"][:k])
            f = rnd.choice([None, None, ["a"], ["a", "b"], [], ["c"]])
            c = {"op": "imorph", "tier": t, "other": u, "filter": f, "grid": domain != "dec"}
            if len(t["es"]) != len(u["es"]):
                c["anyerr"] = True
            yield c


shrink = dispatch.shrink


# living-object histories built from the step-wise cases above (harness/living.py)
import living  # noqa: E402
living.install(globals())
