"""Shared vocabulary for the tier properties: case-level tier specs, builders, snapshots, generators,
shrinkers.  A tier spec is JSON-able:

    {"k": "I", "name": str, "es": [[s, e, label], ...], "lo": float, "hi": float}
    {"k": "P", "name": str, "es": [[t, label], ...],    "lo": float, "hi": float}
"""
import math
import io
import contextlib

from praatio.data_classes.interval_tier import IntervalTier
from praatio.data_classes.point_tier import PointTier
from praatio.utilities import errors as perrors

LABELS = ["a", "b", "c", "x y", "", "a-b", "é", "\U0001d11e", "a(b)", "q\"t", "l\nm"]


def build(spec):
    """real praatio object from a spec; the spec must already be in constructor-normal form"""
    with contextlib.redirect_stdout(io.StringIO()):
        if spec["k"] == "I":
            t = IntervalTier(spec["name"], [tuple(e) for e in spec["es"]], spec["lo"], spec["hi"])
        else:
            t = PointTier(spec["name"], [tuple(e) for e in spec["es"]], spec["lo"], spec["hi"])
    s2 = snap(t)
    if s2 != norm(spec):
        raise AssertionError(f"spec not in normal form: {spec} -> {s2}")
    # -0.0 == 0.0: the constructor's min()/max() may pick the other zero than the object this spec was read from had;
    # restore the recorded span bit for bit (the model is given exactly the spec)
    if math.copysign(1.0, t.minTimestamp) != math.copysign(1.0, spec["lo"]):
        t.minTimestamp = float(spec["lo"])
    if math.copysign(1.0, t.maxTimestamp) != math.copysign(1.0, spec["hi"]):
        t.maxTimestamp = float(spec["hi"])
    return t


def norm(spec):
    return {"k": spec["k"], "name": spec["name"], "es": [list(e) for e in spec["es"]],
            "lo": float(spec["lo"]), "hi": float(spec["hi"])}


def snap(t):
    """observable state of a real tier"""
    k = "I" if t.tierType == "IntervalTier" else "P"
    es = [[float(x) for x in e[:-1]] + [e[-1]] for e in t.entries]
    return {"k": k, "name": t.name, "es": es, "lo": float(t.minTimestamp), "hi": float(t.maxTimestamp)}


def enc_spec(enc, spec):
    if spec["k"] == "I":
        return enc.itier(spec["name"], spec["es"], spec["lo"], spec["hi"])
    return enc.ptier(spec["name"], spec["es"], spec["lo"], spec["hi"])


def call(fn):
    """run an implementation call; returns ("ok", value) or ("err", class name, is_praatio)"""
    try:
        with contextlib.redirect_stdout(io.StringIO()):
            v = fn()
        return ("ok", v)
    except Exception as e:  # noqa: BLE001 - the class is the observable
        return ("err", type(e).__name__, isinstance(e, perrors.PraatioException))


def render_tier_result(enc, r):
    if r[0] == "err":
        return "err " + r[1]
    return "ok " + enc_spec(enc, r[1])


# ---------------------------------------------------------------------------------------------
# well-formedness, straight from the property text (used by oracles)
# ---------------------------------------------------------------------------------------------
def wf_problems(s):
    out = []
    es = s["es"]
    if s["lo"] > s["hi"]:
        out.append(f"span reversed: minTimestamp {s['lo']} > maxTimestamp {s['hi']}")
    if s["k"] == "I":
        for a, b, l in es:
            if not a < b:
                out.append(f"start>=end {a},{b}")
            if a < s["lo"] or b > s["hi"]:
                out.append(f"outside span {a},{b} not in [{s['lo']},{s['hi']}]")
            if l != l.strip():
                out.append(f"label not stripped {l!r}")
        for x, y in zip(es, es[1:]):
            if x[1] > y[0]:
                out.append(f"overlap/out of order {x} {y}")
    else:
        for t, l in es:
            if t < s["lo"] or t > s["hi"]:
                out.append(f"outside span {t}")
            if l != l.strip():
                out.append(f"label not stripped {l!r}")
        for x, y in zip(es, es[1:]):
            if x[0] > y[0]:
                out.append(f"out of order {x} {y}")
    return out


def label_at(es, x):
    for s, e, l in es:
        if s <= x < e:
            return l
    return None


def close(a, b, tol=1e-9):
    return abs(a - b) <= tol * max(1.0, abs(a), abs(b))


# ---------------------------------------------------------------------------------------------
# generators
# ---------------------------------------------------------------------------------------------
def gen_times(rnd, domain, n, hi=10.0):
    """n distinct sorted times in (0, hi)"""
    out = set()
    guard = 0
    while len(out) < n and guard < 1000:
        guard += 1
        if domain == "grid":
            out.add(rnd.randint(1, int(hi * 4) - 1) / 4.0)
        elif domain == "grid64":
            out.add(rnd.randint(1, int(hi * 64) - 1) / 64.0)
        else:
            out.add(round(rnd.uniform(0.001, hi - 0.001), rnd.choice([1, 2, 3, 3])))
    return sorted(t for t in out if 0 < t < hi)


def gen_itier(rnd, domain="dec", nmax=5, name="T", labels=None, hi=10.0, lo_choice=None):
    labels = labels or LABELS[:6]
    n = rnd.randint(0, nmax)
    ts = gen_times(rnd, domain, 2 * n, hi)
    es = []
    i = 0
    while i + 1 < len(ts):
        es.append([ts[i], ts[i + 1], rnd.choice(labels).strip()])
        # touching (share the boundary) or a gap
        i += 1 if rnd.random() < 0.4 else 2
    lo = 0.0
    if es and (lo_choice == "tight" or (lo_choice is None and rnd.random() < 0.2)):
        lo = es[0][0]
    top = hi
    if es and rnd.random() < 0.25:
        top = es[-1][1]
    return {"k": "I", "name": name, "es": es, "lo": lo, "hi": top}


def gen_ptier(rnd, domain="dec", nmax=5, name="P", labels=None, hi=10.0):
    labels = labels or LABELS[:6]
    n = rnd.randint(0, nmax)
    ts = gen_times(rnd, domain, n, hi)
    es = [[t, rnd.choice(labels).strip()] for t in ts]
    es.sort()
    lo = 0.0
    top = hi
    if es and rnd.random() < 0.2:
        top = es[-1][0]
    return {"k": "P", "name": name, "es": es, "lo": lo, "hi": top}


def with_dup_times(rnd, spec, labels=("k", "b", "zz", "a", "", "b-a")):
    """a point-tier spec with a second (sometimes a third) point at the time of an existing one, under another — rarely the
    same — label.  The PointTier constructor accepts such tiers (finding A24 lived there); entries stay in (time, label)
    order, which is the order the constructor's sort gives"""
    if spec["k"] != "P" or not spec["es"]:
        return spec
    es = [list(e) for e in spec["es"]]
    for _ in range(rnd.choice([1, 1, 2])):
        t, l = rnd.choice(es)
        others = [x for x in labels if [t, x] not in es]
        lab = l if (rnd.random() < 0.1 or not others) else rnd.choice(others)
        es.append([t, lab])
    es.sort()
    return dict(spec, es=es)


def dup_times(spec):
    """the times that carry more than one point"""
    ts = [e[0] for e in spec["es"]]
    return sorted({t for t in ts if ts.count(t) > 1})


def boundary_pool(spec, rnd, domain, hi=10.0):
    """interesting times relative to a tier: its boundaries, midpoints, and fresh ones"""
    pool = [spec["lo"], spec["hi"]]
    for e in spec["es"]:
        pool.extend(e[:-1])
    mids = []
    srt = sorted(set(pool))
    for x, y in zip(srt, srt[1:]):
        mids.append((x + y) / 2 if domain != "dec" else round((x + y) / 2, 3))
    fresh = gen_times(rnd, domain, 2, hi)
    near = []
    if domain == "dec" and rnd.random() < 0.3:
        # a few ulps beside a boundary: exact comparisons and tolerant ones (1e-14 relative, 1e-9 absolute) part ways here
        for x in rnd.sample(srt, min(2, len(srt))):
            y = x
            for _ in range(rnd.randint(1, 3)):
                y = math.nextafter(y, rnd.choice([-math.inf, math.inf]))
            if y >= 0:
                near.append(y)
    return srt + mids + fresh + near


def outside_times(rnd, domain, lo, hi):
    """times before the start and after the end of a span (regions sticking out of / lying outside it)"""
    offs = [0.5, 1.0, 2.5, 20.0] if domain != "dec" else [round(rnd.uniform(0.01, 4), rnd.choice([1, 2, 3])), 0.3, 7.7]
    out = []
    for o in rnd.sample(offs, 2):
        out.append(lo - o)
        out.append(hi + o)
    return out


# ---------------------------------------------------------------------------------------------
# shrinking
# ---------------------------------------------------------------------------------------------
def shrink_spec(spec):
    es = spec["es"]
    for i in range(len(es)):
        yield dict(spec, es=es[:i] + es[i + 1:])
    for i, e in enumerate(es):
        if e[-1] not in ("a", ""):
            yield dict(spec, es=es[:i] + [e[:-1] + ["a"]] + es[i + 1:])


def round_times_case(case, keys):
    """variants of a case with times rounded to fewer digits (keeps structure when possible)"""
    for nd in (0, 1, 2):
        c = dict(case)
        ok = True
        for k in keys:
            if isinstance(c.get(k), float):
                c[k] = round(c[k], nd)
        yield c


def sample_points(*entry_lists, extra=()):
    """boundaries of all given interval lists plus midpoints between consecutive distinct boundaries
    (boundaries closer than 1e-7 are treated as one, so that ulp noise never creates a sample point)"""
    bs = sorted({float(x) for es in entry_lists for e in es for x in e[:2]} | {float(x) for x in extra})
    merged = []
    for x in bs:
        if not merged or x - merged[-1] > 1e-7:
            merged.append(x)
    pts = []
    for x, y in zip(merged, merged[1:]):
        pts.append((x + y) / 2)
    return pts


def labelling_diff(es_expected, es_got, extra=()):
    """first midpoint at which the two label-at-time functions differ, or None"""
    for x in sample_points(es_expected, es_got, extra=extra):
        le, lg = label_at(es_expected, x), label_at(es_got, x)
        if le != lg:
            return (x, le, lg)
    return None


def entries_close(es1, es2, tol=1e-9):
    if len(es1) != len(es2):
        return False
    for x, y in zip(es1, es2):
        if x[-1] != y[-1] or len(x) != len(y):
            return False
        if any(not close(p, q, tol) for p, q in zip(x[:-1], y[:-1])):
            return False
    return True
