"""praatio_scripts.splitTierEntries / spellCheckEntries (ops 'sc_split', 'sc_spell', 'u_wsplit'): cases, execution on
the real praatio objects, encoding, and oracles written from the property texts (C05: every returned tier is
well-formed or a praatio error is raised; C12: names / order / untouched tiers / span only widens; C13: a raising call and
the copy-returning spellCheckEntries leave the argument unchanged) plus the functional specification of the two
functions in exact (Fraction) arithmetic.  No model involved.  Shared by C05, C12 and C13.
"""
import math
from fractions import Fraction

from praatio import praatio_scripts

from framework import Failure
import tiers as T
import tgops

WORDS = ["the", "blue", "cat", "a", "b", "c", "é", "x-y", "q\"t", "1", "Cat"]
SEPS = [" ", " ", "  ", "\t", "\n", "\u00a0", "\u2003", " \x1c ", "\u3000", "\x85"]
PUNCT = ["_", ",", "'", '"', "!", "?", ".", ";"]


def is_sc(c):
    return c["op"].startswith("sc_") or c["op"] == "u_wsplit"


# ---------------------------------------------------------------------------------------------
# protocol
# ---------------------------------------------------------------------------------------------
def encode(c, enc):
    op = c["op"]
    if op == "u_wsplit":
        return "u_wsplit " + enc.s(c["s"])
    g = tgops.enc_tg(enc, c["tg"])
    if op == "sc_split":
        return f"sc_split {g} {enc.s(c['src'])} {enc.s(c['tgt'])} {enc.otime(c['a'])} {enc.otime(c['b'])}"
    if op == "sc_spell":
        ws = c["words"]
        return " ".join([f"sc_spell {g} {enc.s(c['target'])} {enc.s(c['new'])}", str(len(ws))] + [enc.s(w) for w in ws])
    raise KeyError(op)


def impl(c, objs=None):
    op = c["op"]
    if op == "u_wsplit":
        return ("ok", c["s"].split())
    g = tgops.build(c["tg"])
    if op == "sc_split":
        r = T.call(lambda: praatio_scripts.splitTierEntries(g, c["src"], c["tgt"], c["a"], c["b"]))
    else:
        ok = set(c["words"])
        r = T.call(lambda: praatio_scripts.spellCheckEntries(g, c["target"], c["new"], lambda w: w in ok))
    after = tgops.snap(g)
    if r[0] == "ok":
        res = r[1]
        return ("ok", tgops.snap(res), {"same": res is g, "arg": after, "shared": any(x is y for x in res.tiers for y in g.tiers),
                                       "valid": [T.call(lambda t=t: t.validate("silence")) for t in res.tiers]})
    return r + ({"arg": after},)


def c13_problems(c, r):
    """C13's clauses for the two functions, as (clause, object) pairs: spellCheckEntries is documented to work on a copy
    (argument unchanged whatever happens, another object returned, no tier object shared); splitTierEntries modifies and
    returns the textgrid it is given (neither in C13's list of copy-returning operations nor of mutators) — a raising call
    must leave it exactly as it was"""
    if c["op"] == "u_wsplit":
        return []
    info = r[2] if r[0] == "ok" else r[3]
    changed = info["arg"] != tgops.norm(c["tg"])
    out = []
    if c["op"] == "sc_spell":
        if changed:
            out.append(("argument-mutated", "tg"))
        if r[0] == "ok" and (info["same"] or info["shared"]):
            out.append(("copy-shares-objects-with-argument", "tg"))
    elif r[0] == "err" and changed:
        out.append(("failed-mutation-changes-nothing", "tg"))
    return out


def render(c, r, enc):
    if c["op"] == "u_wsplit":
        return " ".join(["ok", str(len(r[1]))] + [enc.s(w) for w in r[1]])
    if r[0] == "err":
        return "err " + r[1]
    return "ok " + tgops.enc_tg(enc, r[1])


def wants_x(c):
    # the exact run needs every time of the case AND of the result on the grid k/64 (the framework skips the X run when the
    # rendered result is off the grid): then every division `(end - start) / n` came out exactly, in floats and in integers
    return c["op"] != "u_wsplit" and c.get("grid", False)


def tags(c, r):
    if c["op"] == "u_wsplit":
        return ["u_wsplit", "words:%d" % min(len(r[1]), 5)]
    out = [c["op"], "grid" if c.get("grid") else "dec"]
    if r[0] == "err":
        out.append("err:" + r[1])
    if c["op"] == "sc_split":
        names = [t["name"] for t in c["tg"]["tiers"]]
        out.append("window" if (c["a"] is not None or c["b"] is not None) else "whole")
        out.append("target:" + ("existing" if c["tgt"] in names else "new"))
        if c["tgt"] == c["src"]:
            out.append("target=source")
    return out


def nontrivial(c, r):
    if c["op"] == "u_wsplit":
        return len(r[1]) > 1
    return r[0] == "err" or any(len(t["es"]) > 0 and t["name"] in (c.get("tgt"), c.get("new")) for t in r[1]["tiers"])


# ---------------------------------------------------------------------------------------------
# oracles
# ---------------------------------------------------------------------------------------------
def _tier(g, name):
    return next((t for t in g["tiers"] if t["name"] == name), None)


def _common(c, r, sig, newname):
    """clauses shared by both functions; returns (Failure | None, result snapshot | None)"""
    g = c["tg"]
    before = tgops.norm(g)
    names = [t["name"] for t in g["tiers"]]
    if r[0] == "err":
        # C13: a raising call changes nothing
        if r[3]["arg"] != before:
            return Failure(dict(sig, clause="failed-call-changes-nothing", exc=r[1]), f"{c['op']} raised {r[1]} and left the textgrid as {r[3]['arg']}"), None
        if c.get("anyerr"):
            return None, None
        if not r[2]:
            return Failure(dict(sig, clause="praatio-error", exc=r[1]), f"{c['op']} raised the built-in {r[1]}"), None
        return None, None
    if c.get("anyerr"):
        return Failure(dict(sig, clause="rejected"), f"{c['op']} accepted {c['anyerr']}"), None
    res = r[1]
    # C05: every tier of the returned textgrid is well-formed and validate() agrees
    for t, v in zip(res["tiers"], r[2]["valid"]):
        probs = T.wf_problems(t)
        if probs:
            return Failure(dict(sig, clause="well-formed"), f"tier {t['name']!r} of the result is ill-formed: {probs[0]}"), None
        if v != ("ok", True):
            return Failure(dict(sig, clause="validate-agrees"), f"validate() of tier {t['name']!r} gives {v}"), None
    # C12: names and order, the other tiers untouched, the span only widens
    want = [n for n in names if n != newname] + [newname]
    if [t["name"] for t in res["tiers"]] != want:
        return Failure(dict(sig, clause="names-order"), f"names {[t['name'] for t in res['tiers']]} expected {want}"), None
    for t in before["tiers"]:
        if t["name"] != newname and _tier(res, t["name"]) != t:
            return Failure(dict(sig, clause="other-tiers-untouched"), f"tier {t['name']!r} changed: {_tier(res, t['name'])}"), None
    if res["lo"] > before["lo"] or res["hi"] < before["hi"]:
        return Failure(dict(sig, clause="span-only-widens"), f"span [{before['lo']},{before['hi']}] became [{res['lo']},{res['hi']}]"), None
    nt = _tier(res, newname)
    if res["lo"] > nt["lo"] or res["hi"] < nt["hi"]:
        return Failure(dict(sig, clause="span-covers-added-tier"), f"span [{res['lo']},{res['hi']}] does not cover [{nt['lo']},{nt['hi']}]"), None
    return None, res


def _clip(es, a, b):
    """the part of each interval inside [a, b] (positive length only) — crop 'truncated'"""
    out = []
    for s, e, l in es:
        s2, e2 = max(s, a), min(e, b)
        if s2 < e2:
            out.append([s2, e2, l])
    return out


def _outside(es, a, b):
    """the parts of each interval outside (a, b) — eraseRegion 'truncate'"""
    out = []
    for s, e, l in es:
        if e <= a or s >= b:
            out.append([s, e, l])
            continue
        if s < a:
            out.append([s, a, l])
        if e > b:
            out.append([b, e, l])
    return out


def oracle_split(c, r):
    g = c["tg"]
    sig = {"op": "sc_split"}
    names = [t["name"] for t in g["tiers"]]
    window = c["a"] is not None or c["b"] is not None
    a = g["lo"] if c["a"] is None else c["a"]
    b = g["hi"] if c["b"] is None else c["b"]
    if window and a >= b and not c.get("anyerr"):
        if r[0] == "err" and r[2] and r[3]["arg"] == tgops.norm(g):
            return None
        return Failure(dict(sig, clause="degenerate-rejected"), f"startT>=endT not rejected by a praatio error: {r[:2]}")
    f, res = _common(c, r, sig, c["tgt"])
    if f is not None or res is None:
        if f is None and r[0] == "err" and not c.get("anyerr"):
            # in exact arithmetic every call on well-formed tiers succeeds; in floats only a word that rounds to nothing
            # may be refused (a window edge a few ulps beside a boundary leaves such a sliver of an entry)
            src = _tier(g, c["src"])
            ses = _clip([list(e) for e in src["es"]], a, b) if window else src["es"]
            if any((e - s) / max(1, len(l.split())) < 4 * math.ulp(e) for s, e, l in ses):
                return None
            return Failure(dict(sig, clause="no-error", exc=r[1]), f"splitTierEntries raised {r[1]}")
        return f
    # the function returns the textgrid it was given
    if not r[2]["same"] or r[2]["arg"] != res:
        return Failure(dict(sig, clause="returns-its-argument"), "the returned textgrid is not the (mutated) argument")
    src = _tier(g, c["src"])
    ses = [list(e) for e in src["es"]] if src["k"] == "I" else []
    if window:
        ses = _clip(ses, a, b)
    got = _tier(res, c["tgt"])["es"]
    old = _tier(g, c["tgt"])
    kept = _outside([list(e) for e in old["es"]], a, b) if (window and old is not None) else []
    # exact expectation: the words of every source entry tile that entry in order
    want = [(Fraction(s), Fraction(e), l, "kept") for s, e, l in kept]
    for s, e, l in ses:
        ws = l.split()
        n = len(ws)
        for i, w in enumerate(ws):
            want.append((Fraction(s) + (Fraction(e) - Fraction(s)) * i / n, Fraction(s) + (Fraction(e) - Fraction(s)) * (i + 1) / n, w,
                         ("first" if i == 0 else "") + ("last" if i == n - 1 else "")))
    want.sort(key=lambda x: x[0])
    if len(got) != len(want):
        return Failure(dict(sig, clause="nothing-else-added"), f"{len(got)} entries in the target, {len(want)} expected: {got}")
    for (s, e, l), (ws, we, wl, kind), nxt in zip(got, want, list(want[1:]) + [None]):
        if l != wl:
            return Failure(dict(sig, clause="labels-are-the-words"), f"label {l!r} expected {wl!r}")
        for x, y, edge in ((s, ws, "first" in kind), (e, we, "last" in kind)):
            if (edge or kind == "kept" or (c.get("grid") and (y * 2**20).denominator == 1)) and Fraction(x) != y:
                return Failure(dict(sig, clause="tiles-exactly"), f"boundary {x!r} expected {float(y)!r} exactly")
            if not T.close(x, float(y)):
                return Failure(dict(sig, clause="equal-subdivision"), f"boundary {x!r} expected {float(y)!r}")
    for x, y, (_, _, _, kind) in zip(got, got[1:], want):
        if kind != "kept" and "last" not in kind and x[1] != y[0]:
            return Failure(dict(sig, clause="tiles-exactly"), f"words {x} and {y} do not share their boundary")
    return None


def oracle_spell(c, r):
    g = c["tg"]
    sig = {"op": "sc_spell"}
    before = tgops.norm(g)
    # C13: documented as working on a copy — the argument is unchanged whatever happens
    arg = r[2]["arg"] if r[0] == "ok" else r[3]["arg"]
    if arg != before:
        return Failure(dict(sig, clause="argument-unchanged"), f"spellCheckEntries changed its argument: {arg}")
    names = [t["name"] for t in g["tiers"]]
    if c["new"] in names and not c.get("anyerr"):
        if r[0] == "err" and r[2]:
            return None
        return Failure(dict(sig, clause="duplicate-name-rejected"), f"duplicate tier name {c['new']!r}: {r[:2]}")
    f, res = _common(c, r, sig, c["new"])
    if f is not None or res is None:
        if f is None and r[0] == "err" and not c.get("anyerr"):
            return Failure(dict(sig, clause="no-error", exc=r[1]), f"spellCheckEntries raised {r[1]}")
        return f
    if r[2]["same"]:
        return Failure(dict(sig, clause="returns-a-copy"), "the returned textgrid is the argument itself")
    nt = _tier(res, c["new"])
    if (nt["lo"], nt["hi"]) != (before["lo"], before["hi"]):
        return Failure(dict(sig, clause="new-tier-span"), f"new tier spans [{nt['lo']},{nt['hi']}], textgrid [{before['lo']},{before['hi']}]")
    ok = set(c["words"])
    want = []
    for s, e, l in _tier(before, c["target"])["es"]:
        for p in PUNCT:
            l = l.replace(p, "")
        bad = [w for w in l.split() if w not in ok]
        if bad:
            want.append([s, e, ", ".join(bad)])
    if nt["es"] != want:
        return Failure(dict(sig, clause="misspelled-entries"), f"new tier {nt['es']} expected {want}")
    return None


def oracle(c, r):
    if c["op"] == "u_wsplit":
        return None  # unit correspondence of the model's str.split() only
    return oracle_split(c, r) if c["op"] == "sc_split" else oracle_spell(c, r)


# ---------------------------------------------------------------------------------------------
# generators
# ---------------------------------------------------------------------------------------------
def gen_label(rnd, nmax=5, pow2=False, punct=False):
    n = rnd.choice([1, 2, 4]) if pow2 else rnd.choice([0, 1, 1, 2, 2, 3, 3, 4, 5, 7][: nmax + 4])
    ws = [rnd.choice(WORDS) for _ in range(n)]
    if punct:
        ws = [rnd.choice(["", "", "'", "\"", "_"]) + w + rnd.choice(["", "", ",", ".", "?!", ";", " ,"]) for w in ws]
    out = ""
    for i, w in enumerate(ws):
        out += (rnd.choice(SEPS) if i else "") + w
    return out.strip()


def gen_times(rnd, domain, n, hi):
    if domain == "dec":
        return T.gen_times(rnd, "dec", n, hi)
    out = set()
    while len(out) < n:
        out.add(rnd.randint(1, int(hi * 16) - 1) / 16.0)   # k/16: a quarter of an entry is still on the grid k/64
    return sorted(out)


def gen_words_tier(rnd, domain, name, hi, nmax=4, pow2=False, punct=False):
    n = rnd.randint(0, nmax)
    ts = gen_times(rnd, domain, 2 * n, hi)
    es, i = [], 0
    while i + 1 < len(ts):
        es.append([ts[i], ts[i + 1], gen_label(rnd, pow2=pow2, punct=punct)])
        i += 1 if rnd.random() < 0.5 else 2
    return {"k": "I", "name": name, "es": es, "lo": 0.0, "hi": hi}


def gen_tg(rnd, domain, punct=False):
    hi = 10.0
    pow2 = domain != "dec" and rnd.random() < 0.8
    tiers = [gen_words_tier(rnd, domain, "src", hi, pow2=pow2, punct=punct)]
    if rnd.random() < 0.6:
        tiers.append(gen_words_tier(rnd, domain, "tgt", hi, nmax=3, pow2=True))
    if rnd.random() < 0.5:
        p = T.gen_ptier(rnd, "dec" if domain == "dec" else "grid64", nmax=3, name="pp", hi=hi)
        p["lo"], p["hi"] = 0.0, hi
        tiers.append(p)
    rnd.shuffle(tiers)
    top = hi
    if rnd.random() < 0.15:
        # a tier with a span of its own (narrower than the textgrid's)
        t = rnd.choice(tiers)
        if t["es"]:
            t["hi"] = max(x for e in t["es"] for x in e[:-1])
    if rnd.random() < 0.1:
        top = 12.0
    return {"lo": 0.0, "hi": top, "tiers": tiers}


def gen_split(rnd, domain):
    g = gen_tg(rnd, domain)
    names = [t["name"] for t in g["tiers"]]
    c = {"op": "sc_split", "tg": g, "src": "src", "tgt": rnd.choice(["tgt", "tgt", "tgt", "fresh", "src"]), "a": None, "b": None,
         "grid": domain != "dec"}
    if c["tgt"] == "src" and rnd.random() < 0.5 and "pp" in names:
        c["tgt"] = "pp"   # an existing point tier is replaced (no window below)
    k = rnd.random()
    if k < 0.6 and c["tgt"] != "pp":
        pool = sorted({x for t in g["tiers"] if t["k"] == "I" for x in T.boundary_pool(t, rnd, "dec" if domain == "dec" else "grid")})
        pool = [x for x in pool if 0 <= x <= g["hi"]]
        if domain != "dec":
            pool = [x for x in pool if (x * 16) == int(x * 16)]
        a, b = rnd.choice(pool), rnd.choice(pool)
        if a > b and rnd.random() < 0.9:
            a, b = b, a
        m = rnd.random()
        c["a"], c["b"] = (a, b) if m < 0.7 else ((a, None) if m < 0.85 else (None, b))
    if rnd.random() < 0.03:
        c["src"] = "nope"
        c["anyerr"] = "an absent source tier"
    elif rnd.random() < 0.03 and "pp" in names and c["tgt"] != "pp":
        # a point tier as source (type-incorrect): fine while it has no points in the window, else the built-in ValueError of
        # tuple unpacking — compared with the model (`sourceEntries`), judged only as "raises"
        c["src"] = "pp"
        pp = next(t for t in g["tiers"] if t["name"] == "pp")
        a = g["lo"] if c["a"] is None else c["a"]
        b = g["hi"] if c["b"] is None else c["b"]
        window = c["a"] is not None or c["b"] is not None
        if (window and a >= b) or any((not window) or a <= e[0] <= b for e in pp["es"]):
            c["anyerr"] = "a point tier with points as source"
    return c


def gen_spell(rnd, domain):
    g = gen_tg(rnd, domain, punct=True)
    names = [t["name"] for t in g["tiers"]]
    words = sorted({w for t in g["tiers"] if t["k"] == "I" for e in t["es"] for w in _clean_words(e[2])})
    ok = [w for w in words if rnd.random() < 0.6] + ["zebra"]
    c = {"op": "sc_spell", "tg": g, "target": "src", "new": rnd.choice(["errors", "errors", "errors", " e", rnd.choice(names)]),
         "words": ok, "grid": domain != "dec"}
    if c["new"] == " e":
        c["new"] = "e"
    if rnd.random() < 0.03:
        c["target"] = "nope"
        c["anyerr"] = "an absent tier"
    return c


def _clean_words(l):
    for p in PUNCT:
        l = l.replace(p, "")
    return l.split()


def gen(rnd, n, ops=("sc_split", "sc_spell")):
    for i in range(n):
        domain = rnd.choice(["dec", "grid", "grid"])
        op = rnd.choice(ops)
        if rnd.random() < 0.04:
            yield {"op": "u_wsplit", "s": "".join(rnd.choice(WORDS + SEPS + SEPS + ["", "\x1f", "\u200b", "\u2028", "\u180e", "\x0b\x0c"]) for _ in range(rnd.randint(0, 7)))}
        elif op == "sc_split":
            yield gen_split(rnd, domain)
        else:
            yield gen_spell(rnd, domain)


def corpus():
    base = {"k": "I", "name": "src", "lo": 0.0, "hi": 10.0}
    tg = lambda es, extra=(): {"lo": 0.0, "hi": 10.0, "tiers": [dict(base, es=es)] + list(extra)}
    # S1-1 (fixed, /repo 51efa36): an entry whose label has no words -> ZeroDivisionError
    yield {"op": "sc_split", "tg": tg([[1.0, 2.0, ""], [3.0, 4.0, "a b"]]), "src": "src", "tgt": "words", "a": None, "b": None, "grid": True}
    # S1-2 (fixed, /repo 47499b1): start + len*n one ulp beyond the entry's end -> the next touching entry overlapped
    # (TextgridStateError / CollisionError), or the new tier stuck out of the textgrid's span
    yield {"op": "sc_split", "tg": tg([[0.19, 0.662, "w w w w w"], [0.662, 1.162, "d"]]), "src": "src", "tgt": "words", "a": None, "b": None}
    yield {"op": "sc_split", "tg": tg([[0.19, 0.662, "w w w w w"], [0.662, 1.162, "d"]],
                                      [{"k": "I", "name": "words", "es": [[0.0, 0.01, "k"]], "lo": 0.0, "hi": 10.0}]),
           "src": "src", "tgt": "words", "a": 0.0, "b": 9.9}
    yield {"op": "sc_split", "tg": {"lo": 0.0, "hi": 0.662, "tiers": [{"k": "I", "name": "src", "es": [[0.19, 0.662, "w w w w w"]], "lo": 0.0, "hi": 0.662}]},
           "src": "src", "tgt": "words", "a": None, "b": None}
    # the docstring's example; window cutting through entries of source and target; target = source
    yield {"op": "sc_split", "tg": tg([[63 / 8, 66 / 8, "the blue cat"]]), "src": "src", "tgt": "w", "a": None, "b": None, "grid": True}
    old = {"k": "I", "name": "tgt", "es": [[0.5, 1.5, "old"], [3.25, 3.5, "o2"]], "lo": 0.0, "hi": 10.0}
    yield {"op": "sc_split", "tg": tg([[1.0, 2.0, "a b"], [3.0, 4.0, "c d"]], [old]), "src": "src", "tgt": "tgt", "a": 1.25, "b": 3.25, "grid": True}
    yield {"op": "sc_split", "tg": tg([[1.0, 2.0, "a b"], [3.0, 4.0, "c d"]], [old]), "src": "src", "tgt": "src", "a": 0.0, "b": 2.5, "grid": True}
    yield {"op": "sc_split", "tg": tg([[1.0, 2.0, "a b"]], [old]), "src": "src", "tgt": "tgt", "a": 3.0, "b": 3.0, "grid": True}
    yield {"op": "sc_spell", "tg": tg([[1.0, 2.0, "the, blu_e cat."], [3.0, 4.0, "a"], [5.0, 6.0, "?!"]]), "target": "src", "new": "errors",
           "words": ["the", "a"], "grid": True}
    yield {"op": "sc_spell", "tg": tg([[1.0, 2.0, "x"]]), "target": "src", "new": "src", "words": [], "grid": True}
