"""pitch_and_intensity.generatePIMeasures (op 'pi_measures', DESIGN 11.8): cases, execution on the real function (the textgrid
is written to a temporary file first — the function opens it itself), encoding, and an oracle written from the docstring
and C20's definitions (mean, max, min, range, population variance and deviation, zero removal, median filtering with edge
padding, rms, z-normalisation with the mean and sample standard deviation of the positive values).  No model involved.
Used by C20.
"""
import itertools
import math
import os
from fractions import Fraction

from praatio import pitch_and_intensity as PI
from praatio import textgrid as ptextgrid
from praatio.utilities import errors as perrors

from framework import Failure
import tiers as T
import tgops

_counter = itertools.count()


def _c20():
    from props import C20
    return C20


def is_pi(c):
    return c["op"] == "pi_measures"


def _write(c):
    C20 = _c20()
    fn = os.path.join(C20.tmpdir(), f"pi{next(_counter)}.TextGrid")
    tgops.build(c["tg"]).save(fn, "short_textgrid", True, reportingMode="silence")
    return fn


def opened(c):
    """the tier `openTextgrid(tgFN, includeEmptyIntervals=False).getTier(tierName)` as a spec (None: no such tier); reading
    files is the subject of C01/C03, the model of generatePIMeasures starts from the opened textgrid"""
    if "_opened" not in c:
        fn = _write(c)
        try:
            tg = ptextgrid.openTextgrid(fn, False)
            c["_opened"] = T.snap(tg.getTier(c["name"])) if c["name"] in tg.tierNames else None
        finally:
            os.remove(fn)
    return c["_opened"]


def oracle_only(c):
    """the local normalisation works on COMPUTED values (means, deviations, rms): which windows are constant or positive
    depends on `statistics`/`sqrt` arithmetic the model only has as a parameter — there the real function is checked by the
    oracle only, like znormWindowFilter itself in C20 (ops marked 'nomodel')"""
    return c["localw"] > 0 and not c["globalz"]


def encode(c, enc):
    if oracle_only(c):
        return "skip"
    t = opened(c)
    data = c["data"]
    return " ".join(["pi_measures", "N" if t is None else T.enc_spec(enc, t), str(len(data))] +
                    [f"{enc.time(a)} {enc.time(b)} {enc.time(x)}" for a, b, x in data] +
                    [enc.b(c["pitch"]), "N" if c["medw"] is None else str(c["medw"]), enc.b(c["globalz"]), str(c["localw"])])


def impl(c):
    C20 = _c20()
    opened(c)
    fn = _write(c)
    data = [tuple(r) for r in c["data"]]
    try:
        r = C20.call(lambda: PI.generatePIMeasures(data, fn, c["name"], c["pitch"], c["medw"], c["globalz"], c["localw"]))
    finally:
        os.remove(fn)
    if r[0] == "ok":
        return ("ok", [list(row) for row in r[1]], data == [tuple(x) for x in c["data"]])
    return r


def plain(c):
    return c["pitch"] and not c["globalz"] and c["localw"] == 0


def render(c, r, enc):
    if oracle_only(c):
        return "ok skip"
    if r[0] == "err":
        return "err " + r[1]
    rows = r[1]
    width = len(rows[0]) if rows else 0
    cells = [enc.time(v) for row in rows for v in row[1:4]] if plain(c) else []
    return " ".join(["ok", str(len(rows)), str(width)] + cells)


def wants_x(c):
    return c.get("grid", False) and not oracle_only(c)


# ---------------------------------------------------------------------------------------------
# oracle
# ---------------------------------------------------------------------------------------------
def _stat(pop):
    """None / 'StatisticsError' / 'ZeroDivisionError' for statistics.mean + stdev + the division"""
    if len(pop) < 2:
        return "StatisticsError"
    if all(v == pop[0] for v in pop):
        return "ZeroDivisionError"
    return None


def _z(pop, v):
    m = sum(Fraction(x) for x in pop) / len(pop)
    var = sum((Fraction(x) - m) ** 2 for x in pop) / (len(pop) - 1)
    return float(Fraction(v) - m) / math.sqrt(var)


def expected(c):
    C20 = _c20()
    if c["globalz"] and c["localw"] > 0:
        return ("err", "NormalizationException")
    data = [list(r) for r in c["data"]]
    col = 1 if c["pitch"] else 2
    if c["globalz"]:
        pos = [r[col] for r in data if r[col] > 0]
        e = _stat(pos)
        if e:
            return ("err", e)
        for r in data:
            r[col] = _z(pos, r[col]) if r[col] > 0 else 0
    t = opened(c)
    if t is None:
        return ("err", "KeyError")
    if t["k"] != "I":
        return ("err", "IncompatibleTierError")
    rows = []
    for s, e, _ in t["es"]:
        inside = [r for r in data if s <= r[0] <= e]
        if c["pitch"]:
            vals = [r[1] for r in inside]
            if c["medw"] is not None:
                vals = C20.step_oracle(C20.median_mid, vals, c["medw"], True)
            if not c["globalz"]:
                vals = [v for v in vals if v != 0]
            if not vals:
                rows.append([0.0] * 6)
            else:
                m = sum(Fraction(v) for v in vals) / len(vals)
                var = sum((Fraction(v) - m) ** 2 for v in vals) / len(vals)
                rows.append([float(m), max(vals), min(vals), max(vals) - min(vals), float(var), math.sqrt(var)])
        else:
            vals = [r[2] for r in inside]
            if not c["globalz"]:
                vals = [v for v in vals if v != 0]
            rows.append([math.sqrt(sum(Fraction(v) ** 2 for v in vals) / len(vals)) if vals else 0.0])
    if c["localw"] > 0 and rows:
        off = c["localw"] // 2
        for k in range(len(rows[0])):
            colv = [r[k] for r in rows]
            nz = [v for v in colv if v > 0]
            out = []
            for i in range(len(nz)):
                win = [nz[min(max(i + d, 0), len(nz) - 1)] for d in range(-off, off + 1)]
                e = _stat(win)
                if e:
                    return ("err", e)
                out.append(_z(win, win[len(win) // 2]))
            it = iter(out)
            for r in rows:
                r[k] = next(it) if r[k] > 0 else 0.0
    return ("ok", rows)


def oracle(c, r):
    C20 = _c20()
    sig = {"op": "pi_measures", "pitch": c["pitch"]}
    want = expected(c)
    if want[0] == "err":
        if r[0] != "err":
            return Failure(dict(sig, clause="raises", exc=want[1]), f"expected {want[1]}, got a result")
        if want[1] == "KeyError":
            return None     # an absent tier name: compared as "raises"
        if r[1] != want[1]:
            return Failure(dict(sig, clause="exception-class", exc=r[1]), f"raised {r[1]}, expected {want[1]}")
        return None
    if r[0] == "err":
        return Failure(dict(sig, clause="no-error", exc=r[1]), f"generatePIMeasures raised {r[1]}")
    if not r[2]:
        return Failure(dict(sig, clause="input-unchanged"), "the data list was modified")
    rows = r[1]
    if len(rows) != len(want[1]):
        return Failure(dict(sig, clause="one-row-per-labelled-interval"), f"{len(rows)} rows for {len(want[1])} labelled intervals")
    for i, (a, b) in enumerate(zip(rows, want[1])):
        if len(a) != len(b):
            return Failure(dict(sig, clause="row-width"), f"row {i} has {len(a)} values, expected {len(b)}")
        for k, (x, y) in enumerate(zip(a, b)):
            if not C20.close(x, y, rel=1e-9, abs_=1e-9):
                return Failure(dict(sig, clause="value", column=k, globalz=c["globalz"], local=c["localw"] > 0),
                               f"row {i} column {k}: {x!r}, by definition {y!r}")
    return None


def tags(c, r):
    out = ["pi_measures", "oracle-only" if oracle_only(c) else "model", "pitch" if c["pitch"] else "intensity", "globalz:%s" % c["globalz"], "localw:%d" % min(c["localw"], 4),
           "medw:%s" % c["medw"], "grid" if c.get("grid") else "dec"]
    if r[0] == "err":
        out.append("pi_measures:err:" + r[1])
    return out


def nontrivial(c, r):
    return r[0] == "err" or any(any(v != 0 for v in row) for row in r[1])


# ---------------------------------------------------------------------------------------------
# generator
# ---------------------------------------------------------------------------------------------
def gen_case(rnd):
    domain = rnd.choice(["dec", "grid64", "grid64"])
    g = tgops.gen_tg(rnd, domain, valid=True, names=["words", "phones", "marks"])
    grid = domain != "dec"
    names = [t["name"] for t in g["tiers"]]
    n = rnd.randint(0, 14)
    bounds = sorted({x for t in g["tiers"] for e in t["es"] for x in e[:-1]})
    ts = set()
    while len(ts) < n:
        u = rnd.random()
        if u < 0.25 and bounds:
            ts.add(rnd.choice(bounds))                                   # a sample exactly on an interval boundary
        else:
            ts.add(rnd.randint(0, 640) / 64.0 if grid else round(rnd.uniform(0, 10), 2))
    data = []
    for t in sorted(ts):
        f0 = rnd.choice([0.0, 0.0, 100.0, 120.5, 99.75, 200.0, 87.25, 100.0]) if grid else rnd.choice([0.0, round(rnd.uniform(70, 300), 2)])
        it = rnd.choice([0.0, 60.0, 62.5, 70.25, 55.0, 60.0]) if grid else rnd.choice([0.0, round(rnd.uniform(40, 90), 2)])
        data.append([t, f0, it])
    if rnd.random() < 0.15:
        rnd.shuffle(data)
    k = rnd.random()
    globalz = k < 0.25
    localw = rnd.choice([2, 3, 4, 5, 1]) if (0.2 <= k < 0.5) else 0          # both in [0.2, 0.25): NormalizationException
    c = {"op": "pi_measures", "tg": g, "name": rnd.choice(names), "data": data, "pitch": rnd.random() < 0.6,
         "medw": rnd.choice([None, None, 0, 1, 3, 5]), "globalz": globalz, "localw": localw, "grid": grid}
    if rnd.random() < 0.03:
        c["name"] = "nope"
    return c


def gen(rnd, n):
    for _ in range(n):
        yield gen_case(rnd)


def corpus():
    it = {"k": "I", "name": "words", "es": [[1.0, 2.0, "a"], [2.0, 3.0, ""], [3.0, 4.5, "b"], [6.0, 7.0, "c"]], "lo": 0.0, "hi": 10.0}
    pt = {"k": "P", "name": "marks", "es": [[1.5, "x"]], "lo": 0.0, "hi": 10.0}
    g = {"lo": 0.0, "hi": 10.0, "tiers": [it, pt]}
    data = [[0.5, 90.0, 50.0], [1.0, 100.0, 60.0], [1.5, 0.0, 0.0], [2.0, 120.5, 62.5], [2.5, 99.0, 61.0], [3.25, 200.0, 70.25],
            [4.0, 87.25, 55.0], [4.5, 100.0, 60.0], [8.0, 110.0, 58.0]]
    base = {"op": "pi_measures", "tg": g, "name": "words", "data": data, "pitch": True, "medw": None, "globalz": False, "localw": 0, "grid": True}
    yield dict(base)
    yield dict(base, pitch=False)
    yield dict(base, medw=3)
    yield dict(base, globalz=True)
    yield dict(base, pitch=False, globalz=True)
    yield dict(base, localw=3)
    yield dict(base, pitch=False, localw=2)
    yield dict(base, globalz=True, localw=3)                      # NormalizationException
    yield dict(base, name="marks")                                # IncompatibleTierError
    yield dict(base, localw=1)                                    # windows of one value: StatisticsError (observation, 11.3b)
