"""Encoding / execution / rendering of single tier operations, shared by C05–C15.

A case is a JSON-able dict {"op": ..., "tier": spec, ...args, "grid": bool}.  `impl` runs the real praatio
code on fresh objects built from the specs; mutators are run on a fresh object and the object's state after
the call is the result.
"""
import tiers as T
from praatio.utilities.constants import Interval, Point


def encode(c, enc):
    op = c["op"]
    t = T.enc_spec(enc, c["tier"]) if "tier" in c else None
    if op == "icrop":
        return f"icrop {t} {enc.time(c['a'])} {enc.time(c['b'])} {c['mode']} {enc.b(c['rebase'])}"
    if op == "pcrop":
        return f"pcrop {t} {enc.time(c['a'])} {enc.time(c['b'])} {enc.b(c['rebase'])}"
    if op == "ierase":
        return f"ierase {t} {enc.time(c['a'])} {enc.time(c['b'])} {c['mode']} {enc.b(c['shrink'])}"
    if op == "perase":
        return f"perase {t} {enc.time(c['a'])} {enc.time(c['b'])} {enc.b(c['shrink'])}"
    if op == "ispace":
        return f"ispace {t} {enc.time(c['s'])} {enc.time(c['d'])} {c['mode']}"
    if op == "ispace_erase":
        return f"ispace_erase {t} {enc.time(c['s'])} {enc.time(c['d'])} {c['mode']}"
    if op == "pspace":
        return f"pspace {t} {enc.time(c['s'])} {enc.time(c['d'])}"
    if op in ("ishift", "pshift"):
        return f"{op} {t} {enc.time(c['o'])} {c['report']}"
    if op in ("iappend", "pappend", "iunion", "punion", "idiff", "iinter", "imergelabels"):
        return f"{op} {t} {T.enc_spec(enc, c['other'])}"
    if op == "iinsert":
        return f"iinsert {t} {enc.iv(c['entry'])} {c['mode']}"
    if op == "pinsert":
        return f"pinsert {t} {enc.pt(c['entry'])} {c['mode']}"
    if op == "idelete":
        return f"idelete {t} {enc.iv(c['entry'])}"
    if op == "pdelete":
        return f"pdelete {t} {enc.pt(c['entry'])}"
    if op in ("idejitter", "pdejitter"):
        return f"{op} {t} {T.enc_spec(enc, c['ref'])} {enc.time(c['maxdiff'])}"
    if op == "imorph":
        f = c.get("filter")
        fs = "N" if f is None else " ".join([str(len(f))] + [enc.s(x) for x in f])
        return f"imorph {t} {T.enc_spec(enc, c['other'])} {fs}"
    if op in ("inew", "pnew", "ivalidate", "pvalidate", "itimestamps", "ptimestamps", "nonentries"):
        return f"{op} {t}"
    if op == "inewe":
        return f"inewe {t} {enc.otime(c['lo'])} {enc.otime(c['hi'])}"
    if op == "mkitier":
        return f"mkitier {enc.s(c['name'])} {enc.ivlist(c['es'])} {enc.otime(c['lo'])} {enc.otime(c['hi'])}"
    if op == "mkptier":
        return f"mkptier {enc.s(c['name'])} {enc.ptlist(c['es'])} {enc.otime(c['lo'])} {enc.otime(c['hi'])}"
    raise KeyError(op)


def _shape(cls, entry):
    """insertEntry accepts a namedtuple, a plain tuple or a list: all three spellings are exercised, chosen by a
    deterministic function of the entry (no extra random draw, replays stay exact)"""
    k = (len(entry[-1]) + len(entry)) % 3
    return cls(*entry) if k == 0 else (tuple(entry) if k == 1 else list(entry))


def _mut(t, fn):
    """run a mutator; the result is the receiver's state afterwards"""
    r = T.call(fn)
    if r[0] == "ok":
        return ("ok", T.snap(t))
    return r + (T.snap(t),)  # state after the failed call (must equal the state before it)


def impl(c, objs=None):
    """objs: optional dict that receives the real objects built for the call (receiver 'tier', 'other', 'ref')"""
    objs = {} if objs is None else objs

    def mk(key):
        if key not in objs:
            objs[key] = T.build(c[key])
        return objs[key]
    op = c["op"]
    if op in ("mkitier", "mkptier"):
        from praatio.data_classes.interval_tier import IntervalTier
        from praatio.data_classes.point_tier import PointTier
        k = IntervalTier if op == "mkitier" else PointTier
        r = T.call(lambda: k(c["name"], [tuple(e) for e in c["es"]], c["lo"], c["hi"]))
        return ("ok", T.snap(r[1])) if r[0] == "ok" else r
    t = mk("tier")
    if op in ("icrop", "pcrop"):
        r = T.call(lambda: t.crop(c["a"], c["b"], c.get("mode", "lax"), c["rebase"]))
    elif op in ("ierase", "perase"):
        r = T.call(lambda: t.eraseRegion(c["a"], c["b"], c.get("mode", "truncate"), c["shrink"]))
    elif op in ("ispace", "pspace"):
        r = T.call(lambda: t.insertSpace(c["s"], c["d"], c.get("mode", "error")))
    elif op == "ispace_erase":
        r = T.call(lambda: t.insertSpace(c["s"], c["d"], c["mode"]).eraseRegion(c["s"], c["s"] + c["d"], "truncate", True))
    elif op in ("ishift", "pshift"):
        r = T.call(lambda: t.editTimestamps(c["o"], c["report"]))
    elif op in ("iappend", "pappend"):
        u = mk("other")
        r = T.call(lambda: t.appendTier(u))
    elif op in ("iunion", "punion"):
        u = mk("other")
        r = T.call(lambda: t.union(u))
    elif op == "idiff":
        u = mk("other")
        r = T.call(lambda: t.difference(u))
    elif op == "iinter":
        u = mk("other")
        r = T.call(lambda: t.intersection(u))
    elif op == "imergelabels":
        u = mk("other")
        r = T.call(lambda: t.mergeLabels(u))
    elif op == "iinsert":
        return _mut(t, lambda: t.insertEntry(_shape(Interval, c["entry"]), c["mode"], c.get("report", "silence")))
    elif op == "pinsert":
        return _mut(t, lambda: t.insertEntry(_shape(Point, c["entry"]), c["mode"], c.get("report", "silence")))
    elif op == "idelete":
        return _mut(t, lambda: t.deleteEntry(Interval(*c["entry"])))
    elif op == "pdelete":
        return _mut(t, lambda: t.deleteEntry(Point(*c["entry"])))
    elif op in ("idejitter", "pdejitter"):
        ref = mk("ref")
        r = T.call(lambda: t.dejitter(ref, c["maxdiff"]))
    elif op == "imorph":
        u = mk("other")
        f = c.get("filter")
        ff = None if f is None else (lambda lab: lab in f)
        r = T.call(lambda: t.morph(u, ff))
    elif op in ("inew", "pnew"):
        r = T.call(lambda: t.new())
    elif op == "inewe":
        r = T.call(lambda: t.new(entries=[], minTimestamp=c["lo"], maxTimestamp=c["hi"]))
    elif op in ("ivalidate", "pvalidate"):
        r = T.call(lambda: t.validate("silence"))
        return r
    elif op in ("itimestamps", "ptimestamps"):
        r = T.call(lambda: [float(x) for x in t.timestamps])
        return r
    elif op == "nonentries":
        r = T.call(lambda: [[float(e[0]), float(e[1]), e[2]] for e in t.getNonEntries()])
        return r
    else:
        raise KeyError(op)
    if r[0] == "ok":
        objs["result"] = r[1]
        return ("ok", T.snap(r[1]))
    return r


def render(c, r, enc):
    op = c["op"]
    if r[0] == "err":
        return "err " + r[1]
    if op in ("ivalidate", "pvalidate"):
        return "ok " + enc.b(r[1])
    if op in ("itimestamps", "ptimestamps"):
        return ("ok " + " ".join(enc.time(x) for x in r[1])).rstrip() if r[1] else "ok "
    if op == "nonentries":
        return "ok " + enc.ivlist(r[1])
    return "ok " + T.enc_spec(enc, r[1])
