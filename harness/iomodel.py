"""Correspondence between praatio's save/parse code and the Lean models (emitters, _prepTgForSaving, parsers).
Until the Lean side of an operation exists its cases are oracle-only: encode -> 'skip', render -> 'ok skip'."""
import contextlib
import io

from praatio.utilities import textgrid_io
import tiers as T

HAVE_MODEL = False


def encode(c, enc):
    return "skip"


def render(c, r, enc):
    return "ok skip"


def impl_parse(text, iei):
    """what praatio's text parsers return for `text` (numerals as the parser leaves them)"""
    def run():
        d = textgrid_io.parseTextgridStr(text, iei)
        return {"xmin": d["xmin"], "xmax": d["xmax"],
                "tiers": [{"class": t["class"], "name": t["name"], "xmin": t["xmin"], "xmax": t["xmax"],
                           "entries": [list(e) for e in t["entries"]]} for t in d["tiers"]]}
    return T.call(run)
