"""Correspondence between praatio's save/parse code and the Lean models (lean/PraatModel/Save.lean, Read.lean,
driver ops in RunIO.lean).  Cases:

  {"op": "emit",  "tg", "fmt", "blanks", "min", "max", "minlen"}   text written by _prepTgForSaving + the text emitters
  {"op": "prep",  "tg", "blanks", "min", "max", "minlen"}          the prepared tiers (fill-in, sliver absorption)
  {"op": "parse", "text", "iei"}                                   what the text parsers return (numerals as strings)
  {"op": "emitjson", "tg", "fmt", "blanks", "min", "max", "minlen"} text of the two JSON formats (lean/PraatModel/Json.lean); "rawdict": the
                                                                   dictionary is built without the Textgrid class (duplicate names)
  {"op": "parsejson", "text", "iei"}                               what parseTextgridStr returns on JSON (numbers as numerals; a document that
                                                                   json.loads accepts but that does not follow a README schema = "err Schema")
  {"op": "u_jsonstr" | "u_jsonnum" | "u_jsondoc", "s"}             json.dumps of a string / is it a JSON number / json.loads of any document
  {"op": "u_num" | "u_text" | "u_split" | "u_class" | "u_fetchtext" | "u_fetchrow", ...}   matcher units against `re` / the real helpers

Every other op is oracle-only: encode -> 'skip', render -> 'ok skip'.
"""
import copy
import json
import re

from praatio.utilities import textgrid_io
from praatio.data_classes import textgrid as dtextgrid
import tiers as T
import tgops


class SpecError(Exception):
    pass


class SchemaError(Exception):
    pass

MODEL_OPS = {"emit", "prep", "parse", "specread", "dupnames", "u_num", "u_text", "u_textrest", "u_split", "u_class", "u_fetchtext", "u_fetchrow",
             "emitjson", "parsejson", "u_jsonstr", "u_jsonnum", "u_jsondoc"}


def is_pyint(x):
    return isinstance(x, int) and not isinstance(x, bool)


_JSON_CACHE = {}


def is_json(text):
    """does json.loads accept the text (so that parseTextgridStr takes its JSON path)?"""
    if text not in _JSON_CACHE:
        if len(_JSON_CACHE) > 20000:
            _JSON_CACHE.clear()
        try:
            json.loads(text)
            _JSON_CACHE[text] = True
        except ValueError:
            _JSON_CACHE[text] = False
    return _JSON_CACHE[text]


_SURR_CACHE = {}


def lone_surrogate(text):
    """does json.loads turn the text into something holding a lone surrogate (an escaped one: "\\ud800")?  CPython accepts
    such documents and builds a str that is not Unicode text; a Lean Char cannot hold it and the model rejects the document
    (its one deliberate deviation, lean/PraatModel/Json.lean) - such inputs are outside the compared domain"""
    if text not in _SURR_CACHE:
        if len(_SURR_CACHE) > 20000:
            _SURR_CACHE.clear()
        found = [False]

        def walk(v):
            if isinstance(v, str):
                if any(0xD800 <= ord(ch) <= 0xDFFF for ch in v):
                    found[0] = True
            elif isinstance(v, list):
                for x in v:
                    walk(x)
            elif isinstance(v, _Obj):
                for k, x in v.pairs:
                    walk(k)
                    walk(x)
        try:
            # every pair of every object, also the ones a later duplicate key overrides (doc_canon keeps them all)
            walk(json.loads(text, object_pairs_hook=_Obj))
        except (ValueError, RecursionError):
            pass
        _SURR_CACHE[text] = found[0]
    return _SURR_CACHE[text]


def numeral(x):
    """the numeral json.dumps writes for a Python number"""
    return str(x) if is_pyint(x) else float.__repr__(float(x))


def canon_numeral(t):
    """numerals are compared as the Python numbers json.loads makes of them: int or float, then the value"""
    if t and all(ch in "-0123456789" for ch in t):
        return str(int(t))
    return repr(float(t))


def schema_ok(d):
    """does a dictionary returned by parseTextgridStr follow one of the README schemas (after the up-conversion)?"""
    def isnum(x):
        return isinstance(x, (int, float)) and not isinstance(x, bool)
    if not (isinstance(d, dict) and isnum(d.get("xmin")) and isnum(d.get("xmax")) and isinstance(d.get("tiers"), list)):
        return False
    for t in d["tiers"]:
        if not (isinstance(t, dict) and t.get("class") in ("IntervalTier", "TextTier") and isinstance(t.get("name"), str) and
                isnum(t.get("xmin")) and isnum(t.get("xmax")) and isinstance(t.get("entries"), list)):
            return False
        k = 3 if t["class"] == "IntervalTier" else 2
        for e in t["entries"]:
            if not (isinstance(e, list) and len(e) == k and all(isnum(x) for x in e[:-1]) and isinstance(e[-1], str)):
                return False
    return True


class _Num(str):
    pass


class _Obj:
    def __init__(self, pairs):
        self.pairs = pairs


def doc_canon(text):
    """json.loads with every number kept as its numeral and every object as its ordered pair list, written back with the
    default separators"""
    v = json.loads(text, parse_float=_Num, parse_int=_Num, parse_constant=_Num, object_pairs_hook=_Obj)

    def r(v):
        if isinstance(v, _Num):
            return str(v)
        if isinstance(v, str):
            return json.dumps(v, ensure_ascii=False)
        if v is None:
            return "null"
        if v is True:
            return "true"
        if v is False:
            return "false"
        if isinstance(v, list):
            return "[" + ", ".join(r(x) for x in v) + "]"
        if isinstance(v, _Obj):
            return "{" + ", ".join(json.dumps(k, ensure_ascii=False) + ": " + r(x) for k, x in v.pairs) + "}"
        raise TypeError(type(v))
    return r(v)


def times_of(c):
    g = c["tg"]
    ts = [g["lo"], g["hi"], c.get("min"), c.get("max")]
    for t in g["tiers"]:
        ts += [t["lo"], t["hi"]]
        for e in t["es"]:
            ts += e[:-1]
    # distinct by BIT PATTERN: -0.0 and 0.0 are two entries of the numeral table (json.dumps writes `-0.0` and `0.0`); a case on
    # negative times can hold both (an interval ending at -0.0 next to one starting at 0.0)
    import math
    import struct
    seen = {struct.pack("<d", float(x)): float(x) for x in ts if x is not None}
    return sorted(seen.values(), key=lambda x: (x, math.copysign(1.0, x)))


def encode(c, enc):
    op = c["op"]
    if op not in MODEL_OPS:
        return "skip"
    if op in ("emit", "prep"):
        head = f"{tgops.enc_tg(enc, c['tg'])} {enc.b(c['blanks'])} {enc.otime(c.get('min'))} {enc.otime(c.get('max'))} {enc.otime(c.get('minlen'))}"
        if op == "prep":
            return "prep " + head
        table = times_of(c)
        tab = " ".join(f"{enc.time(x)} {enc.time(float(int(x)))} {enc.s(repr(x))} {enc.s('%d' % x)}" for x in table)
        return f"emit {c['fmt']} {head} {len(table)} {tab}".rstrip()
    if op == "parse":
        return f"parse {enc.s(c['text'])} {enc.b(c['iei'])}"
    if op == "emitjson":
        head = f"{tgops.enc_tg(enc, c['tg'])} {enc.b(c['blanks'])} {enc.otime(c.get('min'))} {enc.otime(c.get('max'))} {enc.otime(c.get('minlen'))}"
        ints = " ".join(enc.b(is_pyint(x)) for x in (c["tg"]["lo"], c["tg"]["hi"], c.get("min"), c.get("max")))
        import struct
        table = {struct.pack("<d", x): x for x in times_of(c) + [float(x) for x in (c["tg"]["lo"], c["tg"]["hi"], c.get("min"), c.get("max"))
                                                                 if x is not None]}.values()    # by bit pattern: -0.0 is not 0.0 here
        tab = " ".join(f"{enc.time(x)} {enc.time(float(int(x)))} {enc.s(repr(x))} {enc.s('%d' % x)}" for x in table)
        return f"emitjson {c['fmt']} {head} {ints} {len(table)} {tab}".rstrip()
    if op == "parsejson":
        return f"parsejson {enc.s(c['text'])} {enc.b(c['iei'])}"
    if op in ("u_jsonstr", "u_jsonnum", "u_jsondoc"):
        return f"{op} {enc.s(c['s'])}"
    if op == "specread":
        return f"specread {enc.s(c['text'])}"
    if op == "dupnames":
        return "dupnames " + c["mode"] + " " + " ".join([str(len(c["names"]))] + [enc.s(n) for n in c["names"]])
    if op == "u_num":
        return f"u_num {enc.s(c['s'])} {enc.s(c['kw'])} {enc.b(c['neg'])}"
    if op == "u_text":
        return f"u_text {enc.s(c['s'])} {enc.s(c['kw'])} {enc.b(c['dotall'])}"
    if op == "u_textrest":
        return f"u_textrest {enc.s(c['s'])} {enc.s(c['kw'])} {enc.b(c['dotall'])}"
    if op == "u_split":
        return f"u_split {enc.s(c['s'])} {enc.s(c['kw'])}"
    if op == "u_class":
        return f"u_class {enc.s(c['s'])}"
    if op == "u_fetchtext":
        return f"{op} {enc.s(c['s'])} {c['i']} {enc.b(c.get('strip', True))}"
    if op == "u_fetchrow":
        return f"{op} {enc.s(c['s'])} {c['i']}"
    raise KeyError(op)


def impl_parse(text, iei):
    """what praatio's text parsers return for `text` (numerals as the parser leaves them)"""
    def run():
        d = textgrid_io.parseTextgridStr(text, iei)
        return {"xmin": d["xmin"], "xmax": d["xmax"],
                "tiers": [{"class": t["class"], "name": t["name"], "xmin": t["xmin"], "xmax": t["xmax"],
                           "entries": [list(e) for e in t["entries"]]} for t in d["tiers"]]}
    return T.call(run)


PATTERNS = {
    ("xmin", True): r"xmin ?= ?(-?[\d.]+(?:[eE][-+]?\d+)?)\s*$",
    ("xmax", True): r"xmax ?= ?(-?[\d.]+(?:[eE][-+]?\d+)?)\s*$",
    ("number", True): r"number ?= ?(-?[\d.]+(?:[eE][-+]?\d+)?)\s*$",
}


def source_patterns():
    """the regular expressions as they stand in /repo's current textgrid_io.py (so that the unit cases follow the code)"""
    import inspect
    src = inspect.getsource(textgrid_io._parseNormalTextgrid)
    return set(re.findall(r'r"([^"\n]*\\s\*\$)"', src)) | set(re.findall(r"r'([^'\n]*\\s\*\$)'", src))


def impl(c):
    op = c["op"]
    if op == "emit":
        g = tgops.build(c["tg"])
        return T.call(lambda: textgrid_io.getTextgridAsStr(dtextgrid._tgToDictionary(g), c["fmt"], c["blanks"], c.get("min"), c.get("max"), c.get("minlen")))
    if op == "prep":
        g = tgops.build(c["tg"])

        def run():
            d = textgrid_io._prepTgForSaving(dtextgrid._tgToDictionary(g), c["blanks"], c.get("min"), c.get("max"), c.get("minlen"))
            return {"lo": d["xmin"], "hi": d["xmax"],
                    "tiers": [{"k": "I" if t["class"] == "IntervalTier" else "P", "name": t["name"], "lo": float(t["xmin"]), "hi": float(t["xmax"]),
                               "es": [[float(x) for x in e[:-1]] + [e[-1]] for e in t["entries"]]} for t in d["tiers"]]}
        return T.call(run)
    if op == "parse":
        return impl_parse(c["text"], c["iei"])
    if op == "emitjson":
        if c.get("rawdict"):
            # the dictionary as _tgToDictionary would build it, without the Textgrid class (which refuses duplicate names)
            s = c["tg"]
            d = {"xmin": s["lo"], "xmax": s["hi"],
                 "tiers": [{"class": "IntervalTier" if t["k"] == "I" else "TextTier", "name": t["name"], "xmin": float(t["lo"]), "xmax": float(t["hi"]),
                            "entries": [tuple([float(x) for x in e[:-1]] + [e[-1]]) for e in t["es"]]} for t in s["tiers"]]}
        else:
            d = dtextgrid._tgToDictionary(tgops.build(c["tg"]))
        return T.call(lambda: textgrid_io.getTextgridAsStr(d, c["fmt"], c["blanks"], c.get("min"), c.get("max"), c.get("minlen")))
    if op == "parsejson":
        if lone_surrogate(c["text"]):
            return ("ok", None)
        if not is_json(c["text"]):
            return impl_parse(c["text"], c["iei"])

        def run():
            if not schema_ok(textgrid_io.parseTextgridStr(c["text"], True)):
                raise SchemaError()
            d = textgrid_io.parseTextgridStr(c["text"], c["iei"])
            return {"xmin": d["xmin"], "xmax": d["xmax"],
                    "tiers": [{"class": t["class"], "name": t["name"], "xmin": t["xmin"], "xmax": t["xmax"],
                               "entries": [list(e) for e in t["entries"]]} for t in d["tiers"]]}
        r = T.call(run)
        # valid JSON off the schemas: praatio raises KeyError / AttributeError / TypeError / IndexError, or hands on a malformed
        # dictionary; the (strict) model says "Schema" for all of these
        if r[0] == "err" and r[1] in ("KeyError", "AttributeError", "TypeError", "IndexError", "SchemaError"):
            return ("err", "Schema", False)
        return r
    if op == "u_jsonstr":
        return ("ok", json.dumps(c["s"], ensure_ascii=False))
    if op == "u_jsonnum":
        s = c["s"]
        try:
            v = json.loads(s)
        except ValueError:
            return ("ok", False)
        return ("ok", s == s.strip(" \t\n\r") and type(v) in (int, float) and s not in ("NaN", "Infinity", "-Infinity"))
    if op == "u_jsondoc":
        if lone_surrogate(c["s"]):
            return ("ok", None)
        return T.call(lambda: doc_canon(c["s"]))
    if op == "specread":
        import ioops

        def run():
            try:
                d = ioops.spec_decode(c["text"])
            except ioops.SpecError:
                raise SpecError()
            return d
        return T.call(run)
    if op == "dupnames":
        # the duplicate-name policy of textgrid.openTextgrid, exercised through the real function on a synthetic file
        import ioops
        data = {"lo": 0.0, "hi": 1.0, "tiers": [{"k": "P", "name": n, "lo": 0.0, "hi": 1.0, "es": []} for n in c["names"]]}
        r = ioops.open_text(ioops.spec_write(data, "short"), True, dup=c["mode"])
        return ("ok", [t["name"] for t in r[1]["tiers"]]) if r[0] == "ok" else r
    if op == "u_num":
        # the numeric rows of _parseNormalTextgrid after fix A30: the optional sign is inside the captured group
        pat = c["kw"] + r" ?= ?(" + ("-?" if c["neg"] else "") + r"[\d.]+(?:[eE][-+]?\d+)?)\s*$"
        if c.get("ascii"):
            # the model reads \d as the ASCII digits (numerals are ASCII) but \s as Python's Unicode white space, like
            # the code's pattern without re.ASCII; re.ASCII would narrow \s as well (\x1c is white space only for str)
            pat = pat.replace(r"\d", "0-9", 1).replace(r"\d", "[0-9]")
        m = re.search(pat, c["s"], flags=re.MULTILINE)
        return ("ok", None if m is None else m.groups()[0])
    if op == "u_text":
        pat = c["kw"] + r' ?= ?"(.*)"\s*$'
        m = re.search(pat, c["s"], flags=(re.MULTILINE | re.DOTALL) if c["dotall"] else re.MULTILINE)
        return ("ok", None if m is None else m.groups()[0])
    if op == "u_textrest":
        # the name row of _parseNormalTextgrid since fix A33: the captured group and header[m.end(1):]
        pat = c["kw"] + r' ?= ?"(.*)"\s*$'
        m = re.search(pat, c["s"], flags=(re.MULTILINE | re.DOTALL) if c["dotall"] else re.MULTILINE)
        return ("ok", None if m is None else (m.groups()[0], c["s"][m.end(1):]))
    if op == "u_split":
        return ("ok", re.split(c["kw"] + r" ?\[", c["s"], flags=re.MULTILINE))
    if op == "u_class":
        # the class test of _parseNormalTextgrid (after fix A22 / df3976c)
        return ("ok", re.search(r'class ?= ?"IntervalTier"', c["s"]) is not None)
    if op == "u_fetchtext":
        # stripText=False is how _parseShortTextgrid reads a tier NAME (fix A31); the default is used for labels
        return T.call(lambda: textgrid_io._fetchTextRow(c["s"], c["i"], stripText=c.get("strip", True)))
    if op == "u_fetchrow":
        return T.call(lambda: textgrid_io._fetchRow(c["s"], c["i"]))
    raise KeyError(op)


def render(c, r, enc):
    op = c["op"]
    if op not in MODEL_OPS:
        return "ok skip"
    if r[0] == "err":
        return "err " + r[1]
    v = r[1]
    if op in ("parsejson", "u_jsondoc") and lone_surrogate(c["text" if op == "parsejson" else "s"]):
        return "outside lone-surrogate"
    if op in ("emit", "emitjson", "u_jsonstr", "u_jsondoc"):
        return "ok " + enc.s(v)
    if op == "u_jsonnum":
        return "ok true" if v else "ok false"
    if op == "parsejson" and is_json(c["text"]):
        out = [enc.s(numeral(v["xmin"])), enc.s(numeral(v["xmax"])), str(len(v["tiers"]))]
        for t in v["tiers"]:
            out += [enc.s(t["class"]), enc.s(t["name"]), enc.s(numeral(t["xmin"])), enc.s(numeral(t["xmax"])), str(len(t["entries"]))]
            for e in t["entries"]:
                out += [str(len(e))] + [enc.s(numeral(x)) for x in e[:-1]] + [enc.s(e[-1])]
        return "ok " + " ".join(out)
    if op == "prep":
        return "ok " + tgops.enc_tg(enc, v)
    if op in ("parse", "parsejson"):
        out = [enc.s(repr(float(v["xmin"]))), enc.s(repr(float(v["xmax"]))), str(len(v["tiers"]))]
        for t in v["tiers"]:
            out += [enc.s(t["class"]), enc.s(t["name"]), enc.s(repr(float(t["xmin"]))), enc.s(repr(float(t["xmax"]))), str(len(t["entries"]))]
            for e in t["entries"]:
                out += [str(len(e))] + [enc.s(str(x)) for x in e]
        return "ok " + " ".join(out)
    if op == "specread":
        out = [enc.s(repr(v["lo"])), enc.s(repr(v["hi"])), str(len(v["tiers"]))]
        for t in v["tiers"]:
            out += [enc.s("IntervalTier" if t["k"] == "I" else "TextTier"), enc.s(t["name"]), enc.s(repr(t["lo"])), enc.s(repr(t["hi"])), str(len(t["es"]))]
            for e in t["es"]:
                out += [str(len(e))] + [enc.s(repr(x)) for x in e[:-1]] + [enc.s(e[-1])]
        return "ok " + " ".join(out)
    if op == "dupnames":
        return "ok " + " ".join([str(len(v))] + [enc.s(n) for n in v])
    if op == "u_textrest":
        return "ok none" if v is None else "ok some " + enc.s(v[0]) + " " + enc.s(v[1])
    if op in ("u_num", "u_text"):
        return "ok none" if v is None else "ok some " + enc.s(v)
    if op == "u_split":
        return "ok " + " ".join([str(len(v))] + [enc.s(p) for p in v])
    if op == "u_class":
        return "ok true" if v else "ok false"
    if op in ("u_fetchtext", "u_fetchrow"):
        return f"ok {enc.s(v[0])} {v[1]}"
    raise KeyError(op)


def canon(c, line):
    """numeric header fields of a parse result are compared as numbers: the model carries the numeral text, the code
    float()s it; error cases of keyword-bearing files are compared only as 'raises'"""
    if c.get("anyerr") and line.startswith("err"):
        return "err"
    if c["op"] in ("parsejson", "u_jsondoc") and lone_surrogate(c["text" if c["op"] == "parsejson" else "s"]):
        return "outside lone-surrogate"
    if c["op"] not in ("parse", "specread", "parsejson") or not line.startswith("ok "):
        return line
    spec = c["op"] == "specread"
    from proto import unhex, Enc
    toks = line.split(" ")[1:]
    if c["op"] == "parsejson" and is_json(c["text"]):
        # every numeral becomes the Python number json.loads makes of it (int or float), labels stay as they are
        def cn(tok):
            return Enc.s(canon_numeral(unhex(tok)))
        try:
            out = [cn(toks[0]), cn(toks[1]), toks[2]]
            p = 3
            for _ in range(int(toks[2])):
                n = int(toks[p + 4])
                out += [toks[p], toks[p + 1], cn(toks[p + 2]), cn(toks[p + 3]), toks[p + 4]]
                p += 5
                for _ in range(n):
                    k = int(toks[p])
                    out += [toks[p]] + [cn(x) for x in toks[p + 1:p + k]] + [toks[p + k]]
                    p += 1 + k
            return "ok " + " ".join(out)
        except (ValueError, IndexError):
            return "bad-canon " + line

    def fl(tok):
        return Enc.s(repr(float(unhex(tok))))

    def iof(tok):
        # utils.strToIntOrFloat, then float(): '-0' becomes int 0, i.e. 0.0
        t = unhex(tok)
        v = float(t) if ("." in t or "e" in t.lower()) else int(t)
        return Enc.s(repr(float(v)))
    try:
        out = [fl(toks[0]), fl(toks[1]), toks[2]]
        p = 3
        for _ in range(int(toks[2])):
            n = int(toks[p + 4])
            out += [toks[p], toks[p + 1], (fl if spec else iof)(toks[p + 2]), (fl if spec else iof)(toks[p + 3]), toks[p + 4]]
            p += 5
            for _ in range(n):
                k = int(toks[p])
                if spec:   # the spec reader's entry times are numbers on the Python side
                    out += [toks[p]] + [fl(x) for x in toks[p + 1:p + k]] + [toks[p + k]]
                else:
                    out += toks[p:p + 1 + k]
                p += 1 + k
        return "ok " + " ".join(out)
    except ValueError:
        return "err" if c.get("anyerr") else "err ValueError"
