"""Generic verdict procedure (DESIGN §2.5), shared by all properties.

    1  lake build (under flock)                       -> obligations compile?
    2  axiom audit of the property's theorems, forbidden-token grep
    3  corpus + generated cases -> implementation outputs, model outputs (F run, X run on grid cases) -> diff
    4  oracle(property) on every implementation output
    5  verdict modulo known_findings.json; failing-input search when 1/2/3 break
    6  evidence/<id>.json
"""
import fcntl
import hashlib
import importlib
import json
import os
import random
import re
import shutil
import subprocess
import sys
import time
import traceback

HERE = os.path.dirname(os.path.abspath(__file__))
VERIF = os.path.dirname(HERE)
LEAN = os.path.join(VERIF, "lean")
REPO = os.environ.get("PRAATIO_REPO", "/repo")
sys.path.insert(0, REPO)  # the working tree, never an installed copy
sys.path.insert(1, HERE)
sys.dont_write_bytecode = True
os.environ["PRAATIO_VERIF"] = "1"  # guard name recorded in MANIFEST.hooks (no hook exists)

from proto import Enc, OffGrid  # noqa: E402

ALLOWED_AXIOMS = {"propext", "Classical.choice", "Quot.sound"}
FORBIDDEN = re.compile(
    r"\b(sorry|admit|native_decide|bv_decide|implemented_by|unsafe)\b|^\s*axiom\s|maxHeartbeats\s+0\b"
)
NSHARDS = int(os.environ.get("VERIF_SHARDS", "8"))


class Failure:
    """an oracle failure: the property is false of the implementation on `case`"""

    def __init__(self, signature: dict, message: str):
        self.signature = signature
        self.message = message

    def __repr__(self):
        return f"Failure({self.signature}, {self.message!r})"


# ----------------------------------------------------------------------------------------------
# step 1/2: build, audit
# ----------------------------------------------------------------------------------------------
def lake_build(log):
    os.makedirs(os.path.join(LEAN, ".audit"), exist_ok=True)
    lock = open(os.path.join(LEAN, ".build.lock"), "w")
    fcntl.flock(lock, fcntl.LOCK_EX)
    try:
        p = subprocess.run(["lake", "build"], cwd=LEAN, capture_output=True, text=True)
    finally:
        fcntl.flock(lock, fcntl.LOCK_UN)
        lock.close()
    if p.returncode != 0:
        log("lake build FAILED:\n" + (p.stdout + p.stderr)[-4000:])
        return False, (p.stdout + p.stderr)
    return True, ""


def strip_comments(src: str) -> str:
    # remove /- ... -/ (nested) and -- ... comments
    out = []
    i = 0
    depth = 0
    n = len(src)
    while i < n:
        if src.startswith("/-", i):
            depth += 1
            i += 2
        elif depth and src.startswith("-/", i):
            depth -= 1
            i += 2
        elif depth:
            i += 1
        elif src.startswith("--", i):
            j = src.find("\n", i)
            i = n if j < 0 else j
        else:
            out.append(src[i])
            i += 1
    return "".join(out)


def forbidden_tokens():
    hits = []
    for root, _, files in os.walk(LEAN):
        if ".lake" in root or ".audit" in root:
            continue
        for fn in files:
            if fn.endswith(".lean"):
                path = os.path.join(root, fn)
                for ln, line in enumerate(strip_comments(open(path).read()).split("\n"), 1):
                    if FORBIDDEN.search(line):
                        hits.append(f"{os.path.relpath(path, VERIF)}:{ln}: {line.strip()}")
    return hits


def theorems_for(pid):
    path = os.path.join(LEAN, "theorems", f"{pid}.json")
    return json.load(open(path)) if os.path.exists(path) else []


def audit(pid, log):
    """returns (obligations, discharged:list, problems:list) for the theorems listed for pid"""
    entries = theorems_for(pid)
    names = [e["name"] for e in entries]
    modules = sorted({e["module"] for e in entries})
    src = "".join(f"import {m}\n" for m in modules) + "".join(f"#print axioms {n}\n" for n in names)
    path = os.path.join(LEAN, ".audit", f"Audit_{pid}.lean")
    open(path, "w").write(src)
    p = subprocess.run(["lake", "env", "lean", path], cwd=LEAN, capture_output=True, text=True)
    text = p.stdout + p.stderr
    discharged, problems = [], []
    flat = re.sub(r"\s+", " ", text)
    for n in names:
        m = re.search(r"'" + re.escape(n) + r"' depends on axioms: \[([^\]]*)\]", flat)
        if m:
            axs = {a.strip() for a in m.group(1).split(",") if a.strip()}
            if axs <= ALLOWED_AXIOMS:
                discharged.append({"theorem": n, "axioms": sorted(axs)})
            else:
                problems.append(f"{n}: disallowed axioms {sorted(axs - ALLOWED_AXIOMS)}")
        elif re.search(r"'" + re.escape(n) + r"' does not depend on any axioms", flat):
            discharged.append({"theorem": n, "axioms": []})
        else:
            problems.append(f"{n}: not found / does not check")
    if p.returncode != 0 and not problems:
        problems.append("audit file failed: " + text[-500:])
    return names, discharged, problems


def recheck(pid, log):
    """thorough tier: leanchecker (the toolchain's independent re-checker of compiled .olean files) on every module
    that holds a theorem of `pid`; returns (modules, problem or None)"""
    modules = sorted({e["module"] for e in theorems_for(pid)})
    if not modules or shutil.which("leanchecker") is None:
        return modules, None if modules else None
    p = subprocess.run(["lake", "env", "leanchecker"] + modules, cwd=LEAN, capture_output=True, text=True)
    if p.returncode != 0:
        return modules, "leanchecker rejected " + " ".join(modules) + ": " + (p.stdout + p.stderr)[-600:]
    log(f"[{pid}] leanchecker re-checked {len(modules)} module(s)")
    return modules, None


def source_state(pid):
    """sha256 of every file the property is anchored in (properties.jsonl), as it stands in the repository under test, and
    the files that differ from the pinned state (source_pins.json: the sources the model was last validated against)"""
    files = []
    for line in open(os.path.join(VERIF, "properties.jsonl")):
        d = json.loads(line)
        if d["id"] == pid:
            files = d.get("anchors", {}).get("files", [])
    cur = {}
    for f in files:
        path = os.path.join(REPO, f)
        cur[f] = hashlib.sha256(open(path, "rb").read()).hexdigest() if os.path.exists(path) else None
    pins_path = os.path.join(VERIF, "source_pins.json")
    pins = json.load(open(pins_path)) if os.path.exists(pins_path) else {}
    changed = sorted(f for f in cur if pins.get(f) != cur[f])
    # function level (harness/astpins.py): of the files whose bytes changed, which functions' CODE changed (docstrings,
    # comments and formatting do not count).  A file that changed in bytes only is reported but does not make the run
    # look harder.
    fpins_path = os.path.join(VERIF, "source_pins_functions.json")
    funcs = []
    if os.path.exists(fpins_path):
        import astpins
        fpins = json.load(open(fpins_path))
        code_changed = []
        for f in changed:
            if not f.endswith(".py"):
                continue
            names = astpins.changed(astpins.fingerprints(os.path.join(REPO, f)), fpins.get(f))
            funcs += [f"{f}:{n}" for n in names]
            if names:
                code_changed.append(f)
        source_state.functions = funcs
        return cur, (code_changed if all(f.endswith(".py") for f in changed) else changed)
    source_state.functions = None
    return cur, changed


# ----------------------------------------------------------------------------------------------
# step 3a: which lines and branches of the anchored source did the cases reach?  (evidence only, never a verdict)
# ----------------------------------------------------------------------------------------------
def start_source_coverage(tier):
    """line+branch tracing of REPO/praatio while the cases are generated and run on the implementation: always in the
    thorough tier, in the quick tier with VERIF_COVERAGE=1 (it roughly doubles the implementation time); VERIF_COVERAGE=0
    switches it off"""
    want = os.environ.get("VERIF_COVERAGE", "")
    if want == "0" or (tier != "thorough" and want != "1"):
        return None
    try:
        import coverage
    except ImportError:
        return None
    cov = coverage.Coverage(data_file=None, branch=True, config_file=False, include=[os.path.join(REPO, "praatio", "*")])
    cov.start()
    return cov


def source_coverage_report(cov, files):
    """per anchored file: for every function at least one body line of which ran, the body lines that never ran and the
    branches never taken; functions no case entered are listed by name only"""
    import ast

    cov.stop()
    out = {}
    for f in files:
        path = os.path.join(REPO, f)
        if not os.path.exists(path):
            continue
        try:
            _, statements, _, missing, _ = cov.analysis2(path)
            try:
                untaken = cov._analyze(path).missing_branch_arcs()
            except Exception:
                untaken = {}
            tree = ast.parse(open(path).read())
        except Exception as e:  # measurement trouble is never a verdict
            out[f] = {"error": repr(e)}
            continue
        statements, missing = set(statements), set(missing)
        funcs = []

        def walk(node, prefix):
            for ch in ast.iter_child_nodes(node):
                if isinstance(ch, (ast.FunctionDef, ast.AsyncFunctionDef)):
                    funcs.append((prefix + ch.name, ch.body[0].lineno, ch.end_lineno))
                    walk(ch, prefix + ch.name + ".")
                elif isinstance(ch, ast.ClassDef):
                    walk(ch, prefix + ch.name + ".")
                else:
                    walk(ch, prefix)

        walk(tree, "")
        entered, not_entered, gaps, tot, hit = 0, [], {}, 0, 0
        for name, lo, hi in funcs:
            body = {l for l in statements if lo <= l <= hi}
            if not body:
                continue
            miss = sorted(body & missing)
            if len(miss) == len(body):
                not_entered.append(name)
                continue
            entered += 1
            tot += len(body)
            hit += len(body) - len(miss)
            br = sorted([a, b] for a, bs in untaken.items() if lo <= a <= hi and a not in missing for b in bs)
            if miss or br:
                gaps[name] = {"lines_never_run": miss, "branches_never_taken": br}
        out[f] = {"functions_entered": entered, "body_lines_run": hit, "body_lines": tot, "gaps": gaps,
                  "functions_not_entered": not_entered}
    return out


# ----------------------------------------------------------------------------------------------
# step 3: model driver
# ----------------------------------------------------------------------------------------------
def run_model(lines, mode):
    """feed `lines` to the Lean driver (sharded) and return the output lines in order"""
    if not lines:
        return []
    k = max(1, min(NSHARDS, len(lines) // 200 + 1))
    shards = [lines[i::k] for i in range(k)]
    procs = []
    for sh in shards:
        p = subprocess.Popen(
            ["lake", "env", "lean", "--run", "Driver.lean", mode],
            cwd=LEAN, stdin=subprocess.PIPE, stdout=subprocess.PIPE, stderr=subprocess.PIPE, text=True,
        )
        procs.append((p, sh))
    import threading

    results = [None] * k

    def work(i, p, sh):
        out, err = p.communicate("\n".join(sh) + "\n")
        results[i] = (out, err, p.returncode)

    ths = [threading.Thread(target=work, args=(i, p, sh)) for i, (p, sh) in enumerate(procs)]
    for t in ths:
        t.start()
    for t in ths:
        t.join()
    outs = [None] * len(lines)
    for i, (out, err, rc) in enumerate(results):
        ol = out.split("\n")
        if ol and ol[-1] == "":
            ol.pop()
        if rc != 0 or len(ol) != len(shards[i]):
            raise DriverError(f"driver shard {i} rc={rc} lines={len(ol)}/{len(shards[i])}: {err[-2000:]}")
        for j, o in enumerate(ol):
            outs[i + j * k] = o
    return outs


class DriverError(Exception):
    pass


# ----------------------------------------------------------------------------------------------
# known findings
# ----------------------------------------------------------------------------------------------
def load_known(pid):
    path = os.path.join(VERIF, "known_findings.json")
    if not os.path.exists(path):
        return []
    return [f for f in json.load(open(path))["findings"] if f["property"] == pid and f["status"] == "known"]


def match_known(known, sig):
    for k in known:
        if all(sig.get(a) == b for a, b in k["signature"].items()):
            return k
    return None


# ----------------------------------------------------------------------------------------------
# the verdict procedure
# ----------------------------------------------------------------------------------------------
def main(argv=None):
    import argparse

    ap = argparse.ArgumentParser()
    ap.add_argument("pid")
    ap.add_argument("--tier", default=os.environ.get("VERIF_TIER", "quick"))
    ap.add_argument("--replay")
    args = ap.parse_args(argv)
    pid, tier = args.pid, args.tier
    if tier not in ("quick", "thorough"):
        tier = "quick"
    seed = int(os.environ.get("VERIF_SEED", "0") or 0)
    t0 = time.time()
    logs = []

    def log(msg):
        logs.append(msg)
        print(msg, flush=True)

    prop = importlib.import_module(f"props.{pid}")
    rnd = random.Random(seed * 1000003 + int(pid[1:]))
    os.makedirs(os.path.join(VERIF, "replays"), exist_ok=True)
    os.makedirs(os.path.join(VERIF, "evidence"), exist_ok=True)

    if args.replay:
        return replay(prop, pid, args.replay, log)

    violations = []  # (replay_path, suffix)
    known = load_known(pid)
    known_hit = {}

    # ---- 1, 2
    built, build_out = lake_build(log)
    names, discharged, problems = ([e["name"] for e in theorems_for(pid)], [], ["build failed"])
    if built:
        names, discharged, problems = audit(pid, log)
    rechecked = []
    if built and tier == "thorough":
        rechecked, rp = recheck(pid, log)
        if rp:
            problems.append(rp)
    bad_tokens = forbidden_tokens()
    if bad_tokens:
        problems += ["forbidden token: " + h for h in bad_tokens]
    proofs_ok = built and not problems
    log(f"[{pid}] proof obligations: {len(discharged)}/{len(names)} discharged" + ("" if proofs_ok else f"; problems: {problems}"))

    # ---- 3, 4
    cases = []
    corpus = list(prop.corpus()) if hasattr(prop, "corpus") else []
    for c in corpus:
        cases.append(c)
    ncorpus = len(cases)
    # a change in an anchored source file since the model was last pinned is not a violation, but it is the moment to
    # look harder: the quick tier then samples at the size of the thorough tier
    src_sha, src_changed = source_state(pid)
    cov = start_source_coverage(tier)
    gen_tier = tier
    if src_changed and tier == "quick" and not os.environ.get("VERIF_NO_ESCALATE") and getattr(prop, "ESCALATE", True):
        gen_tier = "thorough"
        log(f"[{pid}] anchored source changed since it was pinned ({', '.join(src_changed)}): sampling at thorough size")
        if getattr(source_state, "functions", None):
            log(f"[{pid}] functions whose code differs from the pinned state: {', '.join(source_state.functions[:12])}" + (" …" if len(source_state.functions) > 12 else ""))
    # an escalated quick run stays a quick run: it stops drawing cases after a time budget (generators that build
    # histories run the implementation while generating) or at eight times the quick size of the slowest check
    t_gen, escalated = time.time(), gen_tier != tier
    budget = float(os.environ.get("VERIF_ESCALATE_SECONDS", "40"))
    # the tier's own mix always comes first and complete; an escalated quick run then goes on drawing from the thorough
    # generator (its own stream) until the time budget or the cap is reached.  (Round 3 of the seeded changes: drawing the
    # thorough generator INSTEAD, cut off at the cap, had replaced C06's random and near-boundary cases by enumerated
    # families only, and the escalated run saw less than the plain one.)
    for c in prop.gen(rnd, tier):
        cases.append(c)
    if escalated:
        rnd2 = random.Random(seed * 1000003 + int(pid[1:]) + 7919)
        for c in prop.gen(rnd2, gen_tier):
            cases.append(c)
            if (len(cases) % 500 == 0) and (time.time() - t_gen > budget or len(cases) >= getattr(prop, "ESCALATE_MAX", 150000)):
                log(f"[{pid}] escalated sampling stopped after {len(cases)} cases ({time.time() - t_gen:.0f} s)")
                break
    log(f"[{pid}] {len(cases)} cases ({ncorpus} corpus)")

    encF, encX = Enc("F"), Enc("X")
    results = []
    oracle_fail = []
    hist_ops, hist_err, hist_tags = {}, {}, {}
    t_impl = time.time()
    for idx, c in enumerate(cases):
        try:
            r = prop.impl(c)
        except Exception as e:  # harness bug, not a verdict
            log(f"[{pid}] HARNESS ERROR in impl on case {idx}: {c!r}\n{traceback.format_exc()}")
            return 2
        results.append(r)
        try:
            f = prop.oracle(c, r)
        except Exception:
            log(f"[{pid}] HARNESS ERROR in oracle on case {idx}: {c!r}\n{traceback.format_exc()}")
            return 2
        if f is not None:
            oracle_fail.append((idx, f))
    t_impl = time.time() - t_impl
    cov_files = sorted(src_sha)
    if os.environ.get("VERIF_COVERAGE_ALL"):      # tools/source_coverage.py: every module, not only the anchored ones
        cov_files = sorted(os.path.relpath(os.path.join(d, f), REPO) for d, _, fs in os.walk(os.path.join(REPO, "praatio")) for f in fs if f.endswith(".py"))
    src_cov = source_coverage_report(cov, cov_files) if cov is not None else None

    linesF, linesX, idxX = [], [], []
    for idx, c in enumerate(cases):
        linesF.append(prop.encode(c, encF))
        if prop.wants_x(c):
            try:
                lx = prop.encode(c, encX)
                rx = prop.render(c, results[idx], encX)
            except OffGrid:
                continue
            linesX.append(lx)
            idxX.append((idx, rx))
    mism = []  # (idx, mode, impl_line, model_line)
    model_ok = built
    outF = outX = []
    if built:
        try:
            t_model = time.time()
            outF = run_model(linesF, "F")
            outX = run_model(linesX, "X")
            t_model = time.time() - t_model
        except DriverError as e:
            log(f"[{pid}] model driver failed: {e}")
            model_ok = False
    canon = getattr(prop, "canon", lambda c, line: line)
    if model_ok:
        for idx, c in enumerate(cases):
            want = prop.render(c, results[idx], encF)
            if canon(c, want) != canon(c, outF[idx]):
                mism.append((idx, "F", want, outF[idx]))
        for (idx, rx), got in zip(idxX, outX):
            if canon(cases[idx], rx) != canon(cases[idx], got):
                mism.append((idx, "X", rx, got))

    # ---- histograms / non-triviality
    distinct = set()
    for idx, c in enumerate(cases):
        tags = prop.tags(c, results[idx])
        for t in tags:
            hist_tags[t] = hist_tags.get(t, 0) + 1
        if prop.nontrivial(c, results[idx]):
            key = linesF[idx] if linesF[idx] != "skip" else json.dumps(prop.case_json(c), sort_keys=True, default=str)
            distinct.add(hashlib.sha1(key.encode()).hexdigest())

    # ---- 5 verdict
    def write_replay(name, payload):
        path = os.path.join(VERIF, "replays", name)
        json.dump(payload, open(path, "w"), indent=1, default=str)
        return os.path.relpath(path, VERIF)

    reported_sigs = set()
    for idx, f in oracle_fail:
        k = match_known(known, f.signature)
        if k is not None:
            known_hit.setdefault(k["id"], (k, idx, f))
            continue
        key = json.dumps(f.signature, sort_keys=True)
        if key in reported_sigs:
            continue
        reported_sigs.add(key)
        small = shrink_failure(prop, cases[idx], f, known)
        path = write_replay(
            f"{pid}_{len(violations)}.json",
            {"property": pid, "kind": "oracle", "case": prop.case_json(small[0]), "signature": small[1].signature,
             "message": small[1].message, "seed": seed, "index": idx},
        )
        violations.append((path, ""))
        log(f"[{pid}] oracle failure: {small[1].message} on {prop.case_json(small[0])}")

    searched = 0
    if mism and not violations:
        # correspondence broken: search the neighbourhood of each disagreeing case for an input on
        # which the property itself fails on the implementation
        found = None
        for idx, mode, want, got in mism[:40]:
            for c2 in neighbourhood(prop, cases[idx], rnd):
                searched += 1
                try:
                    r2 = prop.impl(c2)
                    f2 = prop.oracle(c2, r2)
                except Exception:
                    continue
                if f2 is not None and match_known(known, f2.signature) is None:
                    found = (c2, f2)
                    break
            if found:
                break
        idx, mode, want, got = mism[0]
        if found:
            small = shrink_failure(prop, found[0], found[1], known)
            path = write_replay(
                f"{pid}_{len(violations)}.json",
                {"property": pid, "kind": "oracle-after-correspondence-break", "case": prop.case_json(small[0]),
                 "signature": small[1].signature, "message": small[1].message, "seed": seed},
            )
            violations.append((path, ""))
        else:
            small_c = shrink_mismatch(prop, cases[idx], mode)
            path = write_replay(
                f"{pid}_{len(violations)}.json",
                {"property": pid, "kind": "correspondence", "broken": f"correspondence {pid}/{mode} model-vs-implementation",
                 "mode": mode, "case": prop.case_json(small_c), "first_case": prop.case_json(cases[idx]),
                 "implementation": want, "model": got,
                 "disagreements": len(mism), "searched_neighbours": searched, "seed": seed},
            )
            violations.append((path, " no-failing-input-found"))
        log(f"[{pid}] correspondence: {len(mism)} disagreement(s); first ({mode}) case {prop.case_json(cases[idx])}\n   impl : {want}\n   model: {got}")
    if (not proofs_ok or not model_ok) and not violations:
        path = write_replay(
            f"{pid}_{len(violations)}.json",
            {"property": pid, "kind": "proof", "broken": problems or ["model driver failed"], "seed": seed,
             "note": "oracle ran on %d implementation cases without failure" % len(cases)},
        )
        violations.append((path, " no-failing-input-found"))

    for kid, (k, idx, f) in known_hit.items():
        print(f"KNOWN-FINDING: property={pid} {k['what']}", flush=True)

    # ---- 6 evidence
    samples = [{"case": prop.case_json(cases[i]), "implementation": prop.render(cases[i], results[i], encF)} for i in sample_idx(len(cases), ncorpus)]
    ev = {
        "property_id": pid,
        "tier": tier,
        "sampling": gen_tier,
        "seed": seed,
        "level": "proof",
        "coverage": {
            "obligations": len(names),
            "discharged": len(discharged),
            "checker_cmd": f"cd lean && lake build && lake env lean .audit/Audit_{pid}.lean   (# print axioms of every theorem listed for {pid} in lean/theorems.json)",
            "trusted_base": [
                "Lean 4.33.0 kernel and elaborator",
                "axioms allowed: propext, Classical.choice, Quot.sound (audited per theorem: see theorems)",
                "hand-written model lean/PraatModel/*.lean tied to /repo by the correspondence run below (F: bit-exact binary64; X: exact integers on the dyadic grid)",
                "harness/ (generators, protocol encoders, oracles), CPython 3.12",
            ] + list(getattr(prop, "TRUSTED", [])),
            "theorems": discharged,
            "leanchecker_modules": rechecked,
            "anchored_source_sha256": src_sha,
            "anchored_source_changed_since_pin": src_changed,
            "anchored_functions_changed_since_pin": getattr(source_state, "functions", None),
            "anchored_source_reached": src_cov if src_cov is not None else "not measured in this run (thorough tier, or VERIF_COVERAGE=1)",
            "unproved": problems,
            "evaluations": len(cases),
            "distinct_nontrivial": len(distinct),
            "rule": prop.RULE,
            "samples": samples,
            "correspondence": {
                "F_cases": len(linesF), "X_cases": len(linesX), "disagreements": len(mism),
                "neighbours_searched": searched,
            },
            "oracle_failures": len(oracle_fail),
            "known_findings_hit": sorted(known_hit),
            "tags": dict(sorted(hist_tags.items())),
            "impl_seconds": round(t_impl, 2),
        },
        "assumptions": list(getattr(prop, "ASSUMPTIONS", [])),
        "wall_s": round(time.time() - t0, 2),
        "violations": len(violations),
    }
    json.dump(ev, open(os.path.join(VERIF, "evidence", f"{pid}.json"), "w"), indent=1, default=str)

    for path, suffix in violations:
        print(f"VIOLATION property={pid} replay={path}{suffix}", flush=True)
    log(f"[{pid}] {tier}: {len(cases)} cases, {len(distinct)} distinct non-trivial, {len(mism)} disagreements, "
        f"{len(oracle_fail)} oracle failures ({len(known_hit)} known), {time.time()-t0:.1f}s")
    return 1 if violations else 0


def sample_idx(n, ncorpus):
    if n == 0:
        return []
    picks = sorted({ncorpus if ncorpus < n else 0, n // 3, (2 * n) // 3, n - 1})
    return [i for i in picks if 0 <= i < n][:4]


def safe_shrink(prop, case):
    """a property's shrinker, tolerant of case kinds it does not know"""
    try:
        yield from prop.shrink(case)
    except (KeyError, IndexError, TypeError):
        return


def neighbourhood(prop, case, rnd):
    yield case
    if hasattr(prop, "shrink"):
        seen = 0
        frontier = [case]
        while frontier and seen < 150:
            c = frontier.pop(0)
            for c2 in safe_shrink(prop, c):
                seen += 1
                yield c2
                if len(frontier) < 30:
                    frontier.append(c2)
                if seen >= 150:
                    break
    if hasattr(prop, "perturb"):
        for _ in range(150):
            try:
                yield prop.perturb(case, rnd)
            except (KeyError, IndexError, ValueError):
                return


def shrink_failure(prop, case, failure, known):
    """greedy shrinking that preserves the failure signature"""
    if not hasattr(prop, "shrink"):
        return case, failure
    cur, curf = case, failure
    progress = True
    steps = 0
    while progress and steps < 200:
        progress = False
        for c2 in safe_shrink(prop, cur):
            steps += 1
            try:
                f2 = prop.oracle(c2, prop.impl(c2))
            except Exception:
                continue
            if f2 is not None and f2.signature == curf.signature:
                cur, curf, progress = c2, f2, True
                break
    return cur, curf


def shrink_mismatch(prop, case, mode):
    if not hasattr(prop, "shrink"):
        return case
    enc = Enc(mode)

    canon = getattr(prop, "canon", lambda c, line: line)

    def differs(c):
        try:
            want = prop.render(c, prop.impl(c), enc)
            got = run_model([prop.encode(c, enc)], mode)[0]
        except Exception:
            return False
        return canon(c, want) != canon(c, got)

    cur = case
    progress = True
    steps = 0
    while progress and steps < 40:
        progress = False
        for c2 in safe_shrink(prop, cur):
            steps += 1
            if differs(c2):
                cur, progress = c2, True
                break
            if steps >= 40:
                break
    return cur


def replay(prop, pid, path, log):
    rp = json.load(open(path))
    if "case" not in rp:
        log(f"[{pid}] replay names a broken obligation, no input: {rp.get('broken')}")
        return 1
    c = prop.case_from_json(rp["case"])
    r = prop.impl(c)
    f = prop.oracle(c, r)
    encF = Enc("F")
    log(f"[{pid}] replay case {rp['case']}")
    log(f"   implementation: {prop.render(c, r, encF)}")
    try:
        log(f"   model (F)     : {run_model([prop.encode(c, encF)], 'F')[0]}")
    except Exception as e:
        log(f"   model failed: {e}")
    log(f"   oracle: {f}")
    if f is not None:
        print(f"VIOLATION property={pid} replay={path}")
        return 1
    return 0


if __name__ == "__main__":
    sys.exit(main())
