"""encode / impl / render for cases that may be tier-level (tierops) or Textgrid-level (tgops, op 'tg_*')"""
import tierops
import tgops
import scriptops   # ops sc_split / sc_spell / u_wsplit (DESIGN 11.8)


def is_tg(c):
    return c["op"].startswith("tg_")


def encode(c, enc):
    if scriptops.is_sc(c):
        return scriptops.encode(c, enc)
    return tgops.encode(c, enc) if is_tg(c) else tierops.encode(c, enc)


def impl(c, objs=None):
    if scriptops.is_sc(c):
        return scriptops.impl(c, objs)
    return tgops.impl(c, objs) if is_tg(c) else tierops.impl(c, objs)


def render(c, r, enc):
    if scriptops.is_sc(c):
        return scriptops.render(c, r, enc)
    return tgops.render(c, r, enc) if is_tg(c) else tierops.render(c, r, enc)


def shrink(c):
    import tiers as T
    if scriptops.is_sc(c):
        if "tg" in c:
            yield from tgops.shrink_tg(c)
        return
    if is_tg(c):
        yield from tgops.shrink_tg(c)
        return
    for s in T.shrink_spec(c["tier"]):
        yield dict(c, tier=s)
    for k in ("other", "ref"):
        if k in c:
            for s in T.shrink_spec(c[k]):
                yield dict(c, **{k: s})
