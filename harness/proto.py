"""Line-protocol encoding shared by every property harness (mirror of lean/PraatModel/Proto.lean).

Two modes:
  F  times are sent as the unsigned 64-bit pattern of the binary64 value
  X  times are sent as exact integers  value * SCALE  (only for cases on the dyadic grid, where
     every float operation the code performs is exact)
"""
import struct
from fractions import Fraction

SCALE = 64  # dyadic grid of the exact run: all times are k/64


def f2bits(x: float) -> int:
    return struct.unpack("<Q", struct.pack("<d", float(x)))[0]


def bits2f(n: int) -> float:
    return struct.unpack("<d", struct.pack("<Q", n))[0]


class Enc:
    def __init__(self, mode: str):
        assert mode in ("F", "X")
        self.mode = mode

    def time(self, x) -> str:
        if self.mode == "F":
            return str(f2bits(x))
        v = Fraction(x) * SCALE
        if v.denominator != 1:
            raise OffGrid(x)
        return str(v.numerator)

    def otime(self, x) -> str:
        return "N" if x is None else self.time(x)

    @staticmethod
    def s(text: str) -> str:
        return "h" + text.encode("utf-8").hex()

    @staticmethod
    def b(v: bool) -> str:
        return "1" if v else "0"

    def iv(self, e) -> str:
        return f"{self.time(e[0])} {self.time(e[1])} {self.s(e[2])}"

    def pt(self, e) -> str:
        return f"{self.time(e[0])} {self.s(e[1])}"

    def ivlist(self, es) -> str:
        return " ".join([str(len(es))] + [self.iv(e) for e in es])

    def ptlist(self, ps) -> str:
        return " ".join([str(len(ps))] + [self.pt(p) for p in ps])

    def itier(self, name, es, lo, hi) -> str:
        return f"I {self.s(name)} {self.time(lo)} {self.time(hi)} {self.ivlist(es)}"

    def ptier(self, name, ps, lo, hi) -> str:
        return f"P {self.s(name)} {self.time(lo)} {self.time(hi)} {self.ptlist(ps)}"

    def tier(self, t) -> str:
        """a real praatio tier object"""
        if t.tierType == "IntervalTier":
            return self.itier(t.name, list(t.entries), t.minTimestamp, t.maxTimestamp)
        return self.ptier(t.name, list(t.entries), t.minTimestamp, t.maxTimestamp)

    def exc(self, e: BaseException) -> str:
        return "err " + type(e).__name__

    def ok_tier(self, t) -> str:
        return "ok " + self.tier(t)


class OffGrid(Exception):
    pass


def on_grid(*xs) -> bool:
    for x in xs:
        if x is None:
            continue
        if (Fraction(x) * SCALE).denominator != 1 or abs(x) > 2**40:
            return False
    return True


# ---- decoding a model/impl output line back into Python values (for oracles and reports) ----
def unhex(tok: str) -> str:
    assert tok[0] == "h", tok
    return bytes.fromhex(tok[1:]).decode("utf-8")


def dec_time(tok: str, mode: str):
    n = int(tok)
    if mode == "F":
        return bits2f(n)
    return Fraction(n, SCALE)
