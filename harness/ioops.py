"""Shared vocabulary of the file-format properties C01–C04: textgrid generators with adversarial labels and
times, the real save/open paths, an INDEPENDENT spec-based reader and writer (written from Praat's manual page
"TextGrid file formats" and the README's two JSON schemas — no code or regex shared with praatio), helpers.
"""
import contextlib
import io
import json
import math
import os
import struct
import tempfile

from praatio import textgrid as ptextgrid
from praatio.utilities import textgrid_io
from praatio.data_classes import textgrid as dtextgrid

import tiers as T
import re
import tgops

FORMATS = ["short_textgrid", "long_textgrid", "json", "textgrid_json"]

# labels: any Unicode text without carriage returns (C01), and the formats' own keywords (C02)
PLAIN_LABELS = ["a", "b c", "", "é", "\U0001d11e", "x=1", "12.5", "3", "-", "l\nm", "tab\there", "q\"t", "\"\"", "\"q\"", "a\"\"b\"",
                "!", "<exists>", "[1]", "line1\nline2\n\nline4", "　wide", "it's", "back\\slash", "ab\"", "\"ab", "\"",
                # characters that str.splitlines() treats as line ends but the TextGrid formats do not (round 3, C03-mutF: a reader
                # that normalises line ends with splitlines turned them into \n)
                "a\u2028b", "m\u2029n", "p\x85q", "v\x0bw", "x\x0cy", "r\x1cs", "r\x1ds\x1et", "cr\rlone"]
KEYWORD_LABELS = ["item [2]:", "intervals [1]:", "points [3]:", "\"IntervalTier\"", "IntervalTier", "TextTier", "text = \"x\"",
                  "ooTextFile short", "item[1]", "intervals[2]", "points[1]", "xmin = 5", "name = \"n\"", "size = 3", "class = \"IntervalTier\""]
NAMES = ["words", "phones", "t 1", "é", "n\"q", "x=y"]
# tier names are kept verbatim by every constructor: leading / trailing blanks, tabs and other white space (A31, fixed: the
# short-format reader stripped them)
BLANK_NAMES = [" a b ", "\tq ", " lead", "trail \t", "\u3000wide\u3000", " \"q\" "]
# ... and line breaks anywhere (A32, fixed: the long-format reader's name pattern had no DOTALL)
NL_NAMES = ["c\nd", "\nlead", "trail\n", "a\"\nb\" \n", "two\n\nlines", " \n x\ty \n", "name = \"u\"\nv", "xmins\nb"]
# a multi-line name one of whose lines reads like the tier's own span row (A33, fixed: the long-format reader took it for the row)
ROW_NAMES = ["xmin = 1\nb", "a\n xmax= -2.5 \nz"]
NAMES = NAMES + BLANK_NAMES + NL_NAMES + ROW_NAMES
KEYWORD_NAMES = ["item [1]", "IntervalTier", "intervals [1]:"]

# composed labels: quotes, line breaks and blanks in every arrangement (a quote ending a non-final line, runs of quotes,
# blank lines, ...) -- none of the atoms can form one of the readers' keywords
ATOMS = ['"', '\n', ' ', 'a', 'b', '""', '"\n', '\n"', '=', 'é', '\t', ' "', '" ', '"\n"', '\n\n', 'c d', '0', '.5']


def rand_label(rnd):
    return "".join(rnd.choice(ATOMS) for _ in range(rnd.randint(1, 6)))


def pick_label(rnd, labels):
    return (rand_label(rnd) if rnd.random() < 0.3 else rnd.choice(labels)).strip()


TMP = None


def tmpdir():
    global TMP
    if TMP is None or not os.path.isdir(TMP):
        TMP = tempfile.mkdtemp(prefix="praatio-verif.")
        import atexit
        import shutil
        atexit.register(lambda: shutil.rmtree(TMP, ignore_errors=True))
    return TMP


def ulp_up(x, n=1):
    b = struct.unpack("<q", struct.pack("<d", x))[0]
    return struct.unpack("<d", struct.pack("<q", b + n))[0]


def gen_time_pool(rnd, n, domain):
    """sorted distinct times of the C01 domain"""
    out = set()
    while len(out) < n:
        k = rnd.random()
        if domain == "simple":
            out.add(round(rnd.uniform(0.01, 50), rnd.choice([1, 2, 3])))
        elif k < 0.25:
            out.add(round(rnd.uniform(0.01, 100), rnd.choice([1, 2, 3, 6])))
        elif k < 0.4:
            out.add(float(rnd.randint(1, 200)))
        elif k < 0.55:
            i = float(rnd.randint(1, 1000))
            out.add(i * (1 + rnd.choice([-1, 1]) * 10.0 ** -rnd.randint(9, 16)))
        elif k < 0.65:
            out.add(ulp_up(float(rnd.randint(1, 1000)), rnd.choice([-2, -1, 1, 2])))
        elif k < 0.75:
            out.add(rnd.randint(1, 64000) / 64.0)
        elif k < 0.85:
            out.add(10.0 ** rnd.randint(-17, 15) * rnd.choice([1.0, 1.5, 3.0]))
        else:
            out.add(rnd.uniform(0, 1e15) if rnd.random() < 0.3 else rnd.uniform(0, 10))
    return sorted(out)


def gen_tg(rnd, domain="full", labels=None, names=None, min_len=1e-6, ntiers=None, valid=True):
    """a well-formed textgrid spec whose tiers share the textgrid's span (valid) or not"""
    labels = labels or PLAIN_LABELS
    names = list(names or NAMES)
    rnd.shuffle(names)
    n = ntiers or rnd.randint(1, 3)
    tiers = []
    for i in range(n):
        k = rnd.randint(0, 4)
        if rnd.random() < 0.65:
            ts = gen_time_pool(rnd, 2 * k, domain)
            es = []
            j = 0
            while j + 1 < len(ts):
                if ts[j + 1] - ts[j] >= min_len:
                    es.append([ts[j], ts[j + 1], pick_label(rnd, labels)])
                j += 1 if rnd.random() < 0.4 else 2
            # keep intervals disjoint
            clean = []
            for e in es:
                if not clean or clean[-1][1] <= e[0]:
                    clean.append(e)
            tiers.append({"k": "I", "name": names[i], "es": clean, "lo": 0.0, "hi": 0.0})
        else:
            ts = gen_time_pool(rnd, k, domain)
            tiers.append({"k": "P", "name": names[i], "es": [[t, pick_label(rnd, labels)] for t in ts], "lo": 0.0, "hi": 0.0})
    top = max([x for t in tiers for e in t["es"] for x in e[:-1]] + [1.0])
    hi = rnd.choice([top, top + 1.0, float(math.ceil(top)) + 2, top * 1.5])
    lo = 0.0
    for t in tiers:
        t["lo"], t["hi"] = lo, hi
        if not valid and rnd.random() < 0.5:
            t["hi"] = hi + 1.0
    return {"lo": lo, "hi": max(t["hi"] for t in tiers), "tiers": tiers}


def negate_tg(g, rnd, mode=None):
    """a textgrid on NEGATIVE times made from one on [0, hi] (negation is exact, so every gap and every near-integer keeps its
    shape): 'mirror' — the whole textgrid reflected at 0 (span [-hi, -0.0]: the span end is the float -0.0, written `0`);
    'straddle' — every tier holds its reflected entries followed by its own (span [-hi, hi], entries on both sides of 0, an
    interval ending at -0.0 may touch one starting at 0.0).  Defect A30 (fixed): the long-format reader lost the sign."""
    import copy
    mode = mode or rnd.choice(["mirror", "straddle"])
    g = copy.deepcopy(g)
    for t in g["tiers"]:
        if t["k"] == "I":
            back = [[-e[1], -e[0], e[2]] for e in reversed(t["es"])]
        else:
            back = [[-e[0], e[1]] for e in reversed(t["es"]) if not (mode == "straddle" and e[0] == 0)]
            back.sort(key=lambda e: (e[0], e[1]))      # points at one time: in the constructor's order (time, then mark)
        if mode == "mirror":
            t["es"], t["lo"], t["hi"] = back, -t["hi"], -t["lo"]
        else:
            t["es"], t["lo"] = back + t["es"], -t["hi"]
    if mode == "mirror":
        g["lo"], g["hi"] = -g["hi"], -g["lo"]
    else:
        g["lo"] = -g["hi"]
    return g


# ---------------------------------------------------------------------------------------------
# the real code
# ---------------------------------------------------------------------------------------------
def build_through_insert(spec):
    """the same textgrid, its entries put in through insertEntry with every whole-number time given as a Python int (the way
    users write them): defect A34 (fixed) - insertEntry kept the ints, both JSON formats wrote `4` and re-saved `4.0`"""
    g = tgops.build(dict(spec, tiers=[dict(t, es=[]) for t in spec["tiers"]]))
    for t in spec["tiers"]:
        tier = g.getTier(t["name"])
        for e in t["es"]:
            tier.insertEntry(tuple(int(x) if float(x).is_integer() and abs(x) < 2 ** 53 else x for x in e[:-1]) + (e[-1],), "error", "silence")
    if tgops.snap(g) != tgops.snap(tgops.build(spec)):
        raise AssertionError("insertEntry did not rebuild the textgrid")
    return g


def save_text(spec, fmt, blanks, min_t=None, max_t=None, min_len="default", via_file=True, report="silence", through_insert=False):
    """text that Textgrid.save writes (through a real file), or the exception"""
    g = build_through_insert(spec) if through_insert else tgops.build(spec)
    kw = {}
    if min_len != "default":
        kw["minimumIntervalLength"] = min_len
    if via_file:
        fn = os.path.join(tmpdir(), "s.TextGrid")

        def run():
            g.save(fn, fmt, blanks, min_t, max_t, reportingMode=report, **kw)
            with io.open(fn, "r", encoding="utf-8", newline="") as fd:
                return fd.read()
    else:
        def run():
            return textgrid_io.getTextgridAsStr(dtextgrid._tgToDictionary(g), fmt, blanks, min_t, max_t,
                                                kw.get("minimumIntervalLength", 1e-8))
    return T.call(run)


def refused_save_touches_file(spec, fmt, blanks, min_t=None, max_t=None, min_len="default"):
    """Textgrid.save of the same arguments onto a file that already holds something: True if a save that RAISES changed or
    removed that file ("the save raises instead of writing an inconsistent file"; round 4, C04-mutH: the destination opened
    for writing before the text is built)"""
    g = tgops.build(spec)
    kw = {} if min_len == "default" else {"minimumIntervalLength": min_len}
    fn = os.path.join(tmpdir(), "refused.TextGrid")
    sentinel = "an earlier, good file\n"
    with io.open(fn, "w", encoding="utf-8", newline="") as fd:
        fd.write(sentinel)
    r = T.call(lambda: g.save(fn, fmt, blanks, min_t, max_t, reportingMode="silence", **kw))
    if r[0] != "err":
        return False
    try:
        with io.open(fn, "r", encoding="utf-8", newline="") as fd:
            return fd.read() != sentinel
    except OSError:
        return True


def open_text(text, include_empty, dup="error", encoding="utf-8", newline="\n"):
    fn = os.path.join(tmpdir(), "o.TextGrid")
    data = text.replace("\n", newline) if newline != "\n" else text
    with io.open(fn, "wb") as fd:
        fd.write(data.encode(encoding))
    r = T.call(lambda: ptextgrid.openTextgrid(fn, include_empty, "silence", dup))
    if r[0] == "ok":
        return ("ok", tgops.snap(r[1]))
    return r


# ---------------------------------------------------------------------------------------------
# independent reader: Praat's "free-standing" token rule (numbers, "quoted texts" with "" = one quote, <flags>;
# everything else — words, '=', '[n]', ':' — is comment)
# ---------------------------------------------------------------------------------------------
class SpecError(Exception):
    pass


def spec_tokens(s):
    out = []
    i, n = 0, len(s)
    while i < n:
        c = s[i]
        if c.isspace():
            i += 1
            continue
        if c == '"':
            j = i + 1
            buf = []
            while True:
                if j >= n:
                    raise SpecError("unterminated text")
                if s[j] == '"':
                    if j + 1 < n and s[j + 1] == '"':
                        buf.append('"')
                        j += 2
                        continue
                    break
                buf.append(s[j])
                j += 1
            out.append(("T", "".join(buf)))
            i = j + 1
            continue
        j = i
        while j < n and not s[j].isspace():
            j += 1
        w = s[i:j]
        if w.startswith("<") and w.endswith(">"):
            out.append(("F", w))
        elif w[0] in "+-.0123456789":
            try:
                float(w)
                out.append(("N", w))
            except ValueError:
                pass
        i = j
    return out


def spec_decode(text):
    """-> {"lo","hi","tiers":[{"k","name","lo","hi","es"}]} with float times and exact label strings"""
    t = spec_tokens(text)
    p = 0

    def nxt(kind):
        nonlocal p
        if p >= len(t):
            raise SpecError(f"missing {kind} token")
        k, v = t[p]
        if k != kind:
            raise SpecError(f"expected {kind} got {k}:{v!r} at token {p}")
        p += 1
        return v
    if nxt("T") != "ooTextFile":
        raise SpecError("File type")
    if nxt("T") != "TextGrid":
        raise SpecError("Object class")
    lo = float(nxt("N"))
    hi = float(nxt("N"))
    if nxt("F") != "<exists>":
        raise SpecError("<exists>")
    nt = int(nxt("N"))
    tiers = []
    for _ in range(nt):
        cls = nxt("T")
        name = nxt("T")
        tlo = float(nxt("N"))
        thi = float(nxt("N"))
        cnt = int(nxt("N"))
        es = []
        for _ in range(cnt):
            if cls == "IntervalTier":
                es.append([float(nxt("N")), float(nxt("N")), nxt("T")])
            elif cls == "TextTier":
                es.append([float(nxt("N")), nxt("T")])
            else:
                raise SpecError(f"class {cls!r}")
        tiers.append({"k": "I" if cls == "IntervalTier" else "P", "name": name, "lo": tlo, "hi": thi, "es": es})
    if p != len(t):
        raise SpecError(f"{len(t) - p} tokens left over (a declared size does not match the items that follow)")
    return {"lo": lo, "hi": hi, "tiers": tiers}


def json_decode(text, fmt):
    """the two README schemas"""
    d = json.loads(text)
    if fmt == "json":
        if set(d.keys()) != {"start", "end", "tiers"} or not isinstance(d["tiers"], dict):
            raise SpecError("json schema")
        tiers = []
        for name, t in d["tiers"].items():
            if set(t.keys()) != {"type", "entries"}:
                raise SpecError("json tier schema")
            tiers.append({"k": "I" if t["type"] == "IntervalTier" else "P", "name": name, "lo": float(d["start"]), "hi": float(d["end"]),
                          "es": [[float(x) for x in e[:-1]] + [e[-1]] for e in t["entries"]]})
            if t["type"] not in ("IntervalTier", "TextTier"):
                raise SpecError("tier type")
        return {"lo": float(d["start"]), "hi": float(d["end"]), "tiers": tiers}
    if set(d.keys()) != {"xmin", "xmax", "tiers"} or not isinstance(d["tiers"], list):
        raise SpecError("textgrid_json schema")
    tiers = []
    for t in d["tiers"]:
        if set(t.keys()) != {"class", "name", "xmin", "xmax", "entries"} or t["class"] not in ("IntervalTier", "TextTier"):
            raise SpecError("textgrid_json tier schema")
        tiers.append({"k": "I" if t["class"] == "IntervalTier" else "P", "name": t["name"], "lo": float(t["xmin"]), "hi": float(t["xmax"]),
                      "es": [[float(x) for x in e[:-1]] + [e[-1]] for e in t["entries"]]})
    return {"lo": float(d["xmin"]), "hi": float(d["xmax"]), "tiers": tiers}


def decode_any(text, fmt):
    return json_decode(text, fmt) if fmt in ("json", "textgrid_json") else spec_decode(text)


# ---------------------------------------------------------------------------------------------
# independent writer (for C03): layouts long / short / elan-long / tight-long, numeral styles
# ---------------------------------------------------------------------------------------------
def esc(s):
    return s.replace('"', '""')


def num(x, style="plain"):
    """a numeral Praat itself could have written for x; the data generator only uses values for which the chosen
    style is exact"""
    if style == "int" and float(x).is_integer():
        return str(int(x))
    if style == "exp":
        return repr(float(x)) if "e" in repr(float(x)) else "%r" % float(x)
    return repr(float(x)) if not float(x).is_integer() or style == "float" else str(int(x))


def spec_write(data, layout="long", style="plain", neg_zero=False):
    """data: {"lo","hi","tiers":[{"k","name","lo","hi","es"}]} -> text"""
    def nz(x):
        return "-0" if (neg_zero and x == 0) else num(x, style)
    out = []
    if layout == "short":
        out += ['File type = "ooTextFile"', 'Object class = "TextGrid"', "", nz(data["lo"]), num(data["hi"], style), "<exists>", str(len(data["tiers"]))]
        for t in data["tiers"]:
            out += ['"IntervalTier"' if t["k"] == "I" else '"TextTier"', '"%s"' % esc(t["name"]), nz(t["lo"]), num(t["hi"], style), str(len(t["es"]))]
            for e in t["es"]:
                out += [nz(x) if i == 0 else num(x, style) for i, x in enumerate(e[:-1])] + ['"%s"' % esc(e[-1])]
        return "\n".join(out) + "\n"
    elan = layout == "elan"
    # ELAN's style as in tests/files/bobby_phones_elan.TextGrid: "item []: " at the top but "item[1]:" for the tiers,
    # "intervals [1]" without a colon, header xmin/xmax without the trailing blank
    # "tight": like "long" but no blank before '=' (class= "IntervalTier", xmin= 0, text= "x") - regression for A22.  The blank
    # AFTER '=' stays: Praat reads free-standing values only (the independent reader below rejects `xmin=0`)
    eq = "= " if layout == "tight" else " = "
    ind = "    "
    htail = "" if elan else " "
    out += ['File type = "ooTextFile"', 'Object class = "TextGrid"', "", f"xmin{eq}{nz(data['lo'])}{htail}", f"xmax{eq}{num(data['hi'], style)}{htail}",
            "tiers? <exists> ", f"size = {len(data['tiers'])} ", "item []: "]
    for i, t in enumerate(data["tiers"]):
        out.append(f"{ind}item[{i + 1}]:" if elan else f"{ind}item [{i + 1}]:")
        out.append(f'{ind * 2}class{eq}"{"IntervalTier" if t["k"] == "I" else "TextTier"}" ')
        out.append(f'{ind * 2}name{eq}"{esc(t["name"])}" ')
        out.append(f"{ind * 2}xmin{eq}{nz(t['lo'])}{htail}")
        out.append(f"{ind * 2}xmax{eq}{num(t['hi'], style)} ")
        if t["k"] == "I":
            out.append(f"{ind * 2}intervals: size = {len(t['es'])} ")
            for j, (s, e, l) in enumerate(t["es"]):
                out.append(f"{ind * 2}intervals [{j + 1}]" + ("" if elan else ":"))
                out.append(f"{ind * 3}xmin{eq}{nz(s)} ")
                out.append(f"{ind * 3}xmax{eq}{num(e, style)} ")
                out.append(f'{ind * 3}text{eq}"{esc(l)}" ')
        else:
            out.append(f"{ind * 2}points: size = {len(t['es'])} ")
            for j, (x, l) in enumerate(t["es"]):
                out.append(f"{ind * 2}points [{j + 1}]" + ("" if elan else ":"))
                out.append(f"{ind * 3}number{eq}{nz(x)} ")
                out.append(f'{ind * 3}mark{eq}"{esc(l)}" ')
    return "\n".join(out) + "\n"


def json_write(data, fmt):
    if fmt == "json":
        return json.dumps({"start": data["lo"], "end": data["hi"],
                           "tiers": {t["name"]: {"type": "IntervalTier" if t["k"] == "I" else "TextTier", "entries": t["es"]} for t in data["tiers"]}},
                          ensure_ascii=False)
    return json.dumps({"xmin": data["lo"], "xmax": data["hi"],
                       "tiers": [{"class": "IntervalTier" if t["k"] == "I" else "TextTier", "name": t["name"], "xmin": t["lo"], "xmax": t["hi"],
                                  "entries": t["es"]} for t in data["tiers"]]}, ensure_ascii=False)


# ---------------------------------------------------------------------------------------------
# independent JSON writer with free choices (for the JSON reader model and parseTextgridStr): key order, white space,
# escapes (\uXXXX in either case, surrogate pairs, \/, short escapes), numeral styles, extra and duplicate keys.
# Written from RFC 8259; shares nothing with json.dumps.
# ---------------------------------------------------------------------------------------------
JSON_WS = ["", "", " ", "\n", "\t", "\r\n", "  ", "\n    "]
SHORT_ESC = {'"': '\\"', '\\': '\\\\', '\n': '\\n', '\r': '\\r', '\t': '\\t', '\b': '\\b', '\f': '\\f', '/': '\\/'}


def _hexu(rnd, o):
    return ("\\u%04x" if rnd.random() < 0.5 else "\\u%04X") % o


def jstr_variant(s, rnd, p=0.25):
    out = ['"']
    for ch in s:
        o = ord(ch)
        must = o < 0x20 or ch in '"\\'
        k = rnd.random()
        if ch in SHORT_ESC and ((must and k < 0.7) or (ch == "/" and k < 0.5)):
            out.append(SHORT_ESC[ch])
        elif must or k < p:
            if o >= 0x10000:
                o -= 0x10000
                out.append(_hexu(rnd, 0xD800 + (o >> 10)) + _hexu(rnd, 0xDC00 + (o & 0x3FF)))
            else:
                out.append(_hexu(rnd, o))
        else:
            out.append(ch)
    out.append('"')
    return "".join(out)


def jnum_variant(x, rnd):
    """some JSON numeral denoting exactly the float x (or the int x)"""
    if isinstance(x, int):
        return str(x)
    k = rnd.random()
    if k < 0.5:
        return repr(x)
    if k < 0.65 and x.is_integer() and abs(x) < 1e15:
        return str(int(x))
    if k < 0.8:
        return "%.17e" % x
    if k < 0.9:
        return ("%.17e" % x).replace("e", "E")
    return ("%.17e" % x).replace("e+", "e")


def jdoc_variant(v, rnd):
    """v: nested ("obj", [(key, v)...]) | ("arr", [v...]) | ("str", s) | ("num", x) | ("raw", text)"""
    ws = lambda: rnd.choice(JSON_WS)
    k, x = v
    if k == "str":
        return jstr_variant(x, rnd)
    if k == "num":
        return jnum_variant(x, rnd)
    if k == "raw":
        return x
    if k == "arr":
        return "[" + ws() + ("," + ws()).join(jdoc_variant(e, rnd) + ws() for e in x) + "]"
    return "{" + ws() + ("," + ws()).join(jstr_variant(key, rnd) + ws() + ":" + ws() + jdoc_variant(e, rnd) + ws() for key, e in x) + "}"


JUNK = [("raw", "null"), ("raw", "true"), ("raw", "false"), ("raw", "[]"), ("raw", "{}"), ("num", 7), ("str", "junk"),
        ("arr", [("num", 1.5), ("obj", [("a", ("raw", "null"))])])]


def json_variant(data, fmt, rnd, extras=True):
    """an independently written document of the given schema with the content of `data`"""
    def members(ms, dup_ok=True, other=()):
        # `other`: keys that mean something elsewhere (the other schema, the enclosing level) and must be ignored here
        ms = list(ms)
        rnd.shuffle(ms)
        if extras and rnd.random() < 0.3:
            ms.insert(rnd.randint(0, len(ms)), (rnd.choice(["comment", "x", "Start", "class ", ""] + list(other)), rnd.choice(JUNK)))
        if extras and dup_ok and rnd.random() < 0.2:
            i = rnd.randrange(len(ms))
            ms.insert(rnd.randint(0, i), (ms[i][0], rnd.choice(JUNK)))      # an earlier duplicate: the later value wins
        return ("obj", ms)

    def entries(t):
        return ("arr", [("arr", [("num", x) for x in e[:-1]] + [("str", e[-1])]) for e in t["es"]])
    cls = lambda t: ("str", "IntervalTier" if t["k"] == "I" else "TextTier")
    if fmt == "json":
        tiers = ("obj", [(t["name"], members([("type", cls(t)), ("entries", entries(t))], other=("xmin", "xmax", "name", "class", "start", "end")))
                         for t in data["tiers"]])
        doc = members([("start", ("num", data["lo"])), ("end", ("num", data["hi"])), ("tiers", tiers)], other=("xmin", "xmax", "type", "entries"))
    else:
        tiers = ("arr", [members([("class", cls(t)), ("name", ("str", t["name"])), ("xmin", ("num", t["lo"])), ("xmax", ("num", t["hi"])),
                                  ("entries", entries(t))], other=("type", "start", "end", "tiers")) for t in data["tiers"]])
        # a stray top-level key "start" would switch parseTextgridStr to the other schema: not among the extras
        doc = members([("xmin", ("num", data["lo"])), ("xmax", ("num", data["hi"])), ("tiers", tiers)], other=("end", "type", "entries", "class", "name"))
    return rnd.choice(JSON_WS) + jdoc_variant(doc, rnd) + rnd.choice(JSON_WS)


def json_break(text, rnd):
    """a small mutation of a JSON text: mostly invalid JSON or a document off the schemas"""
    k = rnd.random()
    i = rnd.randrange(len(text))
    if k < 0.3:
        return text[:i] + text[i + 1:]
    if k < 0.6:
        return text[:i] + rnd.choice(list('{}[],:"\\ 01.eE-+xtfn\n\t/u')) + text[i:]
    if k < 0.75:
        return text[:i] + rnd.choice(list('{}[],:"\\ 01.eE-+xtfn\n\t/u')) + text[i + 1:]
    if k < 0.85:
        return text[:i]
    return text.replace(rnd.choice(['"entries"', '"tiers"', '"xmin"', '"start"', '"name"', '"class"', '"type"', "IntervalTier", "[", "]"]),
                        rnd.choice(['"x"', "null", "1", "[]", "{}", '"TextTier"', "[[", ""]), 1)


STR_ATOMS = [chr(i) for i in range(0x20)] + [chr(i) for i in (0x7f, 0x80, 0x9f, 0xa0, 0xe9, 0x2028, 0x2029, 0xfeff, 0xfffd, 0xffff, 0xd7ff, 0xe000,
                                                                0x10000, 0x1d11e, 0x10ffff)] + \
    ['"', "\\", "/", "a", " ", "\\u0041", "\\n", "u", "'", "<", "&"]


def rand_jstring(rnd):
    return "".join(rnd.choice(STR_ATOMS) for _ in range(rnd.randint(0, 8)))


NUM_WORDS = ["0", "-0", "-0.0", "0.0", "1", "-1", "10", "01", "-01", "00", "1.", ".5", "-.5", "1.5", "1.50", "1e5", "1E5", "1e+5", "1e-5", "1e", "1e+", "1e-",
             "1.e5", "1.5e5", "1.5E-05", "-", "+1", "--1", "1-", "1 ", " 1", "1\n", "NaN", "nan", "Infinity", "-Infinity", "inf", "-inf", "0x10", "1_0", "١٢",
             "1e05", "1e+05", "5e-324", "1.7976931348623157e+308", "1e400", "123456789012345678901234567890", "0e0", "0E-0", "-0e+0", "0.", "0.e1", "1.2.3",
             "1e5.5", "1ee5", "", "e5", "true", "1,", "1]"]


def rand_numword(rnd):
    if rnd.random() < 0.5:
        return rnd.choice(NUM_WORDS)
    return "".join(rnd.choice("0123456789.eE+-") for _ in range(rnd.randint(1, 7)))


def rand_jdoc(rnd, depth=0):
    k = rnd.random()
    if depth > 3 or k < 0.35:
        c = rnd.random()
        if c < 0.3:
            return ("str", rand_jstring(rnd))
        if c < 0.6:
            return ("raw", rnd.choice(["0", "-0", "1", "-12", "1.5", "1e5", "1E-05", "2.50e+3", "0.0", "-0.0", "NaN", "Infinity", "-Infinity", "1e400",
                                       "123456789012345678901234567890", "5e-324"]))
        return ("raw", rnd.choice(["null", "true", "false", "[]", "{}"]))
    if k < 0.65:
        return ("arr", [rand_jdoc(rnd, depth + 1) for _ in range(rnd.randint(1, 4))])
    keys = ["a", "b", "a", "", "é", "k\n", "start", "\U0001d11e"]
    return ("obj", [(rnd.choice(keys), rand_jdoc(rnd, depth + 1)) for _ in range(rnd.randint(1, 4))])


# ---------------------------------------------------------------------------------------------
# comparisons
# ---------------------------------------------------------------------------------------------
def time_ok(orig, got):
    """bit-identical, or `got` is the integer that `orig` is within 1e-14 (relative) of"""
    if orig == got and math.copysign(1, orig) == math.copysign(1, got):
        return True
    if orig == got:
        return True
    return float(got).is_integer() and abs(orig - got) <= 1e-14 * max(abs(orig), abs(got))


# which (format, keyword) combinations confuse praatio's readers, and where (known finding A10; measured once, see
# known_findings.json) — used only to ATTRIBUTE a failure to its keyword, never to excuse one
A10_TABLE = {
    ('short_textgrid', 'item ['): ['ilabel', 'name', 'plabel'],
    ('long_textgrid', 'item ['): ['ilabel', 'name', 'plabel'],
    ('long_textgrid', 'item['): ['ilabel', 'name', 'plabel'],
    ('long_textgrid', 'intervals ['): ['ilabel', 'name'],
    ('long_textgrid', 'intervals['): ['ilabel', 'name'],
    ('long_textgrid', 'points ['): ['plabel'],
    ('long_textgrid', 'points['): ['plabel'],
    ('short_textgrid', 'IntervalTier'): ['ilabel', 'name', 'plabel'],
    ('short_textgrid', 'TextTier'): ['ilabel', 'name', 'plabel'],
    ('long_textgrid', 'ooTextFile short'): ['ilabel', 'name', 'plabel'],
}


def keyword_place(g, fmt):
    """(keyword, place) of the first keyword occurrence that is relevant for this format"""
    for (f, kw), places in A10_TABLE.items():
        if f != fmt:
            continue
        if "name" in places and any(kw in t["name"] for t in g["tiers"]):
            return kw, "name"
        for t in g["tiers"]:
            pl = "ilabel" if t["k"] == "I" else "plabel"
            if pl in places and any(kw in e[-1] for e in t["es"]):
                return kw, pl
    return None, None


def keyword_cause(text_items):
    """which reader-splitting keyword (known finding A10) occurs in a name/label, if any"""
    for kw in ("item [", "item[", "intervals [", "intervals[", "points [", "points[", "IntervalTier", "TextTier", "ooTextFile short"):
        for s in text_items:
            if kw in s:
                return kw
    return None
