-- root of the PraatModel library: model files (no Mathlib), protocol, property theorems
import PraatModel.Time
import PraatModel.Py
import PraatModel.Tier
import PraatModel.Crop
import PraatModel.Ops
import PraatModel.Textgrid
import PraatModel.Query
import PraatModel.Proto
import PraatModel.Run
import PraatModel.Lemmas.Tier
import PraatModel.Props.C06
import PraatModel.Props.C07
import PraatModel.Props.C08
import PraatModel.Props.C11
import PraatModel.Props.C09
import PraatModel.Lemmas.Strip
