import PraatModel.Run

/-! run: `lake env lean --run Driver.lean F|X < ops.txt` -/

partial def loop (h : IO.FS.Stream) (out : IO.FS.Stream) (f : String → String) : IO Unit := do
  let line ← h.getLine
  if line.isEmpty then return ()
  out.putStrLn (f ((line.splitOn "\n").headD ""))
  loop h out f

def main (args : List String) : IO UInt32 := do
  let stdin ← IO.getStdin
  let stdout ← IO.getStdout
  match args with
  | ["F"] => loop stdin stdout (runLine (α := Float)); return 0
  | ["X"] => loop stdin stdout (runLine (α := Int)); return 0
  | _ => IO.eprintln "usage: Driver F|X"; return 2
