import PraatModel.Proto
import PraatModel.Scripts
import PraatModel.PointQuery
import PraatModel.PIMeasures

/-! # driver operations for the script functions brought inside the model after the first build

* `sc_split <G> <src> <tgt> <startT|N> <endT|N>` → `ok <G>` / `err <Class>`   (`splitTierEntries`)
* `sc_spell <G> <target> <newName> <k> <word>*` → `ok <G>` / `err <Class>`    (`spellCheckEntries`; checkFunction =
  membership in the word list)
* `po_points <n> <t>* <start> <end> <startIndex>` → `ok <k> <t>*`          (`PointObject.getPointsInInterval`)
* `pi_measures <tier|N> <n> (<t> <f0> <int>)* <doPitch> <medW|N> <globalZ> <localW>` → `ok <rows> <width> (<max> <min> <range>)*`
  (`generatePIMeasures`; the triples only for doPitch without normalisation — everything else in a row needs `statistics`/`sqrt`
  and is the oracle's business, as for op `pitch`) / `err <Class>`
* `znormwin_shape <n> <x>* <window> <pad> <filterZero>` → `ok <n>` / `err <Class>`   (`znormWindowFilter` with its inner
  `znormalizeCenterVal`: whether and what it raises, and the length; the values need `statistics` — oracle only)
* `u_wsplit <str>` → `ok <k> <word>*`                                           (`str.split()`)
-/

def runOpScripts (α : Type) [LT α] [LE α] [DecidableLT α] [DecidableLE α] [BEq α] [Add α] [Sub α] [Tm α] [Proto α]
    [SplitArith α] (op : String) : Option (P String) :=
  match op with
  | "sc_split" => some do
    let g ← P.tg (α := α); let src ← P.str; let tgt ← P.str; let a ← P.opt P.time; let b ← P.opt P.time
    pure (Out.exc Out.tg (g.splitTierEntries src tgt a b))
  | "sc_spell" => some do
    let g ← P.tg (α := α); let target ← P.str; let nn ← P.str; let k ← P.nat; let ws ← P.many k P.str
    pure (Out.exc Out.tg (g.spellCheckEntries target nn fun w => ws.contains w))
  | "po_points" => some do
    let n ← P.nat; let ts ← P.many n (P.time (α := α)); let a ← P.time; let b ← P.time; let i ← P.int
    let r := getPointsInInterval ts a b i
    pure ("ok " ++ Out.join (toString r.length :: r.map Out.time))
  | "pi_measures" =>
    letI : Inhabited α := ⟨Tm.zero⟩
    some do
    let tier ← P.opt (P.anyTier (α := α)); let n ← P.nat
    let data ← P.many n (do let t ← P.time (α := α); let f ← P.time (α := α); let i ← P.time (α := α); pure (t, f, i))
    let doPitch ← P.bool; let medW ← P.opt P.nat; let gz ← P.bool; let lw ← P.nat
    let dummy : PI.Arith α := ⟨⟨fun _ => Tm.zero, fun _ _ => Tm.zero, fun _ => Tm.zero⟩, fun _ => Tm.zero, fun _ _ => Tm.zero⟩
    match PI.generatePIMeasures dummy data tier doPitch medW gz lw with
    | .error e => pure ("err " ++ e.name)
    | .ok rows =>
      let width := (rows.headD []).length
      let cells := if doPitch && !gz && lw == 0 then rows.flatMap fun r => (r.drop 1).take 3 |>.map Out.time else []
      pure ("ok " ++ Out.join (toString rows.length :: toString width :: cells))
  | "znormwin_shape" =>
    letI : Inhabited α := ⟨Tm.zero⟩
    some do
    let n ← P.nat; let xs ← P.many n (P.time (α := α)); let w ← P.nat; let pad ← P.bool; let fz ← P.bool
    let dummy : PI.Arith α := ⟨⟨fun _ => Tm.zero, fun _ _ => Tm.zero, fun _ => Tm.zero⟩, fun _ => Tm.zero, fun _ _ => Tm.zero⟩
    match PI.znormWindowFilter dummy xs w pad fz with
    | .error e => pure ("err " ++ e.name)
    | .ok r => pure s!"ok {r.length}"
  | "u_wsplit" => some do
    let s ← P.str
    let ws := pySplit s
    pure ("ok " ++ Out.join (toString ws.length :: ws.map Out.str))
  | _ => none
