import PraatModel.Textgrid

/-!
# Statement-level (imperative) layer for the eight mutators (property C13)

The functional model (`Ops.lean`, `Textgrid.lean`) returns either a new object or an error, so "a failed mutation
changes nothing" is true of it by construction.  Here the same methods are written as the Python code is: as a
sequence of statements that read and WRITE the fields of `self`, in source order, in the monad

    M σ = ExceptT Err (StateM σ)          -- σ → (Except Err β × σ)

in which a `raise` KEEPS every write made before it (as in Python; `StateT σ (Except Err)` would throw the state
away).  The object state σ is the record of the instance attributes the methods touch:

* a tier: `name`, `_entries`, `minTimestamp`, `maxTimestamp`       = `ITier α` / `PTier α` used as a mutable record;
* a Textgrid: `_tierDict` (an `OrderedDict` name → tier, kept as the list of its values in key order; the key of a
  value is its own `name`, that is how `addTier` stores it), `minTimestamp`, `maxTimestamp`      = `Tg α`.

Expression-level computations (the lax crop that finds the collisions, the search of `deleteEntry`, `list.sort`,
`"-".join`, `list.insert`) are the existing pure helpers; what is new here is only the SEQUENCING of effects: which
write happens before which raise.  Line numbers refer to /repo at the pinned sources
(praatio/data_classes/interval_tier.py, point_tier.py, textgrid_tier.py, textgrid.py).

Option values are typed enumerations; `utils.validateOption` (the first statements of insertEntry and addTier) is modelled by
the `…Py` entry points below, which take `Option`al option values: `none` = a value outside `validOptions` → `WrongOption`.
-/

namespace Imp

abbrev M (σ : Type) := ExceptT Err (StateM σ)

/-- run a method body on an object state: (what was returned or raised, the object afterwards) -/
def exec {σ β : Type} (m : M σ β) (s : σ) : Except Err β × σ := (ExceptT.run m).run s

/-- an expression that may raise (a constructor, a search) evaluated inside a method body: it reads, it never writes -/
def liftE {σ β : Type} : Except Err β → M σ β
  | .ok a => pure a
  | .error e => throw e

/-- `errorReporter(ErrClass, msg)`: `reportNoop` / `reportWarning` return, `reportException` raises -/
def report {σ : Type} (rep : Report) (e : Err) : M σ Unit :=
  match rep with
  | .error => throw e
  | _ => pure ()

/-- `utils.validateOption(variableName, value, optionClass)`, utils.py L84-86: `none` stands for a value that is not in
`optionClass.validOptions` -/
def validateOption {σ β : Type} (v : Option β) : M σ β :=
  match v with
  | some x => pure x
  | none => throw .WrongOption

section
variable {α : Type} [LT α] [LE α] [DecidableLT α] [DecidableLE α] [BEq α] [Add α] [Sub α] [Tm α]

/-! ## tiers -/

/-- `IntervalTier.deleteEntry(entry)`, interval_tier.py L222-231 -/
def ideleteEntry (x : Iv α) : M (ITier α) Unit := do
  let self ← get
  -- L226-229  for i, existingEntry in enumerate(self._entries): if tuple(existingEntry) == tuple(entry): pop(i); return
  match eraseSameIv self.es x with
  | some r => set { self with es := r }
  | none =>
    -- L231  self._entries.pop(self._entries.index(entry)):  `index` raises ValueError before `pop` writes
    let r ← liftE (deleteIvTol self.es x)
    set { self with es := r }

/-- `PointTier.deleteEntry(entry)`, point_tier.py L130-139 -/
def pdeleteEntry (x : Pt α) : M (PTier α) Unit := do
  let self ← get
  -- L134-137
  match eraseSamePt self.ps x with
  | some r => set { self with ps := r }
  | none =>
    -- L139
    let r ← liftE (deletePtTol self.ps x)
    set { self with ps := r }

/-- `TextgridTier.sort()`, textgrid_tier.py L173-185: `self._entries = [...]; self._entries.sort()` -/
def isort : M (ITier α) Unit := modify fun t => { t with es := sortIvs t.es }
def psort : M (PTier α) Unit := modify fun t => { t with ps := sortPts t.ps }

/-- the last part of `IntervalTier.insertEntry`, interval_tier.py L537-550: sort, span growth, collision report -/
def iinsertFinish (matchList : List (Iv α)) (rep : Report) : M (ITier α) Unit := do
  -- L537  self.sort()
  isort
  -- L539-540  if self._entries[0][0] < self.minTimestamp: self.minTimestamp = self._entries[0][0]
  let t1 ← get
  match t1.es.head? with
  | none => throw .IndexError
  | some f => if f.s < t1.lo then modify fun t => { t with lo := f.s } else pure ()
  -- L542-543  if self._entries[-1][1] > self.maxTimestamp: self.maxTimestamp = self._entries[-1][1]
  let t2 ← get
  match t2.es.getLast? with
  | none => throw .IndexError
  | some g => if t2.hi < g.e then modify fun t => { t with hi := g.e } else pure ()
  -- L545-550  if len(matchList) != 0: collisionReporter(CollisionError, ...)      -- AFTER every write
  if !matchList.isEmpty then report rep .CollisionError else pure ()

/-- `IntervalTier.insertEntry(entry, collisionMode, collisionReportingMode)`, interval_tier.py L462-550 -/
def iinsertEntry (x0 : Iv α) (mode : InsMode) (rep : Report) : M (ITier α) Unit := do
  -- L493-498  interval = Interval(start, end, label.strip())
  let x : Iv α := { x0 with l := pyStrip x0.l }
  -- L500-502  matchList = self.crop(start, end, LAX, False)._entries
  --           (ArgumentError for a zero-length/reversed entry, TextgridStateError from the constructor: no write yet)
  let self ← get
  let mt ← liftE (self.crop x.s x.e .lax false)
  let matchList := mt.es
  -- L505  newEntry = Interval(float(start), float(end), label)
  if matchList.isEmpty then
    -- L507-508  self._entries.append(newEntry)
    modify fun t => { t with es := t.es ++ [x] }
  else match mode with
    | .replace => do
      -- L510-513  for matchEntry in matchList: self.deleteEntry(matchEntry);  self._entries.append(newEntry)
      matchList.forM ideleteEntry
      modify fun t => { t with es := t.es ++ [x] }
    | .merge => do
      -- L515-526  the same deletions; matchList.append(newEntry); matchList.sort(); append the fused interval
      matchList.forM ideleteEntry
      let ml2 := sortIvs (matchList ++ [x])
      modify fun t => { t with es := t.es ++ [mergedIv ml2 x] }
    | .error =>
      -- L528-535  raise CollisionError  (nothing written so far)
      throw .CollisionError
  -- L537-550
  iinsertFinish matchList rep

/-- the last part of `PointTier.insertEntry`, point_tier.py L380-392: sort, span growth, collision report -/
def pinsertFinish (matchList : List (Pt α)) (rep : Report) : M (PTier α) Unit := do
  -- L380  self.sort()
  psort
  -- L382-383
  let t1 ← get
  match t1.ps.head? with
  | none => throw .IndexError
  | some f => if f.t < t1.lo then modify fun t => { t with lo := f.t } else pure ()
  -- L385-386
  let t2 ← get
  match t2.ps.getLast? with
  | none => throw .IndexError
  | some g => if t2.hi < g.t then modify fun t => { t with hi := g.t } else pure ()
  -- L388-392
  if !matchList.isEmpty then report rep .CollisionError else pure ()

/-- `PointTier.insertEntry(entry, collisionMode, collisionReportingMode)`, point_tier.py L311-392 -/
def pinsertEntry (x0 : Pt α) (mode : InsMode) (rep : Report) : M (PTier α) Unit := do
  -- L342-347  newPoint = Point(time, label.strip())
  let x : Pt α := { x0 with l := pyStrip x0.l }
  -- L350  matchList = [point for point in self.entries if point.time == newPoint.time]
  let self ← get
  let matchList := self.ps.filter (fun p => p.t == x.t)
  if matchList.isEmpty then
    -- L355-356
    modify fun t => { t with ps := t.ps ++ [x] }
  else match mode with
    | .replace => do
      -- L358-361
      matchList.forM pdeleteEntry
      modify fun t => { t with ps := t.ps ++ [x] }
    | .merge => do
      -- L363-370  mergedPoint is computed first, then the deletions, then the append
      let merged : Pt α := ⟨x.t, pyJoin "-" (matchList.map (·.l) ++ [x.l])⟩
      matchList.forM pdeleteEntry
      modify fun t => { t with ps := t.ps ++ [merged] }
    | .error =>
      -- L372-378
      throw .CollisionError
  -- L380-392
  pinsertFinish matchList rep

/-- `IntervalTier.insertEntry` from its first statement: interval_tier.py L483-491 (the two `validateOption` calls, before
`self` is read), then L493-550 -/
def iinsertEntryPy (x0 : Iv α) (mode? : Option InsMode) (rep? : Option Report) : M (ITier α) Unit := do
  let mode ← validateOption mode?     -- L483-485
  let rep ← validateOption rep?       -- L486-490
  iinsertEntry x0 mode rep

/-- `PointTier.insertEntry` from its first statement: point_tier.py L332-340, then L342-392 -/
def pinsertEntryPy (x0 : Pt α) (mode? : Option InsMode) (rep? : Option Report) : M (PTier α) Unit := do
  let mode ← validateOption mode?     -- L332-334
  let rep ← validateOption rep?       -- L335-339
  pinsertEntry x0 mode rep

/-! ## Textgrid: `_tierDict` as an OrderedDict -/

/-- `d[t.name] = t` on an OrderedDict: a present key keeps its place, a new key goes to the end -/
def dictSet (d : List (AnyTier α)) (t : AnyTier α) : List (AnyTier α) :=
  if d.any (·.name == t.name) then d.map (fun u => if u.name == t.name then t else u) else d ++ [t]

/-- `Textgrid.removeTier(name)`, textgrid.py L525-526: `return self._tierDict.pop(name)` (KeyError when absent) -/
def removeTier (n : String) : M (Tg α) (AnyTier α) := do
  let self ← get
  match self.tiers.find? (·.name == n) with
  | none => throw .KeyError
  | some t =>
    set { self with tiers := self.tiers.filter (·.name != n) }
    pure t

/-- `Textgrid.addTier`, first part, textgrid.py L117-134: the checks (nothing is written) -/
def addTierChecks (t : AnyTier α) (rep : Report) : M (Tg α) Unit := do
  let self ← get
  -- L117-118  if tier.name in self.tierNames: raise TierNameExistsError
  (if self.names.contains t.name then throw .TierNameExistsError else pure ())
  -- L122-127  minV = tier.minTimestamp; if self.minTimestamp is not None and minV < self.minTimestamp: errorReporter(...)
  (if (match self.lo with | some l => decide (t.lo < l) | none => false) then report rep .TextgridStateAutoModified else pure ())
  -- L129-134  maxV = tier.maxTimestamp; if self.maxTimestamp is not None and maxV > self.maxTimestamp: errorReporter(...)
  (if (match self.hi with | some h => decide (h < t.hi) | none => false) then report rep .TextgridStateAutoModified else pure ())

/-- `Textgrid.addTier`, second part, textgrid.py L136-146: the tier enters `_tierDict` -/
def addTierStore (t : AnyTier α) (idx : Option Int) : M (Tg α) Unit := do
  let self ← get
  match idx with
  | none =>
    -- L136-137  self._tierDict[tier.name] = tier
    modify fun g => { g with tiers := dictSet g.tiers t }
  | some i => do
    -- L139-140  newOrderedTierNameList = list(self.tierNames); .insert(tierIndex, tier.name)
    let order := pyListInsert self.names i t.name
    -- L143  self._tierDict[tier.name] = tier
    modify fun g => { g with tiers := dictSet g.tiers t }
    -- L142, L144-145  newTierDict = OrderedDict(); for tmpName in order: newTierDict[tmpName] = self.getTier(tmpName)
    let g1 ← get
    let newTierDict ← liftE (order.mapM g1.getTier)
    -- L146  self._tierDict = newTierDict
    modify fun g => { g with tiers := newTierDict }

/-- `Textgrid.addTier`, third part, textgrid.py L148-152: the span follows -/
def addTierSpan (t : AnyTier α) : M (Tg α) Unit := do
  -- L148-149  if self.minTimestamp is None or minV < self.minTimestamp: self.minTimestamp = minV
  let g2 ← get
  (if (match g2.lo with | some l => decide (t.lo < l) | none => true) then modify fun g => { g with lo := some t.lo } else pure ())
  -- L151-152  if self.maxTimestamp is None or maxV > self.maxTimestamp: self.maxTimestamp = maxV
  let g3 ← get
  (if (match g3.hi with | some h => decide (h < t.hi) | none => true) then modify fun g => { g with hi := some t.hi } else pure ())

/-- `Textgrid.addTier(tier, tierIndex, reportingMode)`, textgrid.py L86-152 -/
def addTier (t : AnyTier α) (idx : Option Int) (rep : Report) : M (Tg α) Unit := do
  addTierChecks t rep     -- L117-134
  addTierStore t idx      -- L136-146
  addTierSpan t           -- L148-152

/-- `Textgrid.addTier` from its first statement: textgrid.py L112-115 (`validateOption("reportingMode", …)`), then L117-152 -/
def addTierPy (t : AnyTier α) (idx : Option Int) (rep? : Option Report) : M (Tg α) Unit := do
  let rep ← validateOption rep?       -- L112-114
  addTier t idx rep

/-- `Textgrid.renameTier(oldName, newName)`, textgrid.py L517-523 -/
def renameTier (old new : String) : M (Tg α) Unit := do
  let self ← get
  -- L518  oldTier = self.getTier(oldName)                       (KeyError)
  let oldTier ← liftE (self.getTier old)
  -- L519  tierIndex = self.tierNames.index(oldName)             (ValueError)
  let tierIndex ← match self.indexOf old with
    | some i => pure (i : Int)
    | none => throw .ValueError
  -- L520-521  if newName != oldName and newName in self.tierNames: raise TierNameExistsError
  (if new != old && self.names.contains new then throw .TierNameExistsError else pure ())
  -- L522  self.removeTier(oldName)
  let _ ← removeTier old
  -- L523  self.addTier(oldTier.new(newName, oldTier.entries), tierIndex):  the argument (a constructor call, which
  --       validates the entries again) is evaluated first — AFTER the removal
  let nt ← liftE (oldTier.renew (name := some new))
  addTier nt (some tierIndex) .warning

/-- the `except errors.PraatioException:` block of `Textgrid.replaceTier`, textgrid.py L538-546 -/
def replaceRestore (oldTier : AnyTier α) (tierIndex : Int) (e : Err) : M (Tg α) Unit := do
  -- L540  self._tierDict[name] = oldTier                    (the key `name` is oldTier's own name)
  modify fun g => { g with tiers := dictSet g.tiers oldTier }
  -- L541-542  tierNames = list(self.tierNames); tierNames.insert(tierIndex, tierNames.pop())
  let g1 ← get
  let names := g1.names
  let order ← match names.getLast? with
    | some last => pure (pyListInsert names.dropLast tierIndex last)
    | none => throw .IndexError
  -- L543-545  self._tierDict = OrderedDict((tmpName, self._tierDict[tmpName]) for tmpName in tierNames)
  let newTierDict ← liftE (order.mapM g1.getTier)
  modify fun g => { g with tiers := newTierDict }
  -- L546  raise
  throw e

/-- `Textgrid.replaceTier`, textgrid.py L534-546, with the call `self.addTier(newTier, tierIndex, reportingMode)` of L537 as
a parameter (it is `addTier` for a valid reportingMode, `addTierPy` in general) -/
def replaceTierCore (n : String) (addCall : Int → M (Tg α) Unit) : M (Tg α) Unit := do
  let self ← get
  -- L534  tierIndex = self.tierNames.index(name)                (ValueError)
  let tierIndex ← match self.indexOf n with
    | some i => pure (i : Int)
    | none => throw .ValueError
  -- L535  oldTier = self.removeTier(name)
  let oldTier ← removeTier n
  -- L536-546  try: self.addTier(newTier, tierIndex, reportingMode)  except errors.PraatioException: <restore>; raise
  tryCatch (addCall tierIndex) fun e =>
    if e.isPraatio then replaceRestore oldTier tierIndex e else throw e

/-- `Textgrid.replaceTier(name, newTier, reportingMode)`, textgrid.py L528-546, valid reportingMode -/
def replaceTier (n : String) (t : AnyTier α) (rep : Report) : M (Tg α) Unit :=
  replaceTierCore n fun i => addTier t (some i) rep

/-- `Textgrid.replaceTier` with any reportingMode value: the option is validated by `addTier` (L112), i.e. INSIDE the `try`,
after the old tier has been removed; `WrongOption` is a `PraatioException`, so the `except` block restores the textgrid -/
def replaceTierPy (n : String) (t : AnyTier α) (rep? : Option Report) : M (Tg α) Unit :=
  replaceTierCore n fun i => addTierPy t (some i) rep?

/-! ## deliberately WRONG variants (seeded changes C13-mutF and C13-mutB), used only to show that this layer tells them
apart from the code as it is (`Props/C13Atomic.lean`) -/

/-- seeded/C13-mutF (seeded/C13-mutF/patch.diff): the span update is computed from the NEW entry and written right after
the collision search, BEFORE the collision policy runs; the update after `sort()` (L539-543) is dropped -/
def iinsertEntry_mutF (x0 : Iv α) (mode : InsMode) (rep : Report) : M (ITier α) Unit := do
  let x : Iv α := { x0 with l := pyStrip x0.l }
  let self ← get
  let mt ← liftE (self.crop x.s x.e .lax false)
  let matchList := mt.es
  -- + self.minTimestamp = min(self.minTimestamp, interval.start)
  modify fun t => { t with lo := pyMin2 t.lo x.s }
  -- + self.maxTimestamp = max(self.maxTimestamp, interval.end)
  modify fun t => { t with hi := pyMax2 t.hi x.e }
  if matchList.isEmpty then
    modify fun t => { t with es := t.es ++ [x] }
  else match mode with
    | .replace => do
      matchList.forM ideleteEntry
      modify fun t => { t with es := t.es ++ [x] }
    | .merge => do
      matchList.forM ideleteEntry
      let ml2 := sortIvs (matchList ++ [x])
      modify fun t => { t with es := t.es ++ [mergedIv ml2 x] }
    | .error => throw .CollisionError
  isort
  if !matchList.isEmpty then report rep .CollisionError else pure ()

/-- seeded/C13-mutB (seeded/C13-mutB/patch.diff): the rollback of `replaceTier` re-adds the old tier with
`self.addTier(oldTier, reportingMode='silence')`, i.e. at the END, instead of L540-545 -/
def replaceTier_mutB (n : String) (t : AnyTier α) (rep : Report) : M (Tg α) Unit := do
  let self ← get
  let tierIndex ← match self.indexOf n with
    | some i => pure (i : Int)
    | none => throw .ValueError
  let oldTier ← removeTier n
  tryCatch (addTier t (some tierIndex) rep) fun e =>
    if e.isPraatio then do
      addTier oldTier none .silence
      throw e
    else throw e

end
end Imp
