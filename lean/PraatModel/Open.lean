import PraatModel.Tier

/-!
# `textgrid.openTextgrid`: the duplicate-tier-name policy
`sfx i` is Python's `str(i)`; the theorems need only that it is injective.
-/

/-- `while newName in tierNames: newName = f"{name}_{i}"; i += 1` -/
def findFree (sfx : Nat → String) (name : String) (seen : List String) : Nat → Nat → String
  | 0, i => name ++ "_" ++ sfx i
  | fuel + 1, i =>
    let cand := name ++ "_" ++ sfx i
    if cand ∈ seen then findFree sfx name seen fuel (i + 1) else cand

/-- duplicateNamesMode = 'rename': names in file order, later duplicates get `_2`, `_3`, … skipping taken names -/
def renameDups (sfx : Nat → String) : List String → List String → List String
  | _, [] => []
  | seen, n :: rest =>
    let n' := if n ∈ seen then findFree sfx n seen (seen.length + 1) 2 else n
    n' :: renameDups sfx (seen ++ [n']) rest

/-- duplicateNamesMode = 'error' -/
def checkDups : List String → List String → Except Err Unit
  | _, [] => .ok ()
  | seen, n :: rest => if n ∈ seen then .error .DuplicateTierName else checkDups (seen ++ [n]) rest
