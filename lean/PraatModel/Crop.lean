import PraatModel.Tier

/-!
# crop (utils.getIntervalsInInterval, IntervalTier.crop, PointTier.crop)
-/

section
variable {α : Type} [LT α] [LE α] [DecidableLT α] [DecidableLE α] [BEq α] [Sub α] [Tm α]

/-- one iteration of the loop of `utils.getIntervalsInInterval`, arm for arm -/
def cropOne (a b : α) (m : CropMode) (iv : Iv α) : Option (Iv α) :=
  if iv.e ≤ a ∨ b ≤ iv.s then none
  else if a ≤ iv.s ∧ iv.e ≤ b then some iv
  else if m = .lax ∧ (a ≤ iv.s ∨ iv.e ≤ b) then some iv
  else if a ≤ iv.s ∧ b < iv.e then
    (if m = .truncated then some ⟨iv.s, b, iv.l⟩ else none)
  else if iv.s < a ∧ iv.e ≤ b then
    (if m = .truncated then some ⟨a, iv.e, iv.l⟩ else none)
  else if iv.s ≤ a ∧ b ≤ iv.e then
    (if m = .lax then some iv else if m = .truncated then some ⟨a, b, iv.l⟩ else none)
  else none

def getIvs (a b : α) (m : CropMode) (es : List (Iv α)) : List (Iv α) :=
  es.filterMap (cropOne a b m)

/-- the amount subtracted from every timestamp when rebasing: the window start, or the start of an
earlier-starting first kept (lax) interval -/
def rebaseDelta (a : α) (sel : List (Iv α)) : α :=
  match sel with
  | f :: _ => if f.s < a then f.s else a
  | [] => a

def shiftIv (d : α) (iv : Iv α) : Iv α := ⟨iv.s - d, iv.e - d, iv.l⟩

/-- the rebased entries: shifted by `d`, those that no longer have positive length left out -/
def rebaseIvs (d : α) (sel : List (Iv α)) : List (Iv α) :=
  (sel.map (shiftIv d)).filter fun iv => decide (iv.s < iv.e)

/-- `IntervalTier.crop(cropStart, cropEnd, mode, rebaseToZero)` -/
def ITier.crop (t : ITier α) (a b : α) (m : CropMode) (rebase : Bool) : Except Err (ITier α) :=
  if b ≤ a then .error .ArgumentError else
  let sel := getIvs a b m t.es
  if rebase then
    -- a rebased piece that rounds to zero length is dropped (repair in /repo; never the case in exact arithmetic)
    mkITier t.name (rebaseIvs (rebaseDelta a sel) sel) (some Tm.zero) (some (b - a))
  else
    mkITier t.name sel (some a) (some b)

/-- `PointTier.crop(cropStart, cropEnd, mode, rebaseToZero)` (mode ignored) -/
def PTier.crop (t : PTier α) (a b : α) (rebase : Bool) : Except Err (PTier α) :=
  if b ≤ a then .error .ArgumentError else
  let sel := t.ps.filter fun p => decide (a ≤ p.t) && decide (p.t ≤ b)
  if rebase then
    mkPTier t.name (sel.map fun p => ⟨p.t - a, p.l⟩) (some Tm.zero) (some (b - a))
  else
    mkPTier t.name sel (some a) (some b)

end
