/-!
# Audio: the in-memory `Wav`, byte/sample packing, time → index, the abstract wave file

Mirror of `praatio/audio.py` (`Wav`, `QueryWav`, `convertFromBytes`, `convertToBytes`,
`readFramesAtTime`) for mono recordings.  No Mathlib.

* A **time** is a rational `num/den` (`QTime`).  The only thing the code does with a time is
  `round(t * rate)` (Python `round` = round-half-to-even on the exact product), so a rational is
  all the model needs; every binary64 value is such a rational.
* **Frames** are `List UInt8`, **samples** are `List Int`.
* `struct`'s `"<" + code*n` with codes `b h i q` is little-endian two's complement of width
  1, 2, 4, 8 (width 1 is the *signed* `b`).
* The **file** written by `wave` is abstract: sample width, frame rate and the bytes of the data
  chunk (`WavFile`); `wave.Wave_read` semantics (`setpos` range check, `readframes` clamping, the
  frame count `chunksize // width`) are modelled on it.
-/

namespace Audio

/-- exception classes that escape on the modelled paths (`name` = Python class name) -/
inductive AErr
  | StructError        -- struct.error
  | WaveError          -- wave.Error
  | KeyError           -- sampleWidthDict[w]
  | ArgumentError      -- praatio.utilities.errors.ArgumentError (a time range that ends before it starts)
deriving DecidableEq, Repr

/-- decidable equality of results (for `decide`d examples and `#guard`s) -/
scoped instance instDecEqExcept {ε α : Type} [DecidableEq ε] [DecidableEq α] : DecidableEq (Except ε α)
  | .ok a, .ok b => if h : a = b then isTrue (by rw [h]) else isFalse (by intro h'; cases h'; exact h rfl)
  | .error a, .error b => if h : a = b then isTrue (by rw [h]) else isFalse (by intro h'; cases h'; exact h rfl)
  | .ok _, .error _ => isFalse (by intro h; cases h)
  | .error _, .ok _ => isFalse (by intro h; cases h)

def AErr.name : AErr → String
  | .StructError => "error"
  | .WaveError => "Error"
  | .KeyError => "KeyError"
  | .ArgumentError => "ArgumentError"

/-! ## Python `round` on an exact rational -/

/-- `round(num/den)` for `den > 0`: nearest integer, ties to the even one.
(`/` and `%` on `Int` are floor division and non-negative remainder for a positive divisor.) -/
def roundHalfEven (num : Int) (den : Nat) : Int :=
  let d : Int := den
  let q := num / d
  let r := num % d
  if 2 * r < d then q
  else if d < 2 * r then q + 1
  else if q % 2 = 0 then q else q + 1

/-! ## times -/

structure QTime where
  num : Int
  den : Nat
deriving DecidableEq, Repr

namespace QTime
def zero : QTime := ⟨0, 1⟩
/-- `n / d` for integers (Python `n / d` when the quotient is exact in binary64) -/
def ofNat (n : Nat) : QTime := ⟨n, 1⟩
def add (a b : QTime) : QTime := ⟨a.num * b.den + b.num * a.den, a.den * b.den⟩
def sub (a b : QTime) : QTime := ⟨a.num * b.den - b.num * a.den, a.den * b.den⟩
instance : Add QTime := ⟨add⟩
instance : Sub QTime := ⟨sub⟩
/-- order of the rational values (denominators positive) -/
def le (a b : QTime) : Prop := a.num * b.den ≤ b.num * a.den
instance : LE QTime := ⟨le⟩
instance (a b : QTime) : Decidable (a ≤ b) := inferInstanceAs (Decidable (a.num * b.den ≤ b.num * a.den))
/-- strict order of the rational values (denominators positive) -/
def lt (a b : QTime) : Prop := a.num * b.den < b.num * a.den
instance : LT QTime := ⟨lt⟩
instance (a b : QTime) : Decidable (a < b) := inferInstanceAs (Decidable (a.num * b.den < b.num * a.den))
/-- same rational value -/
def eqv (a b : QTime) : Prop := a.num * b.den = b.num * a.den
instance (a b : QTime) : Decidable (eqv a b) := inferInstanceAs (Decidable (a.num * b.den = b.num * a.den))
end QTime

/-- `round(t * rate)`: the sample index addressed by time `t` -/
def sampleAtTime (t : QTime) (rate : Nat) : Int := roundHalfEven (t.num * rate) t.den

/-- `min(max(i, 0), n)`: a sample index clamped into `[0, n]` -/
def clampSample (i : Int) (n : Nat) : Nat := min i.toNat n

/-- `Wav._getIndexAtTime` (as repaired, commit 3f424d1):
`sampleIndex = round(startTime * self.frameRate); numSamples = len(self.frames) // self.sampleWidth;
min(max(sampleIndex, 0), numSamples) * self.sampleWidth` -/
def indexAtTime (t : QTime) (rate width nsamples : Nat) : Int :=
  ((clampSample (sampleAtTime t rate) nsamples * width : Nat) : Int)

/-! ## Python slicing of a sequence -/

/-- normalisation of one slice bound for a sequence of length `n`: negative bounds count from the
end, everything is clamped to `[0, n]` -/
def pyClamp (n : Nat) (i : Int) : Nat :=
  if i < 0 then (i + n).toNat else min i.toNat n

/-- `l[:i]` -/
def sliceTo {β} (l : List β) (i : Int) : List β := l.take (pyClamp l.length i)
/-- `l[i:]` -/
def sliceFrom {β} (l : List β) (i : Int) : List β := l.drop (pyClamp l.length i)
/-- `l[i:j]` (empty when the normalised `j` is not beyond the normalised `i`) -/
def slice {β} (l : List β) (i j : Int) : List β :=
  (l.take (pyClamp l.length j)).drop (pyClamp l.length i)

/-! ## bytes ↔ samples (`struct.pack` / `struct.unpack`, little endian, two's complement) -/

/-- the `k` little-endian base-256 digits of `n` -/
def encLE : Nat → Nat → List UInt8
  | 0, _ => []
  | k + 1, n => UInt8.ofNat (n % 256) :: encLE k (n / 256)

/-- value of a little-endian byte string -/
def decLE : List UInt8 → Nat
  | [] => 0
  | b :: bs => b.toNat + 256 * decLE bs

/-- `256^w`: number of values of a `w`-byte sample -/
def full (w : Nat) : Nat := 256 ^ w
/-- `2^(8w-1)`: samples range over `[-half w, half w)` -/
def half (w : Nat) : Nat := 128 * 256 ^ (w - 1)

def InRange (w : Nat) (x : Int) : Prop := -(half w : Int) ≤ x ∧ x < (half w : Int)
instance (w : Nat) (x : Int) : Decidable (InRange w x) := inferInstanceAs (Decidable (_ ∧ _))

/-- two's complement: sample → unsigned value -/
def ofSigned (w : Nat) (x : Int) : Nat := (x % (full w : Int)).toNat
/-- two's complement: unsigned value → sample -/
def toSigned (w : Nat) (u : Nat) : Int := if u < half w then (u : Int) else (u : Int) - (full w : Int)

def encSample (w : Nat) (x : Int) : List UInt8 := encLE w (ofSigned w x)
def decSample (w : Nat) (bs : List UInt8) : Int := toSigned w (decLE bs)

/-- bytes of a sample list (no range check; `convertToBytes` adds it) -/
def pack (w : Nat) (xs : List Int) : List UInt8 := xs.flatMap (encSample w)

/-- the first `n` samples of a byte string -/
def unpackN (w : Nat) : Nat → List UInt8 → List Int
  | 0, _ => []
  | n + 1, bs => decSample w (bs.take w) :: unpackN w n (bs.drop w)

/-- the `len / w` whole samples of a byte string -/
def unpack (w : Nat) (bs : List UInt8) : List Int := unpackN w (bs.length / w) bs

/-- `sampleWidthDict` has the keys 1, 2, 4, 8 -/
def knownWidth (w : Nat) : Bool := w == 1 || w == 2 || w == 4 || w == 8

/-- `convertFromBytes(byteStr, sampleWidth)`: `struct.unpack` demands a buffer of exactly
`w * int(len/w)` bytes -/
def convertFromBytes (bs : List UInt8) (w : Nat) : Except AErr (List Int) :=
  if !knownWidth w then .error .KeyError
  else if bs.length % w ≠ 0 then .error .StructError
  else .ok (unpack w bs)

/-- `convertToBytes(numList, sampleWidth)`: `struct.pack` rejects a value outside the range -/
def convertToBytes (xs : List Int) (w : Nat) : Except AErr (List UInt8) :=
  if !knownWidth w then .error .KeyError
  else if xs.all (fun x => decide (InRange w x)) then .ok (pack w xs)
  else .error .StructError

/-! ## byte-level edits (the slicing expressions of `Wav`) -/

/-- `frames[:i] + frames[j:]` -/
def deleteB (f : List UInt8) (i j : Int) : List UInt8 := sliceTo f i ++ sliceFrom f j
/-- `frames[:i] + g + frames[i:]` -/
def insertB (f : List UInt8) (i : Int) (g : List UInt8) : List UInt8 := sliceTo f i ++ g ++ sliceFrom f i
/-- `frames[i:j]` -/
def getB (f : List UInt8) (i j : Int) : List UInt8 := slice f i j

/-! ## `Wav` -/

structure Wav where
  width : Nat
  rate : Nat
  frames : List UInt8
deriving DecidableEq, Repr

namespace Wav
/-- number of whole samples: `len(self.frames) // self.sampleWidth` -/
def nsamples (wv : Wav) : Nat := wv.frames.length / wv.width
/-- the sample boundary addressed by time `t`: nearest to `t * rate`, inside the recording -/
def sampleIndex (wv : Wav) (t : QTime) : Nat := clampSample (sampleAtTime t wv.rate) wv.nsamples
def index (wv : Wav) (t : QTime) : Int := indexAtTime t wv.rate wv.width wv.nsamples

/-- the slicing bodies of the time-range operations (what runs after `_validateTimeRange` has accepted the range) -/
def getFramesRaw (wv : Wav) (s e : QTime) : List UInt8 := getB wv.frames (wv.index s) (wv.index e)
def deleteSegmentRaw (wv : Wav) (s e : QTime) : Wav :=
  { wv with frames := deleteB wv.frames (wv.index s) (wv.index e) }
def insert (wv : Wav) (t : QTime) (g : List UInt8) : Wav :=
  { wv with frames := insertB wv.frames (wv.index t) g }
def replaceSegmentRaw (wv : Wav) (s e : QTime) (g : List UInt8) : Wav :=
  (wv.deleteSegmentRaw s e).insert s g
def getSubwavRaw (wv : Wav) (s e : QTime) : Wav := { wv with frames := wv.getFramesRaw s e }

/-- `_validateTimeRange(startTime, endTime)` (commit 906b45b): `if startTime > endTime: raise ArgumentError` -/
def validateTimeRange (s e : QTime) : Except AErr Unit :=
  if e < s then .error .ArgumentError else .ok ()

/-- `Wav.getFrames`: the range is validated, then `self.frames[i:j]` -/
def getFrames (wv : Wav) (s e : QTime) : Except AErr (List UInt8) :=
  if e < s then .error .ArgumentError else .ok (wv.getFramesRaw s e)
def getSamples (wv : Wav) (s e : QTime) : Except AErr (List Int) :=
  match wv.getFrames s e with
  | .ok fr => convertFromBytes fr wv.width
  | .error err => .error err
/-- `Wav.deleteSegment`: the range is validated before anything is changed -/
def deleteSegment (wv : Wav) (s e : QTime) : Except AErr Wav :=
  if e < s then .error .ArgumentError else .ok (wv.deleteSegmentRaw s e)
/-- `_validateTimeRange(...)`; `self.deleteSegment(startTime, endTime); self.insert(startTime, frames)` -/
def replaceSegment (wv : Wav) (s e : QTime) (g : List UInt8) : Except AErr Wav :=
  if e < s then .error .ArgumentError else .ok (wv.replaceSegmentRaw s e g)
def getSubwav (wv : Wav) (s e : QTime) : Except AErr Wav :=
  match wv.getFrames s e with
  | .ok fr => .ok { wv with frames := fr }
  | .error err => .error err
def concatenate (wv : Wav) (g : List UInt8) : Wav := { wv with frames := wv.frames ++ g }
/-- `len(self.frames) / self.frameRate / self.sampleWidth` as a rational -/
def duration (wv : Wav) : QTime := ⟨wv.frames.length, wv.rate * wv.width⟩
/-- all samples (`convertFromBytes(self.frames, self.sampleWidth)` when the length is whole) -/
def samples (wv : Wav) : List Int := unpack wv.width wv.frames
/-- duration of a stretch of frames at this wav's parameters: `len(g) / width / rate` -/
def durOf (wv : Wav) (g : List UInt8) : QTime := ⟨g.length, wv.rate * wv.width⟩
end Wav

/-- the edits of a history -/
inductive Edit
  | ins (t : QTime) (g : List UInt8)
  | del (s e : QTime)
  | rep (s e : QTime) (g : List UInt8)
  | cat (g : List UInt8)
  | sub (s e : QTime)
deriving Repr

def Edit.apply (wv : Wav) : Edit → Except AErr Wav
  | .ins t g => .ok (wv.insert t g)
  | .del s e => wv.deleteSegment s e
  | .rep s e g => wv.replaceSegment s e g
  | .cat g => .ok (wv.concatenate g)
  | .sub s e => wv.getSubwav s e

/-- the states after each edit of a history, up to the first edit that raises (its exception is the second
component; the recording is then what it was before that edit: nothing is appended) -/
def runEdits (wv : Wav) : List Edit → List Wav × Option AErr
  | [] => ([], none)
  | e :: es =>
    match e.apply wv with
    | .error err => ([], some err)
    | .ok w' => let r := runEdits w' es; (w' :: r.1, r.2)

/-! ## the abstract wave file, `wave.Wave_read`, `Wav.save` / `Wav.open` / `QueryWav` -/

/-- what `wave` keeps of a mono PCM file: sample width, frame rate, the bytes of the data chunk -/
structure WavFile where
  width : Nat
  rate : Nat
  data : List UInt8
deriving DecidableEq, Repr

namespace WavFile
/-- `Wave_read._nframes = chunksize // framesize` -/
def nframes (f : WavFile) : Nat := f.data.length / f.width

/-- `setpos(pos); readframes(n)`: `setpos` raises `wave.Error` outside `[0, nframes]`;
`readframes(0)` is empty, a negative count reads to the end of the chunk (`_Chunk.read` with a
negative size), a positive count is clamped to the end of the chunk -/
def readAt (f : WavFile) (pos n : Int) : Except AErr (List UInt8) :=
  if pos < 0 ∨ (f.nframes : Int) < pos then .error .WaveError
  else
    let rest := f.data.drop (pos.toNat * f.width)
    if n = 0 then .ok []
    else if n < 0 then .ok rest
    else .ok (rest.take (n.toNat * f.width))

/-- `float(nframes) / frameRate` (`QueryWav.duration`, `getDuration`) -/
def duration (f : WavFile) : QTime := ⟨f.nframes, f.rate⟩
end WavFile

/-- `readFramesAtTime(audiofile, startTime, endTime)` (as repaired, commits fedc16f, 3f424d1):
`startFrame = min(max(round(frameRate * startTime), 0), nframes)`, `endFrame` likewise;
`setpos(startFrame); readframes(max(endFrame - startFrame, 0))` -/
def readFramesAtTime (f : WavFile) (s e : QTime) : Except AErr (List UInt8) :=
  let a : Int := (clampSample (roundHalfEven ((f.rate : Int) * s.num) s.den) f.nframes : Nat)
  let b : Int := (clampSample (roundHalfEven ((f.rate : Int) * e.num) e.den) f.nframes : Nat)
  f.readAt a (max (b - a) 0)

/-- `Wav.save`: `wave.open(fn, "w")`, `setparams` (width must be 1..4, rate positive),
`writeframes(self.frames)` -/
def Wav.save (wv : Wav) : Except AErr WavFile :=
  if wv.width < 1 ∨ 4 < wv.width then .error .WaveError
  else if wv.rate = 0 then .error .WaveError
  else .ok ⟨wv.width, wv.rate, wv.frames⟩

/-- `Wav.open`: `readFramesAtTime(wav, 0, getDuration(fn))` with the file's parameters -/
def Wav.open (f : WavFile) : Except AErr Wav :=
  match readFramesAtTime f QTime.zero f.duration with
  | .ok fr => .ok ⟨f.width, f.rate, fr⟩
  | .error e => .error e

namespace QueryWav
/-- `QueryWav.getFrames(startTime=None, endTime=None)`: defaults, `_validateTimeRange`, `readFramesAtTime` -/
def getFrames (f : WavFile) (s e : Option QTime) : Except AErr (List UInt8) :=
  if e.getD f.duration < s.getD QTime.zero then .error .ArgumentError
  else readFramesAtTime f (s.getD QTime.zero) (e.getD f.duration)

def getSamples (f : WavFile) (s e : Option QTime) : Except AErr (List Int) :=
  match getFrames f s e with
  | .ok fr => convertFromBytes fr f.width
  | .error err => .error err
end QueryWav

end Audio
