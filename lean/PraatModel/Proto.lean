import PraatModel.Tier
import PraatModel.Textgrid

/-!
# Line protocol shared by the driver and the Python harness

tokens are separated by single blanks;
* time      : decimal integer (mode F: the unsigned 64-bit pattern of a binary64; mode X: an exact integer)
* string    : `h` followed by the hex of its UTF-8 bytes
* optional  : `N` or the value
* bool      : `0` / `1`
* ITier     : `I <name> <lo> <hi> <n> (<s> <e> <l>)*`
* PTier     : `P <name> <lo> <hi> <n> (<t> <l>)*`
-/

class Proto (α : Type) where
  ofP : Int → α
  toP : α → Int

instance : Proto Int := ⟨id, id⟩
instance : Proto Float := ⟨fun n => Float.ofBits n.toNat.toUInt64, fun f => f.toBits.toNat⟩

abbrev P := StateT (List String) (Except String)

namespace P
def tok : P String := do
  match (← get) with
  | [] => throw "unexpected end of line"
  | t :: ts => set ts; pure t

def int : P Int := do
  let t ← tok
  match t.toInt? with
  | some n => pure n
  | none => throw s!"bad int {t}"

def nat : P Nat := do
  let n ← int
  if n < 0 then throw "negative count" else pure n.toNat

def bool : P Bool := do
  let t ← tok
  if t = "1" then pure true else if t = "0" then pure false else throw s!"bad bool {t}"

def hexVal (c : Char) : Option Nat :=
  if '0' ≤ c ∧ c ≤ '9' then some (c.toNat - '0'.toNat)
  else if 'a' ≤ c ∧ c ≤ 'f' then some (c.toNat - 'a'.toNat + 10)
  else none

def hexBytes : List Char → Option (List UInt8)
  | [] => some []
  | a :: b :: rest => do
    let x ← hexVal a; let y ← hexVal b; let r ← hexBytes rest
    pure (UInt8.ofNat (16 * x + y) :: r)
  | _ => none

def str : P String := do
  let t ← tok
  match t.toList with
  | 'h' :: cs =>
    match hexBytes cs with
    | some bs =>
      match String.fromUTF8? (ByteArray.mk bs.toArray) with
      | some s => pure s
      | none => throw "bad utf8"
    | none => throw "bad hex"
  | _ => throw s!"bad string token {t}"

def time {α} [Proto α] : P α := do pure (Proto.ofP (← int))

def opt {β} (p : P β) : P (Option β) := do
  match (← get) with
  | "N" :: ts => set ts; pure none
  | _ => some <$> p

def many {β} (n : Nat) (p : P β) : P (List β) :=
  match n with
  | 0 => pure []
  | k + 1 => do let x ← p; let xs ← many k p; pure (x :: xs)

def iv {α} [Proto α] : P (Iv α) := do
  let s ← time; let e ← time; let l ← str; pure ⟨s, e, l⟩
def pt {α} [Proto α] : P (Pt α) := do
  let t ← time; let l ← str; pure ⟨t, l⟩

def ivList {α} [Proto α] : P (List (Iv α)) := do let n ← nat; many n iv
def ptList {α} [Proto α] : P (List (Pt α)) := do let n ← nat; many n pt

def itier {α} [Proto α] : P (ITier α) := do
  let k ← tok
  if k ≠ "I" then throw s!"expected I got {k}"
  let name ← str; let lo ← time; let hi ← time; let es ← ivList
  pure ⟨name, es, lo, hi⟩

def ptier {α} [Proto α] : P (PTier α) := do
  let k ← tok
  if k ≠ "P" then throw s!"expected P got {k}"
  let name ← str; let lo ← time; let hi ← time; let ps ← ptList
  pure ⟨name, ps, lo, hi⟩

def anyTier {α} [Proto α] : P (AnyTier α) := do
  match (← get) with
  | "I" :: _ => .I <$> itier
  | _ => .P <$> ptier

/-- `G <lo|N> <hi|N> <n> tier*` -/
def tg {α} [Proto α] : P (Tg α) := do
  let k ← tok
  if k ≠ "G" then throw s!"expected G got {k}"
  let lo ← opt time; let hi ← opt time; let n ← nat
  let ts ← many n anyTier
  pure ⟨ts, lo, hi⟩

def cropMode : P CropMode := do
  match (← tok) with
  | "strict" => pure .strict | "lax" => pure .lax | "truncated" => pure .truncated
  | t => throw s!"bad crop mode {t}"
def eraseMode : P EraseMode := do
  match (← tok) with
  | "truncate" => pure .truncate | "categorical" => pure .categorical | "error" => pure .error
  | t => throw s!"bad erase mode {t}"
def spaceMode : P SpaceMode := do
  match (← tok) with
  | "stretch" => pure .stretch | "split" => pure .split | "no_change" => pure .noChange
  | "error" => pure .error
  | t => throw s!"bad space mode {t}"
def insMode : P InsMode := do
  match (← tok) with
  | "replace" => pure .replace | "merge" => pure .merge | "error" => pure .error
  | t => throw s!"bad insert mode {t}"
def report : P Report := do
  match (← tok) with
  | "silence" => pure .silence | "warning" => pure .warning | "error" => pure .error
  | t => throw s!"bad reporting mode {t}"
end P

/-! ## output encoders -/
namespace Out
def hexDigit (n : Nat) : Char := if n < 10 then Char.ofNat (48 + n) else Char.ofNat (87 + n)
def str (s : String) : String :=
  "h" ++ String.ofList (s.toUTF8.toList.flatMap fun b => [hexDigit (b.toNat / 16), hexDigit (b.toNat % 16)])
def time {α} [Proto α] (x : α) : String := toString (Proto.toP x)
def iv {α} [Proto α] (i : Iv α) : String := s!"{time i.s} {time i.e} {str i.l}"
def pt {α} [Proto α] (p : Pt α) : String := s!"{time p.t} {str p.l}"
def join (xs : List String) : String := " ".intercalate xs
def ivList {α} [Proto α] (es : List (Iv α)) : String := join (toString es.length :: es.map iv)
def ptList {α} [Proto α] (ps : List (Pt α)) : String := join (toString ps.length :: ps.map pt)
def itier {α} [Proto α] (t : ITier α) : String :=
  s!"I {str t.name} {time t.lo} {time t.hi} {ivList t.es}"
def ptier {α} [Proto α] (t : PTier α) : String :=
  s!"P {str t.name} {time t.lo} {time t.hi} {ptList t.ps}"
def anyTier {α} [Proto α] : AnyTier α → String
  | .I t => itier t
  | .P t => ptier t
def otime {α} [Proto α] : Option α → String
  | none => "N"
  | some x => time x
def tg {α} [Proto α] (g : Tg α) : String :=
  join (["G", otime g.lo, otime g.hi, toString g.tiers.length] ++ g.tiers.map anyTier)
def bool (b : Bool) : String := if b then "1" else "0"
def exc {β} (f : β → String) : Except Err β → String
  | .ok v => "ok " ++ f v
  | .error e => "err " ++ e.name
end Out
