import PraatModel.Proto
import PraatModel.Crop

/-! # line interpreter: one operation per line, one canonical output line -/

section
variable {α : Type} [LT α] [LE α] [DecidableLT α] [DecidableLE α] [BEq α] [Add α] [Sub α] [Tm α] [Proto α]

def runOp (op : String) : P String := do
  match op with
  | "icrop" =>
    let t ← P.itier (α := α); let a ← P.time; let b ← P.time; let m ← P.cropMode; let r ← P.bool
    pure (Out.exc Out.itier (t.crop a b m r))
  | "pcrop" =>
    let t ← P.ptier (α := α); let a ← P.time; let b ← P.time; let r ← P.bool
    pure (Out.exc Out.ptier (t.crop a b r))
  | "mkitier" =>
    let name ← P.str; let es ← P.ivList (α := α); let lo ← P.opt P.time; let hi ← P.opt P.time
    pure (Out.exc Out.itier (mkITier name es lo hi))
  | "mkptier" =>
    let name ← P.str; let ps ← P.ptList (α := α); let lo ← P.opt P.time; let hi ← P.opt P.time
    pure (Out.exc Out.ptier (mkPTier name ps lo hi))
  | _ => throw s!"unknown op {op}"

def runLine (line : String) : String :=
  match (line.splitOn " ").filter (· ≠ "") with
  | [] => "bad-line empty"
  | op :: args =>
    match (runOp (α := α) op).run args with
    | .ok (out, []) => out
    | .ok (_, rest) => s!"bad-line trailing {rest.length}"
    | .error e => s!"bad-line {e}"
end
