import PraatModel.Proto
import PraatModel.Crop
import PraatModel.Ops
import PraatModel.Query
import PraatModel.RunAudio
import PraatModel.RunNumeric
import PraatModel.RunKlatt
import PraatModel.RunExtract
import PraatModel.RunZero
import PraatModel.RunIO
import PraatModel.RunScripts
import PraatModel.RunImperative

/-! # line interpreter: one operation per line, one canonical output line -/

section
variable {α : Type} [LT α] [LE α] [DecidableLT α] [DecidableLE α] [BEq α] [Add α] [Sub α] [Tm α] [Proto α] [SplitArith α]

def runOp (op : String) : P String := do
  match op with
  | "icrop" =>
    let t ← P.itier (α := α); let a ← P.time; let b ← P.time; let m ← P.cropMode; let r ← P.bool
    pure (Out.exc Out.itier (t.crop a b m r))
  | "pcrop" =>
    let t ← P.ptier (α := α); let a ← P.time; let b ← P.time; let r ← P.bool
    pure (Out.exc Out.ptier (t.crop a b r))
  | "mkitier" =>
    let name ← P.str; let es ← P.ivList (α := α); let lo ← P.opt P.time; let hi ← P.opt P.time
    pure (Out.exc Out.itier (mkITier name es lo hi))
  | "mkptier" =>
    let name ← P.str; let ps ← P.ptList (α := α); let lo ← P.opt P.time; let hi ← P.opt P.time
    pure (Out.exc Out.ptier (mkPTier name ps lo hi))
  | "ierase" =>
    let t ← P.itier (α := α); let a ← P.time; let b ← P.time; let m ← P.eraseMode; let sh ← P.bool
    pure (Out.exc Out.itier (t.eraseRegion a b m sh))
  | "perase" =>
    let t ← P.ptier (α := α); let a ← P.time; let b ← P.time; let sh ← P.bool
    pure (Out.exc Out.ptier (t.eraseRegion a b sh))
  | "ispace" =>
    let t ← P.itier (α := α); let s ← P.time; let d ← P.time; let m ← P.spaceMode
    pure (Out.exc Out.itier (t.insertSpace s d m))
  | "pspace" =>
    let t ← P.ptier (α := α); let s ← P.time; let d ← P.time
    pure (Out.exc Out.ptier (t.insertSpace s d))
  | "ispace_erase" =>
    let t ← P.itier (α := α); let s ← P.time; let d ← P.time; let m ← P.spaceMode
    pure (Out.exc Out.itier (do let u ← t.insertSpace s d m; u.eraseRegion s (s + d) .truncate true))
  | "ishift" =>
    let t ← P.itier (α := α); let o ← P.time; let r ← P.report
    pure (Out.exc Out.itier (t.editTimestamps o r))
  | "pshift" =>
    let t ← P.ptier (α := α); let o ← P.time; let r ← P.report
    pure (Out.exc Out.ptier (t.editTimestamps o r))
  | "iappend" =>
    let t ← P.itier (α := α); let u ← P.itier
    pure (Out.exc Out.itier (t.appendTier u))
  | "pappend" =>
    let t ← P.ptier (α := α); let u ← P.ptier
    pure (Out.exc Out.ptier (t.appendTier u))
  | "iunion" =>
    let t ← P.itier (α := α); let u ← P.itier
    pure (Out.exc Out.itier (t.union u))
  | "punion" =>
    let t ← P.ptier (α := α); let u ← P.ptier
    pure (Out.exc Out.ptier (t.union u))
  | "idiff" =>
    let t ← P.itier (α := α); let u ← P.itier
    pure (Out.exc Out.itier (t.difference u))
  | "iinter" =>
    let t ← P.itier (α := α); let u ← P.itier
    pure (Out.exc Out.itier (t.intersection u))
  | "imergelabels" =>
    let t ← P.itier (α := α); let u ← P.itier
    pure (Out.exc Out.itier (t.mergeLabels u))
  | "iinsert" =>
    let t ← P.itier (α := α); let x ← P.iv; let m ← P.insMode
    pure (Out.exc Out.itier (t.insertEntry x m))
  | "pinsert" =>
    let t ← P.ptier (α := α); let x ← P.pt; let m ← P.insMode
    pure (Out.exc Out.ptier (t.insertEntry x m))
  | "idelete" =>
    let t ← P.itier (α := α); let x ← P.iv
    pure (Out.exc Out.itier (t.deleteEntry x))
  | "pdelete" =>
    let t ← P.ptier (α := α); let x ← P.pt
    pure (Out.exc Out.ptier (t.deleteEntry x))
  | "idejitter" =>
    let t ← P.itier (α := α); let refs ← refTimes; let md ← P.time
    pure (Out.exc Out.itier (t.dejitter refs md))
  | "pdejitter" =>
    let t ← P.ptier (α := α); let refs ← refTimes; let md ← P.time
    pure (Out.exc Out.ptier (t.dejitter refs md))
  | "imorph" =>
    let t ← P.itier (α := α); let u ← P.itier; let f ← P.opt (do let n ← P.nat; P.many n P.str)
    let sel : String → Bool := match f with | none => fun _ => true | some ls => fun l => ls.contains l
    pure (Out.exc Out.itier (t.morph u sel))
  | "inew" =>
    let t ← P.itier (α := α)
    pure (Out.exc Out.itier t.new)
  | "inewe" =>   -- `tier.new(entries=[], minTimestamp=lo, maxTimestamp=hi)`
    let t ← P.itier (α := α); let lo ← P.opt P.time; let hi ← P.opt P.time
    pure (Out.exc Out.itier (t.new (es := some []) (lo := lo) (hi := hi)))
  | "pnew" =>
    let t ← P.ptier (α := α)
    pure (Out.exc Out.ptier t.new)
  | "ivalidate" =>
    let t ← P.itier (α := α)
    pure ("ok " ++ Out.bool t.validate)
  | "pvalidate" =>
    let t ← P.ptier (α := α)
    pure ("ok " ++ Out.bool t.validate)
  | "itimestamps" =>
    let t ← P.itier (α := α)
    pure ("ok " ++ Out.join (t.timestamps.map Out.time))
  | "ptimestamps" =>
    let t ← P.ptier (α := α)
    pure ("ok " ++ Out.join (t.timestamps.map Out.time))
  | "nonentries" =>
    let t ← P.itier (α := α)
    pure (Out.exc Out.ivList t.getNonEntries)
  | "find" =>
    let n ← P.nat; let ls ← P.many n P.str; let q ← P.str; let sub ← P.bool
    pure ("ok " ++ Out.join ((findLabels ls q sub).map toString))
  | "valuesin" =>
    let t ← P.itier (α := α); let d ← samples
    pure ("ok " ++ Out.join ((t.valuesInIntervals d).map fun (_, vs) => Out.join (toString vs.length :: vs.map (toString ·.2))))
  | "valuesat" =>
    let t ← P.ptier (α := α); let d ← samples; let fz ← P.bool
    pure (Out.exc (fun rows => Out.join (rows.map fun | none => "_" | some r => toString r.2)) (t.valuesAtPoints d fz))
  | "overlap" =>
    let a ← P.iv (α := α); let b ← P.iv; let thr ← P.time; let bi ← P.bool
    pure ("ok " ++ Out.bool (overlapCheck a b thr bi))
  | "invert" =>
    let n ← P.nat; let l ← P.many n (do let x ← P.time (α := α); let y ← P.time (α := α); pure (x, y))
    let lo ← P.opt P.time; let hi ← P.opt P.time
    pure (Out.exc (fun r => Out.join (toString r.length :: r.map fun (x, y) => Out.time x ++ " " ++ Out.time y)) (invertIntervalList l lo hi))
  | "teq" =>
    let a ← P.anyTier (α := α); let b ← P.anyTier
    pure ("ok " ++ Out.bool (a.eq b))
  | "tgeq" =>
    let a ← P.tg (α := α); let b ← P.tg
    pure ("ok " ++ Out.bool (a.eq b))
  | "strip" =>
    let x ← P.str
    pure ("ok " ++ Out.str (pyStrip x))
  | "skip" => pure "ok skip"
  | "tg_add" =>
    let g ← P.tg (α := α); let t ← P.anyTier; let i ← P.opt P.int; let r ← P.report
    pure (Out.exc Out.tg (g.addTier t i r))
  | "tg_remove" =>
    let g ← P.tg (α := α); let n ← P.str
    pure (Out.exc Out.tg (g.removeTier n))
  | "tg_rename" =>
    let g ← P.tg (α := α); let o ← P.str; let n ← P.str
    pure (Out.exc Out.tg (g.renameTier o n))
  | "tg_replace" =>
    let g ← P.tg (α := α); let n ← P.str; let t ← P.anyTier; let r ← P.report
    pure (Out.exc Out.tg (g.replaceTier n t r))
  | "tg_crop" =>
    let g ← P.tg (α := α); let a ← P.time; let b ← P.time; let m ← P.cropMode; let r ← P.bool
    pure (Out.exc Out.tg (g.crop a b m r))
  | "tg_erase" =>
    let g ← P.tg (α := α); let a ← P.time; let b ← P.time; let sh ← P.bool
    pure (Out.exc Out.tg (g.eraseRegion a b sh))
  | "tg_space" =>
    let g ← P.tg (α := α); let s ← P.time; let d ← P.time; let m ← P.spaceMode
    pure (Out.exc Out.tg (g.insertSpace s d m))
  | "tg_shift" =>
    let g ← P.tg (α := α); let o ← P.time; let r ← P.report
    pure (Out.exc Out.tg (g.editTimestamps o r))
  | "tg_validate" =>
    let g ← P.tg (α := α)
    pure ("ok " ++ Out.bool g.validate)
  | "tg_merge" =>
    let g ← P.tg (α := α); let sel ← P.opt (do let n ← P.nat; P.many n P.str); let pr ← P.bool
    pure (Out.exc Out.tg (g.mergeTiers sel pr))
  | "tg_append" =>
    let g ← P.tg (α := α); let h ← P.tg; let om ← P.bool
    pure (Out.exc Out.tg (g.appendTextgrid h om))
  | "tg_align" =>
    let g ← P.tg (α := α); let n ← P.str; let md ← P.time
    pure (Out.exc Out.tg (g.alignBoundaries n md))
  | _ =>
    match runOpAudio α op with
    | some p => p
    | none =>
    match runOpNumeric α op with
    | some p => p
    | none =>
    match runOpKlatt α op with
    | some p => p
    | none =>
    match runOpIO α op with
    | some p => p
    | none =>
    match runOpExtract α op with
    | some p => p
    | none =>
    match runOpZero α op with
    | some p => p
    | none =>
    match runOpScripts α op with
    | some p => p
    | none =>
    match runOpImperative α op with
    | some p => p
    | none => throw s!"unknown op {op}"
where
  samples : P (List (α × Nat)) := do
    let n ← P.nat
    P.many n (do let x ← P.time (α := α); let i ← P.nat; pure (x, i))
  /-- the reference tier of dejitter: either tier kind, reduced to its timestamps -/
  refTimes : P (List α) := do
    match (← get) with
    | "I" :: _ => do let r ← P.itier (α := α); pure r.timestamps
    | _ => do let r ← P.ptier (α := α); pure r.timestamps

def runLine (line : String) : String :=
  match (line.splitOn " ").filter (· ≠ "") with
  | [] => "bad-line empty"
  | op :: args =>
    match (runOp (α := α) op).run args with
    | .ok (out, []) => out
    | .ok (_, rest) => s!"bad-line trailing {rest.length}"
    | .error e => s!"bad-line {e}"
end
