import PraatModel.Time
import PraatModel.Py

/-!
# Tiers, entries, constructors (interval_tier.py / point_tier.py / textgrid_tier.py)
-/

/-- the exception classes that can escape the modelled paths -/
inductive Err
  | ArgumentError | CollisionError | TextgridStateError | TierNameExistsError
  | TextgridStateAutoModified | OutOfBounds | ParsingError | WrongOption
  | DuplicateTierName | SafeZipException | Timeless | FindZeroCrossingError
  | IndexError | ValueError | KeyError | ZeroDivisionError | StructError
deriving DecidableEq, Repr

def Err.isPraatio : Err → Bool
  | .IndexError | .ValueError | .KeyError | .ZeroDivisionError | .StructError => false
  | _ => true

def Err.name : Err → String
  | .ArgumentError => "ArgumentError" | .CollisionError => "CollisionError"
  | .TextgridStateError => "TextgridStateError" | .TierNameExistsError => "TierNameExistsError"
  | .TextgridStateAutoModified => "TextgridStateAutoModified" | .OutOfBounds => "OutOfBounds"
  | .ParsingError => "ParsingError" | .WrongOption => "WrongOption"
  | .DuplicateTierName => "DuplicateTierName" | .SafeZipException => "SafeZipException"
  | .Timeless => "TimelessTextgridTierException" | .FindZeroCrossingError => "FindZeroCrossingError"
  | .IndexError => "IndexError" | .ValueError => "ValueError" | .KeyError => "KeyError"
  | .ZeroDivisionError => "ZeroDivisionError" | .StructError => "error"

structure Iv (α : Type) where
  s : α
  e : α
  l : String
deriving DecidableEq, Repr

structure Pt (α : Type) where
  t : α
  l : String
deriving DecidableEq, Repr

structure ITier (α : Type) where
  name : String
  es : List (Iv α)
  lo : α
  hi : α
deriving Repr

structure PTier (α : Type) where
  name : String
  ps : List (Pt α)
  lo : α
  hi : α
deriving Repr

inductive CropMode | strict | lax | truncated
deriving DecidableEq, Repr
inductive EraseMode | truncate | categorical | error
deriving DecidableEq, Repr
inductive SpaceMode | stretch | split | noChange | error
deriving DecidableEq, Repr
inductive InsMode | replace | merge | error
deriving DecidableEq, Repr
inductive Report | silence | warning | error
deriving DecidableEq, Repr

section
variable {α : Type} [LT α] [LE α] [DecidableLT α] [DecidableLE α] [BEq α]

/-- tuple order of `Interval(start, end, label)`: `a ≤ b` lexicographically (exact comparison —
`list.sort()` uses `tuple.__lt__`, only `__eq__/__ne__` are overridden by praatio). -/
def Iv.le (a b : Iv α) : Bool :=
  if a.s < b.s then true else if b.s < a.s then false
  else if a.e < b.e then true else if b.e < a.e then false
  else decide (a.l ≤ b.l)

def Pt.le (a b : Pt α) : Bool :=
  if a.t < b.t then true else if b.t < a.t then false
  else decide (a.l ≤ b.l)

/-- `list.sort()` on intervals (stable, lexicographic) -/
def sortIvs (es : List (Iv α)) : List (Iv α) := es.mergeSort Iv.le
def sortPts (ps : List (Pt α)) : List (Pt α) := ps.mergeSort Pt.le

/-- `IntervalTier._validate`: first failing check of `_validate`: all `start >= end` checks come first, then the overlaps;
both raise `TextgridStateError`, so only the Boolean matters. -/
def ivsAllPos (es : List (Iv α)) : Bool := es.all fun a => decide (a.s < a.e)
def ivsNoOverlap : List (Iv α) → Bool
  | [] => true
  | [_] => true
  | a :: b :: rest => !decide (b.s < a.e) && ivsNoOverlap (b :: rest)

/-- `IntervalTier(name, entries, minT, maxT)`:
`_homogenizeEntries` (strip labels, sort), `_calculateMinAndMaxTime` (hull; since fix 9432f3b in /repo bounds that come
out in the wrong order — `resolvedMinT > resolvedMaxT`, only possible for a tier without entries — are swapped, as
`PointTier` has always taken the hull of both bounds), `_validate`. -/
def mkITier (name : String) (es : List (Iv α)) (minT maxT : Option α) : Except Err (ITier α) :=
  let es1 := sortIvs (es.map fun iv => { iv with l := pyStrip iv.l })
  let mins := es1.map (·.s) ++ minT.toList
  let maxs := es1.map (·.e) ++ maxT.toList
  match pyMinList mins, pyMaxList maxs with
  | some lo, some hi =>
    -- `if resolvedMinT > resolvedMaxT: resolvedMinT, resolvedMaxT = resolvedMaxT, resolvedMinT`
    if ivsAllPos es1 && ivsNoOverlap es1 then .ok ⟨name, es1, if hi < lo then hi else lo, if hi < lo then lo else hi⟩
    else .error .TextgridStateError
  | _, _ => .error .Timeless

/-- `PointTier(name, entries, minT, maxT)` -/
def mkPTier (name : String) (ps : List (Pt α)) (minT maxT : Option α) : Except Err (PTier α) :=
  let ps1 := sortPts (ps.map fun p => { p with l := pyStrip p.l })
  let ts := ps1.map (·.t) ++ minT.toList ++ maxT.toList
  match pyMinList ts, pyMaxList ts with
  | some lo, some hi => .ok ⟨name, ps1, lo, hi⟩
  | _, _ => .error .Timeless

/-- `tier.new(name?, entries?, minTimestamp?, maxTimestamp?)` -/
def ITier.new (t : ITier α) (name : Option String := none) (es : Option (List (Iv α)) := none)
    (lo hi : Option α := none) : Except Err (ITier α) :=
  mkITier (name.getD t.name) (es.getD t.es) (some (lo.getD t.lo)) (some (hi.getD t.hi))

def PTier.new (t : PTier α) (name : Option String := none) (ps : Option (List (Pt α)) := none)
    (lo hi : Option α := none) : Except Err (PTier α) :=
  mkPTier (name.getD t.name) (ps.getD t.ps) (some (lo.getD t.lo)) (some (hi.getD t.hi))

/-- `IntervalTier.validate('silence')` -/
def ITier.validate (t : ITier α) : Bool :=
  let rec go : Option (Iv α) → List (Iv α) → Bool
    | _, [] => true
    | prev, iv :: rest =>
      decide (iv.s < iv.e) &&
      (match prev with | some p => !decide (iv.s < p.e) | none => true) &&
      !decide (iv.s < t.lo) && !decide (t.hi < iv.e) && go (some iv) rest
  go none t.es

/-- `PointTier.validate('silence')` -/
def PTier.validate (t : PTier α) : Bool :=
  let rec go : Option (Pt α) → List (Pt α) → Bool
    | _, [] => true
    | prev, p :: rest =>
      (match prev with | some q => !decide (p.t < q.t) | none => true) &&
      !decide (p.t < t.lo) && !decide (t.hi < p.t) && go (some p) rest
  go none t.ps

end

/-! ## Well-formedness (exact instance) -/

def Disj (es : List (Iv Int)) : Prop := es.Pairwise (fun a b => a.e ≤ b.s)
def Pos (es : List (Iv Int)) : Prop := ∀ iv ∈ es, iv.s < iv.e
def Stripped (es : List (Iv Int)) : Prop := ∀ iv ∈ es, pyStrip iv.l = iv.l

structure ITier.WF (t : ITier Int) : Prop where
  pos : Pos t.es
  disj : Disj t.es
  inLo : ∀ iv ∈ t.es, t.lo ≤ iv.s
  inHi : ∀ iv ∈ t.es, iv.e ≤ t.hi
  stripped : Stripped t.es
  span : t.lo ≤ t.hi

structure PTier.WF (t : PTier Int) : Prop where
  /-- sorted as `list.sort()` leaves `Point` tuples: by time, ties by label -/
  sorted : t.ps.Pairwise (fun a b => Pt.le a b = true)
  inLo : ∀ p ∈ t.ps, t.lo ≤ p.t
  inHi : ∀ p ∈ t.ps, p.t ≤ t.hi
  stripped : ∀ p ∈ t.ps, pyStrip p.l = p.l
  span : t.lo ≤ t.hi

/-- the label-at-every-time function (half-open intervals) -/
def labelAt (es : List (Iv Int)) (x : Int) : Option String :=
  (es.find? fun iv => decide (iv.s ≤ x) && decide (x < iv.e)).map (·.l)

def covers (es : List (Iv Int)) (x : Int) : Prop := ∃ iv ∈ es, iv.s ≤ x ∧ x < iv.e
