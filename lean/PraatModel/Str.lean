import PraatModel.Py

/-!
# Python string primitives over `Array Char` (used by the parser models)
Each is unit-tested against CPython by the harness (harness/props/C03.py, ops `u_*`).
-/

abbrev Txt := Array Char

namespace Txt

def ofString (s : String) : Txt := s.toList.toArray
def toStr (t : Txt) : String := String.ofList t.toList

/-- does `pat` occur at position `i`? -/
def startsAt (s pat : Txt) (i : Nat) : Bool :=
  i + pat.size ≤ s.size && (List.range pat.size).all fun k => s[i + k]! == pat[k]!

/-- `s.find(pat, i)` -/
def find (s pat : Txt) (i : Nat) : Option Nat :=
  let rec go (fuel : Nat) (i : Nat) : Option Nat :=
    match fuel with
    | 0 => none
    | fuel + 1 => if i + pat.size > s.size then none else if startsAt s pat i then some i else go fuel (i + 1)
  go (s.size + 1) i

/-- `s[i:j]` for 0 ≤ i, j (clamped) -/
def slice (s : Txt) (i j : Nat) : Txt := s.extract i (min j s.size)

/-- `s.strip()` -/
def strip (s : Txt) : Txt := (stripList s.toList).toArray

/-- `s.replace(a, b)` for non-empty `a`: leftmost, non-overlapping -/
def replace (s a b : Txt) : Txt :=
  let rec go (fuel : Nat) (i : Nat) (acc : Txt) : Txt :=
    match fuel with
    | 0 => acc
    | fuel + 1 =>
      if i ≥ s.size then acc
      else if startsAt s a i then go fuel (i + a.size) (acc ++ b)
      else go fuel (i + 1) (acc.push s[i]!)
  if a.size = 0 then s else go (s.size + 1) 0 #[]

/-- `s.split(sep)` for a single-character separator -/
def splitChar (s : Txt) (sep : Char) : List Txt :=
  let rec go (l : List Char) (cur : List Char) (acc : List Txt) : List Txt :=
    match l with
    | [] => (cur.reverse.toArray :: acc).reverse
    | c :: cs => if c == sep then go cs [] (cur.reverse.toArray :: acc) else go cs (c :: cur) acc
  go s.toList [] []

/-- `utils.findAll(txt, sub)`: all start indices, overlapping allowed (`index += 1`) -/
def findAll (s pat : Txt) : List Nat :=
  let rec go (fuel : Nat) (i : Nat) (acc : List Nat) : List Nat :=
    match fuel with
    | 0 => acc.reverse
    | fuel + 1 =>
      match find s pat i with
      | none => acc.reverse
      | some k => go fuel (k + 1) (k :: acc)
  go (s.size + 1) 0 []

def contains (s pat : Txt) : Bool := (find s pat 0).isSome

end Txt
