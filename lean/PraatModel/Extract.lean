import PraatModel.Audio
import PraatModel.Query

/-!
# Extract: interval-driven audio extraction (C17)

Mirror of `praatio/audio.py` (`_computeKeepDeleteIntervals`, `readFramesAtTimes`,
`AudioGenerator.generateSilence` / `generateSineWave`, `extractSubwav`, `outputFrames`) and of the
list logic of `praatio_scripts.splitAudioOnTier`.  No Mathlib.

* **Times of one call share a denominator**: a time is an `Int` numerator `k` meaning `k / den`
  seconds (`den > 0`).  Every finite set of binary64 values has such a common denominator (a power
  of two), so this is every input the code can receive.  Comparisons, sorting and `end - start`
  are then exact integer operations, `round(rate * t)` is `roundHalfEven (rate * k) den`, and
  `utils.invertIntervalList` is the `Int` instance of the model already used for C15.
* The **duration** `nframes / float(frameRate)` is a parameter `dur` (the exact value of the binary64
  quotient CPython computes; the theorems only use `round(rate * dur) = nframes`, which holds for it).
* The **replacement generator** is a parameter `gen : Int → List UInt8` (duration numerator ↦ bytes);
  `generateSilence` is modelled exactly, of `generateSineWave` only the sample count (the values go
  through `math.sin` and are the parameter `vals`).
* File I/O is abstract: a wave file is a `WavFile` (width, rate, data-chunk bytes).
-/

namespace Extract
open Audio

/-- exceptions of this group: praatio / built-in classes (`Err`) or `wave.Error`, `struct.error` (`AErr`) -/
inductive XErr
  | praat (e : Err)
  | audio (e : AErr)
deriving DecidableEq, Repr

def XErr.name : XErr → String
  | .praat e => e.name
  | .audio e => e.name

def liftP {β} : Except Err β → Except XErr β
  | .ok v => .ok v
  | .error e => .error (.praat e)

def liftA {β} : Except AErr β → Except XErr β
  | .ok v => .ok v
  | .error e => .error (.audio e)

/-! ## `_computeKeepDeleteIntervals` -/

/-- `(start, end, label)` with `label ∈ {"keep", "delete"}` -/
structure Marked where
  s : Int
  e : Int
  keep : Bool
deriving DecidableEq, Repr

/-- tuple order of `(start, end, label)`; `"delete" < "keep"` -/
def Marked.le (a b : Marked) : Bool :=
  if a.s < b.s then true else if b.s < a.s then false
  else if a.e < b.e then true else if b.e < a.e then false
  else (!a.keep || b.keep)

def markKeep (p : Int × Int) : Marked := ⟨p.1, p.2, true⟩
def markDelete (p : Int × Int) : Marked := ⟨p.1, p.2, false⟩

/-- `sorted(annotatedKeepIntervals + annotatedDeleteIntervals)` -/
def sortMarked (keep del : List (Int × Int)) : List Marked :=
  (keep.map markKeep ++ del.map markDelete).mergeSort Marked.le

/-- `_computeKeepDeleteIntervals(start, stop, keepIntervals, deleteIntervals)` (as repaired, commit 25e3c22):
`keepIntervals=None` means "no keep list", an explicitly empty keep list means "keep nothing"; for the delete
list `None` and `[]` are both falsy, so a list is all that is modelled. -/
def computeKeepDelete (start stop : Int) (keep : Option (List (Int × Int))) (del : List (Int × Int)) :
    Except Err (List Marked) :=
  let k := keep.getD []
  if !k.isEmpty && !del.isEmpty then .error .ArgumentError
  else if keep.isNone && del.isEmpty then .ok (sortMarked [(start, stop)] [])
  else if !del.isEmpty then
    match invertIntervalList del (some start) (some stop) with
    | .ok kk => .ok (sortMarked kk del)
    | .error e => .error e
  else
    match invertIntervalList k (some start) (some stop) with
    | .ok d => .ok (sortMarked k d)
    | .error e => .error e

/-! ## generators -/

/-- `round(rate * d)` for a duration `d / den` -/
def samplesIn (den rate : Nat) (d : Int) : Int := roundHalfEven ((rate : Int) * d) den

/-- `AudioGenerator.generateSilence(duration)`: `zeroBinValue * round(self.frameRate * duration)`
(`bytes * n` is empty for `n ≤ 0`) -/
def generateSilence (den rate width : Nat) (d : Int) : List UInt8 :=
  List.replicate ((samplesIn den rate d).toNat * width) 0

/-- `nSamples = round(duration * self.frameRate)`; `range(nSamples)` is empty for `nSamples ≤ 0` -/
def sineCount (den rate : Nat) (d : Int) : Nat := (roundHalfEven (d * (rate : Int)) den).toNat

/-- `AudioGenerator.generateSineWave(duration, frequency, amplitude)`; the sample values
`round(amplitude * math.sin(wavSpec * i))` are the parameter `vals` -/
def generateSineWave (den rate width : Nat) (vals : Nat → Int) (d : Int) : Except AErr (List UInt8) :=
  convertToBytes ((List.range (sineCount den rate d)).map vals) width

/-! ## `readFramesAtTimes` -/

/-- the loop over the marked intervals: kept stretches are read with `readFramesAtTime`, dropped
stretches are replaced by `replaceFunc(end - start)` when a generator is given -/
def assemble (den : Nat) (f : WavFile) (gen : Option (Int → List UInt8)) : List Marked → Except XErr (List UInt8)
  | [] => .ok []
  | m :: rest =>
    if m.keep then
      match readFramesAtTime f ⟨m.s, den⟩ ⟨m.e, den⟩ with
      | .error e => .error (.audio e)
      | .ok fr =>
        match assemble den f gen rest with
        | .ok r => .ok (fr ++ r)
        | .error e => .error e
    else
      match gen with
      | some g =>
        match assemble den f gen rest with
        | .ok r => .ok (g (m.e - m.s) ++ r)
        | .error e => .error e
      | none => assemble den f gen rest

/-- `markedIntervals[0][0] < 0 or markedIntervals[-1][1] > duration` → `ArgumentError` (as repaired, commit 2609506) -/
def checkBounds (dur : Int) (ms : List Marked) : Except XErr Unit :=
  match ms.head?, ms.getLast? with
  | some h, some m => if h.s < 0 ∨ dur < m.e then .error (.praat .ArgumentError) else .ok ()
  | _, _ => .error (.praat .IndexError)

/-- `readFramesAtTimes(audiofile, keepIntervals, deleteIntervals, replaceFunc)`; `dur` is the numerator of
`duration = nframes / float(frameRate)` over `den` -/
def readFramesAtTimes (den : Nat) (f : WavFile) (dur : Int) (keep : Option (List (Int × Int))) (del : List (Int × Int))
    (gen : Option (Int → List UInt8)) : Except XErr (List UInt8) :=
  match computeKeepDelete 0 dur keep del with
  | .error e => .error (.praat e)
  | .ok ms =>
    match checkBounds dur ms with
    | .error e => .error e
    | .ok _ => assemble den f gen ms

/-! ## `extractSubwav`, `outputFrames` -/

/-- `AbstractWav.outputFrames(frames, outputFN)`: the parameters of the source, the given frames -/
def outputFrames (f : WavFile) (frames : List UInt8) : WavFile := ⟨f.width, f.rate, frames⟩

/-- `extractSubwav(fn, outputFN, startTime, endTime)` -/
def extractSubwav (f : WavFile) (s e : QTime) : Except AErr WavFile :=
  match QueryWav.getFrames f (some s) (some e) with
  | .ok fr => .ok (outputFrames f fr)
  | .error err => .error err

/-! ## `splitAudioOnTier` -/

inductive NameStyle | default | append | appendNoI | label
deriving DecidableEq, Repr

/-- `outputTGFlag`: `False`, `True`, or a tier name -/
inductive TgFlag
  | off
  | all
  | only (name : String)
deriving DecidableEq, Repr

/-- `"%0<k>d" % i` for `i ≥ 0` -/
def padLeft (k : Nat) (s : String) : String := String.ofList (List.replicate (k - s.length) '0') ++ s

/-- `outputTemplate % i`: `"%s_%%0%dd" % (name, orderOfMagnitude + 1)`; `floor(log10 n) + 1` is the
number of decimal digits of `n ≥ 1` -/
def indexedName (stem : String) (n i : Nat) : String := stem ++ "_" ++ padLeft (toString n).length (toString i)

def outputName (stem : String) (style : NameStyle) (n i : Nat) (label : String) : String :=
  match style with
  | .appendNoI => stem ++ "_" ++ label
  | .label => label
  | .default => indexedName stem n i
  | .append => indexedName stem n i ++ "_" ++ label

section
variable {α : Type} [LT α] [LE α] [DecidableLT α] [DecidableLE α] [BEq α] [Add α] [Sub α] [Tm α]

/-- one written pair: the returned tuple `(start, end, outputName + ".wav")`, the wave file, the TextGrid -/
structure SplitOut (α : Type) where
  s : α
  e : α
  name : String
  wav : WavFile
  tg : Option (Tg α)

/-- `getValue(noPartialIntervals)` -/
def splitMode (noPartial : Bool) : CropMode := if noPartial then .strict else .truncated

/-- the cropped TextGrid of one entry: `tg.crop(start, end, mode, True)`, then every tier but the
requested one removed when `outputTGFlag` is a tier name -/
def splitTg (g : Tg α) (s e : α) (noPartial : Bool) : TgFlag → Except Err (Option (Tg α))
  | .off => .ok none
  | .all => some <$> g.crop s e (splitMode noPartial) true
  | .only n => (fun sub => some { sub with tiers := sub.tiers.filter (·.name == n) }) <$> g.crop s e (splitMode noPartial) true

/-- the entry loop -/
def splitLoop (toQ : α → QTime) (f : WavFile) (g : Tg α) (stem : String) (flag : TgFlag) (style : NameStyle)
    (noPartial : Bool) (n : Nat) : Nat → List (Iv α) → Except XErr (List (SplitOut α))
  | _, [] => .ok []
  | i, iv :: rest =>
    match QueryWav.getFrames f (some (toQ iv.s)) (some (toQ iv.e)) with
    | .error e => .error (.audio e)
    | .ok fr =>
      match splitTg g iv.s iv.e noPartial flag with
      | .error e => .error (.praat e)
      | .ok sub =>
        match splitLoop toQ f g stem flag style noPartial n (i + 1) rest with
        | .error e => .error e
        | .ok outs => .ok (⟨iv.s, iv.e, outputName stem style n i iv.l, outputFrames f fr, sub⟩ :: outs)

/-- the entries `splitAudioOnTier` iterates over: the tier's entries minus the silence label.  A point tier with
nothing left is "nothing to split"; with a point left, `start, end, label = entry` raises `ValueError`. -/
def splitEntries (g : Tg α) (tierName : String) (silence : Option String) : Except Err (List (Iv α)) :=
  match g.getTier tierName with
  | .error e => .error e
  | .ok (.P t) =>
    let ps := match silence with
      | some sl => t.ps.filter (fun (p : Pt α) => p.l != sl)
      | none => t.ps
    if ps.isEmpty then .ok [] else .error .ValueError
  | .ok (.I t) =>
    .ok (match silence with
      | some sl => t.es.filter (fun iv => iv.l != sl)
      | none => t.es)

/-- `splitAudioOnTier(wavFN, tgFN, tierName, outputPath, outputTGFlag, nameStyle, noPartialIntervals, silenceLabel)`
as list logic: `g` is the textgrid as opened, `stem` the wav's file name without extension, `toQ` the exact
value of a timestamp.  With no entry left nothing is written and `[]` is returned (as repaired, commit 5e608f3;
before, `math.log10(0)` raised `ValueError`). -/
def splitAudioOnTier (toQ : α → QTime) (f : WavFile) (g : Tg α) (tierName stem : String) (flag : TgFlag)
    (style : NameStyle) (noPartial : Bool) (silence : Option String) : Except XErr (List (SplitOut α)) :=
  match splitEntries g tierName silence with
  | .error e => .error (.praat e)
  | .ok es => splitLoop toQ f g stem flag style noPartial es.length 0 es

end
end Extract
