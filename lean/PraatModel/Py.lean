/-!
# Python semantics used by praatIO, as small total functions

Each definition here is validated against CPython by the harness
(`harness/pyunits.py`): `pyIsSpace` for every code point, the others on
generated inputs.
-/

/-- `str.isspace()` for a single character (Unicode `White_Space`-ish table of CPython). -/
def pyIsSpace (c : Char) : Bool :=
  let n := c.toNat
  (0x09 ≤ n && n ≤ 0x0D) || (0x1C ≤ n && n ≤ 0x20) || n == 0x85 || n == 0xA0 ||
  n == 0x1680 || (0x2000 ≤ n && n ≤ 0x200A) || n == 0x2028 || n == 0x2029 ||
  n == 0x202F || n == 0x205F || n == 0x3000

def stripL : List Char → List Char
  | [] => []
  | c :: cs => if pyIsSpace c then stripL cs else c :: cs

def stripList (cs : List Char) : List Char := (stripL (stripL cs).reverse).reverse

/-- `str.strip()` -/
def pyStrip (s : String) : String := String.ofList (stripList s.toList)

/-- `sep.join(parts)` -/
def pyJoin (sep : String) : List String → String
  | [] => ""
  | [x] => x
  | x :: xs => x ++ sep ++ pyJoin sep xs

/-- Python `min(a, b)` / fold of `min(list)`: the first minimal element wins. -/
def pyMin2 {α} [LT α] [DecidableLT α] (a b : α) : α := if b < a then b else a
/-- Python `max(a, b)`: the first maximal element wins. -/
def pyMax2 {α} [LT α] [DecidableLT α] (a b : α) : α := if a < b then b else a

def pyMinList {α} [LT α] [DecidableLT α] : List α → Option α
  | [] => none
  | x :: xs => some (xs.foldl pyMin2 x)
def pyMaxList {α} [LT α] [DecidableLT α] : List α → Option α
  | [] => none
  | x :: xs => some (xs.foldl pyMax2 x)

/-- `list.insert(i, x)` with Python's clamping and negative indices. -/
def pyListInsert {β} (l : List β) (i : Int) (x : β) : List β :=
  let n : Int := l.length
  let j : Int := if i < 0 then (if i + n < 0 then 0 else i + n) else (if i > n then n else i)
  l.take j.toNat ++ x :: l.drop j.toNat

theorem pyMin2_int (a b : Int) : pyMin2 a b = min a b := by
  unfold pyMin2; split <;> omega
theorem pyMax2_int (a b : Int) : pyMax2 a b = max a b := by
  unfold pyMax2; split <;> omega

theorem stripL_idem (cs : List Char) : stripL (stripL cs) = stripL cs := by
  induction cs with
  | nil => rfl
  | cons c cs ih =>
    by_cases h : pyIsSpace c
    · simp [stripL, h, ih]
    · simp [stripL, h]
