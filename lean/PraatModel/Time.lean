/-!
# Numbers

Every timestamp-carrying definition of the model is polymorphic in a type `α`
that carries the *standard* classes (`LT`, `LE`, decidability, `Add`, `Sub`,
`BEq`) plus the small class `Tm` below.  Two instantiations exist:

* `Int` — exact arithmetic, canonical core instances, the instance every theorem
  speaks about (a finite set of binary64 values is mapped exactly to integers by
  one power-of-two scale factor);
* `Float` — IEEE-754 binary64, used only so that the same definitions can be
  executed with hardware rounding and compared bit-for-bit with CPython.
-/

class Tm (α : Type) where
  zero    : α
  /-- `math.isclose(a, b)` (rel_tol 1e-9) — `Interval.__eq__`, tier `__eq__` -/
  close9  : α → α → Bool
  /-- `math.isclose(a, b, abs_tol=1e-14)` — `Point.__eq__` -/
  close9a : α → α → Bool
  /-- `my_math.isclose(a, b)` (rel_tol 1e-14) — `numToStr`, `Textgrid.__eq__`, `lessThanOrEqual` -/
  close14 : α → α → Bool

/-- exact instance: the tolerances are the rational inequalities of the Python code, cleared of
denominators (scale invariant).  `abs_tol = 1e-14` is below the resolution of every grid the
exact instance is run on, so `close9a` is `close9` here (recorded in DESIGN §2.2). -/
instance : Tm Int where
  zero := 0
  close9 a b  := decide (1000000000 * (a - b).natAbs ≤ max a.natAbs b.natAbs)
  close9a a b := decide (1000000000 * (a - b).natAbs ≤ max a.natAbs b.natAbs)
  close14 a b := decide (100000000000000 * (a - b).natAbs ≤ max a.natAbs b.natAbs)

namespace FloatTm
/-- CPython `math.isclose` for finite arguments, same operations in the same order. -/
def mathIsClose (a b : Float) (rel abs_tol : Float) : Bool :=
  if a == b then true else
  let diff := Float.abs (b - a)
  (diff ≤ Float.abs (rel * b)) || (diff ≤ Float.abs (rel * a)) || (diff ≤ abs_tol)

def fmax (a b : Float) : Float := if b > a then b else a

/-- `my_math.isclose`: `abs(a - b) <= max(rel_tol * max(abs(a), abs(b)), abs_tol)` with abs_tol = 0.0 -/
def myIsClose (a b : Float) : Bool :=
  Float.abs (a - b) ≤ fmax (1e-14 * fmax (Float.abs a) (Float.abs b)) 0.0
end FloatTm

instance : Tm Float where
  zero := 0.0
  close9 a b  := FloatTm.mathIsClose a b 1e-9 0.0
  close9a a b := FloatTm.mathIsClose a b 1e-9 1e-14
  close14 a b := FloatTm.myIsClose a b

theorem Int.close9_self (a : Int) : Tm.close9 a a = true := by
  simp [Tm.close9]

theorem Int.close9_iff (a b : Int) :
    Tm.close9 a b = true ↔ 1000000000 * (a - b).natAbs ≤ max a.natAbs b.natAbs := by
  simp [Tm.close9]
