import PraatModel.Query
import PraatModel.Numeric

/-!
# pitch_and_intensity.generatePIMeasures (code brought inside the model after the first build)

Composed from the models of `getValuesInIntervals` (`Query.lean`), `getPitchMeasures`, `_stepFilter`, `medianFilter`
(`Numeric.lean`).  Everything that needs `statistics`, `sqrt` or a division is a parameter (`Arith`), as in
`Numeric.PitchArith`; WHEN those computations raise is structural and modelled: `statistics.stdev` needs two values
(StatisticsError), a population of equal values has deviation 0 (ZeroDivisionError).  The textgrid is the one
`openTextgrid(tgFN, includeEmptyIntervals=False)` returned (reading files is the subject of C01/C03).
-/
namespace PI

inductive PIErr
  | normalization | incompatibleTier | statistics | zeroDivision | keyError
deriving DecidableEq, Repr

def PIErr.name : PIErr → String
  | .normalization => "NormalizationException" | .incompatibleTier => "IncompatibleTierError"
  | .statistics => "StatisticsError" | .zeroDivision => "ZeroDivisionError" | .keyError => "KeyError"

/-- praatio's own exception classes among them -/
def PIErr.isPraatio : PIErr → Bool
  | .normalization | .incompatibleTier => true
  | _ => false

structure Arith (α : Type) where
  /-- mean, population variance, sqrt of `getPitchMeasures` -/
  pitch : Numeric.PitchArith α
  /-- `my_math.rms` of a non-empty list -/
  rms : List α → α
  /-- `(val - statistics.mean(pop)) / statistics.stdev(pop)` for a population with two different values -/
  z : List α → α → α

section
variable {α : Type} [Inhabited α] [LT α] [DecidableLT α] [LE α] [DecidableLE α] [BEq α] [Sub α] [Tm α]

/-- `statistics.mean` / `statistics.stdev` / the division, as far as raising goes -/
def statGuard (pop : List α) : Except PIErr Unit :=
  if pop.length < 2 then .error .statistics
  else if pop.all (fun v => v == pop.headD default) then .error .zeroDivision
  else .ok ()

/-- the value column of `my_math.znormalizeSpeakerData(rows, index, filterZeroValues=True)` -/
def znormSpeaker (A : Arith α) (vals : List α) : Except PIErr (List α) := do
  let pos := vals.filter fun v => decide (Tm.zero < v)
  statGuard pos
  pure (vals.map fun v => if Tm.zero < v then A.z pos v else Tm.zero)

/-- `_stepFilter(f, dist, window, useEdgePadding=True)` for a filter function that can raise: windows in index order,
the first exception escapes -/
def stepFilterE (f : List α → Except PIErr α) (dist : List α) (window : Nat) : Except PIErr (List α) :=
  dist.zipIdx.mapM fun vx => f (Numeric.dataToFilter dist vx.1 vx.2 (window / 2))

/-- `znormalizeCenterVal` -/
def zCenter (A : Arith α) (w : List α) : Except PIErr α := do
  statGuard w
  pure (A.z w (w.getD (w.length / 2) default))

/-- `for i in zeroIndexList: filteredOutput.insert(i, 0.0)` -/
def reinsertZeros (zeroIdx : List Nat) (out : List α) : List α :=
  zeroIdx.foldl (fun acc i => acc.insertIdx i Tm.zero) out

/-- `my_math.znormWindowFilter(dist, window, useEdgePadding=True, filterZeroValues=True)` -/
def znormWindow (A : Arith α) (dist : List α) (window : Nat) : Except PIErr (List α) := do
  let nonzero := dist.filter fun v => decide (Tm.zero < v)
  let zeroIdx := (dist.zipIdx.filter fun vx => !decide (Tm.zero < vx.1)).map (·.2)
  let out ← stepFilterE (zCenter A) nonzero window
  pure (reinsertZeros zeroIdx out)

/-- `_stepFilter(f, dist, window, useEdgePadding)` for a filter function that can raise, both padding modes: without
padding only the positions whose whole window lies inside the series are filtered, the others are copied -/
def stepFilterEP (f : List α → Except PIErr α) (dist : List α) (window : Nat) (pad : Bool) : Except PIErr (List α) :=
  dist.zipIdx.mapM fun vx =>
    if pad || (decide (window / 2 ≤ vx.2) && decide (vx.2 + window / 2 < dist.length)) then
      f (Numeric.dataToFilter dist vx.1 vx.2 (window / 2))
    else pure vx.1

/-- `my_math.znormWindowFilter(dist, window, useEdgePadding, filterZeroValues)` with its inner `znormalizeCenterVal`
(`zCenter`): all four option combinations -/
def znormWindowFilter (A : Arith α) (dist : List α) (window : Nat) (pad fz : Bool) : Except PIErr (List α) :=
  if !fz then stepFilterEP (zCenter A) dist window pad
  else do
    let nonzero := dist.filter fun v => decide (Tm.zero < v)
    let zeroIdx := (dist.zipIdx.filter fun vx => !decide (Tm.zero < vx.1)).map (·.2)
    let out ← stepFilterEP (zCenter A) nonzero window pad
    pure (reinsertZeros zeroIdx out)

/-- `utils.getValuesInInterval` on (time, f0, intensity) rows — the same test as `valuesInInterval` in `Query.lean` -/
def samplesIn (data : List (α × α × α)) (s e : α) : List (α × α × α) :=
  data.filter fun d => decide (s ≤ d.1) && decide (d.1 ≤ e)

/-- one output row -/
def row (A : Arith α) (doPitch : Bool) (medW : Option Nat) (filterZero : Bool) (entries : List (α × α × α)) : List α :=
  if doPitch then
    let (m, mx, mn, rg, v, sd) := Numeric.getPitchMeasures A.pitch (entries.map (·.2.1)) medW filterZero
    [m, mx, mn, rg, v, sd]
  else
    let vals := entries.map (·.2.2)
    let vals := if filterZero then vals.filter (fun x => !(x == Tm.zero)) else vals
    [if vals.length = 0 then Tm.zero else A.rms vals]

/-- column `c` of the rows -/
def column (rows : List (List α)) (c : Nat) : List α := rows.map fun r => r.getD c default
def setColumn (rows : List (List α)) (c : Nat) (vals : List α) : List (List α) :=
  (rows.zip vals).map fun rv => rv.1.set c rv.2

/-- the local normalisation loop over the columns of the first row -/
def localNorm (A : Arith α) (window : Nat) (rows : List (List α)) : Except PIErr (List (List α)) :=
  (List.range (rows.headD []).length).foldlM
    (fun acc c => do let col ← znormWindow A (column acc c) window; pure (setColumn acc c col)) rows

/-- `generatePIMeasures(dataList, tgFN, tierName, doPitch, medianFilterWindowSize, globalZNormalization,
localZNormalizationWindowSize)`; `tier` = `tg.getTier(tierName)` of the opened textgrid (`none`: no such tier) -/
def generatePIMeasures (A : Arith α) (data : List (α × α × α)) (tier : Option (AnyTier α)) (doPitch : Bool)
    (medW : Option Nat) (globalZ : Bool) (localW : Nat) : Except PIErr (List (List α)) := do
  if globalZ && decide (0 < localW) then throw .normalization
  let data ←
    if globalZ then do
      let vals ← znormSpeaker A (data.map fun d => if doPitch then d.2.1 else d.2.2)
      pure ((data.zip vals).map fun dv => if doPitch then (dv.1.1, dv.2, dv.1.2.2) else (dv.1.1, dv.1.2.1, dv.2))
    else pure data
  let filterZero := !globalZ
  match tier with
  | none => throw .keyError
  | some (.P _) => throw .incompatibleTier
  | some (.I t) =>
    let rows := t.es.map fun iv => row A doPitch medW filterZero (samplesIn data iv.s iv.e)
    if decide (0 < localW) && !rows.isEmpty then localNorm A localW rows else pure rows

end
end PI
