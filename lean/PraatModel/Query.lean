import PraatModel.Textgrid

/-!
# Queries and derived views (utils.py, textgrid_tier.py, interval_tier.py, point_tier.py, textgrid.py)
-/

section
variable {α : Type} [LT α] [LE α] [DecidableLT α] [DecidableLE α] [BEq α] [Add α] [Sub α] [Tm α]

/-- `utils.getValuesInInterval(dataTupleList, start, end)`; a sample is (time, id) -/
def valuesInInterval (data : List (α × Nat)) (s e : α) : List (α × Nat) :=
  data.filter fun d => decide (s ≤ d.1) && decide (d.1 ≤ e)

/-- `IntervalTier.getValuesInIntervals` -/
def ITier.valuesInIntervals (t : ITier α) (data : List (α × Nat)) : List (Iv α × List (α × Nat)) :=
  t.es.map fun iv => (iv, valuesInInterval data iv.s iv.e)

/-- exact branch of `utils.getValueAtTime`: returns (row?, index) -/
def valueAtExact (ts : α) (data : Array (α × Nat)) (fuel : Nat) (i : Nat) : Option (α × Nat) × Nat :=
  match fuel with
  | 0 => (none, i)
  | fuel + 1 =>
    match data[i]? with
    | none => (none, i)
    | some row =>
      if ts ≤ row.1 then (if ts == row.1 then some row else none, i)
      else valueAtExact ts data fuel (i + 1)

/-- the `while True` loop of the fuzzy branch; `best` is (bestTime, bestRow) -/
def valueAtFuzzyLoop (ts : α) (data : Array (α × Nat)) (fuel : Nat) (i : Nat) (best : α × Nat) : (α × Nat) × Int :=
  match fuel with
  | 0 => (best, (i : Int) - 1)
  | fuel + 1 =>
    match data[i]? with
    | none => (best, (i : Int) - 1)
    | some row =>
      let currDiff := tabs (row.1 - ts)
      let bestDiff := tabs (best.1 - ts)
      if currDiff < bestDiff then
        if currDiff == Tm.zero then (row, i) else valueAtFuzzyLoop ts data fuel (i + 1) row
      else if bestDiff < currDiff then (best, (i : Int) - 1)
      else valueAtFuzzyLoop ts data fuel (i + 1) best

/-- fuzzy branch of `utils.getValueAtTime` (IndexError if `startI` is not an index) -/
def valueAtFuzzy (ts : α) (data : Array (α × Nat)) (startI : Int) : Except Err ((α × Nat) × Int) :=
  let n : Int := data.size
  let i : Int := if startI < 0 then startI + n else startI
  if i < 0 ∨ i ≥ n then .error .IndexError
  else
    match data[i.toNat]? with
    | none => .error .IndexError
    | some row => .ok (valueAtFuzzyLoop ts data (data.size + 1) i.toNat row)

def sampleLe (a b : α × Nat) : Bool :=
  if a.1 < b.1 then true else if b.1 < a.1 then false else decide (a.2 ≤ b.2)

/-- `PointTier.getValuesAtPoints(dataTupleList, fuzzyMatching)` -/
def PTier.valuesAtPoints (t : PTier α) (data : List (α × Nat)) (fuzzy : Bool) :
    Except Err (List (Option (α × Nat))) := do
  let sorted := (data.mergeSort sampleLe).toArray
  let mut idx : Int := 0
  let mut out : List (Option (α × Nat)) := []
  for p in t.ps do
    if fuzzy then
      let (row, i) ← valueAtFuzzy p.t sorted idx
      out := out ++ [some row]
      idx := i
    else
      -- a start index beyond the data (or negative) raises IndexError / wraps in Python; the exact loop only
      -- ever returns indices in [0, len]
      let (row, i) := valueAtExact p.t sorted (sorted.size + 1) idx.toNat
      out := out ++ [row]
      idx := i
  pure out

/-- `utils.intervalOverlapCheck(interval, cmprInterval, percentThreshold=0, timeThreshold, boundaryInclusive)` -/
def overlapCheck (a b : Iv α) (timeThreshold : α) (boundaryInclusive : Bool) : Bool :=
  let lo := pyMax2 a.s b.s           -- max(startTime, cmprStartTime)
  let hi := pyMin2 a.e b.e           -- min(endTime, cmprEndTime)
  let ov := pyMax2 Tm.zero (hi - lo) -- max(0, …)
  let overlapFlag := decide (Tm.zero < ov)
  let boundaryFlag := boundaryInclusive && (a.s == b.e || a.e == b.s)
  let overlapFlag2 := if Tm.zero < timeThreshold ∧ overlapFlag then !decide (ov < timeThreshold) else overlapFlag
  overlapFlag2 || boundaryFlag

def pairLe (a b : α × α) : Bool :=
  if a.1 < b.1 then true else if b.1 < a.1 then false else !decide (b.2 < a.2)

/-- `utils.invertIntervalList(inputList, minValue, maxValue)` -/
def invertIntervalList (inp : List (α × α)) (minV maxV : Option α) : Except Err (List (α × α)) :=
  if inp.any (fun iv => !decide (iv.1 < iv.2)) then .error .ArgumentError
  else
    let srt := inp.mergeSort pairLe
    match srt, minV, maxV with
    | [], some lo, some hi => .ok [(lo, hi)]
    | _, _, _ =>
      match srt.head?, srt.getLast? with
      | some f, some g =>
        let pre : List (α × α) := match minV with
          | some lo => if lo < f.1 then [(lo, lo)] else []     -- garbage head (-1, minValue): only its end is used
          | none => []
        let post : List (α × α) := match maxV with
          | some hi => if g.2 < hi then [(hi, hi)] else []      -- garbage tail (maxValue, maxValue+1)
          | none => []
        let l := pre ++ srt ++ post
        .ok ((l.zip l.tail).filterMap fun (x, y) => if x.2 == y.1 then none else some (x.2, y.1))
      | _, _ => if minV.isNone && maxV.isNone then .ok [] else .error .IndexError

/-- `TextgridTier.__eq__` for two interval tiers -/
def ITier.eq (t u : ITier α) : Bool :=
  t.name == u.name && Tm.close9 t.lo u.lo && Tm.close9 t.hi u.hi && t.es.length == u.es.length &&
  (t.es.zip u.es).all fun (a, b) => Tm.close9 a.s b.s && Tm.close9 a.e b.e && a.l == b.l

def PTier.eq (t u : PTier α) : Bool :=
  t.name == u.name && Tm.close9 t.lo u.lo && Tm.close9 t.hi u.hi && t.ps.length == u.ps.length &&
  (t.ps.zip u.ps).all fun (a, b) => Tm.close9 a.t b.t && a.l == b.l

def AnyTier.eq : AnyTier α → AnyTier α → Bool
  | .I t, .I u => t.eq u
  | .P t, .P u => t.eq u
  | _, _ => false

def optClose14 : Option α → Option α → Bool
  | some a, some b => Tm.close14 a b
  | _, _ => false

/-- `Textgrid.__eq__` (both spans set) -/
def Tg.eq (g h : Tg α) : Bool :=
  optClose14 g.lo h.lo && optClose14 g.hi h.hi && g.names == h.names &&
  (g.tiers.zip h.tiers).all fun (a, b) => a.eq b

end
