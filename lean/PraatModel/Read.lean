import PraatModel.Str
import PraatModel.Tier
import PraatModel.Quote

/-!
# The two text readers of textgrid_io.py, as written

Numerals stay strings (the harness applies `float()`); exceptions carry the Python class.
The regular expressions of `_parseNormalTextgrid` are replaced by hand-written matchers with the same leftmost /
greedy / backtracking result (validated against `re` on adversarial texts by the harness, ops `u_num`, `u_text`,
`u_split`).
-/

structure RawTier where
  cls : String
  name : String
  xmin : String
  xmax : String
  entries : List (List String)
deriving Repr

structure RawTg where
  xmin : String
  xmax : String
  tiers : List RawTier
deriving Repr

namespace Rd
open Txt

def lit (s : String) : Txt := Txt.ofString s

/-- `dataStr.index(sub, i)` — ValueError when absent -/
def index (s pat : Txt) (i : Nat) : Except Err Nat :=
  match find s pat i with
  | some k => .ok k
  | none => .error .ValueError

/-- `_fetchRow(dataStr, index)` -/
def fetchRow (s : Txt) (i : Nat) : Except Err (Txt × Nat) := do
  let e ← index s (lit "\n") i
  let w := strip (slice s i e)
  if w.size = 0 then throw .IndexError          -- word[0]
  let w := if w[0]! == '"' && w[w.size - 1]! == '"' then slice w 1 (w.size - 1) else w
  pure (strip w, e + 1)

/-- `_fetchTextRow(dataStr, index, stripText=…)`: the quote-run loop is the one-pass machine `scanText` of Quote.lean;
`stripText=False` (fix A31: the tier-name row of `_parseShortTextgrid`) keeps the text between the quotes verbatim -/
def fetchTextRow (s : Txt) (i : Nat) (stripText : Bool := true) : Except Err (Txt × Nat) := do
  -- endIndex = startIndex + 1; then the loop
  let n ← scanText none 0 (s.toList.drop (i + 1))
  let e := i + 1 + n
  let w := slice s i e
  let w := if w.size ≥ 2 then slice w 1 (w.size - 1) else (if w.size = 1 then #[] else w)   -- word[1:-1]
  let w := (unescapeL (if stripText then stripList w.toList else w.toList)).toArray            -- [.strip()].replace('""', '"')
  let nl ← index s (lit "\n") e
  pure (w, nl + 1)

/-- the entry loops of `_parseShortTextgrid`: read until ValueError / IndexError -/
def shortEntries (s : Txt) (isInterval : Bool) (fuel : Nat) (i : Nat) (acc : List (List String)) : List (List String) :=
  match fuel with
  | 0 => acc.reverse
  | fuel + 1 =>
    let step : Except Err (List String × Nat) :=
      if isInterval then do
        let (st, i1) ← fetchRow s i
        let (en, i2) ← fetchRow s i1
        let (lb, i3) ← fetchTextRow s i2
        pure ([toStr st, toStr en, toStr (strip lb)], i3)
      else do
        let (tm, i1) ← fetchRow s i
        let (lb, i2) ← fetchTextRow s i1
        pure ([toStr tm, toStr (strip lb)], i2)
    match step with
    | .ok (e, j) => shortEntries s isInterval fuel j (e :: acc)
    | .error _ => acc.reverse          -- `except (ValueError, IndexError): break` (only these two can occur)

def nth? (l : List Txt) (k : Nat) : Except Err Txt :=
  match l[k]? with
  | some x => .ok x
  | none => .error .IndexError

/-- the order of `tupleList.sort()` on `(index, isInterval)`: by index, then `False < True` -/
def markLe (a b : Nat × Bool) : Bool :=
  if a.1 < b.1 then true else if b.1 < a.1 then false else (!a.2 || b.2)

/-- the sorted tier start offsets with their class, closed by `(len(data), True)` -/
def shortMarks (data : Txt) : List (Nat × Bool) :=
  let ii := (findAll data (lit "\"IntervalTier\"")).map fun i => (i, true)
  let pi := (findAll data (lit "\"TextTier\"")).map fun i => (i, false)
  (ii ++ pi ++ [(data.size, true)]).mergeSort markLe

/-- `tupleList`: (start of the tier block, start of the next one, isInterval) -/
def shortTuples (data : Txt) : List (Nat × Nat × Bool) :=
  let all := shortMarks data
  (all.zip all.tail).map fun p => (p.1.1, p.2.1, p.1.2)

/-- the body of the tier loop of `_parseShortTextgrid` on `tierData = data[blockStartI:blockEndI]` -/
def readBlock (td : Txt) (isI : Bool) : Except Err RawTier := do
  let (_, metaI) ← fetchRow td 0
  let (name, i1) ← fetchTextRow td metaI false
  let (st, i2) ← fetchRow td i1
  let (en, i3) ← fetchRow td i2
  let (_, i4) ← fetchRow td i3
  let entries := shortEntries td isI (td.size + 1) i4 []
  pure ({ cls := if isI then "IntervalTier" else "TextTier", name := toStr name, xmin := toStr st, xmax := toStr en,
          entries := entries } : RawTier)

/-- `_parseShortTextgrid(data)` -/
def parseShort (data0 : Txt) : Except Err RawTg := do
  let data := replace data0 (lit "\r\n") (lit "\n")
  let tuples := shortTuples data
  match tuples with
  | [] => throw .IndexError                       -- tupleList[0][0]
  | (first, _, _) :: _ =>
    let header := slice data 0 first
    let hl := splitChar header '\n'
    let tgMin ← nth? hl 3
    let tgMax ← nth? hl 4
    let tiers ← tuples.mapM fun t => readBlock (slice data t.1 t.2.1) t.2.2
    pure ⟨toStr (strip tgMin), toStr (strip tgMax), tiers⟩

/-! ## matchers standing in for the regular expressions of `_parseNormalTextgrid` -/

/-- every character from `k` up to the next newline (or the end) is whitespace:  `\s*$` under MULTILINE -/
def blankTail (s : Txt) (k : Nat) : Bool :=
  let rec go (fuel : Nat) (k : Nat) : Bool :=
    match fuel with
    | 0 => true
    | fuel + 1 =>
      if k ≥ s.size then true
      else if s[k]! == '\n' then true
      else if pyIsSpace s[k]! then go fuel (k + 1) else false
  go (s.size + 1) k

/-- `kw ?= ?` at `i`: index just after it -/
def head (s kw : Txt) (i : Nat) : Option Nat :=
  if !startsAt s kw i then none else
  let j := i + kw.size
  let j := if j < s.size && s[j]! == ' ' then j + 1 else j
  if j < s.size && s[j]! == '=' then
    let j := j + 1
    some (if j < s.size && s[j]! == ' ' then j + 1 else j)
  else none

def isDigitDot (c : Char) : Bool := c.isDigit || c == '.'

def runWhile (s : Txt) (p : Char → Bool) (k : Nat) : Nat :=
  let rec go (fuel : Nat) (k : Nat) : Nat :=
    match fuel with
    | 0 => k
    | fuel + 1 => if k < s.size && p s[k]! then go fuel (k + 1) else k
  go (s.size + 1) k

/-- `([\d.]+(?:[eE][-+]?\d+)?)\s*$` (MULTILINE) at `j`: the captured group -/
def numAt (s : Txt) (j : Nat) : Option Txt :=
  let k := runWhile s isDigitDot j
  if k == j then none
  else
    -- optional exponent, preferred when the rest of the line is blank after it
    let withExp : Option Nat :=
      if k < s.size && (s[k]! == 'e' || s[k]! == 'E') then
        let m := k + 1
        let m := if m < s.size && (s[m]! == '-' || s[m]! == '+') then m + 1 else m
        let m2 := runWhile s Char.isDigit m
        if m2 == m then none else some m2
      else none
    match withExp with
    | some m2 => if blankTail s m2 then some (slice s j m2) else (if blankTail s k then some (slice s j k) else none)
    | none => if blankTail s k then some (slice s j k) else none

/-- the match attempt of `matchNum` at the occurrence `i` of `kw` -/
def matchNumAt (s kw : Txt) (neg : Bool) (i : Nat) : Option Txt :=
  match head s kw i with
  | none => none
  | some j0 =>
    -- the optional sign is INSIDE the captured group (fix A30): the group is the sign followed by the numeral
    let sg := if neg && j0 < s.size && s[j0]! == '-' then 1 else 0
    (numAt s (j0 + sg)).map fun w => slice s j0 (j0 + sg) ++ w

/-- `kw ?= ?(-?[\d.]+(?:[eE][-+]?\d+)?)\s*$` (MULTILINE), `neg` = whether `-?` is in the pattern (it is, in the group, on
every numeric row of `_parseNormalTextgrid` after fix A30): the captured group -/
def matchNum (s kw : Txt) (neg : Bool) : Option Txt :=
  (findAll s kw).findSome? (matchNumAt s kw neg)

/-- last index `< hi` and `≥ lo` holding a quote -/
def rfindQuote (s : Txt) (lo hi : Nat) : Option Nat :=
  let rec go (fuel : Nat) (k : Nat) : Option Nat :=
    match fuel with
    | 0 => none
    | fuel + 1 => if k ≤ lo then none else if s[k - 1]! == '"' then some (k - 1) else go fuel (k - 1)
  go (s.size + 1) (min hi s.size)

/-- greedy `.*` then backtrack: the last quote in `[j, hi)` with a blank tail -/
def backQuote (s : Txt) (j : Nat) (fuel : Nat) (hi : Nat) : Option Txt :=
  match fuel with
  | 0 => none
  | fuel + 1 =>
    match rfindQuote s j hi with
    | none => none
    | some k => if blankTail s (k + 1) then some (slice s j k) else backQuote s j fuel k

/-- the match attempt of `matchText` at the occurrence `i` of `kw` -/
def matchTextAt (s kw : Txt) (dotall : Bool) (i : Nat) : Option Txt :=
  match head s kw i with
  | none => none
  | some j0 =>
    if !(j0 < s.size && s[j0]! == '"') then none
    else
      let j := j0 + 1
      let limit := if dotall then s.size else (match find s (lit "\n") j with | some n => n | none => s.size)
      backQuote s j (s.size + 1) limit

/-- `kw ?= ?"(.*)"\s*$` with MULTILINE (and DOTALL when `dotall`): the captured group -/
def matchText (s kw : Txt) (dotall : Bool) : Option Txt :=
  (findAll s kw).findSome? (matchTextAt s kw dotall)

/-- the match attempt of `matchTextRest` at the occurrence `i` of `kw`: the captured group, and the text from the END of the
group on (`string[m.end(1):]`; it starts with the closing quote) -/
def matchTextRestAt (s kw : Txt) (dotall : Bool) (i : Nat) : Option (Txt × Txt) :=
  match head s kw i with
  | none => none
  | some j0 => (matchTextAt s kw dotall i).map fun w => (w, slice s (j0 + 1 + w.size) s.size)

/-- `m = re.search(kw ?= ?"(.*)"\s*$, s)`: `(m.groups()[0], s[m.end(1):])` — what `_parseNormalTextgrid` keeps of the tier
header once the name is read (fix A33: the span rows are searched behind the name) -/
def matchTextRest (s kw : Txt) (dotall : Bool) : Option (Txt × Txt) :=
  (findAll s kw).findSome? (matchTextRestAt s kw dotall)

/-- `re.split(kw ?\[, s)`: leftmost non-overlapping occurrences of `kw [` or `kw[` -/
def splitKw (s kw : Txt) : List Txt :=
  let a := kw ++ lit " ["
  let b := kw ++ lit "["
  let rec go (fuel : Nat) (i start : Nat) (acc : List Txt) : List Txt :=
    match fuel with
    | 0 => (slice s start s.size :: acc).reverse
    | fuel + 1 =>
      if i ≥ s.size then (slice s start s.size :: acc).reverse
      else if startsAt s a i then go fuel (i + a.size) (i + a.size) (slice s start i :: acc)
      else if startsAt s b i then go fuel (i + b.size) (i + b.size) (slice s start i :: acc)
      else go fuel (i + 1) start acc
  go (s.size + 1) 0 0 []

def need (o : Option Txt) : Except Err Txt :=
  match o with
  | some x => .ok x
  | none => .error .ParsingError

def needP (o : Option (Txt × Txt)) : Except Err (Txt × Txt) :=
  match o with
  | some x => .ok x
  | none => .error .ParsingError

/-- `headerList[k].split("=")[1].strip()` -/
def headerField (hl : List Txt) (k : Nat) : Except Err Txt := do
  let line ← nth? hl k
  let parts := splitChar line '='
  let v ← nth? parts 1
  pure (strip v)

/-- one element of `tierData`: the entry after `intervals [` / `points [` -/
def readEntryLong (isI : Bool) (el : Txt) : Except Err (List String) := do
  if isI then
    let s1 ← need (matchNum el (lit "xmin") true)
    let e1 ← need (matchNum el (lit "xmax") true)
    let lb ← need (matchText el (lit "text") true)
    pure [toStr s1, toStr e1, toStr (replace (strip lb) (lit "\"\"") (lit "\""))]
  else
    let t1 ← need (matchNum el (lit "number") true)
    let lb ← need (matchText el (lit "mark") true)
    pure [toStr t1, toStr (replace (strip lb) (lit "\"\"") (lit "\""))]

/-- `re.search(r'class ?= ?"IntervalTier"', s)` (after fix df3976c; no anchors): is there a match? -/
def matchClass (s : Txt) : Bool :=
  (findAll s (lit "class")).any fun i =>
    match head s (lit "class") i with
    | none => false
    | some j => startsAt s (lit "\"IntervalTier\"") j

/-- the body of the tier loop of `_parseNormalTextgrid` on one `tierTxt` -/
def readTierLong (tt : Txt) : Except Err RawTier := do
  let isI := matchClass tt
  let d := splitKw tt (lit (if isI then "intervals" else "points"))
  let hdr := d.headD #[]
  let els := d.drop 1
  -- MULTILINE | DOTALL since fix A32 (a name may span several lines); `header = header[nameMatch.end(1):]` since fix A33
  let (name, hdr) ← needP (matchTextRest hdr (lit "name") true)
  let name := replace name (lit "\"\"") (lit "\"")
  let st ← need (matchNum hdr (lit "xmin") true)
  let en ← need (matchNum hdr (lit "xmax") true)
  let entries ← els.mapM (readEntryLong isI)
  pure ({ cls := if isI then "IntervalTier" else "TextTier", name := toStr name, xmin := toStr st, xmax := toStr en,
          entries := entries } : RawTier)

/-- `_parseNormalTextgrid(data)` -/
def parseLong (data0 : Txt) : Except Err RawTg := do
  let data := replace data0 (lit "\r\n") (lit "\n")
  match splitKw data (lit "item") with
  | [] | [_] => throw .ValueError                 -- header, data = re.split(..., maxsplit=1)
  | header :: _ =>
    -- maxsplit=1: the remainder is everything after the first splitter
    let restStart := header.size + (if startsAt data (lit "item [") header.size then 6 else 5)
    let rest := slice data restStart data.size
    let hl := splitChar header '\n'
    let tgMin ← headerField hl 3
    let tgMax ← headerField hl 4
    let tierList := (splitKw rest (lit "item")).drop 1
    let tiers ← tierList.mapM readTierLong
    pure ⟨toStr tgMin, toStr tgMax, tiers⟩

/-- `parseTextgridStr` for text that is not JSON: format sniffing, then `_removeBlanks` -/
def parseText (data : Txt) (includeEmpty : Bool) : Except Err RawTg := do
  let caseA := Txt.contains data (lit "ooTextFile short")
  let caseB := !Txt.contains data (lit "item [")
  let g ← if caseA || caseB then parseShort data else parseLong data
  if includeEmpty then pure g
  else pure { g with tiers := g.tiers.map fun t => { t with entries := t.entries.filter fun e => e.getLast? != some "" } }

end Rd
