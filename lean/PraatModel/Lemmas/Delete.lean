import PraatModel.Ops
import PraatModel.Lemmas.Sort

/-! # deleteEntry: exact match first, tolerant fallback

`deleteEntry` of a MEMBER removes exactly that member, unconditionally (`deleteIv_of_mem`, `deletePt_of_mem`,
`deleteIvs_of_mem`).  The tolerant `Interval.__eq__` only matters for an argument that is not in the list
(`deleteIv_not_mem`, `deleteIv_sublist`). -/

/-- no two distinct entries are equal under `Interval.__eq__`.  No theorem about deleting a member needs this any more
(it was the hypothesis under which the former tolerant `list.index` coincided with exact search); it is kept as a
description of the tiers on which the tolerant fallback of `deleteEntry` is unambiguous. -/
def NoClose (es : List (Iv Int)) : Prop := ∀ a ∈ es, ∀ b ∈ es, ivEq a b = true → a = b

theorem ivEq_self (a : Iv Int) : ivEq a a = true := by
  simp [ivEq, Int.close9_self]

theorem ivSame_iff (a b : Iv Int) : ivSame a b = true ↔ a = b := by
  cases a; cases b
  simp [ivSame]
  constructor
  · rintro ⟨⟨h1, h2⟩, h3⟩; exact ⟨h1, h2, h3⟩
  · rintro ⟨h1, h2, h3⟩; exact ⟨⟨h1, h2⟩, h3⟩

theorem ptSame_iff (a b : Pt Int) : ptSame a b = true ↔ a = b := by
  cases a; cases b
  simp [ptSame]

/-- the exact search finds a member: it is `List.erase` -/
theorem eraseSameIv_of_mem (es : List (Iv Int)) (x : Iv Int) (hx : x ∈ es) :
    eraseSameIv es x = some (es.erase x) := by
  induction es with
  | nil => simp at hx
  | cons e rest ih =>
    simp only [eraseSameIv]
    by_cases he : e = x
    · subst he
      simp [(ivSame_iff e e).2 rfl]
    · have hs : ivSame e x = false := by
        cases h : ivSame e x
        · rfl
        · exact absurd ((ivSame_iff e x).1 h) he
      have hx' : x ∈ rest := by
        rcases List.mem_cons.1 hx with h | h
        · exact absurd h.symm he
        · exact h
      simp only [hs, Bool.false_eq_true, if_false, ih hx', Option.map]
      rw [List.erase_cons_tail]
      simpa using he

theorem eraseSameIv_none (es : List (Iv Int)) (x : Iv Int) (hx : x ∉ es) : eraseSameIv es x = none := by
  induction es with
  | nil => rfl
  | cons e rest ih =>
    have he : e ≠ x := fun h => hx (by simp [h])
    have hs : ivSame e x = false := by
      cases h : ivSame e x
      · rfl
      · exact absurd ((ivSame_iff e x).1 h) he
    simp only [eraseSameIv, hs, Bool.false_eq_true, if_false, ih (fun h => hx (List.mem_cons_of_mem _ h)), Option.map]

/-- **deleteEntry of a member removes exactly that member** — whatever else in the tier is close to it (no separation
hypothesis: the exact search of the repaired `deleteEntry` finds the member before the tolerant fallback is tried) -/
theorem deleteIv_of_mem (es : List (Iv Int)) (x : Iv Int) (hx : x ∈ es) :
    deleteIv es x = .ok (es.erase x) := by
  simp only [deleteIv, eraseSameIv_of_mem es x hx]

theorem deleteIvTol_not_mem (es : List (Iv Int)) (x : Iv Int) (h : ∀ e ∈ es, ivEq e x = false) :
    deleteIvTol es x = .error .ValueError := by
  induction es with
  | nil => rfl
  | cons e rest ih =>
    simp only [deleteIvTol, h e (by simp), Bool.false_eq_true, if_false,
      ih (fun e' he' => h e' (List.mem_cons_of_mem _ he'))]
    rfl

theorem deleteIv_not_mem (es : List (Iv Int)) (x : Iv Int) (h : ∀ e ∈ es, ivEq e x = false) :
    deleteIv es x = .error .ValueError := by
  have hx : x ∉ es := fun hm => by
    have := h x hm
    rw [ivEq_self] at this
    exact absurd this (by simp)
  simp only [deleteIv, eraseSameIv_none es x hx, deleteIvTol_not_mem es x h]

/-- whichever entry `deleteEntry` removes (exact or tolerant match), the rest is a sublist -/
theorem eraseSameIv_sublist (es : List (Iv Int)) (x : Iv Int) (r : List (Iv Int)) (h : eraseSameIv es x = some r) :
    r.Sublist es := by
  induction es generalizing r with
  | nil => simp [eraseSameIv] at h
  | cons a as ih =>
    simp only [eraseSameIv] at h
    split at h
    · simp only [Option.some.injEq] at h; subst h; exact List.sublist_cons_self _ _
    · cases hr : eraseSameIv as x with
      | none => rw [hr] at h; simp at h
      | some r' =>
        rw [hr] at h; simp only [Option.map, Option.some.injEq] at h; subst h
        exact (ih r' hr).cons_cons a

theorem deleteIvTol_sublist (es : List (Iv Int)) (x : Iv Int) (r : List (Iv Int)) (h : deleteIvTol es x = .ok r) :
    r.Sublist es := by
  induction es generalizing r with
  | nil => simp [deleteIvTol] at h
  | cons a as ih =>
    simp only [deleteIvTol] at h
    split at h
    · simp only [Except.ok.injEq] at h; subst h; exact List.sublist_cons_self _ _
    · cases hr : deleteIvTol as x with
      | error e => rw [hr] at h; simp [Except.map] at h
      | ok r' =>
        rw [hr] at h; simp only [Except.map, Except.ok.injEq] at h; subst h
        exact (ih r' hr).cons_cons a

theorem deleteIv_sublist (es : List (Iv Int)) (x : Iv Int) (r : List (Iv Int)) (h : deleteIv es x = .ok r) :
    r.Sublist es := by
  simp only [deleteIv] at h
  split at h
  · rename_i r' hr; simp only [Except.ok.injEq] at h; subst h; exact eraseSameIv_sublist es x _ hr
  · exact deleteIvTol_sublist es x r h

theorem eraseSamePt_sublist (ps : List (Pt Int)) (x : Pt Int) (r : List (Pt Int)) (h : eraseSamePt ps x = some r) :
    r.Sublist ps := by
  induction ps generalizing r with
  | nil => simp [eraseSamePt] at h
  | cons a as ih =>
    simp only [eraseSamePt] at h
    split at h
    · simp only [Option.some.injEq] at h; subst h; exact List.sublist_cons_self _ _
    · cases hr : eraseSamePt as x with
      | none => rw [hr] at h; simp at h
      | some r' =>
        rw [hr] at h; simp only [Option.map, Option.some.injEq] at h; subst h
        exact (ih r' hr).cons_cons a

theorem deletePtTol_sublist (ps : List (Pt Int)) (x : Pt Int) (r : List (Pt Int)) (h : deletePtTol ps x = .ok r) :
    r.Sublist ps := by
  induction ps generalizing r with
  | nil => simp [deletePtTol] at h
  | cons a as ih =>
    simp only [deletePtTol] at h
    split at h
    · simp only [Except.ok.injEq] at h; subst h; exact List.sublist_cons_self _ _
    · cases hr : deletePtTol as x with
      | error e => rw [hr] at h; simp [Except.map] at h
      | ok r' =>
        rw [hr] at h; simp only [Except.map, Except.ok.injEq] at h; subst h
        exact (ih r' hr).cons_cons a

theorem deletePt_sublist' (ps : List (Pt Int)) (x : Pt Int) (r : List (Pt Int)) (h : deletePt ps x = .ok r) :
    r.Sublist ps := by
  simp only [deletePt] at h
  split at h
  · rename_i r' hr; simp only [Except.ok.injEq] at h; subst h; exact eraseSamePt_sublist ps x _ hr
  · exact deletePtTol_sublist ps x r h

/-- the exact search on points -/
theorem eraseSamePt_of_mem (ps : List (Pt Int)) (x : Pt Int) (hx : x ∈ ps) :
    eraseSamePt ps x = some (ps.erase x) := by
  induction ps with
  | nil => simp at hx
  | cons e rest ih =>
    simp only [eraseSamePt]
    by_cases he : e = x
    · subst he
      simp [(ptSame_iff e e).2 rfl]
    · have hs : ptSame e x = false := by
        cases h : ptSame e x
        · rfl
        · exact absurd ((ptSame_iff e x).1 h) he
      have hx' : x ∈ rest := by
        rcases List.mem_cons.1 hx with h | h
        · exact absurd h.symm he
        · exact h
      simp only [hs, Bool.false_eq_true, if_false, ih hx', Option.map]
      rw [List.erase_cons_tail]
      simpa using he

/-- **deleteEntry of a member point removes exactly that point**, whatever else is close to it -/
theorem deletePt_of_mem (ps : List (Pt Int)) (x : Pt Int) (hx : x ∈ ps) : deletePt ps x = .ok (ps.erase x) := by
  simp only [deletePt, eraseSamePt_of_mem ps x hx]

theorem nodup_of_wf (es : List (Iv Int)) (hp : Pos es) (hd : SetDisj es) : es.Nodup := by
  induction es with
  | nil => simp
  | cons x xs ih =>
    have h1 := (List.pairwise_cons.1 hd).1
    refine List.nodup_cons.2 ⟨?_, ih (pos_tail hp) (List.pairwise_cons.1 hd).2⟩
    intro hx
    have := h1 x hx
    have := hp x (by simp)
    omega

/-- deleting a duplicate-free list of members one after the other = erasing them -/
theorem deleteIvs_of_mem (es ms : List (Iv Int)) (hnd : es.Nodup)
    (hms : ∀ m ∈ ms, m ∈ es) (hmd : ms.Nodup) :
    deleteIvs es ms = .ok (ms.foldl (fun acc m => acc.erase m) es) := by
  induction ms generalizing es with
  | nil => rfl
  | cons m ms ih =>
    simp only [deleteIvs, List.foldlM_cons, List.foldl_cons] at *
    rw [deleteIv_of_mem es m (hms m (by simp))]
    simp only [bind, Except.bind]
    have hmd' := List.nodup_cons.1 hmd
    apply ih (es.erase m)
    · exact hnd.erase m
    · intro m' hm'
      rw [hnd.mem_erase_iff]
      refine ⟨?_, hms m' (List.mem_cons_of_mem _ hm')⟩
      intro h; subst h; exact hmd'.1 hm'
    · exact hmd'.2

theorem foldl_erase_mem (ms es : List (Iv Int)) (x : Iv Int) (hnd : es.Nodup) :
    x ∈ ms.foldl (fun acc m => acc.erase m) es ↔ x ∈ es ∧ x ∉ ms := by
  induction ms generalizing es with
  | nil => simp
  | cons m ms ih =>
    simp only [List.foldl_cons]
    rw [ih _ (hnd.erase m)]
    simp only [List.mem_cons, not_or]
    rw [hnd.mem_erase_iff]
    constructor
    · rintro ⟨⟨h1, h2⟩, h3⟩; exact ⟨h2, h1, h3⟩
    · rintro ⟨h2, h1, h3⟩; exact ⟨⟨h1, h2⟩, h3⟩
