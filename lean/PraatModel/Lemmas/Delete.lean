import PraatModel.Ops
import PraatModel.Lemmas.Sort

/-! # deleteEntry by tolerant equality, under the separation hypothesis -/

/-- no two distinct entries are equal under `Interval.__eq__` (the explicit hypothesis under which the
code's tolerant `list.index` coincides with exact search) -/
def NoClose (es : List (Iv Int)) : Prop := ∀ a ∈ es, ∀ b ∈ es, ivEq a b = true → a = b

theorem ivEq_self (a : Iv Int) : ivEq a a = true := by
  simp [ivEq, Int.close9_self]

theorem NoClose.tail {x : Iv Int} {xs : List (Iv Int)} (h : NoClose (x :: xs)) : NoClose xs :=
  fun a ha b hb hab => h a (List.mem_cons_of_mem _ ha) b (List.mem_cons_of_mem _ hb) hab

theorem NoClose.sublist {l l' : List (Iv Int)} (h : NoClose l) (hs : ∀ x ∈ l', x ∈ l) : NoClose l' :=
  fun a ha b hb hab => h a (hs a ha) b (hs b hb) hab

theorem deleteIv_of_mem (es : List (Iv Int)) (x : Iv Int) (hn : NoClose es) (hx : x ∈ es) :
    deleteIv es x = .ok (es.erase x) := by
  induction es with
  | nil => simp at hx
  | cons e rest ih =>
    simp only [deleteIv]
    by_cases he : ivEq e x = true
    · have : e = x := hn e (by simp) x hx he
      subst this
      simp [he]
    · have hne : e ≠ x := by intro h; subst h; exact he (ivEq_self e)
      have hx' : x ∈ rest := by
        rcases List.mem_cons.1 hx with h | h
        · exact absurd h.symm hne
        · exact h
      simp only [he, Bool.false_eq_true, if_false, ih hn.tail hx']
      simp only [Except.map]
      rw [List.erase_cons_tail]
      simpa using hne

theorem deleteIv_not_mem (es : List (Iv Int)) (x : Iv Int) (h : ∀ e ∈ es, ivEq e x = false) :
    deleteIv es x = .error .ValueError := by
  induction es with
  | nil => rfl
  | cons e rest ih =>
    simp only [deleteIv, h e (by simp), Bool.false_eq_true, if_false,
      ih (fun e' he' => h e' (List.mem_cons_of_mem _ he'))]
    rfl

theorem nodup_of_wf (es : List (Iv Int)) (hp : Pos es) (hd : SetDisj es) : es.Nodup := by
  induction es with
  | nil => simp
  | cons x xs ih =>
    have h1 := (List.pairwise_cons.1 hd).1
    refine List.nodup_cons.2 ⟨?_, ih (pos_tail hp) (List.pairwise_cons.1 hd).2⟩
    intro hx
    have := h1 x hx
    have := hp x (by simp)
    omega

/-- deleting a duplicate-free list of members one after the other = erasing them -/
theorem deleteIvs_of_mem (es ms : List (Iv Int)) (hn : NoClose es) (hnd : es.Nodup)
    (hms : ∀ m ∈ ms, m ∈ es) (hmd : ms.Nodup) :
    deleteIvs es ms = .ok (ms.foldl (fun acc m => acc.erase m) es) := by
  induction ms generalizing es with
  | nil => rfl
  | cons m ms ih =>
    simp only [deleteIvs, List.foldlM_cons, List.foldl_cons] at *
    rw [deleteIv_of_mem es m hn (hms m (by simp))]
    simp only [bind, Except.bind]
    have hmd' := List.nodup_cons.1 hmd
    apply ih (es.erase m)
    · exact hn.sublist (fun x hx => List.mem_of_mem_erase hx)
    · exact hnd.erase m
    · intro m' hm'
      rw [hnd.mem_erase_iff]
      refine ⟨?_, hms m' (List.mem_cons_of_mem _ hm')⟩
      intro h; subst h; exact hmd'.1 hm'
    · exact hmd'.2

theorem foldl_erase_mem (ms es : List (Iv Int)) (x : Iv Int) (hnd : es.Nodup) :
    x ∈ ms.foldl (fun acc m => acc.erase m) es ↔ x ∈ es ∧ x ∉ ms := by
  induction ms generalizing es with
  | nil => simp
  | cons m ms ih =>
    simp only [List.foldl_cons]
    rw [ih _ (hnd.erase m)]
    simp only [List.mem_cons, not_or]
    rw [hnd.mem_erase_iff]
    constructor
    · rintro ⟨⟨h1, h2⟩, h3⟩; exact ⟨h2, h1, h3⟩
    · rintro ⟨h2, h1, h3⟩; exact ⟨⟨h1, h2⟩, h3⟩
