import PraatModel.Tier

/-! # helper lemmas about sorting, hulls and the interval-tier constructor (exact instance) -/

theorem pos_tail {x : Iv Int} {xs : List (Iv Int)} (h : Pos (x :: xs)) : Pos xs :=
  fun i hi => h i (List.mem_cons_of_mem _ hi)

theorem Disj.cons {x : Iv Int} {xs : List (Iv Int)} (h : Disj (x :: xs)) :
    (∀ y ∈ xs, x.e ≤ y.s) ∧ Disj xs := by
  simpa [Disj, List.pairwise_cons] using h

theorem Iv.le_of_lt_start (a b : Iv Int) (h : a.s < b.s) : Iv.le a b = true := by
  simp [Iv.le, h]

theorem pairwise_le_of_disj (es : List (Iv Int)) (hp : Pos es) (hd : Disj es) :
    es.Pairwise (fun a b => Iv.le a b = true) := by
  induction es with
  | nil => simp
  | cons x xs ih =>
    obtain ⟨h1, h2⟩ := hd.cons
    refine List.pairwise_cons.2 ⟨?_, ih (pos_tail hp) h2⟩
    intro y hy
    have := h1 y hy
    have := hp x (by simp)
    exact Iv.le_of_lt_start _ _ (by omega)

theorem sortIvs_of_wf (es : List (Iv Int)) (hp : Pos es) (hd : Disj es) : sortIvs es = es :=
  List.mergeSort_of_pairwise (pairwise_le_of_disj es hp hd)

theorem ivsAllPos_iff (es : List (Iv Int)) : ivsAllPos es = true ↔ Pos es := by
  simp [ivsAllPos, Pos]

theorem ivsNoOverlap_of_disj (es : List (Iv Int)) (hd : Disj es) : ivsNoOverlap es = true := by
  induction es with
  | nil => rfl
  | cons x xs ih =>
    cases xs with
    | nil => rfl
    | cons y ys =>
      obtain ⟨h1, h2⟩ := hd.cons
      have := h1 y (by simp)
      simp only [ivsNoOverlap, Bool.and_eq_true, Bool.not_eq_true', decide_eq_false_iff_not]
      exact ⟨by omega, ih h2⟩

theorem map_strip_of_stripped (es : List (Iv Int)) (hs : Stripped es) :
    es.map (fun iv => { iv with l := pyStrip iv.l }) = es := by
  induction es with
  | nil => rfl
  | cons x xs ih =>
    have hx := hs x (by simp)
    simp only [List.map_cons]
    rw [ih (fun i hi => hs i (List.mem_cons_of_mem _ hi))]
    congr 1
    obtain ⟨s, e, l⟩ := x
    simp_all

/-! ## hull of the requested span and the entries -/

theorem foldl_pyMin2 (xs : List Int) (a : Int) : xs.foldl pyMin2 a = xs.foldl min a := by
  induction xs generalizing a with
  | nil => rfl
  | cons x xs ih => simp [List.foldl_cons, pyMin2_int, ih]

theorem foldl_pyMax2 (xs : List Int) (a : Int) : xs.foldl pyMax2 a = xs.foldl max a := by
  induction xs generalizing a with
  | nil => rfl
  | cons x xs ih => simp [List.foldl_cons, pyMax2_int, ih]

theorem foldl_min_le (xs : List Int) (a : Int) : xs.foldl min a ≤ a ∧ ∀ x ∈ xs, xs.foldl min a ≤ x := by
  induction xs generalizing a with
  | nil => simp
  | cons x xs ih =>
    obtain ⟨h1, h2⟩ := ih (min a x)
    simp only [List.foldl_cons, List.mem_cons, forall_eq_or_imp]
    refine ⟨by omega, by omega, h2⟩

theorem foldl_min_mem (xs : List Int) (a : Int) : xs.foldl min a = a ∨ xs.foldl min a ∈ xs := by
  induction xs generalizing a with
  | nil => simp
  | cons x xs ih =>
    simp only [List.foldl_cons, List.mem_cons]
    rcases ih (min a x) with h | h
    · rw [h]; rcases Int.le_total a x with h' | h'
      · left; omega
      · right; left; omega
    · right; right; exact h

theorem foldl_max_ge (xs : List Int) (a : Int) : a ≤ xs.foldl max a ∧ ∀ x ∈ xs, x ≤ xs.foldl max a := by
  induction xs generalizing a with
  | nil => simp
  | cons x xs ih =>
    obtain ⟨h1, h2⟩ := ih (max a x)
    simp only [List.foldl_cons, List.mem_cons, forall_eq_or_imp]
    refine ⟨by omega, by omega, h2⟩

theorem foldl_max_mem (xs : List Int) (a : Int) : xs.foldl max a = a ∨ xs.foldl max a ∈ xs := by
  induction xs generalizing a with
  | nil => simp
  | cons x xs ih =>
    simp only [List.foldl_cons, List.mem_cons]
    rcases ih (max a x) with h | h
    · rw [h]; rcases Int.le_total a x with h' | h'
      · right; left; omega
      · left; omega
    · right; right; exact h

/-- the smallest element of `xs ++ [a]` (the `min(...)` of `_calculateMinAndMaxTime`) -/
def hullMin (xs : List Int) (a : Int) : Int := xs.foldl min a
def hullMax (xs : List Int) (a : Int) : Int := xs.foldl max a

theorem pyMinList_append_single (xs : List Int) (a : Int) :
    pyMinList (xs ++ [a]) = some (hullMin xs a) := by
  cases xs with
  | nil => simp [pyMinList, hullMin]
  | cons x xs =>
    simp only [pyMinList, List.cons_append, foldl_pyMin2, hullMin, List.foldl_append, List.foldl_cons,
      List.foldl_nil, Option.some.injEq, pyMin2_int]
    apply Int.le_antisymm
    · have h1 := foldl_min_le xs x
      have h2 := foldl_min_le xs (min a x)
      rcases foldl_min_mem xs (min a x) with h | h
      · omega
      · have := h1.2 _ h; omega
    · have h1 := foldl_min_le xs x
      have h2 := foldl_min_le xs (min a x)
      rcases foldl_min_mem xs x with h | h
      · omega
      · have := h2.2 _ h; omega

theorem pyMaxList_append_single (xs : List Int) (a : Int) :
    pyMaxList (xs ++ [a]) = some (hullMax xs a) := by
  cases xs with
  | nil => simp [pyMaxList, hullMax]
  | cons x xs =>
    simp only [pyMaxList, List.cons_append, foldl_pyMax2, hullMax, List.foldl_append, List.foldl_cons,
      List.foldl_nil, Option.some.injEq, pyMax2_int]
    apply Int.le_antisymm
    · have h1 := foldl_max_ge xs x
      have h2 := foldl_max_ge xs (max a x)
      rcases foldl_max_mem xs x with h | h
      · omega
      · have := h2.2 _ h; omega
    · have h1 := foldl_max_ge xs x
      have h2 := foldl_max_ge xs (max a x)
      rcases foldl_max_mem xs (max a x) with h | h
      · omega
      · have := h1.2 _ h; omega

theorem hullMin_le (xs : List Int) (a : Int) : hullMin xs a ≤ a ∧ ∀ x ∈ xs, hullMin xs a ≤ x :=
  foldl_min_le xs a
theorem hullMax_ge (xs : List Int) (a : Int) : a ≤ hullMax xs a ∧ ∀ x ∈ xs, x ≤ hullMax xs a :=
  foldl_max_ge xs a
theorem hullMin_eq_of_le (xs : List Int) (a : Int) (h : ∀ x ∈ xs, a ≤ x) : hullMin xs a = a := by
  rcases foldl_min_mem xs a with h' | h'
  · exact h'
  · have := h _ h'; have := (foldl_min_le xs a).1; unfold hullMin; omega
theorem hullMax_eq_of_ge (xs : List Int) (a : Int) (h : ∀ x ∈ xs, x ≤ a) : hullMax xs a = a := by
  rcases foldl_max_mem xs a with h' | h'
  · exact h'
  · have := h _ h'; have := (foldl_max_ge xs a).1; unfold hullMax; omega

/-- the constructor on an already well-formed entry list, ANY requested bounds: nothing is reordered or rejected, the
span is the hull — with the two ends put in order (fix 9432f3b; only an entry-less tier with a reversed request is affected) -/
theorem mkITier_of_wf_any (name : String) (es : List (Iv Int)) (lo hi : Int)
    (hp : Pos es) (hd : Disj es) (hs : Stripped es) :
    mkITier name es (some lo) (some hi) =
      .ok ⟨name, es, min (hullMin (es.map (·.s)) lo) (hullMax (es.map (·.e)) hi),
        max (hullMin (es.map (·.s)) lo) (hullMax (es.map (·.e)) hi)⟩ := by
  unfold mkITier
  simp only [map_strip_of_stripped es hs, sortIvs_of_wf es hp hd, Option.toList_some,
    pyMinList_append_single, pyMaxList_append_single]
  rw [(ivsAllPos_iff es).2 hp, ivsNoOverlap_of_disj es hd]
  simp only [Bool.and_self, if_true]
  congr 2 <;> split <;> omega

/-- the hull is in order as soon as the request is, or the tier has an entry -/
theorem hull_ordered (es : List (Iv Int)) (lo hi : Int) (hp : Pos es) (h : lo ≤ hi ∨ es ≠ []) :
    hullMin (es.map (·.s)) lo ≤ hullMax (es.map (·.e)) hi := by
  have h1 := hullMin_le (es.map (·.s)) lo
  have h2 := hullMax_ge (es.map (·.e)) hi
  rcases h with h | h
  · omega
  · cases es with
    | nil => exact absurd rfl h
    | cons x xs =>
      have := h1.2 x.s (by simp)
      have := h2.2 x.e (by simp)
      have := hp x (by simp)
      omega

/-- the constructor on an already well-formed entry list with the requested bounds in order: the span is the hull -/
theorem mkITier_of_wf (name : String) (es : List (Iv Int)) (lo hi : Int) (hlh : lo ≤ hi)
    (hp : Pos es) (hd : Disj es) (hs : Stripped es) :
    mkITier name es (some lo) (some hi) =
      .ok ⟨name, es, hullMin (es.map (·.s)) lo, hullMax (es.map (·.e)) hi⟩ := by
  rw [mkITier_of_wf_any name es lo hi hp hd hs]
  have := hull_ordered es lo hi hp (Or.inl hlh)
  congr 2 <;> omega

theorem mkITier_wf (name : String) (es : List (Iv Int)) (lo hi : Int) (hlh : lo ≤ hi)
    (hp : Pos es) (hd : Disj es) (hs : Stripped es) :
    ∃ t, mkITier name es (some lo) (some hi) = .ok t ∧ t.WF ∧ t.es = es ∧ t.name = name ∧
      t.lo = hullMin (es.map (·.s)) lo ∧ t.hi = hullMax (es.map (·.e)) hi := by
  refine ⟨_, mkITier_of_wf name es lo hi hlh hp hd hs, ?_, rfl, rfl, rfl, rfl⟩
  have h1 := hullMin_le (es.map (·.s)) lo
  have h2 := hullMax_ge (es.map (·.e)) hi
  exact {
    pos := hp, disj := hd, stripped := hs
    inLo := fun iv hiv => h1.2 _ (List.mem_map_of_mem hiv)
    inHi := fun iv hiv => h2.2 _ (List.mem_map_of_mem hiv)
    span := by simp only; omega }

/-! ## point tiers -/

theorem Pt.le_time {a b : Pt Int} (h : Pt.le a b = true) : a.t ≤ b.t := by
  unfold Pt.le at h
  split at h
  · omega
  · split at h
    · simp at h
    · omega

theorem mkPTier_of_wf (name : String) (ps : List (Pt Int)) (lo hi : Int)
    (hsrt : ps.Pairwise (fun a b => Pt.le a b = true)) (hs : ∀ p ∈ ps, pyStrip p.l = p.l) :
    mkPTier name ps (some lo) (some hi) =
      .ok ⟨name, ps, hullMin (ps.map (·.t) ++ [lo]) hi, hullMax (ps.map (·.t) ++ [lo]) hi⟩ := by
  unfold mkPTier
  have h1 : ps.map (fun p => { p with l := pyStrip p.l }) = ps := by
    clear hsrt
    induction ps with
    | nil => rfl
    | cons x xs ih =>
      have hx := hs x (by simp)
      simp only [List.map_cons]
      rw [ih (fun i hi => hs i (List.mem_cons_of_mem _ hi))]
      congr 1
      obtain ⟨t, l⟩ := x
      simp_all
  have h2 : sortPts ps = ps := List.mergeSort_of_pairwise hsrt
  simp only [h1, h2, Option.toList_some, pyMinList_append_single, pyMaxList_append_single]

theorem mkPTier_wf (name : String) (ps : List (Pt Int)) (lo hi : Int)
    (hsrt : ps.Pairwise (fun a b => Pt.le a b = true)) (hs : ∀ p ∈ ps, pyStrip p.l = p.l)
    (hlo : ∀ p ∈ ps, lo ≤ p.t) (hhi : ∀ p ∈ ps, p.t ≤ hi) (hlh : lo ≤ hi) :
    ∃ t, mkPTier name ps (some lo) (some hi) = .ok t ∧ t.WF ∧ t.ps = ps ∧ t.name = name ∧
      t.lo = lo ∧ t.hi = hi := by
  have e1 : hullMin (ps.map (·.t) ++ [lo]) hi = lo := by
    have h := foldl_min_le (ps.map (·.t) ++ [lo]) hi
    have := h.2 lo (by simp)
    unfold hullMin
    rcases foldl_min_mem (ps.map (·.t) ++ [lo]) hi with h' | h'
    · omega
    · simp only [List.mem_append, List.mem_map, List.mem_singleton] at h'
      rcases h' with ⟨p, hp, hpe⟩ | h'
      · have := hlo p hp; omega
      · exact h'
  have e2 : hullMax (ps.map (·.t) ++ [lo]) hi = hi :=
    hullMax_eq_of_ge _ _ (by
      intro x hx
      simp only [List.mem_append, List.mem_map, List.mem_singleton] at hx
      rcases hx with ⟨p, hp, rfl⟩ | rfl
      · exact hhi p hp
      · exact hlh)
  refine ⟨_, mkPTier_of_wf name ps lo hi hsrt hs, ?_, rfl, rfl, e1, e2⟩
  exact { sorted := hsrt, stripped := hs
          inLo := by simp only [e1]; exact hlo
          inHi := by simp only [e2]; exact hhi
          span := by simp only [e1, e2]; exact hlh }
