import PraatModel.Lemmas.Delete
import PraatModel.Props.C06

/-! # eraseRegion without shrinking: from the code-shaped model to a membership characterisation -/

/-- positive-length overlap with the open region (a, b) -/
def ov (a b : Int) (iv : Iv Int) : Bool := decide (iv.s < b ∧ a < iv.e)

theorem getIvs_lax_eq_filter (a b : Int) (hab : a < b) (es : List (Iv Int)) (hp : Pos es) :
    getIvs a b .lax es = es.filter (ov a b) := by
  induction es with
  | nil => rfl
  | cons x xs ih =>
    have hx := hp x (by simp)
    simp only [getIvs, List.filterMap_cons, List.filter_cons] at ih ⊢
    rw [C06.cropOne_lax a b x hx hab, ih (pos_tail hp)]
    by_cases h : x.s < b ∧ a < x.e
    · simp [ov, h]
    · simp [ov, h]

theorem new_of_wf (t : ITier Int) (h : t.WF) : t.new = .ok t := by
  unfold ITier.new
  simp only [Option.getD_none]
  rw [mkITier_of_wf t.name t.es t.lo t.hi h.span h.pos h.disj h.stripped]
  rw [hullMin_eq_of_le _ _ (by intro x hx; obtain ⟨iv, hiv, rfl⟩ := List.mem_map.1 hx; exact h.inLo iv hiv)]
  rw [hullMax_eq_of_ge _ _ (by intro x hx; obtain ⟨iv, hiv, rfl⟩ := List.mem_map.1 hx; exact h.inHi iv hiv)]

theorem head_straddle (a b : Int) (es : List (Iv Int)) (hd : Disj es) (hp : Pos es)
    (iv : Iv Int) (hm : iv ∈ es) (ho : ov a b iv = true) (hs : iv.s < a) :
    (es.filter (ov a b)).head? = some iv := by
  induction es with
  | nil => simp at hm
  | cons x xs ih =>
    obtain ⟨h1, h2⟩ := hd.cons
    rcases List.mem_cons.1 hm with rfl | hm'
    · simp [List.filter_cons, ho]
    · have hx : ov a b x = false := by
        have := h1 iv hm'
        have := hp x (by simp)
        simp [ov]; omega
      simp only [List.filter_cons, hx]
      exact ih h2 (pos_tail hp) hm'

theorem last_straddle (a b : Int) (es : List (Iv Int)) (hd : Disj es) (hp : Pos es)
    (iv : Iv Int) (hm : iv ∈ es) (ho : ov a b iv = true) (hs : b < iv.e) :
    (es.filter (ov a b)).getLast? = some iv := by
  induction es with
  | nil => simp at hm
  | cons x xs ih =>
    obtain ⟨h1, h2⟩ := hd.cons
    have hp' : Pos xs := pos_tail hp
    rcases List.mem_cons.1 hm with rfl | hm'
    · have hxs : xs.filter (ov a b) = [] := by
        apply List.filter_eq_nil_iff.2
        intro y hy
        have := h1 y hy
        simp [ov]; omega
      simp [List.filter_cons, ho, hxs]
    · have := ih h2 hp' hm'
      by_cases hx : ov a b x = true
      · simp only [List.filter_cons, hx, if_true]
        cases h : xs.filter (ov a b) with
        | nil => rw [h] at this; simp at this
        | cons y ys => rw [h] at this; rw [List.getLast?_cons_cons]; exact this
      · simp only [List.filter_cons, hx]; simpa using this

/-- `insertEntry` of an interval that overlaps nothing: appended, re-sorted, span grown -/
theorem insertEntry_free (u : ITier Int) (x : Iv Int) (m : InsMode) (hx : x.s < x.e)
    (hstr : pyStrip x.l = x.l) (hp : Pos u.es)
    (hfree : ∀ iv ∈ u.es, iv.e ≤ x.s ∨ x.e ≤ iv.s) :
    u.insertEntry x m = .ok (growSpan u (sortIvs (u.es ++ [x]))) := by
  have hx' : ({ x with l := pyStrip x.l } : Iv Int) = x := by
    obtain ⟨s, e, l⟩ := x; simp_all
  have hnone : getIvs x.s x.e .lax u.es = [] := by
    rw [getIvs_lax_eq_filter x.s x.e hx u.es hp]
    apply List.filter_eq_nil_iff.2
    intro iv hiv
    have := hfree iv hiv
    simp [ov]; omega
  unfold ITier.insertEntry
  simp only [hx']
  have hcrop : u.crop x.s x.e .lax false = .ok ⟨u.name, [], x.s, x.e⟩ := by
    have := C06.crop_empty_ok u x.s x.e hx .lax false hnone
    simpa using this
  rw [hcrop]
  simp [bind, Except.bind, pure, Except.pure]

theorem mem_sort_append {es : List (Iv Int)} {x y : Iv Int} :
    y ∈ sortIvs (es ++ [x]) ↔ y ∈ es ∨ y = x := by
  rw [mem_sortIvs]; simp

/-- span bookkeeping of `growSpan` when every entry already lies inside the span -/
theorem growSpan_inside (u : ITier Int) (es : List (Iv Int)) (hd : Disj es) (hp : Pos es)
    (hlo : ∀ iv ∈ es, u.lo ≤ iv.s) (hhi : ∀ iv ∈ es, iv.e ≤ u.hi) :
    growSpan u es = { u with es := es } := by
  unfold growSpan
  cases hh : es.head? with
  | none =>
    cases hl : es.getLast? with
    | none => rfl
    | some g =>
      have := hhi g (List.mem_of_getLast? hl)
      simp only [show ¬ u.hi < g.e by omega, if_false]
  | some f =>
    have := hlo f (List.mem_of_head? hh)
    cases hl : es.getLast? with
    | none => simp only [show ¬ f.s < u.lo by omega, if_false]
    | some g =>
      have := hhi g (List.mem_of_getLast? hl)
      simp only [show ¬ u.hi < g.e by omega, show ¬ f.s < u.lo by omega, if_false]

/-! ## the no-shrink characterisation -/

/-- what remains of one interval after erasing the region `[a, b]` -/
def pieces (a b : Int) (mode : EraseMode) (iv : Iv Int) : List (Iv Int) :=
  if ov a b iv then
    (if mode = .truncate then
      (if iv.s < a then [⟨iv.s, a, iv.l⟩] else []) ++ (if b < iv.e then [⟨b, iv.e, iv.l⟩] else [])
    else [])
  else [iv]

/-- `t'` is `t` with the region erased (no shrinking): well-formed, same name and span, and its entries are
exactly the pieces of `t`'s entries -/
structure IsErased (a b : Int) (mode : EraseMode) (t t' : ITier Int) : Prop where
  wf : t'.WF
  name : t'.name = t.name
  lo : t'.lo = t.lo
  hi : t'.hi = t.hi
  mem : ∀ x, x ∈ t'.es ↔ ∃ iv ∈ t.es, x ∈ pieces a b mode iv

theorem pieces_within (a b : Int) (hab : a < b) (mode : EraseMode) (iv x : Iv Int) (hiv : iv.s < iv.e)
    (hx : x ∈ pieces a b mode iv) : iv.s ≤ x.s ∧ x.e ≤ iv.e ∧ x.s < x.e ∧ x.l = iv.l ∧ (x.e ≤ a ∨ b ≤ x.s) := by
  obtain ⟨s, e, l⟩ := iv
  unfold pieces ov at hx
  simp only at hiv hx
  by_cases h : s < b ∧ a < e
  · simp only [h, and_self, decide_true, if_true] at hx
    by_cases hm : mode = .truncate
    · simp only [hm, if_true, List.mem_append] at hx
      rcases hx with hx | hx
      · split at hx
        · simp only [List.mem_singleton] at hx; subst hx
          exact ⟨by simp only; omega, by simp only; omega, by simp only; omega, rfl, by simp only; omega⟩
        · simp at hx
      · split at hx
        · simp only [List.mem_singleton] at hx; subst hx
          exact ⟨by simp only; omega, by simp only; omega, by simp only; omega, rfl, by simp only; omega⟩
        · simp at hx
    · simp [hm] at hx
  · simp only [h, decide_false, Bool.false_eq_true, if_false, List.mem_singleton] at hx
    subst hx
    exact ⟨by simp only; omega, by simp only; omega, by simp only; omega, rfl, by simp only; omega⟩

/-- the members described by `pieces` over a well-formed list are positive, pairwise disjoint and stripped -/
theorem pieces_set_wf (a b : Int) (hab : a < b) (mode : EraseMode) (es : List (Iv Int))
    (hp : Pos es) (hd : Disj es) (hs : Stripped es) (l : List (Iv Int)) (hnd : l.Nodup)
    (hl : ∀ x, x ∈ l → ∃ iv ∈ es, x ∈ pieces a b mode iv) :
    Pos l ∧ SetDisj l ∧ Stripped l := by
  have hnodup : es.Nodup := nodup_of_wf es hp hd.setDisj
  refine ⟨?_, ?_, ?_⟩
  · intro x hx
    obtain ⟨iv, hiv, hxp⟩ := hl x hx
    exact (pieces_within a b hab mode iv x (hp iv hiv) hxp).2.2.1
  · unfold SetDisj
    refine (List.pairwise_iff_forall_sublist.2 ?_)
    intro x y hxy
    have hx : x ∈ l := hxy.subset (by simp)
    have hy : y ∈ l := hxy.subset (by simp)
    have hne : x ≠ y := by
      intro h; subst h
      have := hnd.sublist hxy
      simp at this
    obtain ⟨iv, hiv, hxp⟩ := hl x hx
    obtain ⟨jv, hjv, hyp⟩ := hl y hy
    have h1 := pieces_within a b hab mode iv x (hp iv hiv) hxp
    have h2 := pieces_within a b hab mode jv y (hp jv hjv) hyp
    by_cases hij : iv = jv
    · subst hij
      -- two different pieces of the same interval: one ends at a, the other starts at b
      obtain ⟨s, e, l'⟩ := iv
      unfold pieces ov at hxp hyp
      simp only at hxp hyp
      by_cases h : s < b ∧ a < e
      · simp only [h, and_self, decide_true, if_true] at hxp hyp
        by_cases hm : mode = .truncate
        · simp only [hm, if_true, List.mem_append] at hxp hyp
          rcases hxp with hxp | hxp <;> rcases hyp with hyp | hyp <;>
            (split at hxp <;> split at hyp <;> simp only [List.mem_singleton, List.not_mem_nil] at hxp hyp) <;>
            first
              | (subst hxp; subst hyp; exact absurd rfl hne)
              | (subst hxp; subst hyp; simp only; omega)
              | exact absurd hxp id
              | exact absurd hyp id
        · simp [hm] at hxp
      · simp only [h, decide_false, Bool.false_eq_true, if_false, List.mem_singleton] at hxp hyp
        subst hxp; subst hyp; exact absurd rfl hne
    · -- pieces of different intervals inherit their disjointness
      have hdis : iv.e ≤ jv.s ∨ jv.e ≤ iv.s := by
        have := hd.setDisj
        rcases List.pairwise_iff_forall_sublist.1 this with hpw
        -- use membership-based disjointness
        have key : ∀ (l : List (Iv Int)), SetDisj l → ∀ p ∈ l, ∀ q ∈ l, p ≠ q → p.e ≤ q.s ∨ q.e ≤ p.s := by
          intro l hl
          induction l with
          | nil => intro p hp'; simp at hp'
          | cons z zs ih =>
            have hz := List.pairwise_cons.1 hl
            intro p hp' q hq' hpq
            rcases List.mem_cons.1 hp' with rfl | hp''
            · rcases List.mem_cons.1 hq' with rfl | hq''
              · exact absurd rfl hpq
              · exact hz.1 q hq''
            · rcases List.mem_cons.1 hq' with rfl | hq''
              · exact (hz.1 p hp'').symm
              · exact ih hz.2 p hp'' q hq'' hpq
        exact key es this iv hiv jv hjv hij
      omega
  · intro x hx
    obtain ⟨iv, hiv, hxp⟩ := hl x hx
    rw [(pieces_within a b hab mode iv x (hp iv hiv) hxp).2.2.2.1]
    exact hs iv hiv

/-- one re-insertion step of `eraseRegion`: the remnant collides with nothing, so it is simply added -/
theorem insert_step (u : ITier Int) (x : Iv Int) (hx : x.s < x.e) (hstr : pyStrip x.l = x.l)
    (hp : Pos u.es) (hd : SetDisj u.es)
    (hfree : ∀ iv ∈ u.es, iv.e ≤ x.s ∨ x.e ≤ iv.s)
    (hlo : ∀ iv ∈ u.es, u.lo ≤ iv.s) (hhi : ∀ iv ∈ u.es, iv.e ≤ u.hi) (hxlo : u.lo ≤ x.s) (hxhi : x.e ≤ u.hi) :
    ∃ u', u.insertEntry x .error = .ok u' ∧ u'.name = u.name ∧ u'.lo = u.lo ∧ u'.hi = u.hi ∧
      (∀ y, y ∈ u'.es ↔ y ∈ u.es ∨ y = x) ∧ Disj u'.es ∧ Pos u'.es := by
  have hpos : Pos (u.es ++ [x]) := by
    intro y hy
    rcases List.mem_append.1 hy with h | h
    · exact hp y h
    · simp only [List.mem_singleton] at h; subst h; exact hx
  have hsd : SetDisj (u.es ++ [x]) := by
    unfold SetDisj
    rw [List.pairwise_append]
    refine ⟨hd, by simp, ?_⟩
    intro p hpm q hq
    simp only [List.mem_singleton] at hq; subst hq
    exact hfree p hpm
  have hdisj := disj_sortIvs (u.es ++ [x]) hpos hsd
  have hpos' : Pos (sortIvs (u.es ++ [x])) := pos_perm hpos (sortIvs_perm _).symm
  have hmem : ∀ y, y ∈ sortIvs (u.es ++ [x]) ↔ y ∈ u.es ∨ y = x := fun y => mem_sort_append
  refine ⟨growSpan u (sortIvs (u.es ++ [x])), insertEntry_free u x .error hx hstr hp hfree, ?_⟩
  rw [growSpan_inside u _ hdisj hpos'
    (by intro iv hiv; rcases (hmem iv).1 hiv with h | h; exact hlo iv h; subst h; exact hxlo)
    (by intro iv hiv; rcases (hmem iv).1 hiv with h | h; exact hhi iv h; subst h; exact hxhi)]
  exact ⟨rfl, rfl, rfl, hmem, hdisj, hpos'⟩

theorem setDisj_mem {l : List (Iv Int)} (hl : SetDisj l) :
    ∀ p ∈ l, ∀ q ∈ l, p ≠ q → p.e ≤ q.s ∨ q.e ≤ p.s := by
  induction l with
  | nil => intro p hp'; simp at hp'
  | cons z zs ih =>
    have hz := List.pairwise_cons.1 hl
    intro p hp' q hq' hpq
    rcases List.mem_cons.1 hp' with rfl | hp''
    · rcases List.mem_cons.1 hq' with rfl | hq''
      · exact absurd rfl hpq
      · exact hz.1 q hq''
    · rcases List.mem_cons.1 hq' with rfl | hq''
      · exact (hz.1 p hp'').symm
      · exact ih hz.2 p hp'' q hq'' hpq

theorem SetDisj.of_subset_nodup {l l' : List (Iv Int)} (h : SetDisj l) (hs : ∀ x ∈ l', x ∈ l) (hnd : l'.Nodup) :
    SetDisj l' := by
  unfold SetDisj
  refine List.pairwise_iff_forall_sublist.2 ?_
  intro x y hxy
  have hx : x ∈ l' := hxy.subset (by simp)
  have hy : y ∈ l' := hxy.subset (by simp)
  have hne : x ≠ y := by
    intro h; subst h
    have := hnd.sublist hxy
    simp at this
  exact setDisj_mem h x (hs x hx) y (hs y hy) hne
