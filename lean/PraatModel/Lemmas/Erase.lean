import PraatModel.Lemmas.Delete
import PraatModel.Props.C06

/-! # eraseRegion without shrinking: from the code-shaped model to a membership characterisation -/

/-- positive-length overlap with the open region (a, b) -/
def ov (a b : Int) (iv : Iv Int) : Bool := decide (iv.s < b ∧ a < iv.e)

theorem getIvs_lax_eq_filter (a b : Int) (hab : a < b) (es : List (Iv Int)) (hp : Pos es) :
    getIvs a b .lax es = es.filter (ov a b) := by
  induction es with
  | nil => rfl
  | cons x xs ih =>
    have hx := hp x (by simp)
    simp only [getIvs, List.filterMap_cons, List.filter_cons] at ih ⊢
    rw [C06.cropOne_lax a b x hx hab, ih (pos_tail hp)]
    by_cases h : x.s < b ∧ a < x.e
    · simp [ov, h]
    · simp [ov, h]

theorem new_of_wf (t : ITier Int) (h : t.WF) : t.new = .ok t := by
  unfold ITier.new
  simp only [Option.getD_none]
  rw [mkITier_of_wf t.name t.es t.lo t.hi h.pos h.disj h.stripped]
  rw [hullMin_eq_of_le _ _ (by intro x hx; obtain ⟨iv, hiv, rfl⟩ := List.mem_map.1 hx; exact h.inLo iv hiv)]
  rw [hullMax_eq_of_ge _ _ (by intro x hx; obtain ⟨iv, hiv, rfl⟩ := List.mem_map.1 hx; exact h.inHi iv hiv)]

theorem head_straddle (a b : Int) (es : List (Iv Int)) (hd : Disj es) (hp : Pos es)
    (iv : Iv Int) (hm : iv ∈ es) (ho : ov a b iv = true) (hs : iv.s < a) :
    (es.filter (ov a b)).head? = some iv := by
  induction es with
  | nil => simp at hm
  | cons x xs ih =>
    obtain ⟨h1, h2⟩ := hd.cons
    rcases List.mem_cons.1 hm with rfl | hm'
    · simp [List.filter_cons, ho]
    · have hx : ov a b x = false := by
        have := h1 iv hm'
        have := hp x (by simp)
        simp [ov]; omega
      simp only [List.filter_cons, hx]
      exact ih h2 (pos_tail hp) hm'

theorem last_straddle (a b : Int) (es : List (Iv Int)) (hd : Disj es) (hp : Pos es)
    (iv : Iv Int) (hm : iv ∈ es) (ho : ov a b iv = true) (hs : b < iv.e) :
    (es.filter (ov a b)).getLast? = some iv := by
  induction es with
  | nil => simp at hm
  | cons x xs ih =>
    obtain ⟨h1, h2⟩ := hd.cons
    have hp' : Pos xs := pos_tail hp
    rcases List.mem_cons.1 hm with rfl | hm'
    · have hxs : xs.filter (ov a b) = [] := by
        apply List.filter_eq_nil_iff.2
        intro y hy
        have := h1 y hy
        simp [ov]; omega
      simp [List.filter_cons, ho, hxs]
    · have := ih h2 hp' hm'
      by_cases hx : ov a b x = true
      · simp only [List.filter_cons, hx, if_true]
        cases h : xs.filter (ov a b) with
        | nil => rw [h] at this; simp at this
        | cons y ys => rw [h] at this; rw [List.getLast?_cons_cons]; exact this
      · simp only [List.filter_cons, hx]; simpa using this

/-- `insertEntry` of an interval that overlaps nothing: appended, re-sorted, span grown -/
theorem insertEntry_free (u : ITier Int) (x : Iv Int) (m : InsMode) (hx : x.s < x.e)
    (hstr : pyStrip x.l = x.l) (hp : Pos u.es)
    (hfree : ∀ iv ∈ u.es, iv.e ≤ x.s ∨ x.e ≤ iv.s) :
    u.insertEntry x m = .ok (growSpan u (sortIvs (u.es ++ [x]))) := by
  have hx' : ({ x with l := pyStrip x.l } : Iv Int) = x := by
    obtain ⟨s, e, l⟩ := x; simp_all
  have hnone : getIvs x.s x.e .lax u.es = [] := by
    rw [getIvs_lax_eq_filter x.s x.e hx u.es hp]
    apply List.filter_eq_nil_iff.2
    intro iv hiv
    have := hfree iv hiv
    simp [ov]; omega
  unfold ITier.insertEntry
  simp only [hx']
  have hcrop : u.crop x.s x.e .lax false = .ok ⟨u.name, [], x.s, x.e⟩ := by
    have := C06.crop_empty_ok u x.s x.e hx .lax false hnone
    simpa using this
  rw [hcrop]
  simp [bind, Except.bind, pure, Except.pure]

theorem mem_sort_append {es : List (Iv Int)} {x y : Iv Int} :
    y ∈ sortIvs (es ++ [x]) ↔ y ∈ es ∨ y = x := by
  rw [mem_sortIvs]; simp

/-- span bookkeeping of `growSpan` when every entry already lies inside the span -/
theorem growSpan_inside (u : ITier Int) (es : List (Iv Int)) (hd : Disj es) (hp : Pos es)
    (hlo : ∀ iv ∈ es, u.lo ≤ iv.s) (hhi : ∀ iv ∈ es, iv.e ≤ u.hi) :
    growSpan u es = { u with es := es } := by
  unfold growSpan
  cases hh : es.head? with
  | none =>
    cases hl : es.getLast? with
    | none => rfl
    | some g =>
      have := hhi g (List.mem_of_getLast? hl)
      simp only [show ¬ u.hi < g.e by omega, if_false]
  | some f =>
    have := hlo f (List.mem_of_head? hh)
    cases hl : es.getLast? with
    | none => simp only [show ¬ f.s < u.lo by omega, if_false]
    | some g =>
      have := hhi g (List.mem_of_getLast? hl)
      simp only [show ¬ u.hi < g.e by omega, show ¬ f.s < u.lo by omega, if_false]
