import PraatModel.Klatt
import PraatModel.Lemmas.Strip
import PraatModel.Lemmas.KlattStr

/-! # keyword hits and slices in a text made of lines / segments (used by `Props/C19.lean`, clause (b)) -/

namespace Klatt

/-! ## `isPrefixOf`, `findAllAt` -/

theorem isPrefixOf_mem {kw l : Txt} (h : kw.isPrefixOf l = true) : ∀ x ∈ kw, x ∈ l := by
  induction kw generalizing l with
  | nil => intro x hx; cases hx
  | cons k kw ih =>
    cases l with
    | nil => simp [List.isPrefixOf] at h
    | cons y ys =>
      simp only [List.isPrefixOf, Bool.and_eq_true, beq_iff_eq] at h
      intro x hx
      rcases List.mem_cons.1 hx with rfl | hx
      · simp [h.1]
      · exact List.mem_cons_of_mem _ (ih h.2 x hx)

/-- a separator character that is not in `kw` cuts every match -/
theorem isPrefixOf_append_sep (kw a b : Txt) (c : Char) (hc : c ∉ kw) :
    kw.isPrefixOf (a ++ c :: b) = kw.isPrefixOf a := by
  induction kw generalizing a with
  | nil => simp [List.isPrefixOf]
  | cons k kw ih =>
    have hk : k ≠ c := by intro e; apply hc; simp [e]
    have hkw : c ∉ kw := by intro e; apply hc; simp [e]
    cases a with
    | nil => simp [List.isPrefixOf, hk]
    | cons y ys => simp [List.isPrefixOf, ih ys hkw]

theorem findAllAt_none (kw s : Txt) (i : Nat) (x : Char) (hx : x ∈ kw) (hs : x ∉ s) : findAllAt kw s i = [] := by
  have hne : kw.isEmpty = false := by cases kw with | nil => cases hx | cons _ _ => rfl
  induction s generalizing i with
  | nil => simp [findAllAt, hne]
  | cons y ys ih =>
    have hys : x ∉ ys := by intro e; apply hs; simp [e]
    have : kw.isPrefixOf (y :: ys) = false := by
      cases h : kw.isPrefixOf (y :: ys) with
      | false => rfl
      | true => exact absurd (isPrefixOf_mem h x hx) hs
    simp [findAllAt, this, ih _ hys]

theorem findAllAt_append_sep (kw a b : Txt) (c : Char) (i : Nat) (hne : kw ≠ []) (hc : c ∉ kw) :
    findAllAt kw (a ++ c :: b) i = findAllAt kw a i ++ findAllAt kw b (i + a.length + 1) := by
  have hemp : kw.isEmpty = false := by cases kw with | nil => exact absurd rfl hne | cons _ _ => rfl
  induction a generalizing i with
  | nil =>
    have : kw.isPrefixOf (c :: b) = false := by
      have := isPrefixOf_append_sep kw [] b c hc
      simp only [List.nil_append] at this
      rw [this]; cases kw with
      | nil => exact absurd rfl hne
      | cons _ _ => rfl
    simp [findAllAt, this, hemp]
  | cons y ys ih =>
    have h1 : kw.isPrefixOf (y :: ys ++ c :: b) = kw.isPrefixOf (y :: ys) := isPrefixOf_append_sep kw (y :: ys) b c hc
    simp only [List.cons_append] at h1
    simp only [List.cons_append, findAllAt, h1, ih (i + 1), List.length_cons]
    have e : i + 1 + ys.length + 1 = i + (ys.length + 1) + 1 := by omega
    split <;> simp [e]

theorem findAllAt_range (kw a : Txt) (i : Nat) : ∀ h ∈ findAllAt kw a i, i ≤ h ∧ h ≤ i + a.length := by
  induction a generalizing i with
  | nil => intro h hh; simp only [findAllAt] at hh; split at hh <;> simp at hh; omega
  | cons y ys ih =>
    intro h hh
    simp only [findAllAt] at hh
    split at hh
    · rcases List.mem_cons.1 hh with rfl | hh
      · simp
      · have := ih (i + 1) h hh; simp only [List.length_cons]; omega
    · have := ih (i + 1) h hh; simp only [List.length_cons]; omega

theorem findAllAt_length (kw a : Txt) (i j : Nat) : (findAllAt kw a i).length = (findAllAt kw a j).length := by
  induction a generalizing i j with
  | nil => simp only [findAllAt]; split <;> rfl
  | cons y ys ih =>
    simp only [findAllAt]
    split
    · simp [ih (i + 1) (j + 1)]
    · exact ih _ _

/-- a suffix that starts with a character outside `kw` and lacks some character of `kw` adds no match -/
theorem findAllAt_append_suffix (kw a s : Txt) (c x : Char) (i : Nat) (hc : c ∉ kw) (hx : x ∈ kw) (hs : x ∉ c :: s) :
    findAllAt kw (a ++ c :: s) i = findAllAt kw a i := by
  have hne : kw ≠ [] := by intro e; subst e; cases hx
  rw [findAllAt_append_sep kw a s c i hne hc]
  have hs' : x ∉ s := by intro e; apply hs; simp [e]
  rw [findAllAt_none kw s _ x hx hs']; simp

/-! ## `rfind` -/

theorem rfindCharAux_stop (c : Char) (s : Txt) (i hi : Nat) (best : Int) (h : hi ≤ i) : rfindCharAux c s i hi best = best := by
  cases s with
  | nil => rfl
  | cons x xs => simp [rfindCharAux, h]

theorem rfindCharAux_append (c : Char) (a b : Txt) (i hi : Nat) (best : Int) :
    rfindCharAux c (a ++ b) i hi best = rfindCharAux c b (i + a.length) hi (rfindCharAux c a i hi best) := by
  induction a generalizing i best with
  | nil => simp [rfindCharAux]
  | cons x xs ih =>
    simp only [List.cons_append, rfindCharAux, List.length_cons]
    by_cases h : hi ≤ i
    · simp only [h, if_true]
      rw [rfindCharAux_stop c b _ hi best (by omega)]
    · simp only [h, if_false]
      rw [ih]; congr 1; omega

theorem rfindCharAux_no (c : Char) (a : Txt) (i hi : Nat) (best : Int) (h : c ∉ a) : rfindCharAux c a i hi best = best := by
  induction a generalizing i with
  | nil => rfl
  | cons x xs ih =>
    have hx : x ≠ c := by intro e; apply h; simp [e]
    have hxs : c ∉ xs := by intro e; apply h; simp [e]
    simp only [rfindCharAux, hx, if_false]
    split
    · rfl
    · exact ih _ hxs

/-- in `P ++ l ++ S`, with `P` empty or ending in `c` and `l` free of `c`: `rfind(c, 0, |P| + k)` for `k ≤ |l|` is `|P| - 1` -/
theorem pyRfindChar_line (c : Char) (P l S : Txt) (k : Nat) (hk : k ≤ l.length) (hl : c ∉ l)
    (hP : P = [] ∨ ∃ P', P = P' ++ [c]) :
    pyRfindChar c (P ++ (l ++ S)) (P.length + k) = (P.length : Int) - 1 := by
  unfold pyRfindChar
  have hsplit : l = l.take k ++ l.drop k := (List.take_append_drop k l).symm
  rw [rfindCharAux_append]
  have htake : c ∉ l.take k := fun e => hl (List.mem_of_mem_take e)
  rw [hsplit, List.append_assoc, rfindCharAux_append, rfindCharAux_no c (l.take k) _ _ _ htake]
  rw [rfindCharAux_stop c _ _ _ _ (by simp [List.length_take]; omega)]
  rcases hP with rfl | ⟨P', rfl⟩
  · simp [rfindCharAux]
  · rw [rfindCharAux_append]
    simp only [Nat.zero_add, List.length_append, List.length_cons, List.length_nil]
    have : ¬ (P'.length + (0 + 1) + k ≤ P'.length) := by omega
    simp [rfindCharAux, this]

/-! ## hits per line -/

/-- what `_findIndicies` reports for a text made of lines: one entry `o` (index of the newline before the
line; -1 for the first line) per occurrence of the keyword in that line -/
def lineHits (kw : Txt) : List Txt → Int → List Int
  | [], _ => []
  | l :: ls, o => (findAll kw l).map (fun _ => o) ++ lineHits kw ls (o + l.length + 1)

theorem map_const_of_length {α β} (l1 l2 : List α) (b : β) (h : l1.length = l2.length) :
    l1.map (fun _ => b) = l2.map (fun _ => b) := by
  induction l1 generalizing l2 with
  | nil => cases l2 with | nil => rfl | cons _ _ => simp at h
  | cons x xs ih => cases l2 with
    | nil => simp at h
    | cons y ys => simp only [List.map_cons]; rw [ih ys (by simpa using h)]

theorem map_rfind_line (kw l S P : Txt) (hl : '\n' ∉ l) (hP : P = [] ∨ ∃ P', P = P' ++ ['\n']) :
    (findAllAt kw l P.length).map (pyRfindChar '\n' (P ++ (l ++ S))) = (findAll kw l).map (fun _ => (P.length : Int) - 1) := by
  have hr := findAllAt_range kw l P.length
  have : (findAllAt kw l P.length).map (pyRfindChar '\n' (P ++ (l ++ S)))
       = (findAllAt kw l P.length).map (fun _ => (P.length : Int) - 1) := by
    apply List.map_congr_left
    intro h hh
    obtain ⟨h1, h2⟩ := hr h hh
    have : h = P.length + (h - P.length) := by omega
    rw [this]
    exact pyRfindChar_line '\n' P l S _ (by omega) hl hP
  rw [this]
  exact map_const_of_length _ _ _ (findAllAt_length kw l _ _)

theorem findIndices_lines_aux (kw : Txt) (hne : kw ≠ []) (hkw : '\n' ∉ kw) (ls : List Txt) (hls : ∀ l ∈ ls, '\n' ∉ l)
    (hnil : ls ≠ []) : ∀ (P : Txt), (P = [] ∨ ∃ P', P = P' ++ ['\n']) →
    (findAllAt kw (join ['\n'] ls) P.length).map (pyRfindChar '\n' (P ++ join ['\n'] ls))
      = lineHits kw ls ((P.length : Int) - 1) := by
  induction ls with
  | nil => exact absurd rfl hnil
  | cons l rest ih =>
    intro P hP
    cases rest with
    | nil =>
      simp only [join, lineHits, List.append_nil]
      have := map_rfind_line kw l [] P (hls l (by simp)) hP
      simpa using this
    | cons l2 rest2 =>
      rw [join_cons_cons]
      have e1 : l ++ ['\n'] ++ join ['\n'] (l2 :: rest2) = l ++ '\n' :: join ['\n'] (l2 :: rest2) := by simp
      rw [e1, findAllAt_append_sep kw l _ '\n' _ hne hkw, List.map_append]
      simp only [lineHits]
      congr 1
      · exact map_rfind_line kw l _ P (hls l (by simp)) hP
      · have e2 : P ++ (l ++ '\n' :: join ['\n'] (l2 :: rest2)) = (P ++ l ++ ['\n']) ++ join ['\n'] (l2 :: rest2) := by simp
        have e3 : P.length + l.length + 1 = (P ++ l ++ ['\n']).length := by simp; omega
        rw [e2, e3, ih (fun x hx => hls x (by simp [hx])) (by simp) (P ++ l ++ ['\n']) (Or.inr ⟨P ++ l, rfl⟩)]
        have : ((P ++ l ++ ['\n']).length : Int) - 1 = (P.length : Int) - 1 + l.length + 1 := by
          simp only [List.length_append, List.length_cons, List.length_nil]; omega
        rw [this]; simp only [lineHits]

/-- `_findIndicies` on a text made of newline-free lines -/
theorem findIndices_lines (kw : Txt) (hne : kw ≠ []) (hkw : '\n' ∉ kw) (ls : List Txt) (hls : ∀ l ∈ ls, '\n' ∉ l) :
    findIndices (join ['\n'] ls) kw = lineHits kw ls (-1) := by
  cases ls with
  | nil =>
    have : kw.isEmpty = false := by cases kw with | nil => exact absurd rfl hne | cons _ _ => rfl
    simp [findIndices, findAll, findAllAt, join, lineHits, this]
  | cons l rest =>
    have := findIndices_lines_aux kw hne hkw (l :: rest) hls (by simp) [] (Or.inl rfl)
    simpa [findIndices, findAll] using this

end Klatt
