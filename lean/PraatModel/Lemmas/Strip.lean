import PraatModel.Py

/-! # `str.strip()` is idempotent (so constructor-normalised labels stay normalised) -/

theorem stripL_head (cs : List Char) : ∀ c rest, stripL cs = c :: rest → pyIsSpace c = false := by
  induction cs with
  | nil => intro c rest h; simp [stripL] at h
  | cons x xs ih =>
    intro c rest h
    by_cases hx : pyIsSpace x
    · simp only [stripL, hx, if_true] at h; exact ih c rest h
    · simp only [stripL, hx, Bool.false_eq_true, if_false, List.cons.injEq] at h
      rw [← h.1]; simpa using hx

theorem stripL_of_head (c : Char) (rest : List Char) (h : pyIsSpace c = false) : stripL (c :: rest) = c :: rest := by
  simp [stripL, h]

theorem stripL_getLast? (cs : List Char) (h : stripL cs ≠ []) : (stripL cs).getLast? = cs.getLast? := by
  induction cs with
  | nil => simp [stripL] at h
  | cons x xs ih =>
    by_cases hx : pyIsSpace x
    · simp only [stripL, hx, if_true] at h ⊢
      rw [ih h]
      cases xs with
      | nil => simp [stripL] at h
      | cons y ys => rw [List.getLast?_cons_cons]
    · simp [stripL, hx]

theorem stripList_idem (cs : List Char) : stripList (stripList cs) = stripList cs := by
  unfold stripList
  generalize hA : stripL cs = A
  generalize hB : stripL A.reverse = B
  have hBB : stripL B = B := by rw [← hB]; exact stripL_idem _
  have hR : stripL B.reverse = B.reverse := by
    cases hr : B.reverse with
    | nil => rfl
    | cons c rest =>
      apply stripL_of_head
      -- c is the last element of B, which is the last element of A.reverse, i.e. the head of A
      have hBne : B ≠ [] := by intro h; rw [h] at hr; simp at hr
      have h1 : B.getLast? = some c := by
        have := List.head?_reverse (l := B); rw [hr] at this; simpa using this.symm
      have h2 : B.getLast? = A.reverse.getLast? := by rw [← hB]; exact stripL_getLast? _ (by rw [hB]; exact hBne)
      have h3 : A.reverse.getLast? = A.head? := by simp
      rw [h2, h3] at h1
      cases hA' : A with
      | nil => rw [hA'] at h1; simp at h1
      | cons a as =>
        rw [hA'] at h1; simp only [List.head?_cons, Option.some.injEq] at h1
        rw [← h1]
        exact stripL_head cs a as (by rw [hA, hA'])
  rw [hR, List.reverse_reverse, hBB]

theorem pyStrip_idem (s : String) : pyStrip (pyStrip s) = pyStrip s := by
  unfold pyStrip
  rw [String.toList_ofList, stripList_idem]

/-! ## joining stripped labels with a non-blank separator gives a stripped label -/

theorem stripL_length_le (cs : List Char) : (stripL cs).length ≤ cs.length := by
  induction cs with
  | nil => simp [stripL]
  | cons x xs ih =>
    by_cases hx : pyIsSpace x
    · simp only [stripL, hx, if_true, List.length_cons]; omega
    · simp [stripL, hx]

def NoEdgeSpace (cs : List Char) : Prop :=
  (∀ c rest, cs = c :: rest → pyIsSpace c = false) ∧ (∀ c, cs.getLast? = some c → pyIsSpace c = false)

theorem stripList_of_noEdge (cs : List Char) (h : NoEdgeSpace cs) : stripList cs = cs := by
  unfold stripList
  cases cs with
  | nil => rfl
  | cons c rest =>
    rw [stripL_of_head c rest (h.1 c rest rfl)]
    cases hr : (c :: rest).reverse with
    | nil => simp at hr
    | cons d ds =>
      have : (c :: rest).getLast? = some d := by
        have := List.head?_reverse (l := c :: rest); rw [hr] at this; simpa using this.symm
      rw [stripL_of_head d ds (h.2 d this), ← hr, List.reverse_reverse]

theorem noEdge_of_stripList (cs : List Char) (h : stripList cs = cs) : NoEdgeSpace cs := by
  unfold stripList at h
  have hlen : (stripL (stripL cs).reverse).length = cs.length := by
    have := congrArg List.length h; simpa using this
  have h1 := stripL_length_le cs
  have h2 := stripL_length_le (stripL cs).reverse
  simp only [List.length_reverse] at h2
  constructor
  · intro c rest hc
    by_cases hx : pyIsSpace c
    · exfalso
      have : (stripL cs).length ≤ rest.length := by
        subst hc; simp only [stripL, hx, if_true]; exact stripL_length_le rest
      subst hc; simp only [List.length_cons] at hlen; omega
    · simpa using hx
  · intro c hc
    by_cases hx : pyIsSpace c
    · exfalso
      -- the head is not a space (else the length drops), so stripL cs = cs, and the reversed list starts with c
      have hA : stripL cs = cs := by
        cases cs with
        | nil => rfl
        | cons a as =>
          by_cases ha : pyIsSpace a
          · exfalso
            have : (stripL (a :: as)).length ≤ as.length := by
              simp only [stripL, ha, if_true]; exact stripL_length_le as
            simp only [List.length_cons] at hlen; omega
          · simp [stripL, ha]
      rw [hA] at hlen h2
      cases hr : cs.reverse with
      | nil => have : cs = [] := by simpa using hr
               subst this; simp at hc
      | cons d ds =>
        have hd : cs.getLast? = some d := by
          have := List.head?_reverse (l := cs); rw [hr] at this; simpa using this.symm
        rw [hc] at hd; cases hd
        rw [hr] at hlen
        have : (stripL (c :: ds)).length ≤ ds.length := by
          simp only [stripL, hx, if_true]; exact stripL_length_le ds
        have hl : cs.length = ds.length + 1 := by
          have := congrArg List.length hr; simpa using this
        omega
    · simpa using hx

theorem pyStrip_eq_iff (s : String) : pyStrip s = s ↔ NoEdgeSpace s.toList := by
  unfold pyStrip
  constructor
  · intro h
    apply noEdge_of_stripList
    have := congrArg String.toList h
    rwa [String.toList_ofList] at this
  · intro h
    rw [stripList_of_noEdge _ h, String.ofList_toList]

theorem noEdge_append_sep (xs zs : List Char) (sep : Char) (hsep : pyIsSpace sep = false)
    (hx : NoEdgeSpace xs) (hz : NoEdgeSpace zs) : NoEdgeSpace (xs ++ sep :: zs) := by
  constructor
  · intro c rest h
    cases xs with
    | nil => simp only [List.nil_append, List.cons.injEq] at h; rw [← h.1]; exact hsep
    | cons a as =>
      simp only [List.cons_append, List.cons.injEq] at h
      rw [← h.1]; exact hx.1 a as rfl
  · intro c h
    cases hzl : zs.getLast? with
    | none =>
      have : zs = [] := by cases zs with
        | nil => rfl
        | cons a as => simp at hzl
      subst this
      simp only [List.getLast?_append, List.getLast?_singleton, Option.some_or, Option.some.injEq] at h
      rw [← h]; exact hsep
    | some d =>
      have hne : zs ≠ [] := by intro e; subst e; simp at hzl
      have : (xs ++ sep :: zs).getLast? = zs.getLast? := by
        rw [List.getLast?_append]
        have : (sep :: zs).getLast? = zs.getLast? := by
          cases zs with
          | nil => exact absurd rfl hne
          | cons a as => rw [List.getLast?_cons_cons]
        rw [this, hzl]; rfl
      rw [this, hzl] at h; cases h
      exact hz.2 c hzl

theorem dash_not_space : pyIsSpace '-' = false := by decide

/-- `a ++ "-" ++ b` is stripped when `a` and `b` are -/
theorem pyStrip_join2 (a b : String) (ha : pyStrip a = a) (hb : pyStrip b = b) :
    pyStrip (a ++ "-" ++ b) = a ++ "-" ++ b := by
  rw [pyStrip_eq_iff] at ha hb ⊢
  have : (a ++ "-" ++ b).toList = a.toList ++ '-' :: b.toList := by
    simp [String.toList_append]
  rw [this]
  exact noEdge_append_sep _ _ '-' dash_not_space ha hb

/-- the `-`-join of stripped labels is stripped -/
theorem pyStrip_pyJoin (ls : List String) (h : ∀ l ∈ ls, pyStrip l = l) : pyStrip (pyJoin "-" ls) = pyJoin "-" ls := by
  induction ls with
  | nil => simp only [pyJoin]; rw [pyStrip_eq_iff]; exact ⟨by intro c rest h; simp at h, by intro c h; simp at h⟩
  | cons x xs ih =>
    cases xs with
    | nil => simp only [pyJoin]; exact h x (by simp)
    | cons y ys =>
      simp only [pyJoin]
      exact pyStrip_join2 x _ (h x (by simp)) (ih (fun l hl => h l (List.mem_cons_of_mem _ hl)))
