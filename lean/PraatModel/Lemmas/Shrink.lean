import PraatModel.Lemmas.EraseMain

/-! # the shrink step of eraseRegion: shift, re-join, label function -/

/-- every entry lies wholly before `a` or wholly after `b` -/
def Clear (a b : Int) (es : List (Iv Int)) : Prop := ∀ iv ∈ es, iv.e ≤ a ∨ b ≤ iv.s

def shOne (a b : Int) (iv : Iv Int) : Iv Int :=
  if iv.e ≤ a then iv else ⟨shiftBack a b iv.s, shiftBack a b iv.e, iv.l⟩

theorem shrinkIvs_eq_map (a b : Int) (es : List (Iv Int)) (hc : Clear a b es) :
    shrinkIvs a b es = es.map (shOne a b) := by
  induction es with
  | nil => rfl
  | cons x xs ih =>
    have hx := hc x (by simp)
    have ih' := ih (fun iv hiv => hc iv (List.mem_cons_of_mem _ hiv))
    simp only [shrinkIvs, List.filterMap_cons, List.map_cons] at ih' ⊢
    by_cases h1 : x.e ≤ a
    · simp only [h1, if_true, shOne]; rw [ih']
    · have h2 : b ≤ x.s := by omega
      simp only [h1, h2, if_false, if_true, shOne]; rw [ih']

theorem shOne_props (a b : Int) (hab : a < b) (iv : Iv Int) (hiv : iv.s < iv.e) (hc : iv.e ≤ a ∨ b ≤ iv.s) :
    (shOne a b iv).s < (shOne a b iv).e ∧ (shOne a b iv).l = iv.l ∧
    (iv.e ≤ a → shOne a b iv = iv) ∧
    (b ≤ iv.s → (shOne a b iv).s = iv.s - (b - a) ∧ (shOne a b iv).e = iv.e - (b - a)) := by
  unfold shOne shiftBack
  by_cases h : iv.e ≤ a
  · rw [if_pos h]; refine ⟨hiv, rfl, fun _ => rfl, fun h' => by omega⟩
  · rw [if_neg h]; refine ⟨by simp only; omega, rfl, fun h' => absurd h' h, fun _ => ⟨by simp only; omega, by simp only; omega⟩⟩

theorem map_shOne_wf (a b : Int) (hab : a < b) (es : List (Iv Int)) (hp : Pos es) (hd : Disj es)
    (hs : Stripped es) (hc : Clear a b es) :
    Pos (es.map (shOne a b)) ∧ Disj (es.map (shOne a b)) ∧ Stripped (es.map (shOne a b)) := by
  refine ⟨?_, ?_, ?_⟩
  · intro y hy
    obtain ⟨iv, hiv, rfl⟩ := List.mem_map.1 hy
    exact (shOne_props a b hab iv (hp iv hiv) (hc iv hiv)).1
  · unfold Disj at *
    rw [List.pairwise_map]
    refine hd.imp_of_mem ?_
    intro x y hx hy hxy
    have px := shOne_props a b hab x (hp x hx) (hc x hx)
    have py := shOne_props a b hab y (hp y hy) (hc y hy)
    have := hp x hx
    have := hp y hy
    rcases hc x hx with h1 | h1 <;> rcases hc y hy with h2 | h2
    · rw [px.2.2.1 h1, py.2.2.1 h2]; exact hxy
    · rw [px.2.2.1 h1, (py.2.2.2 h2).1]; omega
    · omega
    · rw [(px.2.2.2 h1).2, (py.2.2.2 h2).1]; omega
  · intro y hy
    obtain ⟨iv, hiv, rfl⟩ := List.mem_map.1 hy
    rw [(shOne_props a b hab iv (hp iv hiv) (hc iv hiv)).2.1]; exact hs iv hiv

/-- the label function after shifting: times before `a` see the old tier, later times see it `b - a` later -/
theorem labelAt_map_shOne (a b : Int) (hab : a < b) (es : List (Iv Int)) (hp : Pos es) (hd : Disj es)
    (hs : Stripped es) (hc : Clear a b es) (x : Int) :
    labelAt (es.map (shOne a b)) x = if x < a then labelAt es x else labelAt es (x + (b - a)) := by
  have hw := map_shOne_wf a b hab es hp hd hs hc
  apply Option.ext
  intro l
  rw [labelAt_some_iff _ hw.1 hw.2.1.setDisj]
  by_cases hx : x < a
  · simp only [hx, if_true]
    rw [labelAt_some_iff es hp hd.setDisj]
    constructor
    · rintro ⟨y, hy, h1, h2, h3⟩
      obtain ⟨iv, hiv, rfl⟩ := List.mem_map.1 hy
      have p := shOne_props a b hab iv (hp iv hiv) (hc iv hiv)
      rcases hc iv hiv with h | h
      · rw [p.2.2.1 h] at h1 h2 h3; exact ⟨iv, hiv, h1, h2, h3⟩
      · have := (p.2.2.2 h).1; omega
    · rintro ⟨iv, hiv, h1, h2, h3⟩
      have p := shOne_props a b hab iv (hp iv hiv) (hc iv hiv)
      rcases hc iv hiv with h | h
      · exact ⟨shOne a b iv, List.mem_map_of_mem hiv, by rw [p.2.2.1 h]; exact ⟨h1, h2, h3⟩⟩
      · omega
  · simp only [hx, if_false]
    rw [labelAt_some_iff es hp hd.setDisj]
    constructor
    · rintro ⟨y, hy, h1, h2, h3⟩
      obtain ⟨iv, hiv, rfl⟩ := List.mem_map.1 hy
      have p := shOne_props a b hab iv (hp iv hiv) (hc iv hiv)
      rcases hc iv hiv with h | h
      · rw [p.2.2.1 h] at h2; omega
      · have := p.2.2.2 h
        refine ⟨iv, hiv, by omega, by omega, by rw [← p.2.1]; exact h3⟩
    · rintro ⟨iv, hiv, h1, h2, h3⟩
      have p := shOne_props a b hab iv (hp iv hiv) (hc iv hiv)
      rcases hc iv hiv with h | h
      · omega
      · have := p.2.2.2 h
        exact ⟨shOne a b iv, List.mem_map_of_mem hiv, by omega, by omega, by rw [p.2.1]; exact h3⟩

/-! ## rejoin -/

theorem rejoin_starts (a : Int) (l : List (Iv Int)) : ∀ z ∈ rejoin a l, ∃ w ∈ l, z.s = w.s ∧ z.l = w.l := by
  induction l using rejoin.induct a with
  | case1 x y rest h =>
    intro z hz
    rw [rejoin, if_pos h] at hz
    rcases List.mem_cons.1 hz with rfl | hz
    · exact ⟨x, by simp, rfl, rfl⟩
    · exact ⟨z, by simp [hz], rfl, rfl⟩
  | case2 x y rest h ih =>
    intro z hz
    rw [rejoin, if_neg h] at hz
    rcases List.mem_cons.1 hz with rfl | hz
    · exact ⟨z, by simp, rfl, rfl⟩
    · obtain ⟨w, hw, h1⟩ := ih z hz
      exact ⟨w, List.mem_cons_of_mem _ hw, h1⟩
  | case3 l h =>
    intro z hz
    have : rejoin a l = l := by
      unfold rejoin
      split
      · rename_i x y rest; exact absurd rfl (h x y rest)
      · rfl
    rw [this] at hz
    exact ⟨z, hz, rfl, rfl⟩

theorem rejoin_wf (a : Int) (l : List (Iv Int)) (hp : Pos l) (hd : Disj l) (hs : Stripped l) :
    Pos (rejoin a l) ∧ Disj (rejoin a l) ∧ Stripped (rejoin a l) ∧
    ∀ x, labelAt (rejoin a l) x = labelAt l x := by
  induction l using rejoin.induct a with
  | case1 x y rest h =>
    rw [rejoin, if_pos h]
    simp only [Bool.and_eq_true, beq_iff_eq] at h
    obtain ⟨⟨hxe, hys⟩, hl⟩ := h
    have hx := hp x (by simp)
    have hy := hp y (by simp)
    obtain ⟨d1, d2⟩ := hd.cons
    obtain ⟨d3, d4⟩ := d2.cons
    refine ⟨?_, ?_, ?_, ?_⟩
    · intro z hz
      rcases List.mem_cons.1 hz with rfl | hz
      · simp only; omega
      · exact hp z (by simp [hz])
    · unfold Disj; rw [List.pairwise_cons]
      exact ⟨fun z hz => d3 z hz, d4⟩
    · intro z hz
      rcases List.mem_cons.1 hz with rfl | hz
      · exact hs x (by simp)
      · exact hs z (by simp [hz])
    · intro p
      simp only [labelAt, List.find?_cons]
      by_cases c1 : x.s ≤ p ∧ p < x.e
      · have e1 : (decide (x.s ≤ p) && decide (p < y.e)) = true := by simp; omega
        have e2 : (decide (x.s ≤ p) && decide (p < x.e)) = true := by simp; omega
        simp [e1, e2]
      · by_cases c2 : y.s ≤ p ∧ p < y.e
        · have e1 : (decide (x.s ≤ p) && decide (p < y.e)) = true := by simp; omega
          have e2 : (decide (x.s ≤ p) && decide (p < x.e)) = false := by
            simp only [Bool.and_eq_false_iff, decide_eq_false_iff_not]; omega
          have e3 : (decide (y.s ≤ p) && decide (p < y.e)) = true := by simp; omega
          simp [e1, e2, e3, hl]
        · have e1 : (decide (x.s ≤ p) && decide (p < y.e)) = false := by
            simp only [Bool.and_eq_false_iff, decide_eq_false_iff_not]; omega
          have e2 : (decide (x.s ≤ p) && decide (p < x.e)) = false := by
            simp only [Bool.and_eq_false_iff, decide_eq_false_iff_not]; omega
          have e3 : (decide (y.s ≤ p) && decide (p < y.e)) = false := by
            simp only [Bool.and_eq_false_iff, decide_eq_false_iff_not]; omega
          simp [e1, e2, e3]
  | case2 x y rest h ih =>
    rw [rejoin, if_neg h]
    obtain ⟨d1, d2⟩ := hd.cons
    obtain ⟨i1, i2, i3, i4⟩ := ih (pos_tail hp) d2 (fun z hz => hs z (List.mem_cons_of_mem _ hz))
    refine ⟨?_, ?_, ?_, ?_⟩
    · intro z hz
      rcases List.mem_cons.1 hz with rfl | hz
      · exact hp z (by simp)
      · exact i1 z hz
    · unfold Disj; rw [List.pairwise_cons]
      refine ⟨?_, i2⟩
      intro z hz
      obtain ⟨w, hw, e, _⟩ := rejoin_starts a _ z hz
      rw [e]; exact d1 w hw
    · intro z hz
      rcases List.mem_cons.1 hz with rfl | hz
      · exact hs z (by simp)
      · exact i3 z hz
    · intro p
      have := i4 p
      simp only [labelAt, List.find?_cons] at this ⊢
      split
      · rfl
      · exact this
  | case3 l h =>
    have : rejoin a l = l := by
      unfold rejoin
      split
      · rename_i x y rest; exact absurd rfl (h x y rest)
      · rfl
    rw [this]
    exact ⟨hp, hd, hs, fun _ => rfl⟩

/-- a pair of entries meeting at `a` with equal labels is fused by `rejoin` -/
theorem rejoin_fuses (a : Int) (l : List (Iv Int)) (hp : Pos l) (hd : Disj l)
    (X Y : Iv Int) (hX : X ∈ l) (hY : Y ∈ l) (hXe : X.e = a) (hYs : Y.s = a) (hl : X.l = Y.l) :
    (⟨X.s, Y.e, X.l⟩ : Iv Int) ∈ rejoin a l := by
  induction l using rejoin.induct a with
  | case1 x y rest h =>
    rw [rejoin, if_pos h]
    simp only [Bool.and_eq_true, beq_iff_eq] at h
    obtain ⟨⟨hxe, hys⟩, hlab⟩ := h
    obtain ⟨d1, d2⟩ := hd.cons
    obtain ⟨d3, d4⟩ := d2.cons
    have hx := hp x (by simp)
    have hy := hp y (by simp)
    -- X must be x and Y must be y
    have hXx : X = x := by
      rcases List.mem_cons.1 hX with h | h
      · exact h
      · have := d1 X h; have := hp X hX; omega
    have hYy : Y = y := by
      rcases List.mem_cons.1 hY with h | h
      · subst h; omega
      · rcases List.mem_cons.1 h with h | h
        · exact h
        · have := d3 Y h; have := hp Y hY; omega
    subst hXx; subst hYy
    simp
  | case2 x y rest h ih =>
    rw [rejoin, if_neg h]
    obtain ⟨d1, d2⟩ := hd.cons
    have hx := hp x (by simp)
    rcases List.mem_cons.1 hX with hXx | hXt
    · -- X = x: then Y = y, contradiction with the failed test
      subst hXx
      have hYy : Y = y := by
        rcases List.mem_cons.1 hY with h' | h'
        · subst h'; omega
        · rcases List.mem_cons.1 h' with h'' | h''
          · exact h''
          · obtain ⟨d3, _⟩ := d2.cons
            have := d3 Y h''; have := d1 y (by simp); have := hp y (by simp); have := hp Y hY; omega
      subst hYy
      exfalso; apply h
      simp [hXe, hYs, hl]
    · have hYt : Y ∈ y :: rest := by
        rcases List.mem_cons.1 hY with h' | h'
        · subst h'; have := d1 X hXt; have := hp X hX; omega
        · exact h'
      exact List.mem_cons_of_mem _ (ih (pos_tail hp) d2 hXt hYt)
  | case3 l h =>
    -- fewer than two elements: X and Y cannot both be members with X.e = Y.s
    match l, h with
    | [], _ => simp at hX
    | [z], _ =>
      simp only [List.mem_singleton] at hX hY
      rw [hX] at hXe; rw [hY] at hYs
      have := hp z (by simp); omega
    | x :: y :: rest, h => exact absurd rfl (h x y rest)
