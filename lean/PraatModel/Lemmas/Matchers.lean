import PraatModel.Read
import PraatModel.Lemmas.Txt

/-!
# Bridge lemmas for the matchers of Read.lean (stand-ins for the regular expressions of `_parseNormalTextgrid`)

Each index-based matcher is restated as a structurally recursive function of the suffix `s.toList.drop i`.
-/

namespace Rd
open Txt

/-! ## single characters, runs, blank tails -/

theorem getElem!_eq_head_drop (s : Txt) (j : Nat) (h : j < s.size) : (s.toList.drop j).head? = some s[j]! := by
  have hlt : j < s.toList.length := by simpa using h
  rw [List.drop_eq_getElem_cons hlt]
  simp [h]

theorem drop_nil_of_ge (s : Txt) (j : Nat) (h : ¬ j < s.size) : s.toList.drop j = [] := by
  apply List.drop_eq_nil_of_le; simp only [Array.length_toList]; omega

/-- `j < s.size && s[j]! == c`  ↔  the suffix at `j` starts with `c` -/
theorem charAt_eq (s : Txt) (j : Nat) (c : Char) :
    (decide (j < s.size) && s[j]! == c) = ((s.toList.drop j).head? == some c) := by
  by_cases h : j < s.size
  · rw [getElem!_eq_head_drop s j h]; simp [h]
  · rw [drop_nil_of_ge s j h]; simp [h]

def runLen (p : Char → Bool) (l : List Char) : Nat := (l.takeWhile p).length

theorem runLen_cons (p : Char → Bool) (c : Char) (cs : List Char) :
    runLen p (c :: cs) = if p c then runLen p cs + 1 else 0 := by
  unfold runLen
  by_cases h : p c <;> simp [h]

theorem runLen_le (p : Char → Bool) (l : List Char) : runLen p l ≤ l.length := by
  unfold runLen
  exact (List.takeWhile_sublist p).length_le

theorem runWhile_go_eq (s : Txt) (p : Char → Bool) (fuel k : Nat) (hf : s.size < fuel + k) :
    runWhile.go s p fuel k = k + runLen p (s.toList.drop k) := by
  induction fuel generalizing k with
  | zero => rw [drop_nil_of_ge s k (by omega)]; simp [runWhile.go, runLen]
  | succ fuel ih =>
    unfold runWhile.go
    by_cases h : k < s.size
    · have hlt : k < s.toList.length := by simpa using h
      rw [List.drop_eq_getElem_cons hlt, runLen_cons]
      have e : s[k]! = s.toList[k] := by simp [h]
      rw [e]
      cases hp : p s.toList[k] with
      | true =>
        simp only [h, decide_true, Bool.and_self, if_true]
        rw [ih (k + 1) (by omega)]; omega
      | false => simp [h]
    · rw [drop_nil_of_ge s k h]; simp [h, runLen]

theorem runWhile_eq (s : Txt) (p : Char → Bool) (k : Nat) : runWhile s p k = k + runLen p (s.toList.drop k) := by
  unfold runWhile
  exact runWhile_go_eq s p (s.size + 1) k (by omega)

/-- `\s*$` (MULTILINE) on a suffix: blanks up to the next newline or the end -/
def blankL : List Char → Bool
  | [] => true
  | c :: cs => if c == '\n' then true else if pyIsSpace c then blankL cs else false

theorem blankTail_go_eq (s : Txt) (fuel k : Nat) (hf : s.size < fuel + k) :
    blankTail.go s fuel k = blankL (s.toList.drop k) := by
  induction fuel generalizing k with
  | zero => rw [drop_nil_of_ge s k (by omega)]; simp [blankTail.go, blankL]
  | succ fuel ih =>
    unfold blankTail.go
    by_cases h : k < s.size
    · have hlt : k < s.toList.length := by simpa using h
      rw [List.drop_eq_getElem_cons hlt]
      have e : s[k]! = s.toList[k] := by simp [h]
      rw [e, if_neg (by omega)]
      simp only [blankL]
      rw [ih (k + 1) (by omega)]
    · rw [drop_nil_of_ge s k h, if_pos (by omega)]; rfl

theorem blankTail_eq (s : Txt) (k : Nat) : blankTail s k = blankL (s.toList.drop k) := by
  unfold blankTail
  exact blankTail_go_eq s (s.size + 1) k (by omega)

/-- `j < s.size && P s[j]!`  ↔  the suffix at `j` starts with a character satisfying `P` -/
theorem charAtP_eq (s : Txt) (j : Nat) (P : Char → Bool) :
    (decide (j < s.size) && P s[j]!) = (s.toList.drop j).head?.any P := by
  by_cases h : j < s.size
  · rw [getElem!_eq_head_drop s j h]; simp [h]
  · rw [drop_nil_of_ge s j h]; simp [h]

/-! ## `kw ?= ?` -/

def spLen (l : List Char) : Nat := if l.head? == some ' ' then 1 else 0

/-- length of ` ?= ?` at the start of `l` -/
def headLen (l : List Char) : Option Nat :=
  if (l.drop (spLen l)).head? == some '=' then some (spLen l + 1 + spLen (l.drop (spLen l + 1))) else none

theorem head_eq (s kw : Txt) (i : Nat) (h : startsAt s kw i = true) :
    head s kw i = (headLen (s.toList.drop (i + kw.size))).map (· + (i + kw.size)) := by
  unfold head
  simp only [h, Bool.not_true, Bool.false_eq_true, if_false]
  generalize i + kw.size = b
  have e1 : (if (decide (b < s.size) && s[b]! == ' ') = true then b + 1 else b) = b + spLen (s.toList.drop b) := by
    rw [charAt_eq]; unfold spLen; split <;> rfl
  rw [e1]
  generalize ha : spLen (s.toList.drop b) = a
  rw [charAt_eq]
  have e2 : (if (decide (b + a + 1 < s.size) && s[b + a + 1]! == ' ') = true then b + a + 1 + 1 else b + a + 1) =
      b + a + 1 + spLen (s.toList.drop (b + a + 1)) := by
    rw [charAt_eq]; unfold spLen; split <;> rfl
  rw [e2]
  unfold headLen
  rw [ha, List.drop_drop, List.drop_drop]
  have : b + (a + 1) = b + a + 1 := by omega
  rw [this]
  split
  · simp only [Option.map_some, Option.some.injEq]; omega
  · rfl

/-! ## the numeral `[\d.]+(?:[eE][-+]?\d+)?\s*$` -/

/-- length of the captured numeral at the start of `l` -/
def numLen (l : List Char) : Option Nat :=
  let n := runLen isDigitDot l
  if n == 0 then none
  else
    let l2 := l.drop n
    let withExp : Option Nat :=
      if l2.head?.any (fun c => c == 'e' || c == 'E') then
        let sn := if (l2.drop 1).head?.any (fun c => c == '-' || c == '+') then 1 else 0
        let d := runLen Char.isDigit (l2.drop (1 + sn))
        if d == 0 then none else some (1 + sn + d)
      else none
    match withExp with
    | some x => if blankL (l2.drop x) then some (n + x) else (if blankL l2 then some n else none)
    | none => if blankL l2 then some n else none

theorem numAt_eq (s : Txt) (j : Nat) :
    numAt s j = (numLen (s.toList.drop j)).map fun n => slice s j (j + n) := by
  unfold numAt numLen
  simp only [runWhile_eq, blankTail_eq]
  generalize hn : runLen isDigitDot (s.toList.drop j) = n
  by_cases hn0 : n = 0
  · subst hn0; simp
  · have e0 : (j + n == j) = false := by simp; omega
    have e0' : (n == 0) = false := by simp [hn0]
    simp only [e0, e0', Bool.false_eq_true, if_false]
    have ec : (decide (j + n < s.size) && (s[j + n]! == 'e' || s[j + n]! == 'E')) =
        (s.toList.drop (j + n)).head?.any (fun c => c == 'e' || c == 'E') :=
      charAtP_eq s (j + n) (fun c => c == 'e' || c == 'E')
    rw [ec]
    simp only [List.drop_drop]
    by_cases he : (s.toList.drop (j + n)).head?.any (fun c => c == 'e' || c == 'E') = true
    · simp only [he, if_true]
      have es : (decide (j + n + 1 < s.size) && (s[j + n + 1]! == '-' || s[j + n + 1]! == '+')) =
          (s.toList.drop (j + n + 1)).head?.any (fun c => c == '-' || c == '+') :=
        charAtP_eq s (j + n + 1) (fun c => c == '-' || c == '+')
      rw [es]
      have em : (if (s.toList.drop (j + n + 1)).head?.any (fun c => c == '-' || c == '+') = true then j + n + 1 + 1 else j + n + 1) =
          j + n + 1 + (if (s.toList.drop (j + n + 1)).head?.any (fun c => c == '-' || c == '+') = true then 1 else 0) := by
        split <;> rfl
      rw [em]
      generalize (if (s.toList.drop (j + n + 1)).head?.any (fun c => c == '-' || c == '+') = true then 1 else 0) = sn
      have e3 : j + n + (1 + sn) = j + n + 1 + sn := by omega
      rw [e3]
      generalize hd : runLen Char.isDigit (s.toList.drop (j + n + 1 + sn)) = d
      by_cases hd0 : d = 0
      · subst hd0; simp
      · have e4 : (j + n + 1 + sn + d == j + n + 1 + sn) = false := by simp; omega
        have e4' : (d == 0) = false := by simp [hd0]
        simp only [e4, e4', Bool.false_eq_true, if_false]
        have e5 : j + n + (1 + sn + d) = j + n + 1 + sn + d := by omega
        rw [e5]
        split
        · simp only [Option.map_some]; congr 2; omega
        · split <;> simp
    · simp only [he, Bool.false_eq_true, if_false]
      split <;> simp

/-- the match attempt after an occurrence of the keyword: ` ?= ?`, then the captured group: an optional `-` (when the pattern
has `-?`; inside the group since fix A30) and the numeral -/
def numAfter (neg : Bool) (l : List Char) : Option (List Char) :=
  match headLen l with
  | none => none
  | some h =>
    let l0 := l.drop h
    let sg := if neg && l0.head? == some '-' then 1 else 0
    (numLen (l0.drop sg)).map fun n => l0.take sg ++ (l0.drop sg).take n

theorem slice_toList' (s : Txt) (a b : Nat) : (slice s a b).toList = (s.toList.drop a).take (b - a) := by
  unfold slice
  rw [Array.toList_extract, List.extract_eq_take_drop]
  by_cases hle : b ≤ s.size
  · congr 1; omega
  · rw [List.take_of_length_le, List.take_of_length_le]
    · simp only [List.length_drop, Array.length_toList]; omega
    · simp only [List.length_drop, Array.length_toList]; omega

theorem matchNumAt_eq (s kw : Txt) (neg : Bool) (i : Nat) (h : startsAt s kw i = true) :
    matchNumAt s kw neg i = (numAfter neg (s.toList.drop (i + kw.size))).map List.toArray := by
  unfold matchNumAt numAfter
  rw [head_eq s kw i h]
  generalize i + kw.size = b
  cases hh : headLen (s.toList.drop b) with
  | none => rfl
  | some a =>
    simp only [Option.map_some, List.drop_drop]
    have e1 : (if (neg && decide (a + b < s.size) && s[a + b]! == '-') = true then 1 else 0) =
        (if (neg && (s.toList.drop (b + a)).head? == some '-') = true then 1 else 0) := by
      rw [Bool.and_assoc, charAt_eq, Nat.add_comm a b]
    rw [e1, numAt_eq]
    generalize (if (neg && (s.toList.drop (b + a)).head? == some '-') = true then 1 else 0) = sg
    rw [Option.map_map, Option.map_map, Nat.add_comm a b]
    cases hn : numLen (s.toList.drop (b + a + sg)) with
    | none => rfl
    | some n =>
      simp only [Option.map_some, Function.comp, Option.some.injEq]
      apply Array.toList_inj.1
      rw [Array.toList_append, slice_toList', slice_toList']
      have e2 : b + a + sg - (b + a) = sg := by omega
      have e3 : b + a + sg + n - (b + a + sg) = n := by omega
      rw [e2, e3]

/-! ## first successful attempt over all occurrences -/

def scanL {β : Type} (kw : List Char) (f : List Char → Option β) : List Char → Option β
  | [] => none
  | c :: cs =>
    if kw.isPrefixOf (c :: cs) then
      (match f ((c :: cs).drop kw.length) with
       | some x => some x
       | none => scanL kw f cs)
    else scanL kw f cs

theorem findSome_occs {β : Type} (kw l : List Char) (k : Nat) (g : Nat → Option β) (f : List Char → Option β)
    (hg : ∀ j, kw.isPrefixOf (l.drop j) = true → j < l.length → g (k + j) = f (l.drop (j + kw.length))) :
    (occs kw k l).findSome? g = scanL kw f l := by
  induction l generalizing k with
  | nil => rfl
  | cons c cs ih =>
    have ih' := ih (k + 1) (by
      intro j hj hlt
      have := hg (j + 1) (by simpa using hj) (by simp only [List.length_cons]; omega)
      have e : k + 1 + j = k + (j + 1) := by omega
      rw [e, this]
      have e2 : j + 1 + kw.length = (j + kw.length) + 1 := by omega
      rw [e2, List.drop_succ_cons])
    simp only [occs, scanL]
    by_cases hp : kw.isPrefixOf (c :: cs) = true
    · rw [if_pos hp, if_pos hp, List.findSome?_cons]
      have := hg 0 (by simpa using hp) (by simp)
      simp only [Nat.add_zero, Nat.zero_add] at this
      rw [this, ih']
      cases f (List.drop kw.length (c :: cs)) <;> rfl
    · rw [if_neg hp, if_neg hp, ih']

theorem matchNum_eq (s kw : Txt) (neg : Bool) (hk : 0 < kw.size) :
    matchNum s kw neg = (scanL kw.toList (numAfter neg) s.toList).map List.toArray := by
  unfold matchNum
  rw [findAll_eq s kw hk]
  rw [findSome_occs kw.toList s.toList 0 (matchNumAt s kw neg) (fun l => (numAfter neg l).map List.toArray)]
  · generalize s.toList = l
    induction l with
    | nil => rfl
    | cons c cs ih =>
      simp only [scanL]
      split
      · cases numAfter neg (List.drop kw.toList.length (c :: cs)) with
        | none => simpa using ih
        | some x => rfl
      · exact ih
  · intro j hj hlt
    simp only [Nat.zero_add]
    rw [matchNumAt_eq s kw neg j (by rw [startsAt_eq s kw j (by simp at hlt; omega)]; exact hj)]
    simp

/-! ## the text `"(.*)"\s*$`: the last quote (before the limit) that is followed by blanks only -/

/-- largest position `< n` of `body` holding a quote -/
def lastQ (body : List Char) : Nat → Option Nat
  | 0 => none
  | n + 1 => if body[n]? == some '"' then some n else lastQ body n

/-- greedy `.*` with backtracking, positions `< n` of `body` (= the text after the opening quote) -/
def backL (body : List Char) : Nat → Option (List Char)
  | 0 => none
  | n + 1 =>
    if body[n]? == some '"' then (if blankL (body.drop (n + 1)) then some (body.take n) else backL body n)
    else backL body n

theorem lastQ_lt (body : List Char) (n p : Nat) (h : lastQ body n = some p) : p < n := by
  induction n with
  | zero => simp [lastQ] at h
  | succ n ih =>
    simp only [lastQ] at h
    split at h
    · cases h; omega
    · have := ih h; omega

theorem backL_lastQ_none (body : List Char) (n : Nat) (h : lastQ body n = none) : backL body n = none := by
  induction n with
  | zero => rfl
  | succ n ih =>
    simp only [lastQ] at h
    split at h
    · cases h
    · rename_i hq
      simp only [backL, hq, Bool.false_eq_true, if_false]
      exact ih h

theorem backL_lastQ_some (body : List Char) (n p : Nat) (h : lastQ body n = some p) :
    backL body n = if blankL (body.drop (p + 1)) then some (body.take p) else backL body p := by
  induction n with
  | zero => simp [lastQ] at h
  | succ n ih =>
    simp only [lastQ] at h
    split at h
    · rename_i hq
      cases h
      simp only [backL, hq, if_true]
    · rename_i hq
      simp only [backL, hq, Bool.false_eq_true, if_false]
      exact ih h

theorem rfindQuote_go_eq (s : Txt) (lo fuel k : Nat) (hk : k ≤ s.size) (hf : k - lo < fuel) :
    rfindQuote.go s lo fuel k = (lastQ (s.toList.drop lo) (k - lo)).map (· + lo) := by
  induction fuel generalizing k with
  | zero => omega
  | succ fuel ih =>
    unfold rfindQuote.go
    by_cases hle : k ≤ lo
    · rw [if_pos hle]
      have : k - lo = 0 := by omega
      rw [this]; rfl
    · rw [if_neg hle]
      obtain ⟨m, hm⟩ : ∃ m, k - lo = m + 1 := ⟨k - lo - 1, by omega⟩
      rw [hm]
      simp only [lastQ]
      have hidx : (s.toList.drop lo)[m]? = some s[k - 1]! := by
        rw [List.getElem?_drop]
        have e : lo + m = k - 1 := by omega
        rw [e]
        have hlt : k - 1 < s.size := by omega
        simp [hlt]
      rw [hidx]
      have hb : (some s[k - 1]! == some '"') = (s[k - 1]! == '"') := by simp
      rw [hb]
      by_cases hq : (s[k - 1]! == '"') = true
      · rw [if_pos hq, if_pos hq]
        simp only [Option.map_some, Option.some.injEq]; omega
      · rw [if_neg hq, if_neg hq, ih (k - 1) (by omega) (by omega)]
        have : k - 1 - lo = m := by omega
        rw [this]

theorem rfindQuote_eq (s : Txt) (lo hi : Nat) (hh : hi ≤ s.size) :
    rfindQuote s lo hi = (lastQ (s.toList.drop lo) (hi - lo)).map (· + lo) := by
  unfold rfindQuote
  have : min hi s.size = hi := by omega
  rw [this]
  exact rfindQuote_go_eq s lo (s.size + 1) hi hh (by omega)

theorem slice_take (s : Txt) (j p : Nat) (h : j + p ≤ s.size) : slice s j (j + p) = ((s.toList.drop j).take p).toArray := by
  apply Array.toList_inj.1
  unfold slice
  rw [Array.toList_extract, List.extract_eq_take_drop]
  congr 1; omega

theorem backQuote_eq (s : Txt) (j fuel hi : Nat) (hh : hi ≤ s.size) (hf : hi - j < fuel) :
    backQuote s j fuel hi = (backL (s.toList.drop j) (hi - j)).map List.toArray := by
  induction fuel generalizing hi with
  | zero => omega
  | succ fuel ih =>
    unfold backQuote
    rw [rfindQuote_eq s j hi hh]
    cases hl : lastQ (s.toList.drop j) (hi - j) with
    | none => simp only [Option.map_none]; rw [backL_lastQ_none _ _ hl]; rfl
    | some p =>
      have hp := lastQ_lt _ _ _ hl
      simp only [Option.map_some]
      rw [backL_lastQ_some _ _ _ hl, blankTail_eq, List.drop_drop]
      have e1 : j + (p + 1) = p + j + 1 := by omega
      rw [e1]
      by_cases hb : blankL (s.toList.drop (p + j + 1)) = true
      · rw [if_pos hb, if_pos hb]
        have e2 : p + j = j + p := by omega
        rw [e2, slice_take s j p (by omega)]
        rfl
      · rw [if_neg hb, if_neg hb, ih (p + j) (by omega) (by omega)]
        have : p + j - j = p := by omega
        rw [this]

/-- the match attempt after an occurrence of the keyword: ` ?= ?"`, then the text up to the last quote (of the line, or
of the whole rest with DOTALL) that is followed by blanks only -/
def textAfter (dotall : Bool) (l : List Char) : Option (List Char) :=
  match headLen l with
  | none => none
  | some h =>
    if (l.drop h).head? == some '"' then
      backL (l.drop (h + 1))
        (if dotall then (l.drop (h + 1)).length
         else (match findL ['\n'] (l.drop (h + 1)) with | some n => n | none => (l.drop (h + 1)).length))
    else none

theorem matchTextAt_eq (s kw : Txt) (dotall : Bool) (i : Nat) (h : startsAt s kw i = true) :
    matchTextAt s kw dotall i = (textAfter dotall (s.toList.drop (i + kw.size))).map List.toArray := by
  unfold matchTextAt textAfter
  rw [head_eq s kw i h]
  generalize i + kw.size = b
  cases hh : headLen (s.toList.drop b) with
  | none => rfl
  | some a =>
    simp only [Option.map_some, List.drop_drop]
    rw [charAt_eq, Nat.add_comm a b]
    by_cases hq : ((s.toList.drop (b + a)).head? == some '"') = true
    · have hlt : b + a < s.size := by
        apply Classical.byContradiction
        intro hn
        rw [drop_nil_of_ge s (b + a) hn] at hq
        simp at hq
      simp only [hq, Bool.not_true, Bool.false_eq_true, if_false, if_true]
      have e0 : b + (a + 1) = b + a + 1 := by omega
      rw [e0]
      have hlen : (s.toList.drop (b + a + 1)).length = s.size - (b + a + 1) := by simp
      cases dotall with
      | true =>
        simp only [if_true]
        rw [backQuote_eq s (b + a + 1) (s.size + 1) s.size (Nat.le_refl _) (by omega), hlen]
      | false =>
        simp only [Bool.false_eq_true, if_false]
        rw [find_eq s _ (by decide) (b + a + 1)]
        have hl : (lit "\n").toList = ['\n'] := rfl
        rw [hl]
        cases hf : findL ['\n'] (s.toList.drop (b + a + 1)) with
        | none =>
          simp only [Option.map_none]
          rw [backQuote_eq s (b + a + 1) (s.size + 1) s.size (Nat.le_refl _) (by omega), hlen]
        | some n =>
          have hn := findL_lt _ _ _ hf
          rw [hlen] at hn
          simp only [Option.map_some]
          rw [backQuote_eq s (b + a + 1) (s.size + 1) (n + (b + a + 1)) (by omega) (by omega)]
          have : n + (b + a + 1) - (b + a + 1) = n := by omega
          rw [this]
    · simp only [hq, Bool.not_false, if_true, Bool.false_eq_true, if_false]
      rfl

theorem matchText_eq (s kw : Txt) (dotall : Bool) (hk : 0 < kw.size) :
    matchText s kw dotall = (scanL kw.toList (textAfter dotall) s.toList).map List.toArray := by
  unfold matchText
  rw [findAll_eq s kw hk]
  rw [findSome_occs kw.toList s.toList 0 (matchTextAt s kw dotall) (fun l => (textAfter dotall l).map List.toArray)]
  · generalize s.toList = l
    induction l with
    | nil => rfl
    | cons c cs ih =>
      simp only [scanL]
      split
      · cases textAfter dotall (List.drop kw.toList.length (c :: cs)) with
        | none => simpa using ih
        | some x => rfl
      · exact ih
  · intro j hj hlt
    simp only [Nat.zero_add]
    rw [matchTextAt_eq s kw dotall j (by rw [startsAt_eq s kw j (by simp at hlt; omega)]; exact hj)]
    simp

/-! ## the name row with the rest of the header (`string[m.end(1):]`) -/

/-- the captured text and the suffix that starts at its closing quote -/
def textAfterR (dotall : Bool) (l : List Char) : Option (List Char × List Char) :=
  match headLen l with
  | none => none
  | some h => (textAfter dotall l).map fun w => (w, l.drop (h + 1 + w.length))

theorem slice_to_size (s : Txt) (i : Nat) : slice s i s.size = (s.toList.drop i).toArray := by
  apply Array.toList_inj.1
  rw [slice_toList', List.toList_toArray]
  apply List.take_of_length_le
  simp

theorem matchTextRestAt_eq (s kw : Txt) (dotall : Bool) (i : Nat) (h : startsAt s kw i = true) :
    matchTextRestAt s kw dotall i =
      (textAfterR dotall (s.toList.drop (i + kw.size))).map fun p => (p.1.toArray, p.2.toArray) := by
  unfold matchTextRestAt textAfterR
  rw [matchTextAt_eq s kw dotall i h, head_eq s kw i h]
  generalize i + kw.size = b
  cases hh : headLen (s.toList.drop b) with
  | none => rfl
  | some a =>
    simp only [Option.map_some]
    cases textAfter dotall (s.toList.drop b) with
    | none => rfl
    | some w =>
      simp only [Option.map_some, List.size_toArray, Option.some.injEq, Prod.mk.injEq, true_and]
      rw [slice_to_size, List.drop_drop]
      congr 2
      omega

theorem matchTextRest_eq (s kw : Txt) (dotall : Bool) (hk : 0 < kw.size) :
    matchTextRest s kw dotall =
      (scanL kw.toList (textAfterR dotall) s.toList).map fun p => (p.1.toArray, p.2.toArray) := by
  unfold matchTextRest
  rw [findAll_eq s kw hk]
  rw [findSome_occs kw.toList s.toList 0 (matchTextRestAt s kw dotall)
    (fun l => (textAfterR dotall l).map fun p => (p.1.toArray, p.2.toArray))]
  · generalize s.toList = l
    induction l with
    | nil => rfl
    | cons c cs ih =>
      simp only [scanL]
      split
      · cases textAfterR dotall (List.drop kw.toList.length (c :: cs)) with
        | none => simpa using ih
        | some x => rfl
      · exact ih
  · intro j hj hlt
    simp only [Nat.zero_add]
    rw [matchTextRestAt_eq s kw dotall j (by rw [startsAt_eq s kw j (by simp at hlt; omega)]; exact hj)]
    simp

/-! ## `re.split(kw ?\[, s)` -/

/-- split at the leftmost non-overlapping occurrences of `a` or `b` (`a` tried first); `sk` = characters of the current
separator still to be skipped, `cur` = the current piece, reversed -/
def splitL (a b : List Char) : Nat → List Char → List Char → List (List Char)
  | _, [], cur => [cur.reverse]
  | sk + 1, _ :: cs, cur => splitL a b sk cs cur
  | 0, c :: cs, cur =>
    if a.isPrefixOf (c :: cs) then cur.reverse :: splitL a b (a.length - 1) cs []
    else if b.isPrefixOf (c :: cs) then cur.reverse :: splitL a b (b.length - 1) cs []
    else splitL a b 0 cs (c :: cur)

theorem splitL_skip (a b : List Char) (sk : Nat) (l cur : List Char) :
    splitL a b sk l cur = splitL a b 0 (l.drop sk) cur := by
  induction sk generalizing l with
  | zero => rfl
  | succ sk ih =>
    cases l with
    | nil => simp [splitL]
    | cons c cs => simp only [splitL, List.drop_succ_cons]; exact ih cs

theorem slice_toList (s : Txt) (i j : Nat) (h : j ≤ s.size) : (slice s i j).toList = (s.toList.drop i).take (j - i) := by
  unfold slice
  rw [Array.toList_extract, List.extract_eq_take_drop]
  congr 1; omega

theorem take_drop_succ (l : List Char) (st i : Nat) (h1 : st ≤ i) (h2 : i < l.length) :
    (l.drop st).take (i + 1 - st) = (l.drop st).take (i - st) ++ [l[i]] := by
  have e : i + 1 - st = (i - st) + 1 := by omega
  rw [e, List.take_add_one, List.getElem?_drop]
  have e2 : st + (i - st) = i := by omega
  rw [e2, List.getElem?_eq_getElem h2]
  rfl

theorem splitKw_go_eq (s a b : Txt) (ha : 0 < a.size) (hb : 0 < b.size) (fuel i st : Nat) (acc : List Txt)
    (hsi : st ≤ i) (hi : i ≤ s.size) (hf : s.size - i < fuel) :
    splitKw.go s a b fuel i st acc =
      acc.reverse ++ (splitL a.toList b.toList 0 (s.toList.drop i) ((s.toList.drop st).take (i - st)).reverse).map List.toArray := by
  induction fuel generalizing i st acc with
  | zero => omega
  | succ fuel ih =>
    unfold splitKw.go
    by_cases hge : i ≥ s.size
    · have hie : i = s.size := by omega
      rw [if_pos hge, drop_nil_of_ge s i (by omega)]
      simp only [splitL, List.reverse_reverse, List.map_cons, List.map_nil, List.reverse_cons]
      rw [← slice_toList s st i hi, hie]
    · rw [if_neg hge]
      have hlt : i < s.toList.length := by simp only [Array.length_toList]; omega
      rw [startsAt_eq s a i hi, startsAt_eq s b i hi, List.drop_eq_getElem_cons hlt]
      simp only [splitL]
      by_cases hpa : a.toList.isPrefixOf (s.toList[i] :: s.toList.drop (i + 1)) = true
      · have hlen : i + a.size ≤ s.size := by
          have := (List.isPrefixOf_iff_prefix.1 hpa).length_le
          rw [← List.drop_eq_getElem_cons hlt] at this
          simp only [List.length_drop, Array.length_toList] at this; omega
        rw [if_pos hpa, if_pos hpa, ih (i + a.size) (i + a.size) _ (Nat.le_refl _) hlen (by omega),
          splitL_skip a.toList b.toList (a.toList.length - 1) (s.toList.drop (i + 1)), List.drop_drop]
        have e : i + 1 + (a.toList.length - 1) = i + a.size := by simp only [Array.length_toList]; omega
        rw [e]
        simp only [Nat.sub_self, List.take_zero, List.reverse_nil, List.reverse_cons, List.reverse_reverse, List.map_cons,
          List.append_assoc, List.cons_append, List.nil_append]
        rw [← slice_toList s st i hi]
      · rw [if_neg hpa, if_neg hpa]
        by_cases hpb : b.toList.isPrefixOf (s.toList[i] :: s.toList.drop (i + 1)) = true
        · have hlen : i + b.size ≤ s.size := by
            have := (List.isPrefixOf_iff_prefix.1 hpb).length_le
            rw [← List.drop_eq_getElem_cons hlt] at this
            simp only [List.length_drop, Array.length_toList] at this; omega
          rw [if_pos hpb, if_pos hpb, ih (i + b.size) (i + b.size) _ (Nat.le_refl _) hlen (by omega),
            splitL_skip a.toList b.toList (b.toList.length - 1) (s.toList.drop (i + 1)), List.drop_drop]
          have e : i + 1 + (b.toList.length - 1) = i + b.size := by simp only [Array.length_toList]; omega
          rw [e]
          simp only [Nat.sub_self, List.take_zero, List.reverse_nil, List.reverse_cons, List.reverse_reverse, List.map_cons,
            List.append_assoc, List.cons_append, List.nil_append]
          rw [← slice_toList s st i hi]
        · rw [if_neg hpb, if_neg hpb, ih (i + 1) st acc (by omega) (by omega) (by omega),
            take_drop_succ s.toList st i hsi hlt]
          simp

/-- `re.split(kw ?\[, s)` at list level -/
theorem splitKw_eq (s kw : Txt) :
    splitKw s kw = (splitL (kw.toList ++ [' ', '[']) (kw.toList ++ ['[']) 0 s.toList []).map List.toArray := by
  unfold splitKw
  simp only []
  rw [splitKw_go_eq s _ _ (by simp [lit, Txt.ofString]) (by simp [lit, Txt.ofString]) (s.size + 1) 0 0 [] (Nat.le_refl _)
    (Nat.zero_le _) (by omega)]
  have e1 : (kw ++ lit " [").toList = kw.toList ++ [' ', '['] := by simp [lit, Txt.ofString]
  have e2 : (kw ++ lit "[").toList = kw.toList ++ ['['] := by simp [lit, Txt.ofString]
  rw [e1, e2]
  simp

/-! ## `in`, and `replace('""', '"')` -/

theorem contains_eq (s pat : Txt) (hp : 0 < pat.size) : Txt.contains s pat = (findL pat.toList s.toList).isSome := by
  unfold Txt.contains
  rw [find_eq s pat hp 0]
  simp

theorem replace_qq_go (s : Txt) (fuel i : Nat) (acc : Txt) (hi : i ≤ s.size) (hf : s.size - i < fuel) :
    (replace.go s (lit "\"\"") (lit "\"") fuel i acc).toList = acc.toList ++ unescapeL (s.toList.drop i) := by
  induction fuel generalizing i acc with
  | zero => omega
  | succ fuel ih =>
    unfold replace.go
    by_cases hge : i ≥ s.size
    · rw [if_pos hge, drop_nil_of_ge s i (by omega)]; simp [unescapeL]
    · rw [if_neg hge, startsAt_eq s _ i hi]
      have hl : (lit "\"\"").toList = [q, q] := rfl
      have hl1 : (lit "\"").toList = [q] := rfl
      have hsz : (lit "\"\"").size = 2 := rfl
      rw [hl]
      have hlt : i < s.toList.length := by simp only [Array.length_toList]; omega
      rw [List.drop_eq_getElem_cons hlt]
      cases hr : s.toList.drop (i + 1) with
      | nil =>
        have hne : ¬ i + 1 < s.size := by
          intro h2
          have : (s.toList.drop (i + 1)).length = s.size - (i + 1) := by simp
          rw [hr] at this; simp at this; omega
        simp only [List.isPrefixOf, Bool.and_false, Bool.false_eq_true, if_false]
        rw [ih (i + 1) _ (by omega) (by omega), hr]
        have : s[i]! = s.toList[i] := by simp [show i < s.size by omega]
        simp [unescapeL, this]
      | cons d ds =>
        have hlt2 : i + 1 < s.toList.length := by
          apply Classical.byContradiction; intro hn
          rw [List.drop_eq_nil_of_le (by omega)] at hr; cases hr
        have hds : s.toList.drop (i + 2) = ds := by
          have := List.drop_eq_getElem_cons hlt2
          rw [hr] at this
          exact (List.cons.inj this).2.symm
        simp only [List.isPrefixOf, Bool.and_true]
        by_cases hqq : (q == s.toList[i] && q == d) = true
        · rw [if_pos hqq]
          simp only [Bool.and_eq_true, beq_iff_eq] at hqq
          have hsz2 : i + 2 ≤ s.size := by simp only [Array.length_toList] at hlt2; omega
          rw [hsz, ih (i + 2) _ hsz2 (by omega), hds]
          simp [unescapeL, ← hqq.1, ← hqq.2, hl1]
        · rw [if_neg hqq]
          rw [ih (i + 1) _ (by omega) (by omega), hr]
          have : s[i]! = s.toList[i] := by simp [show i < s.size by omega]
          have hne : ¬ (s.toList[i] = q ∧ d = q) := by
            intro ⟨h1, h2⟩; apply hqq; simp [h1, h2]
          have hu : unescapeL (s.toList[i] :: d :: ds) = s.toList[i] :: unescapeL (d :: ds) := by
            rw [unescapeL, if_neg hne]
          rw [hu, this]
          simp

/-- `text.replace('""', '"')` is `unescapeL` -/
theorem replace_qq (s : Txt) : (replace s (lit "\"\"") (lit "\"")).toList = unescapeL s.toList := by
  unfold replace
  have hsz : (lit "\"\"").size = 2 := rfl
  rw [if_neg (by omega), replace_qq_go s (s.size + 1) 0 #[] (Nat.zero_le _) (by omega)]
  simp

/-! ## `replace("\r\n", "\n")` -/

/-- `text.replace("\r\n", "\n")` on lists -/
def uncrlfL : List Char → List Char
  | c :: d :: cs => if c = '\r' ∧ d = '\n' then '\n' :: uncrlfL cs else c :: uncrlfL (d :: cs)
  | cs => cs

theorem replace_crlf_go (s : Txt) (fuel i : Nat) (acc : Txt) (hi : i ≤ s.size) (hf : s.size - i < fuel) :
    (replace.go s (lit "\r\n") (lit "\n") fuel i acc).toList = acc.toList ++ uncrlfL (s.toList.drop i) := by
  induction fuel generalizing i acc with
  | zero => omega
  | succ fuel ih =>
    unfold replace.go
    by_cases hge : i ≥ s.size
    · rw [if_pos hge, drop_nil_of_ge s i (by omega)]; simp [uncrlfL]
    · rw [if_neg hge, startsAt_eq s _ i hi]
      have hl : (lit "\r\n").toList = ['\r', '\n'] := rfl
      have hl1 : (lit "\n").toList = ['\n'] := rfl
      have hsz : (lit "\r\n").size = 2 := rfl
      rw [hl]
      have hlt : i < s.toList.length := by simp only [Array.length_toList]; omega
      rw [List.drop_eq_getElem_cons hlt]
      cases hr : s.toList.drop (i + 1) with
      | nil =>
        simp only [List.isPrefixOf, Bool.and_false, Bool.false_eq_true, if_false]
        rw [ih (i + 1) _ (by omega) (by omega), hr]
        have : s[i]! = s.toList[i] := by simp [show i < s.size by omega]
        simp [uncrlfL, this]
      | cons d ds =>
        have hlt2 : i + 1 < s.toList.length := by
          apply Classical.byContradiction; intro hn
          rw [List.drop_eq_nil_of_le (by omega)] at hr; cases hr
        have hds : s.toList.drop (i + 2) = ds := by
          have := List.drop_eq_getElem_cons hlt2
          rw [hr] at this
          exact (List.cons.inj this).2.symm
        simp only [List.isPrefixOf, Bool.and_true]
        by_cases hqq : ('\r' == s.toList[i] && '\n' == d) = true
        · rw [if_pos hqq]
          simp only [Bool.and_eq_true, beq_iff_eq] at hqq
          have hsz2 : i + 2 ≤ s.size := by simp only [Array.length_toList] at hlt2; omega
          rw [hsz, ih (i + 2) _ hsz2 (by omega), hds]
          simp [uncrlfL, ← hqq.1, ← hqq.2, hl1]
        · rw [if_neg hqq]
          rw [ih (i + 1) _ (by omega) (by omega), hr]
          have : s[i]! = s.toList[i] := by simp [show i < s.size by omega]
          have hne : ¬ (s.toList[i] = '\r' ∧ d = '\n') := by
            intro ⟨h1, h2⟩; apply hqq; simp [h1, h2]
          have hu : uncrlfL (s.toList[i] :: d :: ds) = s.toList[i] :: uncrlfL (d :: ds) := by
            rw [uncrlfL, if_neg hne]
          rw [hu, this]
          simp

theorem replace_crlf (s : Txt) : (replace s (lit "\r\n") (lit "\n")).toList = uncrlfL s.toList := by
  unfold replace
  have hsz : (lit "\r\n").size = 2 := rfl
  rw [if_neg (by omega), replace_crlf_go s (s.size + 1) 0 #[] (Nat.zero_le _) (by omega)]
  simp

theorem startsAt_eq' (s pat : Txt) (i : Nat) (hp : 0 < pat.size) :
    startsAt s pat i = pat.toList.isPrefixOf (s.toList.drop i) := by
  by_cases hi : i ≤ s.size
  · exact startsAt_eq s pat i hi
  · rw [drop_nil_of_ge s i (by omega)]
    unfold startsAt
    have : ¬ i + pat.size ≤ s.size := by omega
    simp only [this, decide_false, Bool.false_and]
    cases hl : pat.toList with
    | nil =>
      have h0 : pat.toList.length = 0 := by rw [hl]; rfl
      simp only [Array.length_toList] at h0; omega
    | cons a as => rfl

/-! ## the class test `class ?= ?"IntervalTier"` -/

/-- `"IntervalTier"`, quotes included -/
def iqL : List Char := "\"IntervalTier\"".toList
def classKw : List Char := "class".toList

/-- after an occurrence of `class`: ` ?= ?` and then `"IntervalTier"` -/
def classAfter (l : List Char) : Option Unit :=
  (headLen l).bind fun h => if iqL.isPrefixOf (l.drop h) then some () else none

theorem any_eq_findSome (l : List Nat) (g : Nat → Bool) :
    l.any g = (l.findSome? fun i => if g i then some () else none).isSome := by
  induction l with
  | nil => rfl
  | cons x xs ih =>
    simp only [List.any_cons, List.findSome?_cons, ih]
    cases g x <;> simp

/-- `re.search(r'class ?= ?"IntervalTier"', s)` at list level -/
theorem matchClass_eq (s : Txt) : matchClass s = (scanL classKw classAfter s.toList).isSome := by
  unfold matchClass
  have e1 : (lit "class").toList = classKw := rfl
  rw [any_eq_findSome, findAll_eq s _ (by decide), e1,
    findSome_occs classKw s.toList 0 _ classAfter]
  intro j hj hlt
  simp only [Nat.zero_add]
  have hst : startsAt s (lit "class") j = true := by
    rw [startsAt_eq s _ j (by simp at hlt; omega)]; exact hj
  rw [head_eq s _ j hst]
  have e2 : (lit "class").size = classKw.length := rfl
  rw [e2]
  unfold classAfter
  cases headLen (s.toList.drop (j + classKw.length)) with
  | none => rfl
  | some h =>
    have e3 : (lit "\"IntervalTier\"").toList = iqL := rfl
    have e4 : startsAt s (lit "\"IntervalTier\"") (h + (j + classKw.length)) =
        iqL.isPrefixOf ((s.toList.drop (j + classKw.length)).drop h) := by
      rw [startsAt_eq' _ _ _ (by decide), List.drop_drop, e3, Nat.add_comm h]
    simp only [Option.map_some, e4, Option.bind_some]

/-! ## the long-format reader restated on lists -/

def needL (o : Option (List Char)) : Except Err (List Char) :=
  match o with
  | some x => .ok x
  | none => .error .ParsingError

def needLP (o : Option (List Char × List Char)) : Except Err (List Char × List Char) :=
  match o with
  | some x => .ok x
  | none => .error .ParsingError

def readEntryL (isI : Bool) (el : List Char) : Except Err (List String) := do
  if isI then
    let s1 ← needL (scanL "xmin".toList (numAfter true) el)
    let e1 ← needL (scanL "xmax".toList (numAfter true) el)
    let lb ← needL (scanL "text".toList (textAfter true) el)
    pure [String.ofList s1, String.ofList e1, String.ofList (unescapeL (stripList lb))]
  else
    let t1 ← needL (scanL "number".toList (numAfter true) el)
    let lb ← needL (scanL "mark".toList (textAfter true) el)
    pure [String.ofList t1, String.ofList (unescapeL (stripList lb))]

def readTierL (tt : List Char) : Except Err RawTier := do
  let isI := (scanL classKw classAfter tt).isSome
  let kw := (if isI then "intervals" else "points").toList
  let d := splitL (kw ++ [' ', '[']) (kw ++ ['[']) 0 tt []
  let hdr := d.headD []
  let els := d.drop 1
  let (name, hdr) ← needLP (scanL "name".toList (textAfterR true) hdr)
  let st ← needL (scanL "xmin".toList (numAfter true) hdr)
  let en ← needL (scanL "xmax".toList (numAfter true) hdr)
  let entries ← els.mapM (readEntryL isI)
  pure ({ cls := if isI then "IntervalTier" else "TextTier", name := String.ofList (unescapeL name), xmin := String.ofList st,
          xmax := String.ofList en, entries := entries } : RawTier)

/-- `line.split(sep)` on lists (the loop of `Txt.splitChar`) -/
def splitCharL (sep : Char) : List Char → List Char → List (List Char) → List (List Char)
  | [], cur, acc => (cur.reverse :: acc).reverse
  | c :: cs, cur, acc => if c == sep then splitCharL sep cs [] (cur.reverse :: acc) else splitCharL sep cs (c :: cur) acc

def nthL (l : List (List Char)) (k : Nat) : Except Err (List Char) :=
  match l[k]? with
  | some x => .ok x
  | none => .error .IndexError

def headerFieldL (hl : List (List Char)) (k : Nat) : Except Err (List Char) := do
  let line ← nthL hl k
  let v ← nthL (splitCharL '=' line [] []) 1
  pure (stripList v)

/-- `_parseNormalTextgrid` on lists -/
def parseLongL (l0 : List Char) : Except Err RawTg := do
  let l := uncrlfL l0
  match splitL "item [".toList "item[".toList 0 l [] with
  | [] | [_] => throw .ValueError
  | header :: _ =>
    let rest := l.drop (header.length + (if "item [".toList.isPrefixOf (l.drop header.length) then 6 else 5))
    let hl := splitCharL '\n' header [] []
    let tgMin ← headerFieldL hl 3
    let tgMax ← headerFieldL hl 4
    let tiers ← ((splitL "item [".toList "item[".toList 0 rest []).drop 1).mapM readTierL
    pure ⟨String.ofList tgMin, String.ofList tgMax, tiers⟩

theorem need_map (o : Option (List Char)) : need (o.map List.toArray) = (needL o).map List.toArray := by
  cases o <;> rfl

theorem toStr_toArray' (l : List Char) : toStr l.toArray = String.ofList l := rfl

theorem readEntryLong_eq (isI : Bool) (el : List Char) : readEntryLong isI el.toArray = readEntryL isI el := by
  have e1 : (lit "xmin").toList = "xmin".toList := rfl
  have e2 : (lit "xmax").toList = "xmax".toList := rfl
  have e3 : (lit "text").toList = "text".toList := rfl
  have e4 : (lit "number").toList = "number".toList := rfl
  have e5 : (lit "mark").toList = "mark".toList := rfl
  have hu : ∀ lb : List Char, toStr (replace (strip lb.toArray) (lit "\"\"") (lit "\"")) = String.ofList (unescapeL (stripList lb)) := by
    intro lb; unfold toStr; rw [replace_qq]; rfl
  unfold readEntryLong readEntryL
  cases isI with
  | true =>
    simp only [if_true, matchNum_eq _ _ _ (show 0 < (lit "xmin").size by decide),
      matchNum_eq _ _ _ (show 0 < (lit "xmax").size by decide), matchText_eq _ _ _ (show 0 < (lit "text").size by decide),
      e1, e2, e3, need_map]
    cases needL (scanL "xmin".toList (numAfter true) el) with
    | error e => rfl
    | ok a =>
      cases needL (scanL "xmax".toList (numAfter true) el) with
      | error e => rfl
      | ok b =>
        cases needL (scanL "text".toList (textAfter true) el) with
        | error e => rfl
        | ok c => simp [Except.map, bind, Except.bind, pure, Except.pure, toStr_toArray', hu]
  | false =>
    simp only [Bool.false_eq_true, if_false, matchNum_eq _ _ _ (show 0 < (lit "number").size by decide),
      matchText_eq _ _ _ (show 0 < (lit "mark").size by decide), e4, e5, need_map]
    cases needL (scanL "number".toList (numAfter true) el) with
    | error e => rfl
    | ok a =>
      cases needL (scanL "mark".toList (textAfter true) el) with
      | error e => rfl
      | ok c => simp [Except.map, bind, Except.bind, pure, Except.pure, toStr_toArray', hu]

theorem mapM_map_toArray {β : Type} (f : Txt → Except Err β) (g : List Char → Except Err β)
    (h : ∀ x, f x.toArray = g x) (l : List (List Char)) : (l.map List.toArray).mapM f = l.mapM g := by
  induction l with
  | nil => rfl
  | cons x xs ih => simp only [List.map_cons, List.mapM_cons, h, ih]

theorem readTierLong_eq (tt : List Char) : readTierLong tt.toArray = readTierL tt := by
  have e1 : (lit "xmin").toList = "xmin".toList := rfl
  have e2 : (lit "xmax").toList = "xmax".toList := rfl
  have e3 : (lit "name").toList = "name".toList := rfl
  have hu : ∀ nm : List Char, toStr (replace nm.toArray (lit "\"\"") (lit "\"")) = String.ofList (unescapeL nm) := by
    intro nm; unfold toStr; rw [replace_qq]
  unfold readTierLong readTierL
  simp only [matchClass_eq, splitKw_eq]
  generalize (scanL classKw classAfter tt).isSome = isI
  have hk : (lit (if isI = true then "intervals" else "points")).toList = (if isI = true then "intervals" else "points").toList := rfl
  rw [hk]
  generalize splitL ((if isI = true then "intervals" else "points").toList ++ [' ', '['])
    ((if isI = true then "intervals" else "points").toList ++ ['[']) 0 tt [] = d
  have hh : (d.map List.toArray).headD #[] = (d.headD []).toArray := by cases d <;> rfl
  have hd : (d.map List.toArray).drop 1 = (d.drop 1).map List.toArray := by cases d <;> rfl
  simp only [hh, hd, matchTextRest_eq _ _ _ (show 0 < (lit "name").size by decide), e3, List.toList_toArray,
    mapM_map_toArray _ _ (readEntryLong_eq isI)]
  cases scanL "name".toList (textAfterR true) (d.headD []) with
  | none => rfl
  | some p =>
    obtain ⟨a, r⟩ := p
    simp only [Option.map_some, needP, needLP, bind, Except.bind,
      matchNum_eq _ _ _ (show 0 < (lit "xmin").size by decide), matchNum_eq _ _ _ (show 0 < (lit "xmax").size by decide),
      e1, e2, need_map, List.toList_toArray]
    cases needL (scanL "xmin".toList (numAfter true) r) with
    | error e => rfl
    | ok b =>
      cases needL (scanL "xmax".toList (numAfter true) r) with
      | error e => rfl
      | ok c =>
        simp only [Except.map, bind, Except.bind, hu, toStr_toArray']

theorem slice_drop_end (s : Txt) (i : Nat) : slice s i s.size = (s.toList.drop i).toArray := by
  apply Array.toList_inj.1
  unfold slice
  rw [Array.toList_extract, List.extract_eq_take_drop]
  simp only [Nat.min_self]
  apply List.take_of_length_le
  simp

theorem slice_drop_end' (l : List Char) (i : Nat) : slice l.toArray i l.length = (l.drop i).toArray := by
  have := slice_drop_end l.toArray i
  simpa using this

theorem splitChar_go_eq (sep : Char) (l cur : List Char) (acc : List (List Char)) :
    splitChar.go sep l cur (acc.map List.toArray) = (splitCharL sep l cur acc).map List.toArray := by
  induction l generalizing cur acc with
  | nil => simp [splitChar.go, splitCharL]
  | cons c cs ih =>
    simp only [splitChar.go, splitCharL]
    split
    · have := ih [] (cur.reverse :: acc)
      simpa using this
    · exact ih (c :: cur) acc

theorem splitChar_eq (l : List Char) (sep : Char) :
    splitChar l.toArray sep = (splitCharL sep l [] []).map List.toArray := by
  unfold splitChar
  exact splitChar_go_eq sep l [] []

theorem nth?_map (l : List (List Char)) (k : Nat) : nth? (l.map List.toArray) k = (nthL l k).map List.toArray := by
  unfold nth? nthL
  rw [List.getElem?_map]
  cases l[k]? <;> rfl

theorem headerField_eq (hl : List (List Char)) (k : Nat) :
    headerField (hl.map List.toArray) k = (headerFieldL hl k).map List.toArray := by
  unfold headerField headerFieldL
  rw [nth?_map]
  cases nthL hl k with
  | error e => rfl
  | ok line =>
    simp only [Except.map, bind, Except.bind]
    rw [splitChar_eq, nth?_map]
    cases nthL (splitCharL '=' line [] []) 1 with
    | error e => rfl
    | ok v => rfl

/-- **the long-format reader model, restated on lists** (every step through its bridge lemma) -/
theorem parseLong_eq (s : Txt) : parseLong s = parseLongL s.toList := by
  have hdata : replace s (lit "\r\n") (lit "\n") = (uncrlfL s.toList).toArray := by
    apply Array.toList_inj.1; rw [replace_crlf]
  have e1 : (lit "item").toList ++ [' ', '['] = "item [".toList := by rfl
  have e2 : (lit "item").toList ++ ['['] = "item[".toList := by rfl
  have e3 : (lit "item [").toList = "item [".toList := rfl
  unfold parseLong parseLongL
  simp only [hdata, splitKw_eq, e1, e2]
  generalize uncrlfL s.toList = l
  cases hd : splitL "item [".toList "item[".toList 0 l [] with
  | nil => rfl
  | cons header tl =>
    cases tl with
    | nil => rfl
    | cons y ys =>
      simp only [List.map_cons, List.size_toArray, startsAt_eq' _ _ _ (show 0 < (lit "item [").size by decide), e3,
        splitChar_eq, headerField_eq]
      cases headerFieldL (splitCharL '\n' header [] []) 3 with
      | error e => rfl
      | ok a =>
        cases headerFieldL (splitCharL '\n' header [] []) 4 with
        | error e => rfl
        | ok b =>
          simp only [Except.map, bind, Except.bind]
          have hdrop : ∀ d : List (List Char), (d.map List.toArray).drop 1 = (d.drop 1).map List.toArray := by
            intro d; cases d <;> rfl
          rw [hdrop, mapM_map_toArray _ _ readTierLong_eq, slice_drop_end']
          rfl

end Rd
