import PraatModel.Lemmas.Erase

/-! # eraseRegion (no shrinking): main characterisation -/

theorem mem_pieces_of_not_ov {a b : Int} {mode : EraseMode} {iv x : Iv Int} (h : ov a b iv = false) :
    x ∈ pieces a b mode iv ↔ x = iv := by
  simp [pieces, h]

theorem foldl_erase_nodup (ms l : List (Iv Int)) (hl : l.Nodup) :
    (ms.foldl (fun acc m => acc.erase m) l).Nodup := by
  induction ms generalizing l with
  | nil => exact hl
  | cons m ms ih => simp only [List.foldl_cons]; exact ih _ (hl.erase m)

theorem foldl_erase_disj (ms l : List (Iv Int)) (hl : Disj l) :
    Disj (ms.foldl (fun acc m => acc.erase m) l) := by
  induction ms generalizing l with
  | nil => exact hl
  | cons m ms ih => simp only [List.foldl_cons]; exact ih _ (hl.sublist (List.erase_sublist))

theorem nodup_reverse' {l : List (Iv Int)} (h : l.Nodup) : l.reverse.Nodup := by
  unfold List.Nodup at *
  rw [List.pairwise_reverse]
  exact h.imp Ne.symm

theorem eraseCore_spec (t : ITier Int) (hwf : t.WF) (a b : Int) (hab : a < b)
    (mode : EraseMode) (hm : mode ≠ .error) :
    ∃ t', eraseCore t (t.es.filter (ov a b)) a b mode = .ok t' ∧ IsErased a b mode t t' := by
  have hnd : t.es.Nodup := nodup_of_wf t.es hwf.pos hwf.disj.setDisj
  cases hh : (t.es.filter (ov a b)).head? with
  | none =>
    have hemp : t.es.filter (ov a b) = [] := by
      cases h : t.es.filter (ov a b) with
      | nil => rfl
      | cons y ys => rw [h] at hh; simp at hh
    have hall : ∀ y ∈ t.es, ov a b y = false := by
      intro y hy
      have := List.filter_eq_nil_iff.1 hemp y hy
      simpa using this
    refine ⟨t, by simp [eraseCore, hemp, pure, Except.pure], ⟨hwf, rfl, rfl, rfl, ?_⟩⟩
    intro x
    constructor
    · intro hx; exact ⟨x, hx, (mem_pieces_of_not_ov (hall x hx)).2 rfl⟩
    · rintro ⟨iv, hiv, hx⟩
      rw [(mem_pieces_of_not_ov (hall iv hiv)).1 hx]; exact hiv
  | some f =>
    obtain ⟨g, hg⟩ : ∃ g, (t.es.filter (ov a b)).getLast? = some g := by
      cases h : t.es.filter (ov a b) with
      | nil => rw [h] at hh; simp at hh
      | cons y ys => exact ⟨_, List.getLast?_eq_some_getLast (by simp)⟩
    have hfm := List.mem_filter.1 (List.mem_of_head? hh)
    have hgm := List.mem_filter.1 (List.mem_of_getLast? hg)
    -- deleting the matches
    have hdel : deleteIvs t.es (t.es.filter (ov a b)).reverse =
        .ok ((t.es.filter (ov a b)).reverse.foldl (fun acc m => acc.erase m) t.es) :=
      deleteIvs_of_mem t.es _ hnd
        (fun m hm' => (List.mem_filter.1 (List.mem_reverse.1 hm')).1)
        (nodup_reverse' (hnd.filter _))
    have key : ∀ y, y ∈ (t.es.filter (ov a b)).reverse.foldl (fun acc m => acc.erase m) t.es ↔
        y ∈ t.es ∧ ov a b y = false := by
      intro y
      rw [foldl_erase_mem _ _ _ hnd]
      simp only [List.mem_reverse, List.mem_filter, not_and, Bool.not_eq_true]
      constructor
      · rintro ⟨h1, h2⟩; exact ⟨h1, h2 h1⟩
      · rintro ⟨h1, h2⟩; exact ⟨h1, fun _ => h2⟩
    generalize hes0 : (t.es.filter (ov a b)).reverse.foldl (fun acc m => acc.erase m) t.es = es0 at hdel key
    have hsub0 : ∀ y ∈ es0, y ∈ t.es := fun y hy => ((key y).1 hy).1
    have hnd0 : es0.Nodup := by rw [← hes0]; exact foldl_erase_nodup _ _ hnd
    have hp0 : Pos es0 := fun y hy => hwf.pos y (hsub0 y hy)
    have hd0 : SetDisj es0 := hwf.disj.setDisj.of_subset_nodup hsub0 hnd0
    have hlo0 : ∀ iv ∈ es0, t.lo ≤ iv.s := fun y hy => hwf.inLo y (hsub0 y hy)
    have hhi0 : ∀ iv ∈ es0, iv.e ≤ t.hi := fun y hy => hwf.inHi y (hsub0 y hy)
    have hf_ov : f.s < b ∧ a < f.e := by simpa [ov] using hfm.2
    have hg_ov : g.s < b ∧ a < g.e := by simpa [ov] using hgm.2
    have hfpos := hwf.pos f hfm.1
    have hgpos := hwf.pos g hgm.1
    have hdis := setDisj_mem hwf.disj.setDisj
    -- a generic finishing argument: any tier with the right members is the erased tier
    have finish : ∀ (u : ITier Int), u.name = t.name → u.lo = t.lo → u.hi = t.hi → Disj u.es → Pos u.es →
        (∀ y, y ∈ u.es ↔ ∃ iv ∈ t.es, y ∈ pieces a b mode iv) → IsErased a b mode t u := by
      intro u h1 h2 h3 h4 h5 h6
      have hw : ∀ y ∈ u.es, ∃ iv ∈ t.es, iv.s ≤ y.s ∧ y.e ≤ iv.e ∧ y.l = iv.l := by
        intro y hy
        obtain ⟨iv, hiv, hyp⟩ := (h6 y).1 hy
        have := pieces_within a b hab mode iv y (hwf.pos iv hiv) hyp
        exact ⟨iv, hiv, this.1, this.2.1, this.2.2.2.1⟩
      refine ⟨⟨h5, h4, ?_, ?_, ?_, ?_⟩, h1, h2, h3, h6⟩
      · intro y hy; obtain ⟨iv, hiv, h, _, _⟩ := hw y hy; have := hwf.inLo iv hiv; rw [h2]; omega
      · intro y hy; obtain ⟨iv, hiv, _, h, _⟩ := hw y hy; have := hwf.inHi iv hiv; rw [h3]; omega
      · intro y hy; obtain ⟨iv, hiv, _, _, h⟩ := hw y hy; rw [h]; exact hwf.stripped iv hiv
      · rw [h2, h3]; exact hwf.span
    unfold eraseCore
    simp only [hh, hg, hm, if_false, hdel, bind, Except.bind]
    by_cases hmt : mode = .truncate
    · subst hmt
      simp only [if_true]
      -- membership of the pieces in terms of es0, L, R
      have hmem_pieces : ∀ y, (∃ iv ∈ t.es, y ∈ pieces a b .truncate iv) ↔
          (y ∈ es0 ∨ (f.s < a ∧ y = ⟨f.s, a, f.l⟩) ∨ (b < g.e ∧ y = ⟨b, g.e, g.l⟩)) := by
        intro y
        constructor
        · rintro ⟨iv, hiv, hy⟩
          by_cases ho : ov a b iv = true
          · simp only [pieces, ho, if_true, List.mem_append] at hy
            rcases hy with hy | hy
            · split at hy
              · rename_i hs
                have := head_straddle a b t.es hwf.disj hwf.pos iv hiv ho hs
                rw [hh] at this; cases this
                simp only [List.mem_singleton] at hy
                right; left; exact ⟨hs, hy⟩
              · simp at hy
            · split at hy
              · rename_i hs
                have := last_straddle a b t.es hwf.disj hwf.pos iv hiv ho hs
                rw [hg] at this; cases this
                simp only [List.mem_singleton] at hy
                right; right; exact ⟨hs, hy⟩
              · simp at hy
          · have ho' : ov a b iv = false := by simpa using ho
            rw [mem_pieces_of_not_ov ho'] at hy
            subst hy
            left; exact (key _).2 ⟨hiv, ho'⟩
        · rintro (hy | ⟨hs, rfl⟩ | ⟨hs, rfl⟩)
          · have := (key y).1 hy
            exact ⟨y, this.1, (mem_pieces_of_not_ov this.2).2 rfl⟩
          · exact ⟨f, hfm.1, by simp [pieces, hfm.2, hs]⟩
          · exact ⟨g, hgm.1, by simp [pieces, hgm.2, hs]⟩
      -- free-ness of the two remnants with respect to es0
      have hfreeL : ∀ iv ∈ es0, iv.e ≤ f.s ∨ a ≤ iv.s := by
        intro iv hiv
        have h := (key iv).1 hiv
        have hne : iv ≠ f := by intro e; rw [e] at h; rw [hfm.2] at h; exact absurd h.2 (by simp)
        rcases hdis iv h.1 f hfm.1 hne with h' | h'
        · left; exact h'
        · right; omega
      have hfreeR : ∀ iv ∈ es0, iv.e ≤ b ∨ g.e ≤ iv.s := by
        intro iv hiv
        have h := (key iv).1 hiv
        have hne : iv ≠ g := by intro e; rw [e] at h; rw [hgm.2] at h; exact absurd h.2 (by simp)
        rcases hdis iv h.1 g hgm.1 hne with h' | h'
        · left; omega
        · right; exact h'
      have hflo := hwf.inLo f hfm.1
      have hghi := hwf.inHi g hgm.1
      have hfhi := hwf.inHi f hfm.1
      have hglo := hwf.inLo g hgm.1
      have hspan := hwf.span
      by_cases hL : f.s < a
      · obtain ⟨u1, e1, n1, l1, h1, m1, d1, p1⟩ := insert_step { t with es := es0 } ⟨f.s, a, f.l⟩ hL
          (hwf.stripped f hfm.1) hp0 hd0 hfreeL hlo0 hhi0 hflo (by simp only; omega)
        simp only [hL, if_true, e1]
        by_cases hR : b < g.e
        · obtain ⟨u2, e2, n2, l2, h2, m2, d2, p2⟩ := insert_step u1 ⟨b, g.e, g.l⟩ hR
            (hwf.stripped g hgm.1) p1 d1.setDisj
            (by intro iv hiv
                rcases (m1 iv).1 hiv with h | h
                · exact hfreeR iv h
                · subst h; left; simp only; omega)
            (by intro iv hiv
                rcases (m1 iv).1 hiv with h | h
                · rw [l1]; exact hlo0 iv h
                · subst h; rw [l1]; exact hflo)
            (by intro iv hiv
                rcases (m1 iv).1 hiv with h | h
                · rw [h1]; exact hhi0 iv h
                · subst h; rw [h1]; simp only; omega)
            (by rw [l1]; simp only; omega) (by rw [h1]; exact hghi)
          simp only [hR, if_true, e2]
          refine ⟨u2, rfl, finish u2 (by rw [n2, n1]) (by rw [l2, l1]) (by rw [h2, h1]) d2 p2 ?_⟩
          intro y; rw [hmem_pieces, m2, m1]
          constructor
          · rintro ((h | h) | h)
            · left; exact h
            · right; left; exact ⟨hL, h⟩
            · right; right; exact ⟨hR, h⟩
          · rintro (h | ⟨_, h⟩ | ⟨_, h⟩)
            · left; left; exact h
            · left; right; exact h
            · right; exact h
        · simp only [hR, if_false]
          refine ⟨u1, rfl, finish u1 n1 l1 h1 d1 p1 ?_⟩
          intro y; rw [hmem_pieces, m1]
          constructor
          · rintro (h | h)
            · left; exact h
            · right; left; exact ⟨hL, h⟩
          · rintro (h | ⟨_, h⟩ | ⟨h, _⟩)
            · left; exact h
            · right; exact h
            · exact absurd h hR
      · simp only [hL, if_false]
        by_cases hR : b < g.e
        · obtain ⟨u2, e2, n2, l2, h2, m2, d2, p2⟩ := insert_step { t with es := es0 } ⟨b, g.e, g.l⟩ hR
            (hwf.stripped g hgm.1) hp0 hd0 hfreeR hlo0 hhi0 (by simp only; omega) hghi
          simp only [hR, if_true, pure, Except.pure, e2]
          refine ⟨u2, rfl, finish u2 n2 l2 h2 d2 p2 ?_⟩
          intro y; rw [hmem_pieces, m2]
          constructor
          · rintro (h | h)
            · left; exact h
            · right; right; exact ⟨hR, h⟩
          · rintro (h | ⟨h, _⟩ | ⟨_, h⟩)
            · left; exact h
            · exact absurd h hL
            · right; exact h
        · simp only [hR, if_false, pure, Except.pure]
          have hd0' : Disj es0 := by rw [← hes0]; exact foldl_erase_disj _ _ hwf.disj
          refine ⟨{ t with es := es0 }, rfl, finish _ rfl rfl rfl hd0' hp0 ?_⟩
          intro y; rw [hmem_pieces]
          constructor
          · intro h; left; exact h
          · rintro (h | ⟨h, _⟩ | ⟨h, _⟩)
            · exact h
            · exact absurd h hL
            · exact absurd h hR
    · -- categorical: only the deletions
      simp only [hmt, if_false, pure, Except.pure]
      have hd0' : Disj es0 := by rw [← hes0]; exact foldl_erase_disj _ _ hwf.disj
      refine ⟨{ t with es := es0 }, rfl, finish _ rfl rfl rfl hd0' hp0 ?_⟩
      intro y
      rw [key]
      constructor
      · rintro ⟨h1, h2⟩; exact ⟨y, h1, (mem_pieces_of_not_ov h2).2 rfl⟩
      · rintro ⟨iv, hiv, hy⟩
        by_cases ho : ov a b iv = true
        · simp [pieces, ho, hmt] at hy
        · have ho' : ov a b iv = false := by simpa using ho
          rw [mem_pieces_of_not_ov ho'] at hy; subst hy; exact ⟨hiv, ho'⟩
