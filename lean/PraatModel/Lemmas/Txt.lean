import PraatModel.Str
import PraatModel.Lemmas.Strip

/-!
# Bridge lemmas: the `Txt` (= `Array Char`) primitives of Str.lean, characterised on `List Char`

The parser models are written with indices into an array, as the Python code is.  The proofs about whole files
(Props/C01Full.lean) work on lists of characters: a position `i` in `s` is represented by the suffix
`s.toList.drop i`, and each primitive is restated as a structurally recursive function of that suffix.

* `startsAt s pat i`  =  `pat.toList.isPrefixOf (s.toList.drop i)`
* `find s pat i`      =  `(findL pat.toList (s.toList.drop i)).map (· + i)`
* `findAll s pat`     =  `occs pat.toList 0 s.toList`
* `slice`, `strip`, `replace` (identity when the pattern does not occur), `splitChar` on `joinNl`
-/

namespace Txt

/-- segments, each followed by a newline -/
def joinNl : List (List Char) → List Char
  | [] => []
  | s :: ss => s ++ '\n' :: joinNl ss

theorem joinNl_append (a b : List (List Char)) : joinNl (a ++ b) = joinNl a ++ joinNl b := by
  induction a with
  | nil => rfl
  | cons x xs ih => simp [joinNl, ih]

theorem joinNl_flatMap {β : Type} (l : List β) (f : β → List (List Char)) :
    joinNl (l.flatMap f) = l.flatMap fun x => joinNl (f x) := by
  induction l with
  | nil => rfl
  | cons x xs ih => simp [List.flatMap_cons, joinNl_append, ih]

/-- relative position of the first occurrence of `pat` -/
def findL (pat : List Char) : List Char → Option Nat
  | [] => none
  | c :: cs => if pat.isPrefixOf (c :: cs) then some 0 else (findL pat cs).map (· + 1)

/-- all positions (offset by `k`) at which `pat` occurs -/
def occs (pat : List Char) : Nat → List Char → List Nat
  | _, [] => []
  | k, c :: cs => if pat.isPrefixOf (c :: cs) then k :: occs pat (k + 1) cs else occs pat (k + 1) cs

theorem toList_ofString (s : String) : (ofString s).toList = s.toList := rfl

/-! ## `startsAt` -/

theorem startsAtL (pl sl : List Char) (i : Nat) (hi : i ≤ sl.length) :
    (decide (i + pl.length ≤ sl.length) && (List.range pl.length).all fun k => sl[i + k]! == pl[k]!) =
      pl.isPrefixOf (sl.drop i) := by
  induction pl generalizing i with
  | nil => simp [hi]
  | cons p ps ih =>
    by_cases hlt : i < sl.length
    · rw [List.drop_eq_getElem_cons hlt, List.isPrefixOf_cons_cons, ← ih (i + 1) (by omega)]
      simp only [List.length_cons, List.range_succ_eq_map, List.all_cons, List.all_map]
      have h0 : sl[i + 0]! = sl[i] := by simp [hlt]
      have hdec : decide (i + (ps.length + 1) ≤ sl.length) = decide (i + 1 + ps.length ≤ sl.length) := by
        congr 1; apply propext; omega
      have hf : ((fun k => sl[i + k]! == (p :: ps)[k]!) ∘ Nat.succ) = fun k => sl[i + 1 + k]! == ps[k]! := by
        funext k
        simp only [Function.comp, Nat.succ_eq_add_one]
        have : i + (k + 1) = i + 1 + k := by omega
        rw [this]
        simp
      rw [hdec, hf, h0]
      simp only [List.getElem!_cons_zero]
      rw [BEq.comm (a := sl[i])]
      cases decide (i + 1 + ps.length ≤ sl.length) <;> cases (p == sl[i]) <;> simp
    · have : i = sl.length := by omega
      subst this
      simp
      omega

theorem startsAt_eq (s pat : Txt) (i : Nat) (hi : i ≤ s.size) :
    startsAt s pat i = pat.toList.isPrefixOf (s.toList.drop i) := by
  obtain ⟨sl⟩ := s
  obtain ⟨pl⟩ := pat
  unfold startsAt
  simp only [List.size_toArray, List.getElem!_toArray]
  exact startsAtL pl sl i hi

/-! ## `find` -/

theorem findL_none_of_short (pat l : List Char) (h : l.length < pat.length) : findL pat l = none := by
  induction l with
  | nil => rfl
  | cons c cs ih =>
    have hnp : pat.isPrefixOf (c :: cs) = false := by
      cases hp : pat.isPrefixOf (c :: cs) with
      | false => rfl
      | true =>
        have := (List.isPrefixOf_iff_prefix.1 hp).length_le
        omega
    simp only [findL, hnp, Bool.false_eq_true, if_false]
    rw [ih (by simp only [List.length_cons] at h; omega)]
    rfl

theorem findL_lt (pat l : List Char) (j : Nat) (h : findL pat l = some j) : j < l.length := by
  induction l generalizing j with
  | nil => simp [findL] at h
  | cons c cs ih =>
    simp only [findL] at h
    split at h
    · cases h; simp
    · cases hf : findL pat cs with
      | none => rw [hf] at h; simp at h
      | some j' =>
        rw [hf] at h; simp only [Option.map_some, Option.some.injEq] at h
        have := ih j' hf
        simp only [List.length_cons]; omega

theorem find_go_eq (s pat : Txt) (hp : 0 < pat.size) (fuel i : Nat) (hf : s.size < fuel + i) :
    find.go s pat fuel i = (findL pat.toList (s.toList.drop i)).map (· + i) := by
  induction fuel generalizing i with
  | zero =>
    have : s.toList.drop i = [] := by apply List.drop_eq_nil_of_le; simp only [Array.length_toList]; omega
    rw [this]; rfl
  | succ fuel ih =>
    unfold find.go
    by_cases hgt : i + pat.size > s.size
    · rw [if_pos hgt, findL_none_of_short]
      · rfl
      · simp only [List.length_drop, Array.length_toList]; omega
    · rw [if_neg hgt]
      have hlt : i < s.toList.length := by simp only [Array.length_toList]; omega
      rw [startsAt_eq s pat i (by omega), List.drop_eq_getElem_cons hlt]
      simp only [findL]
      by_cases hpre : pat.toList.isPrefixOf (s.toList[i] :: s.toList.drop (i + 1)) = true
      · rw [if_pos hpre, if_pos hpre]; simp
      · rw [if_neg hpre, if_neg hpre, ih (i + 1) (by omega), Option.map_map]
        congr 1
        funext x
        simp only [Function.comp]; omega

/-- `s.find(pat, i)` on the suffix at `i` -/
theorem find_eq (s pat : Txt) (hp : 0 < pat.size) (i : Nat) :
    find s pat i = (findL pat.toList (s.toList.drop i)).map (· + i) := by
  unfold find
  exact find_go_eq s pat hp (s.size + 1) i (by omega)

theorem findL_sep (c : Char) (seg rest : List Char) (h : c ∉ seg) :
    findL [c] (seg ++ c :: rest) = some seg.length := by
  induction seg with
  | nil => simp [findL, List.isPrefixOf]
  | cons x xs ih =>
    have hx : x ≠ c := fun e => h (by simp [e])
    have hxs : c ∉ xs := fun e => h (by simp [e])
    have hcx : (c == x) = false := by simpa using fun e : c = x => hx e.symm
    simp only [List.cons_append, findL, List.isPrefixOf, hcx, Bool.false_and, Bool.false_eq_true, if_false, ih hxs,
      Option.map_some, List.length_cons]

theorem findL_sep_none (c : Char) (l : List Char) (h : c ∉ l) : findL [c] l = none := by
  induction l with
  | nil => rfl
  | cons x xs ih =>
    have hx : x ≠ c := fun e => h (by simp [e])
    have hxs : c ∉ xs := fun e => h (by simp [e])
    have hcx : (c == x) = false := by simpa using fun e : c = x => hx e.symm
    simp only [findL, List.isPrefixOf, hcx, Bool.false_and, Bool.false_eq_true, if_false, ih hxs, Option.map_none]

/-! ## `findAll` -/

theorem occs_of_findL_none (pat l : List Char) (k : Nat) (h : findL pat l = none) : occs pat k l = [] := by
  induction l generalizing k with
  | nil => rfl
  | cons c cs ih =>
    simp only [findL] at h
    split at h
    · cases h
    · rename_i hp
      simp only [occs, hp, Bool.false_eq_true, if_false]
      apply ih
      cases hf : findL pat cs with
      | none => rfl
      | some j => rw [hf] at h; simp at h

theorem occs_of_findL_some (pat l : List Char) (k j : Nat) (h : findL pat l = some j) :
    occs pat k l = (k + j) :: occs pat (k + j + 1) (l.drop (j + 1)) := by
  induction l generalizing k j with
  | nil => simp [findL] at h
  | cons c cs ih =>
    simp only [findL] at h
    split at h
    · rename_i hp
      cases h
      simp [occs, hp]
    · rename_i hp
      cases hf : findL pat cs with
      | none => rw [hf] at h; simp at h
      | some j' =>
        rw [hf] at h; simp only [Option.map_some, Option.some.injEq] at h
        subst h
        simp only [occs, hp, Bool.false_eq_true, if_false, List.drop_succ_cons]
        rw [ih (k + 1) j' hf]
        have e1 : k + 1 + j' = k + (j' + 1) := by omega
        rw [e1]

theorem findAll_go_eq (s pat : Txt) (hp : 0 < pat.size) (fuel i : Nat) (acc : List Nat) (hf : s.size < fuel + i) :
    findAll.go s pat fuel i acc = acc.reverse ++ occs pat.toList i (s.toList.drop i) := by
  induction fuel generalizing i acc with
  | zero =>
    have : s.toList.drop i = [] := by apply List.drop_eq_nil_of_le; simp only [Array.length_toList]; omega
    rw [this]; simp [findAll.go, occs]
  | succ fuel ih =>
    unfold findAll.go
    rw [find_eq s pat hp i]
    cases hfl : findL pat.toList (s.toList.drop i) with
    | none =>
      simp only [Option.map_none]
      rw [occs_of_findL_none _ _ _ hfl]; simp
    | some j =>
      simp only [Option.map_some]
      have hj := findL_lt _ _ _ hfl
      simp only [List.length_drop, Array.length_toList] at hj
      rw [ih (j + i + 1) ((j + i) :: acc) (by omega), occs_of_findL_some _ _ i j hfl, List.drop_drop]
      have e1 : i + (j + 1) = j + i + 1 := by omega
      have e2 : i + j = j + i := by omega
      rw [e1, e2]
      simp

/-- `utils.findAll(txt, sub)` is the list of all occurrences -/
theorem findAll_eq (s pat : Txt) (hp : 0 < pat.size) : findAll s pat = occs pat.toList 0 s.toList := by
  unfold findAll
  rw [findAll_go_eq s pat hp (s.size + 1) 0 [] (by omega)]
  simp

/-! ## occurrences in texts made of newline-terminated segments -/

theorem isPrefixOf_append_sep (c : Char) (pat x b : List Char) (h : c ∉ pat) :
    pat.isPrefixOf (x ++ c :: b) = pat.isPrefixOf x := by
  induction pat generalizing x with
  | nil => simp [List.isPrefixOf]
  | cons p ps ih =>
    have hp : p ≠ c := fun e => h (by simp [e])
    have hps : c ∉ ps := fun e => h (by simp [e])
    cases x with
    | nil =>
      have : (p == c) = false := by simpa using hp
      simp [List.isPrefixOf, this]
    | cons y ys =>
      simp only [List.cons_append, List.isPrefixOf_cons_cons, ih ys hps]

theorem occs_append_sep (c : Char) (pat a b : List Char) (k : Nat) (h : c ∉ pat) (hne : pat ≠ []) :
    occs pat k (a ++ c :: b) = occs pat k a ++ occs pat (k + a.length + 1) b := by
  induction a generalizing k with
  | nil =>
    cases pat with
    | nil => exact absurd rfl hne
    | cons p ps =>
      have hp : (p == c) = false := by simpa using fun e : p = c => h (by simp [e])
      simp [occs, List.isPrefixOf, hp]
  | cons x xs ih =>
    have e := isPrefixOf_append_sep c pat (x :: xs) b h
    simp only [List.cons_append] at e
    simp only [List.cons_append, occs, e, ih (k + 1), List.length_cons]
    have : k + 1 + xs.length + 1 = k + (xs.length + 1) + 1 := by omega
    rw [this]
    split <;> simp

theorem occs_nil_of_not_infix (pat l : List Char) (k : Nat) (h : ¬ pat <:+: l) : occs pat k l = [] := by
  induction l generalizing k with
  | nil => rfl
  | cons c cs ih =>
    have h1 : ¬ pat.isPrefixOf (c :: cs) = true := fun hp => h (List.isPrefixOf_iff_prefix.1 hp).isInfix
    have h2 : ¬ pat <:+: cs := fun hi => h (List.infix_cons hi)
    simp only [occs, h1, Bool.false_eq_true, if_false, ih (k + 1) h2]

theorem infix_of_occs_ne_nil (pat l : List Char) (k : Nat) (h : occs pat k l ≠ []) : pat <:+: l := by
  apply Classical.byContradiction
  intro hn
  exact h (occs_nil_of_not_infix pat l k hn)

theorem occs_shift (pat l : List Char) (k : Nat) : occs pat k l = (occs pat 0 l).map (· + k) := by
  induction l generalizing k with
  | nil => rfl
  | cons c cs ih =>
    simp only [occs]
    rw [ih (k + 1), ih (0 + 1)]
    split <;> simp [List.map_map, Function.comp, Nat.add_comm, Nat.add_left_comm]

/-! ## `slice`, `strip` -/

theorem slice_of_drop (s : Txt) (i : Nat) (a b : List Char) (h : s.toList.drop i = a ++ b) :
    slice s i (i + a.length) = a.toArray := by
  apply Array.toList_inj.1
  have hlen : s.size - i = a.length + b.length := by
    have := congrArg List.length h
    simpa using this
  unfold slice
  rw [Array.toList_extract, List.extract_eq_take_drop, h]
  by_cases hi : i ≤ s.size
  · have : min (i + a.length) s.size - i = a.length := by omega
    rw [this]; simp
  · have ha : a = [] := by apply List.eq_nil_of_length_eq_zero; omega
    have hb : b = [] := by apply List.eq_nil_of_length_eq_zero; omega
    subst ha; subst hb; simp

theorem drop_add_of_drop (l : List Char) (i : Nat) (a b : List Char) (h : l.drop i = a ++ b) :
    l.drop (i + a.length) = b := by
  rw [← List.drop_drop, h]; simp

theorem slice_full (s : Txt) : slice s 0 s.size = s := by
  apply Array.toList_inj.1
  unfold slice
  rw [Array.toList_extract, List.extract_eq_take_drop]
  simp only [Nat.min_self, Nat.sub_zero, List.drop_zero]
  exact List.take_of_length_le (by simp)

theorem strip_toArray (l : List Char) : strip l.toArray = (stripList l).toArray := rfl

/-! ## `replace` is the identity when the pattern does not occur -/

theorem replace_go_id (s a b : Txt) (hno : ∀ j, j ≤ s.size → startsAt s a j = false) (fuel i : Nat) (acc : Txt)
    (hf : s.size < fuel + i) :
    (replace.go s a b fuel i acc).toList = acc.toList ++ s.toList.drop i := by
  induction fuel generalizing i acc with
  | zero =>
    have : s.toList.drop i = [] := by apply List.drop_eq_nil_of_le; simp only [Array.length_toList]; omega
    rw [this]; simp [replace.go]
  | succ fuel ih =>
    unfold replace.go
    by_cases hge : i ≥ s.size
    · rw [if_pos hge]
      have : s.toList.drop i = [] := by apply List.drop_eq_nil_of_le; simp only [Array.length_toList]; omega
      rw [this]; simp
    · rw [if_neg hge, hno i (by omega)]
      simp only [Bool.false_eq_true, if_false]
      rw [ih (i + 1) _ (by omega)]
      have hlt : i < s.toList.length := by simp only [Array.length_toList]; omega
      rw [List.drop_eq_getElem_cons hlt]
      have hlt' : i < s.size := by omega
      have : s[i]! = s.toList[i] := by
        simp [hlt']
      simp [this]

theorem replace_id (s a b : Txt) (ha : 0 < a.size) (hno : ∀ j, ¬ a.toList <+: s.toList.drop j) : replace s a b = s := by
  apply Array.toList_inj.1
  unfold replace
  rw [if_neg (by omega)]
  rw [replace_go_id s a b _ (s.size + 1) 0 #[] (by omega)]
  · simp
  · intro j hj
    rw [startsAt_eq s a j hj]
    cases hp : a.toList.isPrefixOf (s.toList.drop j) with
    | false => rfl
    | true => exact absurd (List.isPrefixOf_iff_prefix.1 hp) (hno j)

/-! ## `splitChar` on newline-terminated segments -/

theorem splitChar_go_seg (sep : Char) (seg rest cur : List Char) (acc : List Txt) (h : sep ∉ seg) :
    splitChar.go sep (seg ++ sep :: rest) cur acc = splitChar.go sep rest [] ((cur.reverse ++ seg).toArray :: acc) := by
  induction seg generalizing cur with
  | nil => simp [splitChar.go]
  | cons x xs ih =>
    have hx : (x == sep) = false := by simpa using fun e : x = sep => h (by simp [e])
    have hxs : sep ∉ xs := fun e => h (by simp [e])
    simp only [List.cons_append, splitChar.go, hx, Bool.false_eq_true, if_false]
    rw [ih (x :: cur) hxs]
    simp

theorem splitChar_go_joinNl (segs : List (List Char)) (acc : List Txt) (h : ∀ s ∈ segs, '\n' ∉ s) :
    splitChar.go '\n' (joinNl segs) [] acc = acc.reverse ++ segs.map List.toArray ++ [#[]] := by
  induction segs generalizing acc with
  | nil => simp [joinNl, splitChar.go]
  | cons s ss ih =>
    simp only [joinNl]
    rw [splitChar_go_seg '\n' s (joinNl ss) [] acc (h s (by simp)), ih _ (fun x hx => h x (List.mem_cons_of_mem _ hx))]
    simp

/-- `text.split("\n")` of a text made of newline-terminated, newline-free segments -/
theorem splitChar_joinNl (segs : List (List Char)) (h : ∀ s ∈ segs, '\n' ∉ s) :
    splitChar (joinNl segs).toArray '\n' = segs.map List.toArray ++ [#[]] := by
  unfold splitChar
  rw [splitChar_go_joinNl segs [] h]
  simp

end Txt
