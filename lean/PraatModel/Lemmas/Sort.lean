import PraatModel.Lemmas.Tier

/-! # sorting pairwise-disjoint intervals; the label-at-time function on well-formed lists -/

theorem Iv.le_trans' (a b c : Iv Int) (h1 : Iv.le a b = true) (h2 : Iv.le b c = true) : Iv.le a c = true := by
  obtain ⟨as, ae, al⟩ := a; obtain ⟨bs, be, bl⟩ := b; obtain ⟨cs, ce, cl⟩ := c
  simp only [Iv.le] at *
  by_cases h : as < cs
  · simp [h]
  · have : ¬ bs < as := by intro hb; simp [hb, show ¬ as < bs by omega] at h1
    have : ¬ cs < bs := by intro hb; simp [hb, show ¬ bs < cs by omega] at h2
    have e1 : as = bs := by omega
    have e2 : bs = cs := by omega
    subst e1; subst e2
    simp only [Int.lt_irrefl, if_false] at *
    by_cases h' : ae < ce
    · simp [h']
    · have : ¬ be < ae := by intro hb; simp [hb, show ¬ ae < be by omega] at h1
      have : ¬ ce < be := by intro hb; simp [hb, show ¬ be < ce by omega] at h2
      have e1 : ae = be := by omega
      have e2 : be = ce := by omega
      subst e1; subst e2
      simp only [Int.lt_irrefl, if_false, decide_eq_true_eq] at *
      exact String.le_trans h1 h2

theorem Iv.le_total' (a b : Iv Int) : (Iv.le a b || Iv.le b a) = true := by
  obtain ⟨as, ae, al⟩ := a; obtain ⟨bs, be, bl⟩ := b
  simp only [Iv.le]
  by_cases h1 : as < bs
  · simp [h1]
  · by_cases h2 : bs < as
    · simp [h1, h2]
    · simp only [h1, h2, if_false]
      by_cases h3 : ae < be
      · simp [h3]
      · by_cases h4 : be < ae
        · simp [h3, h4]
        · simp only [h3, h4, if_false, Bool.or_eq_true, decide_eq_true_eq]
          exact String.le_total al bl

theorem Iv.le_start {a b : Iv Int} (h : Iv.le a b = true) : a.s ≤ b.s := by
  unfold Iv.le at h
  split at h
  · omega
  · split at h
    · simp at h
    · omega

theorem sortIvs_pairwise (es : List (Iv Int)) : (sortIvs es).Pairwise (fun a b => Iv.le a b = true) :=
  List.pairwise_mergeSort (fun a b c => Iv.le_trans' a b c) Iv.le_total' es

theorem mem_sortIvs {es : List (Iv Int)} {x : Iv Int} : x ∈ sortIvs es ↔ x ∈ es := List.mem_mergeSort

theorem sortIvs_perm (es : List (Iv Int)) : (sortIvs es).Perm es := List.mergeSort_perm es _

/-- pairwise disjoint as a set (order independent) -/
def SetDisj (es : List (Iv Int)) : Prop := es.Pairwise (fun a b => a.e ≤ b.s ∨ b.e ≤ a.s)

theorem SetDisj.perm {l l' : List (Iv Int)} (h : SetDisj l) (p : l.Perm l') : SetDisj l' :=
  p.pairwise h (fun hab => hab.symm)

theorem Disj.setDisj {l : List (Iv Int)} (h : Disj l) : SetDisj l := h.imp Or.inl

theorem pos_perm {l l' : List (Iv Int)} (h : Pos l) (p : l.Perm l') : Pos l' :=
  fun iv hiv => h iv (p.mem_iff.2 hiv)

/-- sorting a set of pairwise disjoint, positive-length intervals puts them in time order -/
theorem disj_sortIvs (es : List (Iv Int)) (hp : Pos es) (hd : SetDisj es) : Disj (sortIvs es) := by
  have hs := sortIvs_pairwise es
  have hd' : SetDisj (sortIvs es) := hd.perm (sortIvs_perm es).symm
  have hp' : Pos (sortIvs es) := pos_perm hp (sortIvs_perm es).symm
  unfold Disj
  have := hs.and hd'
  refine this.imp_of_mem ?_
  intro a b ha hb ⟨hle, hdis⟩
  have h1 := Iv.le_start hle
  have := hp' a ha
  have := hp' b hb
  omega

/-! ## labelAt on disjoint lists -/

theorem labelAt_none_iff (es : List (Iv Int)) (x : Int) :
    labelAt es x = none ↔ ∀ iv ∈ es, ¬ (iv.s ≤ x ∧ x < iv.e) := by
  simp [labelAt, List.find?_eq_none]

theorem labelAt_some_iff (es : List (Iv Int)) (hp : Pos es) (hd : SetDisj es) (x : Int) (l : String) :
    labelAt es x = some l ↔ ∃ iv ∈ es, iv.s ≤ x ∧ x < iv.e ∧ iv.l = l := by
  induction es with
  | nil => simp [labelAt]
  | cons y ys ih =>
    have hd1 : ∀ z ∈ ys, y.e ≤ z.s ∨ z.e ≤ y.s := by
      have := List.pairwise_cons.1 hd; exact this.1
    have hd2 : SetDisj ys := (List.pairwise_cons.1 hd).2
    have ih' := ih (pos_tail hp) hd2
    simp only [labelAt, List.find?_cons] at ih' ⊢
    by_cases hy : y.s ≤ x ∧ x < y.e
    · have : (decide (y.s ≤ x) && decide (x < y.e)) = true := by simp [hy]
      simp only [this, Option.map_some, Option.some.injEq, List.mem_cons, exists_eq_or_imp]
      constructor
      · intro h; left; exact ⟨hy.1, hy.2, h⟩
      · rintro (⟨_, _, h⟩ | ⟨z, hz, h1, h2, _⟩)
        · exact h
        · exfalso
          have := hd1 z hz
          have := hp z (by simp [hz])
          omega
    · have : (decide (y.s ≤ x) && decide (x < y.e)) = false := by
        simp only [Bool.and_eq_false_iff, decide_eq_false_iff_not]; omega
      simp only [this, List.mem_cons, exists_eq_or_imp]
      rw [ih']
      constructor
      · intro h; right; exact h
      · rintro (⟨h1, h2, _⟩ | h)
        · omega
        · exact h

/-- two well-formed lists with the same members have the same label-at-time function -/
theorem labelAt_congr_mem (es es' : List (Iv Int)) (hp : Pos es) (hd : SetDisj es) (hp' : Pos es') (hd' : SetDisj es')
    (h : ∀ iv, iv ∈ es ↔ iv ∈ es') (x : Int) : labelAt es x = labelAt es' x := by
  apply Option.ext
  intro l
  rw [labelAt_some_iff es hp hd, labelAt_some_iff es' hp' hd']
  constructor
  · rintro ⟨iv, h1, h2⟩; exact ⟨iv, (h iv).1 h1, h2⟩
  · rintro ⟨iv, h1, h2⟩; exact ⟨iv, (h iv).2 h1, h2⟩
