import PraatModel.Lemmas.Shrink

/-! # insertEntry: span growth and the shape of the result -/

theorem head_min_of_disj (es : List (Iv Int)) (hd : Disj es) (hp : Pos es) (f : Iv Int) (hf : es.head? = some f) :
    ∀ y ∈ es, f.s ≤ y.s := by
  cases es with
  | nil => simp at hf
  | cons x xs =>
    simp only [List.head?_cons, Option.some.injEq] at hf; subst hf
    obtain ⟨h1, _⟩ := hd.cons
    intro y hy
    rcases List.mem_cons.1 hy with rfl | h
    · omega
    · have := h1 y h; have := hp x (by simp); omega

theorem last_max_of_disj (es : List (Iv Int)) (hd : Disj es) (hp : Pos es) (g : Iv Int) (hg : es.getLast? = some g) :
    ∀ y ∈ es, y.e ≤ g.e := by
  induction es with
  | nil => simp at hg
  | cons x xs ih =>
    obtain ⟨h1, h2⟩ := hd.cons
    cases xs with
    | nil =>
      simp only [List.getLast?_singleton, Option.some.injEq] at hg; subst hg
      intro y hy; simp only [List.mem_singleton] at hy; subst hy; omega
    | cons z zs =>
      rw [List.getLast?_cons_cons] at hg
      have ih' := ih h2 (pos_tail hp) hg
      intro y hy
      rcases List.mem_cons.1 hy with rfl | h
      · have hgm : g ∈ z :: zs := List.mem_of_getLast? hg
        have := h1 g hgm; have := hp g (by simp [hgm]); have := hp y (by simp); omega
      · exact ih' y h

/-- `growSpan` on a time-ordered list: the span becomes the hull of the old span and the entries -/
theorem growSpan_hull (u : ITier Int) (es : List (Iv Int)) (hd : Disj es) (hp : Pos es) :
    (growSpan u es).lo = hullMin (es.map (·.s)) u.lo ∧ (growSpan u es).hi = hullMax (es.map (·.e)) u.hi ∧
    (growSpan u es).es = es ∧ (growSpan u es).name = u.name := by
  refine ⟨?_, ?_, rfl, rfl⟩
  · unfold growSpan
    simp only
    cases hh : es.head? with
    | none =>
      have : es = [] := by cases es <;> simp_all
      subst this; rfl
    | some f =>
      have hmin := head_min_of_disj es hd hp f hh
      have hfm : f ∈ es := List.mem_of_head? hh
      have h1 := hullMin_le (es.map (·.s)) u.lo
      have h2 := h1.2 f.s (List.mem_map_of_mem hfm)
      simp only
      rcases foldl_min_mem (es.map (·.s)) u.lo with h | h
      · unfold hullMin at *; split <;> omega
      · obtain ⟨y, hy, hye⟩ := List.mem_map.1 h
        have := hmin y hy
        unfold hullMin at *; split <;> omega
  · unfold growSpan
    simp only
    cases hh : es.getLast? with
    | none =>
      have : es = [] := by cases es with
        | nil => rfl
        | cons a as => simp at hh
      subst this; rfl
    | some g =>
      have hmax := last_max_of_disj es hd hp g hh
      have hgm : g ∈ es := List.mem_of_getLast? hh
      have h1 := hullMax_ge (es.map (·.e)) u.hi
      have h2 := h1.2 g.e (List.mem_map_of_mem hgm)
      simp only
      rcases foldl_max_mem (es.map (·.e)) u.hi with h | h
      · unfold hullMax at *; split <;> omega
      · obtain ⟨y, hy, hye⟩ := List.mem_map.1 h
        have := hmax y hy
        unfold hullMax at *; split <;> omega

/-- hull of a list whose members are `es0 ∪ {x}` with `es0` inside `[lo, hi]` -/
theorem hull_of_members (es es0 : List (Iv Int)) (x : Iv Int) (lo hi : Int)
    (hmem : ∀ y, y ∈ es ↔ y ∈ es0 ∨ y = x) (hlo : ∀ y ∈ es0, lo ≤ y.s) (hhi : ∀ y ∈ es0, y.e ≤ hi) :
    hullMin (es.map (·.s)) lo = min lo x.s ∧ hullMax (es.map (·.e)) hi = max hi x.e := by
  constructor
  · have h1 := hullMin_le (es.map (·.s)) lo
    have hx := h1.2 x.s (List.mem_map_of_mem ((hmem x).2 (Or.inr rfl)))
    rcases foldl_min_mem (es.map (·.s)) lo with h | h
    · unfold hullMin at *; omega
    · obtain ⟨y, hy, hye⟩ := List.mem_map.1 h
      rcases (hmem y).1 hy with h' | h'
      · have := hlo y h'; unfold hullMin at *; omega
      · subst h'; unfold hullMin at *; omega
  · have h1 := hullMax_ge (es.map (·.e)) hi
    have hx := h1.2 x.e (List.mem_map_of_mem ((hmem x).2 (Or.inr rfl)))
    rcases foldl_max_mem (es.map (·.e)) hi with h | h
    · unfold hullMax at *; omega
    · obtain ⟨y, hy, hye⟩ := List.mem_map.1 h
      rcases (hmem y).1 hy with h' | h'
      · have := hhi y h'; unfold hullMax at *; omega
      · subst h'; unfold hullMax at *; omega

/-- appending one interval that is disjoint from every member, then sorting: the common tail of all three
branches of `insertEntry` -/
theorem finish_insert (t : ITier Int) (hwf : t.WF) (es0 : List (Iv Int)) (x : Iv Int)
    (hsub : ∀ y ∈ es0, y ∈ t.es) (hnd0 : es0.Nodup) (hx : x.s < x.e) (hstr : pyStrip x.l = x.l)
    (hfree : ∀ iv ∈ es0, iv.e ≤ x.s ∨ x.e ≤ iv.s) :
    let t' := growSpan t (sortIvs (es0 ++ [x]))
    t'.WF ∧ t'.name = t.name ∧ (∀ y, y ∈ t'.es ↔ y ∈ es0 ∨ y = x) ∧
    t'.lo = min t.lo x.s ∧ t'.hi = max t.hi x.e := by
  have hp0 : Pos es0 := fun y hy => hwf.pos y (hsub y hy)
  have hd0 : SetDisj es0 := hwf.disj.setDisj.of_subset_nodup hsub hnd0
  have hpos : Pos (es0 ++ [x]) := by
    intro y hy
    rcases List.mem_append.1 hy with h | h
    · exact hp0 y h
    · simp only [List.mem_singleton] at h; subst h; exact hx
  have hsd : SetDisj (es0 ++ [x]) := by
    unfold SetDisj
    rw [List.pairwise_append]
    refine ⟨hd0, by simp, ?_⟩
    intro p hpm q hq
    simp only [List.mem_singleton] at hq; subst hq
    exact hfree p hpm
  have hdisj := disj_sortIvs (es0 ++ [x]) hpos hsd
  have hpos' : Pos (sortIvs (es0 ++ [x])) := pos_perm hpos (sortIvs_perm _).symm
  have hmem : ∀ y, y ∈ sortIvs (es0 ++ [x]) ↔ y ∈ es0 ∨ y = x := fun y => mem_sort_append
  obtain ⟨g1, g2, g3, g4⟩ := growSpan_hull t _ hdisj hpos'
  have hh := hull_of_members _ es0 x t.lo t.hi hmem (fun y hy => hwf.inLo y (hsub y hy)) (fun y hy => hwf.inHi y (hsub y hy))
  intro t'
  have hlo : t'.lo = min t.lo x.s := by rw [← hh.1]; exact g1
  have hhi : t'.hi = max t.hi x.e := by rw [← hh.2]; exact g2
  refine ⟨⟨?_, ?_, ?_, ?_, ?_, ?_⟩, g4, ?_, hlo, hhi⟩
  · rw [g3]; exact hpos'
  · rw [g3]; exact hdisj
  · intro iv hiv; rw [g3] at hiv; rw [hlo]
    rcases (hmem iv).1 hiv with h | h
    · have := hwf.inLo iv (hsub iv h); omega
    · subst h; omega
  · intro iv hiv; rw [g3] at hiv; rw [hhi]
    rcases (hmem iv).1 hiv with h | h
    · have := hwf.inHi iv (hsub iv h); omega
    · subst h; omega
  · intro iv hiv; rw [g3] at hiv
    rcases (hmem iv).1 hiv with h | h
    · exact hwf.stripped iv (hsub iv h)
    · subst h; exact hstr
  · rw [hlo, hhi]; have := hwf.span; omega
  · intro y; rw [g3]; exact hmem y
